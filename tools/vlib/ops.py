"""Driver side of the generic correspondence: tensor generators, comparison of outcomes,
finding attributes.  No ndonnx import here."""
from __future__ import annotations

import math
import random
import struct

from harness_consts import CORE

INTS = ["int8", "int16", "int32", "int64", "uint8", "uint16", "uint32", "uint64"]
FLOATS = ["float32", "float64"]
IINFO = {"int8": (-128, 127), "int16": (-32768, 32767), "int32": (-2**31, 2**31 - 1), "int64": (-2**63, 2**63 - 1),
         "uint8": (0, 255), "uint16": (0, 65535), "uint32": (0, 2**32 - 1), "uint64": (0, 2**64 - 1)}


def base(d: str) -> str:
    return d[1:] if d.startswith("n") and d[1:] in CORE else d


def nullable(d: str) -> bool:
    return d != base(d)


def prod(shape) -> int:
    n = 1
    for s in shape:
        n *= s
    return n


def fhex(x: float) -> str:
    if math.isnan(x):
        return "nan"
    return float(x).hex()


def f32(x: float) -> float:
    if math.isnan(x) or math.isinf(x):
        return x
    try:
        return struct.unpack("f", struct.pack("f", x))[0]
    except OverflowError:
        return math.copysign(math.inf, x)


def rand_value(rnd: random.Random, d: str, style: str = "small"):
    b = base(d)
    if b == "bool":
        return rnd.random() < 0.5
    if b == "utf8":
        return "s:" + rnd.choice(["", "a", "b", "ab", "xyz", "A", "0", "hello world"])
    if b in INTS:
        lo, hi = IINFO[b]
        if style == "small":
            return rnd.randint(max(lo, -6), min(hi, 6))
        if style == "token":
            return None  # filled by caller
        if style == "boundary":
            return rnd.choice([lo, lo + 1, hi, hi - 1, 0, 1, -1 if lo < 0 else 2, hi // 2, lo // 2 if lo < 0 else 3])
        return rnd.randint(lo, hi)
    # floats
    if style == "small":
        v = rnd.choice([0.0, 1.0, -1.0, 2.5, -3.25, 0.5, 7.0, -0.75, 100.0, 1e-3])
    elif style == "boundary":
        v = rnd.choice([0.0, -0.0, math.inf, -math.inf, math.nan, 1.0, -1.0, 0.5, -0.5, 1.5, 2.5, -2.5, 1e-30, -1e-30,
                        1e30, 3.4e38 if b == "float32" else 1.7e308, 1e-45 if b == "float32" else 5e-324, 16777217.0,
                        0.1, 0.9999999, 1e10, -1e10, 88.0, 710.0, -745.0])
    else:
        v = rnd.choice([rnd.uniform(-10, 10), rnd.uniform(-1, 1), rnd.gauss(0, 1e3), rnd.uniform(0, 1e-3)])
    if b == "float32":
        v = f32(v)
    return fhex(v)


def tensor(rnd: random.Random, d: str, shape, style="small", mask="random", payload=None) -> dict:
    n = prod(shape)
    data = [rand_value(rnd, d, style) for _ in range(n)]
    if style == "token":
        b = base(d)
        if b in INTS:
            lo, hi = IINFO[b]
            data = [min(hi, i) if hi < n else i for i in range(n)]
        elif b in FLOATS:
            data = [fhex(float(i)) for i in range(n)]
        elif b == "bool":
            data = [i % 2 == 0 for i in range(n)]
        else:
            data = ["s:t%d" % i for i in range(n)]
    t = {"dtype": d, "shape": list(shape), "data": data}
    if nullable(d):
        if mask == "random":
            m = [rnd.random() < 0.35 for _ in range(n)]
        elif mask == "none":
            m = [False] * n
        elif mask == "all":
            m = [True] * n
        else:
            m = list(mask)
        t["mask"] = m
        if payload is not None:
            t["data"] = [payload if mm else dd for dd, mm in zip(t["data"], m)]
    return t


EXTENTS = [0, 1, 2, 3, 4, 5]


def rand_shape(rnd: random.Random, max_rank=3, zero_p=0.15, extents=(1, 2, 3, 4), min_rank=0):
    r = rnd.randint(min_rank, max_rank)
    return [0 if rnd.random() < zero_p else rnd.choice(extents) for _ in range(r)]


def broadcast_pair(rnd: random.Random, max_rank=3, zero_p=0.1):
    sh = rand_shape(rnd, max_rank, zero_p)
    a, b = list(sh), list(sh)
    for i in range(len(sh)):
        c = rnd.random()
        if c < 0.2:
            a[i] = 1
        elif c < 0.4:
            b[i] = 1
    k = rnd.randint(0, len(sh))
    if rnd.random() < 0.5:
        a = a[k:]
    else:
        b = b[k:]
    return a, b


def symbolic_sig(rnd: random.Random, shape, p_sym=0.6, tag=""):
    """Placeholder signature consistent with `shape`: ints, 'N'-style symbols or None.
    `tag` makes the symbols of different inputs distinct (their run-time extents may differ)."""
    sig = []
    names = ["N", "M", "K", "L"]
    for i, s in enumerate(shape):
        c = rnd.random()
        if c < p_sym / 2:
            sig.append(names[i % 4] + str(i) + (tag or f"e{s}"))     # untagged: shared between inputs only where the extents agree
        elif c < p_sym:
            sig.append(None)
        else:
            sig.append(s)
    return sig


# ------------------------------------------------------------------ comparing outcomes ---


def is_float_d(d):
    return base(d) in FLOATS


def _flt(x):
    if x is None:
        return None
    if x == "nan":
        return math.nan
    if isinstance(x, (bool, int, float)):
        return float(x)
    if isinstance(x, str) and x.startswith("s:"):
        return math.nan
    return float.fromhex(x)


def vals_close(a, b, d, rtol, atol, strict_zero=False):
    if a == b:
        return True
    if a is None or b is None:
        return False
    fa, fb = _flt(a), _flt(b)
    if strict_zero and fa == 0.0 and fb == 0.0 and math.copysign(1.0, fa) != math.copysign(1.0, fb):
        return False
    if math.isnan(fa) or math.isnan(fb):
        return math.isnan(fa) and math.isnan(fb)
    if math.isinf(fa) or math.isinf(fb):
        return fa == fb
    return abs(fa - fb) <= atol + rtol * max(abs(fa), abs(fb))


def erase(e):
    if "mask" not in e:
        return e
    e = dict(e)
    e["data"] = [None if m else d for d, m in zip(e["data"], e["mask"])]
    return e


def cmp_arrays(a: dict, b: dict, rtol=0.0, atol=0.0, check_dtype=True, erase_masked=True, strict_zero=False):
    """Return None if equal else a short reason ('dtype' | 'shape' | 'mask' | 'value')."""
    if "tuple" in a or "tuple" in b:
        if "tuple" not in a or "tuple" not in b or len(a["tuple"]) != len(b["tuple"]):
            return "arity"
        for x, y in zip(a["tuple"], b["tuple"]):
            r = cmp_arrays(x, y, rtol, atol, check_dtype, erase_masked, strict_zero)
            if r:
                return r
        return None
    if "py" in a or "py" in b:
        return None if a == b else "value"
    if a.get("lazy") or b.get("lazy"):
        return "lazy"
    if check_dtype and a.get("dtype") != b.get("dtype"):
        return "dtype"
    if a.get("shape") != b.get("shape"):
        return "shape"
    ma, mb = a.get("mask"), b.get("mask")
    if (ma or mb) and (ma or [False] * len(a["data"])) != (mb or [False] * len(b["data"])):
        return "mask"
    if erase_masked:
        a, b = erase(a), erase(b)
    da, db = a["data"], b["data"]
    if da == db:
        return None
    if len(da) != len(db):
        return "shape"
    if is_float_d(a.get("dtype", "")) or is_float_d(b.get("dtype", "")):
        if all(vals_close(x, y, a["dtype"], rtol, atol, strict_zero) for x, y in zip(da, db)):
            return None
        return "value"
    return "value"


def outcome_kind(o):
    if o is None:
        return "absent"
    if "ok" in o:
        return "ok"
    if "raise" in o:
        return "raise:" + o["raise"]
    if "crash" in o:
        return "crash"
    if "timeout" in o:
        return "timeout"
    if "handler_error" in o:
        return "handler_error"
    return "?"


def has_zero(case) -> bool:
    return any(0 in t["shape"] for t in case["inputs"].values())
