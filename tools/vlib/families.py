"""Case builders per function family.  Every builder yields dicts accepted by h_ops:
{id, inputs, impl, oracle, lazy_subsets, meta, tol}."""
from __future__ import annotations

import random

from vlib import ops
from vlib.family import dclass

LAYOUT_DTYPES = ["int32", "float64", "bool", "utf8", "nint64", "nutf8", "uint8", "nfloat32"]


def subsets_for(rnd, names, shapes, symbolic=True, all_lazy_only=False):
    """Lazy subsets: all lazy with a symbolic signature, all lazy static, and (if several
    inputs) one proper subset."""
    subs = []
    if symbolic:
        tagged = rnd.random() < 0.7      # distinct symbols per input: their run-time extents may differ
        subs.append({"names": list(names), "sigs": {n: ops.symbolic_sig(rnd, shapes[n], tag=n if tagged else "") for n in names}})
    else:
        subs.append({"names": list(names)})
    if not all_lazy_only and len(names) > 1:
        k = rnd.choice(names)
        subs.append({"names": [k]})
    return subs


def mkcase(cid, inputs, impl, oracle, meta, rnd, tol=(0.0, 0.0), symbolic=True, **kw):
    shapes = {k: v["shape"] for k, v in inputs.items()}
    c = {"id": cid, "inputs": inputs, "impl": impl, "oracle": oracle, "meta": meta, "tol": list(tol),
         "lazy_subsets": subsets_for(rnd, list(inputs), shapes, symbolic=symbolic)}
    c.update(kw)
    return c


# ------------------------------------------------------------------------------ layout ---

def layout_cases(rnd: random.Random, n: int, prefix="L", dtypes=LAYOUT_DTYPES, max_rank=4):
    out = []
    fns = ["reshape", "permute_dims", "matrix_transpose", "T", "mT", "expand_dims", "squeeze", "flip", "roll", "concat",
           "stack", "broadcast_to", "broadcast_arrays", "take", "tril", "triu"]
    i = 0
    while len(out) < n:
        f = fns[i % len(fns)]
        i += 1
        d = rnd.choice(dtypes)
        shape = ops.rand_shape(rnd, max_rank, zero_p=0.15)
        r = len(shape)
        meta = {"func": f, "dtype": d, "dclass": dclass(d)}
        x = lambda sh=shape: ops.tensor(rnd, d, sh, style="token")
        cid = f"{prefix}-{len(out)}-{f}"
        if f == "reshape":
            n_el = ops.prod(shape)
            cands = [[n_el], [-1], [1, -1], [-1, 1]] + [[a, n_el // a] for a in (1, 2, 3, 4, 6) if a and n_el % a == 0 and n_el]
            if n_el == 0:
                cands = [[0], [-1], [0, 3], [2, 0, 1]] if r else [[1]]
            if r == 0:
                cands = [[], [1], [1, 1], [-1]]
            tgt = rnd.choice(cands)
            meta["target_has_zero"] = 0 in tgt
            out.append(mkcase(cid, {"x": x()}, f"out = ndx.reshape(x, {tgt})", f"out = lay(lambda a: np.reshape(a, {tgt}), x)", meta, rnd))
        elif f == "permute_dims":
            perm = list(range(r))
            rnd.shuffle(perm)
            out.append(mkcase(cid, {"x": x()}, f"out = ndx.permute_dims(x, {perm})", f"out = lay(lambda a: np.transpose(a, {perm}), x)", meta, rnd))
        elif f in ("matrix_transpose", "mT"):
            if r < 2:
                continue
            impl = "out = ndx.matrix_transpose(x)" if f == "matrix_transpose" else "out = x.mT"
            out.append(mkcase(cid, {"x": x()}, impl, "out = lay(lambda a: np.swapaxes(a, -1, -2), x)", meta, rnd))
        elif f == "T":
            sh = [rnd.choice([0, 1, 2, 3]), rnd.choice([1, 2, 4])]
            out.append(mkcase(cid, {"x": x(sh)}, "out = x.T", "out = lay(lambda a: a.T, x)", meta, rnd))
        elif f == "expand_dims":
            ax = rnd.randint(-(r + 1), r)
            meta["axis_neg"] = ax < 0
            out.append(mkcase(cid, {"x": x()}, f"out = ndx.expand_dims(x, axis={ax})", f"out = lay(lambda a: np.expand_dims(a, {ax}), x)", meta, rnd))
        elif f == "squeeze":
            sh = [rnd.choice([1, 1, 2, 3, 0]) for _ in range(rnd.randint(1, max_rank))]
            ones = [k for k, s in enumerate(sh) if s == 1]
            if not ones:
                continue
            pick = rnd.sample(ones, rnd.randint(1, len(ones)))
            pick = [p - len(sh) if rnd.random() < 0.4 else p for p in pick]
            ax = pick[0] if len(pick) == 1 and rnd.random() < 0.5 else tuple(pick)
            out.append(mkcase(cid, {"x": x(sh)}, f"out = ndx.squeeze(x, {ax!r})", f"out = lay(lambda a: np.squeeze(a, {ax!r}), x)", meta, rnd, symbolic=False))
        elif f == "flip":
            if r == 0:
                ax = None
            else:
                c = rnd.random()
                ax = None if c < 0.25 else rnd.randint(-r, r - 1) if c < 0.6 else tuple(rnd.sample(range(r), rnd.randint(1, r)))
            out.append(mkcase(cid, {"x": x()}, f"out = ndx.flip(x, axis={ax!r})", f"out = lay(lambda a: np.flip(a, {ax!r}), x)", meta, rnd))
        elif f == "roll":
            c = rnd.random()
            if r == 0 or c < 0.25:
                sh_, ax = rnd.randint(-7, 7), None
            elif c < 0.7:
                sh_, ax = rnd.choice([0, 1, -1, 2, -3, 5, 17, -23, 10**6]), rnd.randint(-r, r - 1)
            else:
                k = rnd.randint(1, r)
                ax = tuple(rnd.sample(range(r), k))
                sh_ = tuple(rnd.randint(-5, 5) for _ in range(k))
            meta["axis_none"] = ax is None
            out.append(mkcase(cid, {"x": x()}, f"out = ndx.roll(x, {sh_!r}, axis={ax!r})", f"out = lay(lambda a: np.roll(a, {sh_!r}, {ax!r}), x)", meta, rnd))
        elif f in ("concat", "stack"):
            k = rnd.randint(1, 3)
            if f == "concat":
                if r == 0:
                    continue
                ax = rnd.randint(-r, r - 1) if rnd.random() < 0.85 else None
                shapes = []
                for _ in range(k):
                    s2 = list(shape)
                    if ax is not None:
                        s2[ax] = rnd.choice([0, 1, 2, 3])
                    else:
                        s2 = ops.rand_shape(rnd, 2, 0.1)
                    shapes.append(s2)
            else:
                ax = rnd.randint(-(r + 1), r)
                shapes = [list(shape)] * k
            dd = ops.base(d) if f == "concat" else d   # concat supports core dtypes only (documented)
            meta["dtype"] = dd
            meta["dclass"] = dclass(dd)
            ins = {f"x{j}": ops.tensor(rnd, dd, shapes[j], style="token") for j in range(k)}
            names = ", ".join(ins)
            npf = "np.concatenate" if f == "concat" else "np.stack"
            out.append(mkcase(cid, ins, f"out = ndx.{f}([{names}], axis={ax!r})", f"out = lay2(lambda xs: {npf}(xs, axis={ax!r}), [{names}])", meta, rnd))
        elif f in ("tril", "triu") and ops.base(d) in ops.FLOATS and not ops.nullable(d) and r >= 2 and ops.prod(shape) > 0 and rnd.random() < 0.6:
            t = x()
            t["data"] = [rnd.choice(["inf", "-inf", "nan", v]) if rnd.random() < 0.5 else v for v in t["data"]]
            kk = rnd.randint(-2, 2)
            meta["style"] = "non-finite"
            out.append(mkcase(cid, {"x": t}, f"out = ndx.{f}(x, k={kk})", f"out = np.{f}(x, k={kk})", meta, rnd))
        elif f == "broadcast_to":
            tgt = list(shape)
            src = [1 if rnd.random() < 0.4 else s for s in shape]
            src = src[rnd.randint(0, len(src)):]
            meta["target_has_zero"] = 0 in tgt
            out.append(mkcase(cid, {"x": x(src)}, f"out = ndx.broadcast_to(x, {tgt})", f"out = lay(lambda a: np.broadcast_to(a, {tgt}), x)", meta, rnd))
        elif f == "broadcast_arrays":
            a, b = ops.broadcast_pair(rnd, 3, 0.1)
            d2 = rnd.choice(dtypes)
            ins = {"x": ops.tensor(rnd, d, a, style="token"), "y": ops.tensor(rnd, d2, b, style="token")}
            out.append(mkcase(cid, ins, "out = ndx.broadcast_arrays(x, y)",
                              "sh = np.broadcast_shapes(np.shape(x), np.shape(y)); out = [lay(lambda a: np.broadcast_to(a, sh), x), lay(lambda a: np.broadcast_to(a, sh), y)]", meta, rnd))
        elif f == "take":
            if r == 0:
                continue
            ax = rnd.randint(-r, r - 1)
            nax = shape[ax]
            if nax == 0:
                idx = []
            else:
                idx = [rnd.randint(-nax, nax - 1) for _ in range(rnd.randint(0, 4))]
            if r == 1 and rnd.random() < 0.3:
                impl, orc = f"out = ndx.take(x, ndx.asarray(np.array({idx}, dtype=np.int64)))", f"out = lay(lambda a: np.take(a, np.array({idx}, dtype=np.int64)), x)"
            else:
                impl, orc = f"out = ndx.take(x, ndx.asarray(np.array({idx}, dtype=np.int64)), axis={ax})", f"out = lay(lambda a: np.take(a, np.array({idx}, dtype=np.int64), axis={ax}), x)"
            out.append(mkcase(cid, {"x": x()}, impl, orc, meta, rnd))
        elif f in ("tril", "triu"):
            if r < 2 or ops.base(d) in ("utf8",):
                continue
            k = rnd.randint(-3, 3)
            # documented: acts on the plain values of nullable input
            out.append(mkcase(cid, {"x": x()}, f"out = ndx.{f}(x, k={k})", f"out = np.{f}(data(x), k={k})", meta, rnd))
    return out


# ------------------------------------------------------------------------- element-wise ---
NP_NAME = {"acos": "arccos", "acosh": "arccosh", "asin": "arcsin", "asinh": "arcsinh", "atan": "arctan",
           "atan2": "arctan2", "atanh": "arctanh", "bitwise_invert": "invert", "bitwise_left_shift": "left_shift",
           "bitwise_right_shift": "right_shift", "pow": "power", "round": "round"}
FLOAT_UN = ["acos", "acosh", "asin", "asinh", "atan", "atanh", "cos", "cosh", "exp", "expm1", "log", "log1p", "log2",
            "log10", "sin", "sinh", "sqrt", "tan", "tanh"]
NUM_UN = ["abs", "negative", "positive", "square", "sign", "floor", "ceil", "round", "trunc"]
PRED_UN = ["isfinite", "isinf", "isnan"]
NUM_BIN = ["add", "subtract", "multiply", "floor_divide", "remainder", "pow"]
CMP_BIN = ["equal", "not_equal", "less", "less_equal", "greater", "greater_equal"]
FLOAT_BIN = ["divide", "atan2", "logaddexp"]
BIT_BIN = ["bitwise_and", "bitwise_or", "bitwise_xor"]
SHIFT_BIN = ["bitwise_left_shift", "bitwise_right_shift"]
LOGIC_BIN = ["logical_and", "logical_or", "logical_xor"]
OPSYM = {"add": "+", "subtract": "-", "multiply": "*", "divide": "/", "floor_divide": "//", "remainder": "%", "pow": "**",
         "bitwise_and": "&", "bitwise_or": "|", "bitwise_xor": "^", "bitwise_left_shift": "<<", "bitwise_right_shift": ">>",
         "less": "<", "less_equal": "<=", "greater": ">", "greater_equal": ">=", "equal": "==", "not_equal": "!="}


def ew_domain(f):
    """dtypes of the Array API domain of f (same-dtype operands)."""
    I, F = ops.INTS, ops.FLOATS
    if f in FLOAT_UN or f in FLOAT_BIN:
        return F
    if f in NUM_UN or f in NUM_BIN or f in PRED_UN or f in ("less", "less_equal", "greater", "greater_equal"):
        return I + F
    if f in ("equal", "not_equal"):
        return I + F + ["bool", "utf8"]
    if f in BIT_BIN or f == "bitwise_invert":
        return I + ["bool"]
    if f in SHIFT_BIN:
        return I
    if f in LOGIC_BIN or f == "logical_not":
        return ["bool"]
    raise KeyError(f)


def np_call(f, args):
    return f"np.{NP_NAME.get(f, f)}({', '.join(args)})"


def ew_tol(f, d):
    b = ops.base(d)
    if b not in ops.FLOATS:
        return (0.0, 0.0)
    eps = 1.2e-7 if b == "float32" else 2.3e-16
    tiny = 1.2e-38 if b == "float32" else 2.3e-308      # results below the smallest normal may be flushed to zero
    exact = f in ("abs", "negative", "positive", "floor", "ceil", "round", "trunc", "sign", "add", "subtract", "multiply",
                  "divide", "square", "sqrt", "floor_divide") or f in CMP_BIN or f in PRED_UN
    return (0.0, 0.0) if exact else (16 * eps, tiny)


def fix_operands(rnd, f, d, xs):
    """Keep operands inside the function's defined domain (no integer division by zero, no
    negative integer exponents, shifts below the bit width, no integer overflow of pow)."""
    b = ops.base(d)
    if b in ops.INTS:
        lo, hi = ops.IINFO[b]
        bits = {"8": 8, "6": 16, "2": 32, "4": 64}[b[-1]]
        if f in ("floor_divide", "remainder", "divide"):
            xs[1]["data"] = [v if v != 0 else (1 if rnd.random() < 0.5 or lo == 0 else -1) for v in xs[1]["data"]]
            if lo < 0:  # INT_MIN // -1 overflows
                xs[1]["data"] = [1 if v == -1 else v for v in xs[1]["data"]]
        if f == "pow":
            xs[1]["data"] = [abs(v) % 4 for v in xs[1]["data"]]
        if f in SHIFT_BIN:
            xs[1]["data"] = [abs(v) % bits for v in xs[1]["data"]]
        if f in ("abs", "negative") and lo < 0:
            xs[0]["data"] = [v if v != lo else lo + 1 for v in xs[0]["data"]]
    return xs


def elementwise_cases(rnd, n, prefix="E", funcs=None, styles=("small", "boundary", "wide"), nullable_p=0.0, max_rank=3,
                      operators_p=0.25, scalars_p=0.1):
    out = []
    allf = FLOAT_UN + NUM_UN + PRED_UN + NUM_BIN + CMP_BIN + FLOAT_BIN + BIT_BIN + SHIFT_BIN + LOGIC_BIN + ["bitwise_invert", "logical_not"]
    funcs = funcs or allf
    i = 0
    while len(out) < n:
        f = funcs[i % len(funcs)]
        i += 1
        d = rnd.choice(ew_domain(f))
        if rnd.random() < nullable_p:
            d = "n" + d
        style = rnd.choice(styles)
        unary = f in FLOAT_UN + NUM_UN + PRED_UN + ["bitwise_invert", "logical_not"]
        meta = {"func": f, "dtype": d, "dclass": dclass(d), "style": style}
        cid = f"{prefix}-{len(out)}-{f}"
        tol = ew_tol(f, d)
        if unary:
            sh = ops.rand_shape(rnd, max_rank, 0.1)
            x = fix_operands(rnd, f, d, [ops.tensor(rnd, d, sh, style)])[0]
            orc = f"out = {np_call(f, ['x'])}"
            if f == "round":
                orc = "out = np.round(x)"
            if ops.nullable(d):
                orc = f"out = mk({np_call(f, ['data(x)'])}, mask(x))"
            out.append(mkcase(cid, {"x": x}, f"out = ndx.{f}(x)", orc, meta, rnd, tol))
        else:
            a, b = ops.broadcast_pair(rnd, max_rank, 0.1)
            xs = fix_operands(rnd, f, d, [ops.tensor(rnd, d, a, style), ops.tensor(rnd, d, b, style)])
            use_op = f in OPSYM and rnd.random() < operators_p
            impl = f"out = x {OPSYM[f]} y" if use_op else f"out = ndx.{f}(x, y)"
            meta["via"] = "operator" if use_op else "function"
            orc = f"out = {np_call(f, ['x', 'y'])}"
            if f == "floor_divide" and ops.base(d) in ops.FLOATS:
                orc = "out = np.floor(x / y)"        # the standard: the quotient rounded toward -inf
            if ops.nullable(d):
                orc = f"out = mk({np_call(f, ['data(x)', 'data(y)'])}, mask(x) | mask(y))"
            out.append(mkcase(cid, {"x": xs[0], "y": xs[1]}, impl, orc, meta, rnd, tol))
    return out


def mixed_write_cases(rnd, n, prefix="WL"):
    """Writes that mix data-holding targets with placeholder values / indices, followed by computations derived from
    the written array (the write must be visible everywhere afterwards; traced run == eager)."""
    out = []
    for i in range(n):
        d = rnd.choice(["int64", "float64", "int32", "nint64"])
        sh = ops.rand_shape(rnd, 2, 0.0, (1, 2, 3), min_rank=1)
        a, p_ = ops.tensor(rnd, d, sh, "small"), ops.tensor(rnd, d, sh, "small")
        m = {"dtype": "bool", "shape": sh, "data": [rnd.random() < 0.5 for _ in range(ops.prod(sh))]}
        form = rnd.choice(["x = a.copy(); x[0] = p[0]; out = [x, x + 1]", "x = a.copy(); x[...] = p; out = [x, ndx.sum(x)]",
                           "x = a.copy(); x[m] = 0; out = [x, x * 2]", "x = a.copy(); y = x[...]; x[-1] = p[-1]; out = [x, y + 0]",
                           "x = a.copy(); x[0] = p[0]; x[-1] = 7; out = [x + 0, x]", "x = a.copy(); x[m] = 0; out = x * 2",
                           "x = a.copy(); x[0] = p[0]; out = ndx.reshape(x, [-1]) + 1", "x = a.copy(); x[-1] = p[-1]; out = -x"])
        lazy = ["m"] if "[m]" in form else ["p"]
        out.append({"id": f"{prefix}-{i}", "inputs": {"a": a, "p": p_, "m": m}, "impl": form, "oracle": None, "tol": [0, 0],
                    "meta": {"func": "setitem-mixed", "dtype": d, "dclass": dclass(d)},
                    "lazy_subsets": [{"names": lazy}, {"names": lazy + ["a"]}]})
    return out


def pow_special_cases(rnd, n, prefix="PW"):
    """pow on the special values the standard lists (signed zeros, infinities, NaN, +-1) with constant exponents given as
    Python scalars, 0-d / one-element arrays and full-size arrays.  The oracle always uses a full-size exponent array
    (NumPy takes its own fast paths for scalar exponents)."""
    out = []
    bases = [0.0, -0.0, float("inf"), float("-inf"), float("nan"), 1.0, -1.0, 0.5, 2.0, -2.0, 4.0]
    exps = ["0.5", "-0.5", "2.0", "0.0", "-0.0", "1.0", "3.0", "-1.0", "float('inf')", "float('-inf')", "0.25"]
    for i in range(n):
        d = rnd.choice(["float32", "float64"])
        k = rnd.randint(3, 8)
        data = [rnd.choice(bases) for _ in range(k)]
        x = {"dtype": d, "shape": [k], "data": [ops.fhex(v) for v in data]}
        e = rnd.choice(exps)
        form = rnd.choice(["x ** {e}", "ndx.pow(x, {e})", "ndx.pow(x, ndx.asarray(np.array({e}, dtype=np.{d})))", "ndx.pow(x, ndx.asarray(np.array([{e}], dtype=np.{d})))",
                           "ndx.pow(x, ndx.asarray(np.full(x.shape if hasattr(x.shape, '__len__') and None not in x.shape else [%d], {e}, dtype=np.{d})))" % k])
        impl = "out = " + form.format(e=e, d=d)
        orc = f"out = np.power(x, np.full(x.shape, {e}, dtype=x.dtype))"
        meta = {"func": "pow", "dtype": d, "dclass": dclass(d), "style": "special-values", "exponent": e}
        c = mkcase(f"{prefix}-{i}", {"x": x}, impl, orc, meta, rnd, ew_tol("pow", d), symbolic=False, check_dtype=False)   # result dtype: C03
        out.append(c)
    return out


def special_value_cases(rnd, n, prefix="SV"):
    """Float functions on the special values the standard lists (signed zeros, infinities, NaN, +-1, large / tiny
    magnitudes), all PAIRS for the binary ones."""
    out = []
    sv = [0.0, -0.0, float("inf"), float("-inf"), float("nan"), 1.0, -1.0, 2.5, -2.5, 1e-30, 1e30]
    binf = ["logaddexp", "atan2", "divide", "multiply", "add", "subtract", "less", "equal", "pow"]
    unf = ["expm1", "log1p", "exp", "log", "sqrt", "sign", "abs", "floor", "ceil", "trunc", "round", "isfinite", "isinf", "isnan", "negative", "square"]
    i = 0
    while len(out) < n:
        d = rnd.choice(["float32", "float64"])
        i += 1
        if i % 2:
            f = rnd.choice(binf)
            xs = [rnd.choice(sv) for _ in range(12)]
            ys = [rnd.choice(sv) for _ in range(12)]
            # make sure the equal-operand diagonal is present (inf with inf, -0 with -0, ...)
            xs[:6] = [float("inf"), float("-inf"), -0.0, 0.0, float("inf"), float("nan")]
            ys[:6] = [float("inf"), float("-inf"), -0.0, -0.0, float("-inf"), 1.0]
            x = {"dtype": d, "shape": [12], "data": [ops.fhex(ops.f32(v) if d == "float32" and v == v and abs(v) != float("inf") else v) for v in xs]}
            y = {"dtype": d, "shape": [12], "data": [ops.fhex(ops.f32(v) if d == "float32" and v == v and abs(v) != float("inf") else v) for v in ys]}
            meta = {"func": f, "dtype": d, "dclass": dclass(d), "style": "special-values"}
            out.append(mkcase(f"{prefix}-{len(out)}-{f}", {"x": x, "y": y}, f"out = ndx.{f}(x, y)", f"out = {np_call(f, ['x', 'y'])}", meta, rnd, ew_tol(f, d), symbolic=False))
        else:
            f = rnd.choice(unf)
            xs = [rnd.choice(sv) for _ in range(11)]
            xs[:5] = [float("inf"), float("-inf"), -0.0, 0.0, float("nan")]
            x = {"dtype": d, "shape": [11], "data": [ops.fhex(ops.f32(v) if d == "float32" and v == v and abs(v) != float("inf") else v) for v in xs]}
            meta = {"func": f, "dtype": d, "dclass": dclass(d), "style": "special-values"}
            orc = f"out = {np_call(f, ['x'])}" if f != "round" else "out = np.round(x)"
            out.append(mkcase(f"{prefix}-{len(out)}-{f}", {"x": x}, f"out = ndx.{f}(x)", orc, meta, rnd, ew_tol(f, d), symbolic=False))
    return out


def scalar_operand_cases(rnd, n, prefix="SC"):
    """Binary element-wise calls with a Python scalar operand (both orders, functions and operators), including signed
    zeros and Python-equal scalars of different types; a third of the cases use two different scalars one after the
    other in one program (the second result must not depend on the first call)."""
    out = []
    funcs = ["add", "subtract", "multiply", "divide", "less", "divide", "greater", "equal", "multiply", "not_equal", "divide", "atan2", "pow", "less_equal"]
    fscal = ["0.0", "-0.0", "1.0", "-1.0", "2.5", "1e-30", "float('inf')"]
    iscal = ["0", "1", "-1", "3", "True", "False"]
    i = 0
    while len(out) < n:
        f = funcs[i % len(funcs)]
        i += 1
        d = rnd.choice(["float32", "float64"] if f in ("divide", "atan2") else ["float32", "float64", "int32", "int64"])
        b = ops.base(d)
        isf = b in ops.FLOATS
        pool = fscal + iscal[:4] if isf else iscal[:4]
        s1 = rnd.choice(pool)
        if isf and rnd.random() < 0.3:
            s1 = rnd.choice(["0.0", "-0.0"])        # the sign of a zero scalar is observable (x / s, x * s, atan2)
        x = ops.tensor(rnd, d, ops.rand_shape(rnd, 2, 0.05), "small")
        if f == "pow":
            s1 = rnd.choice(["2", "3", "0", "1"]) if not isf else rnd.choice(["2.0", "0.5", "0.0", "-0.0", "1.0"])
            x["data"] = [ops.fhex(abs(float.fromhex(v)) if v != "nan" else 1.0) if isf else abs(v) % 5 for v in x["data"]]
        first = rnd.random() < 0.5
        call = (lambda s_: f"x {OPSYM[f]} ({s_})" if not first else f"({s_}) {OPSYM[f]} x") if f in OPSYM and rnd.random() < 0.5 else \
               (lambda s_: f"ndx.{f}(x, {s_})" if not first else f"ndx.{f}({s_}, x)")
        ncall = (lambda s_: np_call(f, ["x", s_]) if not first else np_call(f, [s_, "x"]))
        impl, orc = f"out = {call(s1)}", f"out = {ncall(s1)}"
        meta = {"func": f, "dtype": d, "dclass": dclass(d), "style": "python-scalar", "scalar": s1}
        if (rnd.random() < 0.34 or s1 in ("0.0", "-0.0")) and f != "pow":
            twin = {"0.0": "-0.0", "-0.0": "0.0", "1.0": "1", "1": "True" if not isf else "1.0", "0": "False" if not isf else "-0.0", "True": "1", "False": "0"}.get(s1, "0.0" if isf else "0")
            impl = f"u_ = {call(twin)}; out = {call(s1)}"
            meta["history"] = f"scalar {twin} then {s1}"
        c = mkcase(f"{prefix}-{len(out)}-{f}", {"x": x}, impl, orc, meta, rnd, ew_tol(f, d), check_dtype=False)
        out.append(c)
    return out


def constant_operand_cases(rnd, n, prefix="K", funcs=None):
    """Binary element-wise calls where one operand is a data-holding one-element constant (all 0/False or all 1/True,
    rank 0-2) and the other has any rank and may be a placeholder with dynamic extents: the shapes on which
    constant-folding shortcuts must still broadcast."""
    out = []
    funcs = funcs or (LOGIC_BIN + BIT_BIN + ["add", "multiply", "subtract", "equal"])
    funcs = [f for f in funcs if f in LOGIC_BIN + BIT_BIN + NUM_BIN + CMP_BIN + FLOAT_BIN + SHIFT_BIN]
    if not funcs:
        return out
    cshapes = [[], [1], [1, 1]]
    oshapes = [[], [1], [3], [2, 1], [1, 3], [0], [2, 0]]
    i = 0
    while len(out) < n:
        f = funcs[i % len(funcs)]
        i += 1
        dom = ew_domain(f)
        d = rnd.choice(dom)
        b = ops.base(d)
        v = rnd.choice([0, 1])
        cs, os_ = rnd.choice(cshapes), rnd.choice(oshapes)
        if rnd.random() < 0.3:
            # a UNIFORM constant with several elements against an operand that is the one broadcast up
            cs, os_ = rnd.choice([([3], [1]), ([2, 3], [1, 3]), ([2, 3], [3]), ([3], []), ([2, 2], [2, 1]), ([3], [3])])
        ne = ops.prod(cs)
        cdata = ([bool(v)] if b == "bool" else [ops.fhex(float(v))] if b in ops.FLOATS else [v]) * ne
        const = {"dtype": d, "shape": cs, "data": cdata}
        other = ops.tensor(rnd, d, os_, "small")
        first = rnd.random() < 0.5
        xs = [const, other] if first else [other, const]
        if f in ("floor_divide", "remainder", "divide", "pow") + tuple(SHIFT_BIN):
            xs = fix_operands(rnd, f, d, xs)
        use_op = f in OPSYM and rnd.random() < 0.3
        impl = f"out = x {OPSYM[f]} y" if use_op else f"out = ndx.{f}(x, y)"
        orc = f"out = {np_call(f, ['x', 'y'])}"
        if f == "floor_divide" and b in ops.FLOATS:
            orc = "out = np.floor(x / y)"
        meta = {"func": f, "dtype": d, "dclass": dclass(d), "style": "constant-operand", "via": "operator" if use_op else "function"}
        c = mkcase(f"{prefix}-{len(out)}-{f}", {"x": xs[0], "y": xs[1]}, impl, orc, meta, rnd, ew_tol(f, d))
        lazy = "y" if first else "x"
        c["lazy_subsets"] = [{"names": [lazy], "sigs": {lazy: [None] * len(os_)}}, {"names": [lazy]}]
        out.append(c)
    return out


# --------------------------------------------------------------------------- reductions ---
RED = ["sum", "prod", "min", "max", "mean", "var", "std", "all", "any", "cumulative_sum", "argmax", "argmin"]


def rand_axis(rnd, r, allow_tuple=True, allow_none=True):
    c = rnd.random()
    if r == 0:
        return None if allow_none else 0
    if allow_none and c < 0.2:
        return None
    if allow_tuple and c < 0.45:
        k = rnd.randint(0, r)
        return tuple(a - r if rnd.random() < 0.4 else a for a in rnd.sample(range(r), k))
    return rnd.randint(-r, r - 1)


def reduction_cases(rnd, n, prefix="R", max_rank=4, dtypes=None, nullable_p=0.0, funcs=RED):
    out = []
    i = 0
    while len(out) < n:
        f = funcs[i % len(funcs)]
        i += 1
        if f in ("mean", "var", "std"):
            d = rnd.choice(ops.FLOATS)
        elif f in ("all", "any"):
            d = rnd.choice(["bool", "bool", "int32", "float64", "uint8", "int64"])
        else:
            d = rnd.choice(dtypes or (ops.INTS + ops.FLOATS))
        if rnd.random() < nullable_p:
            d = "n" + d
        b = ops.base(d)
        sh = ops.rand_shape(rnd, max_rank, zero_p=0.2, extents=(1, 2, 3, 4))
        r = len(sh)
        style = rnd.choice(["small", "small", "boundary"]) if b in ops.FLOATS and f in ("min", "max", "argmax", "argmin") else "small"
        x = ops.tensor(rnd, d, sh, style)
        if b in ops.FLOATS:
            x["data"] = [v if v != "nan" else ops.fhex(1.0) for v in x["data"]]
        keep = rnd.random() < 0.5
        meta = {"func": f, "dtype": d, "dclass": dclass(d), "keepdims": keep}
        cid = f"{prefix}-{len(out)}-{f}"
        eps = 1.2e-7 if b == "float32" else 2.3e-16
        tol = (0.0, 0.0) if b not in ops.FLOATS or f in ("min", "max", "argmax", "argmin", "all", "any") else (64 * eps, 64 * eps)
        method = rnd.random() < 0.2 and f in ("sum", "prod", "max", "min", "all", "any")
        meta["via"] = "method" if method else "function"
        if f in ("sum", "prod", "min", "max", "all", "any", "mean"):
            if method:
                ax = rnd.randint(-r, r - 1) if r else None
                if r == 0:
                    continue
            else:
                ax = rand_axis(rnd, r)
            if f in ("min", "max") and ops.prod(sh) == 0:
                # NumPy has no identity for min/max; an empty reduction is only defined when the
                # reduced axes are non-empty
                red = range(r) if ax is None else ([ax] if isinstance(ax, int) else list(ax))
                if any(sh[a] == 0 for a in red) or (not isinstance(ax, int) and ax is not None and len(ax) == 0 and False):
                    continue
            meta["axis_kind"] = "none" if ax is None else "tuple" if isinstance(ax, tuple) else "neg" if ax < 0 else "pos"
            kw = f"axis={ax!r}, keepdims={keep}"
            impl = f"out = x.{f}({kw})" if method else f"out = ndx.{f}(x, {kw})"
            npd = ""
            if f in ("sum", "prod") and b in ops.INTS:
                acc = ("uint64" if f == "sum" else "uint32") if b.startswith("u") else "int64"
                if f == "prod" and b == "uint64":
                    continue
                npd = f", dtype=np.{acc}"
            if ops.nullable(d):
                neutral = {"sum": "0", "prod": "1", "all": "True", "any": "False", "min": None, "max": None, "mean": None}[f]
                if neutral is None:
                    continue
                orc = f"out = nullred(np.{f}, x, {neutral}, {kw}{npd})"
            else:
                orc = f"out = np.{f}(x, {kw}{npd})"
            out.append(mkcase(cid, {"x": x}, impl, orc, meta, rnd, tol))
        elif f in ("var", "std"):
            ax = rand_axis(rnd, r)
            corr = rnd.choice([0, 0, 1, 0.5])
            red = range(r) if ax is None else ([ax] if isinstance(ax, int) else list(ax))
            cnt = ops.prod([sh[a] for a in red])
            if cnt - corr <= 0:
                continue
            meta["axis_kind"] = "none" if ax is None else "tuple" if isinstance(ax, tuple) else "neg" if ax < 0 else "pos"
            out.append(mkcase(cid, {"x": x}, f"out = ndx.{f}(x, axis={ax!r}, keepdims={keep}, correction={corr})",
                              f"out = np.{f}(x, axis={ax!r}, keepdims={keep}, ddof={corr})", meta, rnd, (1e-4 if b == "float32" else 1e-9, 1e-6 if b == "float32" else 1e-12)))
        elif f == "cumulative_sum":
            if r == 0:
                continue
            ax = rnd.randint(-r, r - 1) if r > 1 else rnd.choice([None, 0, -1])
            inc = rnd.random() < 0.4
            if b == "uint64":
                continue
            meta["axis_kind"] = "none" if ax is None else "neg" if ax < 0 else "pos"
            meta["include_initial"] = inc
            out.append(mkcase(cid, {"x": x}, f"out = ndx.cumulative_sum(x, axis={ax!r}, include_initial={inc})",
                              f"out = np.cumulative_sum(x, axis={ax!r}, include_initial={inc})", meta, rnd, tol))
        else:  # argmax / argmin
            if ops.prod(sh) == 0:
                continue
            ax = rnd.randint(-r, r - 1) if r and rnd.random() < 0.75 else None
            meta["axis_kind"] = "none" if ax is None else "neg" if ax < 0 else "pos"
            # duplicates on purpose: first occurrence
            out.append(mkcase(cid, {"x": x}, f"out = ndx.{f}(x, axis={ax!r}, keepdims={keep})",
                              f"out = np.{f}(x, axis={ax!r}, keepdims={keep})", meta, rnd))
    if "var" in funcs:
        for k in range(max(6, n // 40)):
            off = rnd.choice([1.0e6, 1.0e7, -3.0e6])
            sh = [rnd.choice([3, 4, 6])] + ([rnd.choice([2, 3])] if rnd.random() < 0.5 else [])
            data = [ops.fhex(off + rnd.choice([0.0, 1.0, 2.0, 3.0, 0.5, 1.5])) for _ in range(ops.prod(sh))]
            x = {"dtype": "float64", "shape": sh, "data": data}
            ax = rnd.choice([None, 0, -1])
            corr = rnd.choice([0, 1])
            meta = {"func": "var", "dtype": "float64", "dclass": "float", "keepdims": False, "style": "offset"}
            out.append(mkcase(f"{prefix}-off-{k}-var", {"x": x}, f"out = ndx.var(x, axis={ax!r}, correction={corr})",
                              f"out = np.var(x, axis={ax!r}, ddof={corr})", meta, rnd, (1e-6, 1e-9)))

    return out


# ---------------------------------------------------------------- sorting / sets / search ---

def sorting_cases(rnd, n, prefix="S", max_len=40, dtypes=None):
    out = []
    fns = ["sort", "argsort", "unique_all", "unique_counts", "unique_inverse", "unique_values", "searchsorted", "nonzero", "where"]
    i = 0
    while len(out) < n:
        f = fns[i % len(fns)]
        i += 1
        d = rnd.choice(dtypes or ["int8", "int32", "int64", "uint8", "uint32", "uint64", "float32", "float64", "int16", "uint16"])
        b = ops.base(d)
        meta = {"func": f, "dtype": d, "dclass": dclass(d)}
        cid = f"{prefix}-{len(out)}-{f}"

        def vec(shape, style=None):
            t = ops.tensor(rnd, d, shape, style or rnd.choice(["small", "small", "wide", "boundary"]))
            if b in ops.FLOATS:
                t["data"] = [v if v not in ("nan",) else ops.fhex(2.0) for v in t["data"]]
                t["data"] = [ops.fhex(0.0) if v == ops.fhex(-0.0) else v for v in t["data"]]
            return t
        if f in ("sort", "argsort"):
            r = rnd.randint(1, 3)
            sh = [rnd.choice([1, 2, 3, 5, max_len if r == 1 else 4]) for _ in range(r)]
            ax = rnd.randint(-r, r - 1)
            if rnd.random() < 0.12:
                # an axis longer than the element type can count: positions must still be int64 positions
                r = rnd.randint(1, 2)
                long_ = {"int8": 130, "uint8": 260, "int16": 32800, "uint16": 65600}.get(b, 300)
                sh = [long_] if r == 1 else rnd.choice([[2, long_], [long_, 2]])
                ax = sh.index(long_) - rnd.choice([0, r])
                meta["long_axis"] = True
            desc = rnd.random() < 0.4
            meta["descending"] = desc
            x = vec(sh)
            if f == "sort":
                orc = f"out = np.sort(x, axis={ax}, kind='stable')" + (f"; out = np.flip(out, axis={ax})" if desc else "")
            else:
                # stable: ties keep their original relative order, also when descending
                orc = (f"out = np.argsort(x, axis={ax}, kind='stable')" if not desc else
                       f"n_ = x.shape[{ax}]; out = (n_ - 1 - np.flip(np.argsort(np.flip(x, axis={ax}), axis={ax}, kind='stable'), axis={ax})).astype(np.int64)")
            out.append(mkcase(cid, {"x": x}, f"out = ndx.{f}(x, axis={ax}, descending={desc})", orc, meta, rnd))
        elif f.startswith("unique"):
            r = rnd.randint(1, 3)
            sh = [rnd.choice([1, 2, 3, 6]) for _ in range(r)]
            x = vec(sh, "small")
            if f == "unique_all":
                orc = ("v, i, inv, c = np.unique(x, return_index=True, return_inverse=True, return_counts=True); "
                       "out = [v, i.astype(np.int64), inv.reshape(x.shape).astype(np.int64), c.astype(np.int64)]")
                impl = "r_ = ndx.unique_all(x); out = [r_.values, r_.indices, r_.inverse_indices, r_.counts]"
            elif f == "unique_counts":
                orc = "v, c = np.unique(x, return_counts=True); out = [v, c.astype(np.int64)]"
                impl = "r_ = ndx.unique_counts(x); out = [r_.values, r_.counts]"
            elif f == "unique_inverse":
                orc = "v, inv = np.unique(x, return_inverse=True); out = [v, inv.reshape(x.shape).astype(np.int64)]"
                impl = "r_ = ndx.unique_inverse(x); out = [r_.values, r_.inverse_indices]"
            else:
                orc, impl = "out = np.unique(x)", "out = ndx.unique_values(x)"
            out.append(mkcase(cid, {"x": x}, impl, orc, meta, rnd))
        elif f == "searchsorted":
            n1 = rnd.choice([1, 2, 5, 9, max_len])
            x1 = vec([n1], "small")
            x2 = vec(ops.rand_shape(rnd, 2, 0.0, (1, 2, 3), min_rank=1), "small")
            side = rnd.choice(["left", "right"])
            meta["side"] = side
            meta["x2_rank"] = len(x2["shape"])
            if rnd.random() < 0.5:
                srt = "x1s = np.sort(x1)"
                out.append(mkcase(cid, {"x1": x1, "x2": x2}, f"out = ndx.searchsorted(ndx.sort(x1), x2, side='{side}')",
                                  f"out = np.searchsorted(np.sort(x1), x2, side='{side}').astype(np.int64)", meta, rnd))
            else:
                meta["sorter"] = True
                out.append(mkcase(cid, {"x1": x1, "x2": x2}, f"out = ndx.searchsorted(x1, x2, side='{side}', sorter=ndx.argsort(x1))",
                                  f"out = np.searchsorted(x1, x2, side='{side}', sorter=np.argsort(x1, kind='stable')).astype(np.int64)", meta, rnd))
        elif f == "nonzero":
            sh = ops.rand_shape(rnd, 3, 0.1, (1, 2, 3), min_rank=1)
            x = vec(sh, "small")
            out.append(mkcase(cid, {"x": x}, "out = list(ndx.nonzero(x))", "out = [a.astype(np.int64) for a in np.nonzero(x)]", meta, rnd, symbolic=False))
        elif rnd.random() < 0.45:  # where: three-way broadcasting against a uniform / constant condition
            r = rnd.randint(1, 2)
            k = rnd.choice([2, 3, 4])
            xs = [rnd.choice([1, 1, k]) for _ in range(r)]
            csh = [rnd.choice([k, 1]) if s == 1 else s for s in xs]
            csh = csh[rnd.randint(0, len(csh) - 1):] if rnd.random() < 0.3 else csh
            if rnd.random() < 0.3:
                csh = [k] + csh if len(csh) < 3 else csh
            cv = rnd.choice(["true", "false", "mixed"])
            n_c = ops.prod(csh)
            cdata = [True] * n_c if cv == "true" else [False] * n_c if cv == "false" else [j % 2 == 0 for j in range(n_c)]
            ins = {"c": {"dtype": "bool", "shape": csh, "data": cdata}, "x": vec(xs, "small"), "y": vec(xs, "small")}
            meta["cond"] = cv + "-uniform" if cv != "mixed" else "mixed"
            c_ = mkcase(cid, ins, "out = ndx.where(c, x, y)", "out = np.where(c, x, y)", meta, rnd)
            c_["lazy_subsets"] = [{"names": ["x", "y"]}, {"names": ["x", "y", "c"]}, {"names": ["x"]}]
            out.append(c_)
        else:  # where
            a, bsh = ops.broadcast_pair(rnd, 3, 0.1)
            csh = [1 if rnd.random() < 0.3 else s for s in (a if len(a) >= len(bsh) else bsh)]
            csh = csh[rnd.randint(0, len(csh)):]
            ins = {"c": ops.tensor(rnd, "bool", csh), "x": vec(a, "small"), "y": vec(bsh, "small")}
            out.append(mkcase(cid, ins, "out = ndx.where(c, x, y)", "out = np.where(c, x, y)", meta, rnd))
    # nonzero on values of tiny magnitude (non-zero is non-zero in the array's own precision)
    for k in range(max(3, n // 40)):
        vals = [rnd.choice(["0x1.0p-200", "0x0.0p+0", "-0x1.0p-300", "0x0.0000000000001p-1022", "0x1.8p+1", "-0x0.0p+0"]) for _ in range(6)]
        x = {"dtype": "float64", "shape": rnd.choice([[6], [2, 3], [3, 2]]), "data": vals}
        meta = {"func": "nonzero", "dtype": "float64", "dclass": "float", "style": "tiny"}
        out.append(mkcase(f"{prefix}-tiny-{k}", {"x": x}, "out = list(ndx.nonzero(x))", "out = [a.astype(np.int64) for a in np.nonzero(x)]", meta, rnd, symbolic=False))

    return out


# ----------------------------------------------------------------------------- indexing ---

def slice_alphabet(n):
    """slices with c in {None, +-1, +-2, +-3} and a, b None or inside the standard's bounds"""
    res = []
    for c in (None, 1, -1, 2, -2, 3, -3):
        if c is None or c > 0:
            As = [None] + list(range(-n, n + 1))
            Bs = [None] + list(range(-n, n + 1))
        else:
            As = [None] + list(range(-n, max(0, n - 1) + 1))
            Bs = [None] + list(range(-n - 1, max(0, n - 1) + 1))
        for a in As:
            for b in Bs:
                res.append((a, b, c))
    return res


def rand_index(rnd, shape):
    """Random index tuple over {int, slice, Ellipsis, None} addressing every axis (or using an ellipsis)."""
    r = len(shape)
    items = []
    use_ell = rnd.random() < 0.3
    ell_at = rnd.randint(0, r) if use_ell else None
    skipped = 0
    ax = 0
    if use_ell:
        skipped = rnd.randint(0, r)
        ell_at = rnd.randint(0, r - skipped)
    pos = 0
    while ax < r:
        if use_ell and pos == ell_at:
            items.append("...")
            ax += skipped
            use_ell = False
            continue
        n = shape[ax]
        c = rnd.random()
        if c < 0.35 and n > 0:
            items.append(str(rnd.randint(-n, n - 1)))
        else:
            a, b, s = rnd.choice(slice_alphabet(n))
            items.append(f"slice({a}, {b}, {s})")
        ax += 1
        pos += 1
    if use_ell:
        items.append("...")
    # sprinkle None
    k = rnd.choice([0, 0, 0, 1, 2])
    for _ in range(k):
        items.insert(rnd.randint(0, len(items)), "None")
    return items


def idx_src(items):
    if len(items) == 1 and items[0] != "..." and False:
        return items[0]
    return "(" + ", ".join(items) + ("," if len(items) == 1 else "") + ")"


GETITEM_DTYPES = ["int64", "float32", "bool", "utf8", "nint32", "nutf8", "uint8", "nbool"]


def getitem_cases(rnd, n, prefix="G", max_rank=3, dtypes=GETITEM_DTYPES, exhaustive_1d=False):
    out = []
    if exhaustive_1d:
        for nn in range(0, 5):
            for (a, b, c) in slice_alphabet(nn):
                d = dtypes[len(out) % len(dtypes)]
                x = ops.tensor(rnd, d, [nn], style="token")
                out.append(mkcase(f"{prefix}-1d-{len(out)}", {"x": x}, f"out = x[slice({a}, {b}, {c})]", f"out = lay(lambda a_: a_[slice({a}, {b}, {c})], x)",
                                  {"func": "getitem", "form": "slice-1d", "dtype": d, "dclass": dclass(d)}, rnd))
            for k in range(-nn, nn):
                d = dtypes[len(out) % len(dtypes)]
                x = ops.tensor(rnd, d, [nn], style="token")
                out.append(mkcase(f"{prefix}-1d-{len(out)}", {"x": x}, f"out = x[{k}]", f"out = lay(lambda a_: a_[{k}], x)",
                                  {"func": "getitem", "form": "int-1d", "dtype": d, "dclass": dclass(d)}, rnd))
    while len(out) < n:
        d = rnd.choice(dtypes)
        sh = [rnd.choice([0, 1, 2, 3, 4]) for _ in range(rnd.randint(0, max_rank))]
        x = ops.tensor(rnd, d, sh, style="token")
        c = rnd.random()
        cid = f"{prefix}-{len(out)}"
        if c < 0.6:
            src = idx_src(rand_index(rnd, sh))
            out.append(mkcase(cid, {"x": x}, f"out = x[{src}]", f"out = lay(lambda a_: a_[{src}], x)",
                              {"func": "getitem", "form": "basic", "dtype": d, "dclass": dclass(d)}, rnd))
        elif c < 0.8:
            mr = rnd.randint(0, len(sh))
            msh = sh[:mr]
            m = ops.tensor(rnd, "bool", msh)
            out.append(mkcase(cid, {"x": x, "m": m}, "out = x[m]", "out = lay(lambda a_: a_[m], x)",
                              {"func": "getitem", "form": "mask", "dtype": d, "dclass": dclass(d), "mask_rank_lower": mr < len(sh)}, rnd, symbolic=False))
        elif c < 0.95:
            if not sh or sh[0] == 0:
                continue
            ish = ops.rand_shape(rnd, 2, 0.1, (1, 2, 3))
            idt = rnd.choice(["int64", "int32"])
            ix = {"dtype": idt, "shape": ish, "data": [rnd.randint(-sh[0], sh[0] - 1) for _ in range(ops.prod(ish))]}
            out.append(mkcase(cid, {"x": x, "i": ix}, "out = x[i]", "out = lay(lambda a_: a_[i], x)",
                              {"func": "getitem", "form": "intarray", "dtype": d, "dclass": dclass(d)}, rnd))
        else:
            # malformed: too few / too many indices, unsupported entries -> IndexError / TypeError
            bad = rnd.choice(["few", "many", "type"])
            if bad == "few" and len(sh) >= 2:
                # no ellipsis, strictly fewer addressing entries than axes (all-slice entries: nothing can be out of range)
                k_ = rnd.randint(1, len(sh) - 1)
                its = [f"slice({a_}, {b_}, {s_})" for a_, b_, s_ in (rnd.choice(slice_alphabet(n_)) for n_ in sh[:k_])]
                if rnd.random() < 0.3:
                    its.insert(rnd.randint(0, len(its)), "None")
                src = idx_src(its)
            elif bad == "many":
                its = [it for it in rand_index(rnd, sh + [2]) if it != "..."]
                if sum(1 for it in its if it != "None") <= len(sh):
                    continue
                src = idx_src(its)
            elif bad == "type":
                src = rnd.choice(["(1.5,)", "('a',)", "([0, 1],)"]) if sh else "(1.5,)"
            else:
                continue
            out.append(mkcase(cid, {"x": x}, f"out = x[{src}]", "raise IndexError('malformed')",
                              {"func": "getitem", "form": "malformed-" + bad, "dtype": d, "dclass": dclass(d)}, rnd, raise_family=["IE", "TE"]))
    # Python-equal indices of different types, one after the other (1 == 1.0 == True): each is judged on its own
    for k in range(max(6, n // 25)):
        d = rnd.choice(["int64", "float32", "utf8", "nint32"])
        x = ops.tensor(rnd, d, [2, 3], style="token")
        first, second, orc = rnd.choice([
            ("x[1, 0]", "x[1.0, 0.0]", "raise IndexError('float index')"), ("x[True, True]", "x[1, 1]", "out = lay(lambda a_: a_[1, 1], x)"),
            ("x[1, 2]", "x[1.0, 2]", "raise IndexError('float index')"),
            ("x[(np.int64(1), np.int64(0))]", "x[1, 0]", "out = lay(lambda a_: a_[1, 0], x)"), ("x[0, 0]", "x[0.0, 0]", "raise IndexError('float index')")])
        impl = f"\ntry:\n    u_ = {first}\nexcept Exception:\n    pass\nout = {second}"
        meta = {"func": "getitem", "form": "equal-index-history", "dtype": d, "dclass": dclass(d)}
        if orc.startswith("raise"):
            out.append(mkcase(f"{prefix}-eqh-{k}", {"x": x}, impl, orc, dict(meta, form="malformed-type"), rnd, raise_family=["IE", "TE"], symbolic=False))
        else:
            out.append(mkcase(f"{prefix}-eqh-{k}", {"x": x}, impl, orc, meta, rnd, symbolic=False))

    return out


def setitem_cases(rnd, n, prefix="W", max_rank=3, dtypes=("int64", "float32", "bool", "nint32", "uint8", "utf8", "nfloat64")):
    out = []
    while len(out) < n:
        d = rnd.choice(dtypes)
        sh = [rnd.choice([0, 1, 2, 3, 4]) for _ in range(rnd.randint(0, max_rank))]
        x = ops.tensor(rnd, d, sh, style="token")
        cid = f"{prefix}-{len(out)}"
        c = rnd.random()
        meta = {"func": "setitem", "dtype": d, "dclass": dclass(d), "rank0": len(sh) == 0}
        scalar = {"bool": "True", "utf8": "'zz'"}.get(ops.base(d), "7")
        if len(sh) == 1 and sh[0] >= 2 and rnd.random() < 0.06:
            # a Python bool as the whole index of a rank-1 array is a mask (all / nothing), never position 1 / 0
            bl = rnd.choice(["True", "False"])
            meta["form"] = "bool-scalar-index"
            out.append(mkcase(cid, {"x": x}, f"y = x.copy(); y[{bl}] = {scalar}; out = y", f"y = x.copy(); y[{bl}] = {scalar}; out = y", meta, rnd, symbolic=False))
            continue
        if c < 0.55:
            src = idx_src(rand_index(rnd, sh))
            meta["form"] = "basic-scalar"
            out.append(mkcase(cid, {"x": x}, f"y = x.copy(); y[{src}] = {scalar}; out = y",
                              f"y = x.copy(); y[{src}] = {scalar}; out = y", meta, rnd, symbolic=False, observe_inputs=True))
        elif c < 0.64 and ops.base(d) not in ("bool", "utf8"):
            # array update of ANOTHER dtype (cast on assignment); the update array itself is observed afterwards
            src = idx_src(rand_index(rnd, sh))
            od = "float64" if ops.base(d) != "float64" else "int32"
            meta["form"] = "basic-array-other-dtype"
            mk_u = f"(np.arange(int(np.prod(sel.shape) if len(sel.shape) else 1)).reshape(sel.shape) % 5).astype(np.{od})"
            out.append(mkcase(cid, {"x": x}, f"y = x.copy(); sel = y[{src}]; u = ndx.asarray({mk_u}); y[{src}] = u; out = [y, u, u + 1]",
                              f"y = x.copy(); sel = y[{src}]; u = {mk_u}; y[{src}] = u; out = [y, u, u + 1]", meta, rnd, symbolic=False))
        elif c < 0.8:
            # array update, broadcast to the selection
            items = rand_index(rnd, sh)
            src = idx_src(items)
            meta["form"] = "basic-array"
            # the oracle tells the shape of the selection; use a scalar-shaped or full update
            out.append(mkcase(cid, {"x": x}, f"y = x.copy(); sel = y[{src}]; u = ndx.asarray(np.arange(int(np.prod(sel.shape) if len(sel.shape) else 1)).reshape(sel.shape) % 5, dtype=ndx.int64).astype(y.dtype) if y.dtype not in (ndx.utf8, ndx.nutf8) else ndx.asarray('q'); y[{src}] = u; out = y",
                              f"y = x.copy(); sel = y[{src}]; u = (np.arange(int(np.prod(sel.shape) if len(sel.shape) else 1)).reshape(sel.shape) % 5).astype(data(y).dtype) if data(y).dtype.kind != 'U' else 'q'; y[{src}] = u; out = y",
                              meta, rnd, symbolic=False))
        elif c < 0.92:
            mr = rnd.randint(0, len(sh))
            m = ops.tensor(rnd, "bool", sh[:mr])
            meta["form"] = "mask-scalar"
            out.append(mkcase(cid, {"x": x, "m": m}, f"y = x.copy(); y[m] = {scalar}; out = y", f"y = x.copy(); y[m] = {scalar}; out = y", meta, rnd, symbolic=False))
        else:
            if ops.base(d) in ("bool", "utf8"):
                continue
            op = rnd.choice(["+=", "-=", "*="])
            meta["form"] = "inplace" + op
            meta["func"] = "inplace"
            out.append(mkcase(cid, {"x": x}, f"y = x.copy(); z = y; y {op} 3; out = [y, z, x]", f"y = x.copy(); z = y; y {op} 3; out = [y, z, x]", meta, rnd, symbolic=False))
    return out


# ----------------------------------------------------------------------------- creation ---

def creation_cases(rnd, n, prefix="C"):
    out = []
    fns = ["asarray", "zeros", "ones", "full", "empty", "eye", "arange", "linspace", "zeros_like", "ones_like", "full_like",
           "empty_like", "asarray_masked", "lazy_shape"]
    i = 0
    while len(out) < n:
        f = fns[i % len(fns)]
        i += 1
        cid = f"{prefix}-{len(out)}-{f}"
        d = rnd.choice(["int8", "int64", "uint16", "uint64", "float32", "float64", "bool", "utf8", "nint32", "nfloat64", "nbool", "nutf8"])
        b = ops.base(d)
        npd = "np.str_" if b == "utf8" else f"np.{b}"
        meta = {"func": f, "dtype": d, "dclass": dclass(d)}
        sh = ops.rand_shape(rnd, 4, 0.15)
        if f == "asarray":
            x = ops.tensor(rnd, d, sh, rnd.choice(["small", "boundary", "wide"]), mask="none")
            out.append(mkcase(cid, {"x": x}, "out = x", "out = x", meta, rnd, erase_masked=False))
        elif f == "asarray_masked":
            dn = "n" + b
            meta["dtype"] = dn
            meta["dclass"] = dclass(dn)
            kind = rnd.choice(["scalar", "full", "nomask"])
            meta["mask_kind"] = kind
            x = ops.tensor(rnd, b, sh, "small")
            if kind == "scalar":
                msrc = rnd.choice(["True", "False"])
            elif kind == "nomask":
                msrc = "np.ma.nomask"
            elif kind == "broadcast":
                msh = [1 if rnd.random() < 0.5 else s for s in sh][rnd.randint(0, len(sh)):]
                msrc = f"np.array({[rnd.random() < 0.4 for _ in range(ops.prod(msh))]}, dtype=bool).reshape({msh})"
            else:
                msrc = f"np.array({[rnd.random() < 0.4 for _ in range(ops.prod(sh))]}, dtype=bool).reshape({sh})"
            out.append({"id": cid, "inputs": {"x": x}, "meta": meta, "tol": [0, 0], "lazy_subsets": [],
                        "impl": f"v = np.ma.masked_array(np.asarray(x.to_numpy()), mask={msrc}); out = ndx.asarray(v)",
                        "oracle": f"out = np.ma.masked_array(x, mask=np.broadcast_to({msrc}, x.shape) if {msrc} is not np.ma.nomask else False)"})
        elif f in ("zeros", "ones", "empty", "full"):
            shp = rnd.choice([repr(tuple(sh)), repr(sh), repr(sh[0]) if len(sh) == 1 else repr(tuple(sh))])
            dts = rnd.choice([None, d])
            fill = {"bool": "True", "utf8": "'ab'"}.get(b, rnd.choice(["3", "-2", "0"]) if b in ops.INTS and not b.startswith("u") else "3")
            dkw = "" if dts is None else f", dtype=ndx.{d}"
            if f == "full" and dts is None and rnd.random() < 0.6:
                # dtype inferred from the fill value alone; Python-equal fills of different types (True == 1 == 1.0) in a
                # row: the inference must not depend on what was created before
                A, B = rnd.choice([("1.0", "True"), ("True", "1.0"), ("0.0", "False"), ("False", "0.0"), ("1", "True"), ("True", "1"),
                                   ("1", "1.0"), ("1.0", "1"), ("0", "False"), ("2.5", "2"), ("'ab'", "'ab'"), ("False", "0")])
                meta["history"] = f"full({A}) then full({B})"
                out.append({"id": cid, "inputs": {}, "meta": meta, "tol": [0, 0], "lazy_subsets": [{"names": []}],
                            "impl": f"u_ = ndx.full({shp}, {A}); out = ndx.full({shp}, {B})", "oracle": f"out = np.full({shp}, {B})"})
                continue
            if f == "full":
                ndk = "" if dts is None or b == "utf8" else f", dtype={npd}"
                orc = f"out = np.full({shp}, {fill}{ndk})"
                if dts is not None and ops.nullable(d):
                    orc = f"out = mk(np.full({shp}, {fill}" + ("" if b == "utf8" else f", dtype={npd}") + "), False)"
                out.append({"id": cid, "inputs": {}, "meta": meta, "tol": [0, 0], "lazy_subsets": [{"names": []}],
                            "impl": f"out = ndx.full({shp}, {fill}{dkw})", "oracle": orc})
            else:
                npf = "zeros" if f == "empty" else f
                if dts is None:
                    orc = f"out = np.{npf}({shp})"
                elif ops.nullable(d):
                    orc = f"out = mk(np.{npf}({shp}, dtype={npd}), False)"
                else:
                    orc = f"out = np.{npf}({shp}, dtype={npd})"
                if b == "utf8" and f == "ones":
                    continue
                c = {"id": cid, "inputs": {}, "meta": meta, "tol": [0, 0], "lazy_subsets": [{"names": []}],
                     "impl": f"out = ndx.{f}({shp}{dkw})", "oracle": orc}
                out.append(c)
        elif f in ("zeros_like", "ones_like", "full_like", "empty_like"):
            x = ops.tensor(rnd, d, sh, "small")
            if b == "utf8" and f in ("ones_like",):
                continue
            fill = {"bool": "True", "utf8": "'ab'"}.get(b, "3")
            npf = {"empty_like": "zeros_like"}.get(f, f)
            arg = f", {fill}" if f == "full_like" else ""
            if ops.nullable(d):
                orc = f"out = mk(np.{npf}(data(x){arg}), False)"
            else:
                orc = f"out = np.{npf}(x{arg})"
            if b == "utf8" and f == "full_like":     # NumPy would truncate to x's string width
                orc = "out = mk(np.full(np.shape(x), 'ab'), False)" if ops.nullable(d) else "out = np.full(np.shape(x), 'ab')"
            if f == "full_like" and b not in ("utf8", "bool") and not ops.nullable(d) and rnd.random() < 0.5:
                # the fill is itself an array (0-d, another dtype) and an explicit dtype may be given: result dtype and
                # values are those of NumPy's full_like (cast to dtype or x.dtype)
                fd = rnd.choice(["float64", "int64", "int32", "float32"])
                fv = rnd.choice(["2.75", "3", "-1.5", "7"]) if fd.startswith("float") else rnd.choice(["3", "7", "-2" if not b.startswith("u") else "5"])
                dk = rnd.choice(["", "", f", dtype=ndx.{rnd.choice(['uint8', 'int64', 'float32'])}"])
                ndk = dk.replace("ndx.", "np.")
                meta["fill"] = f"array:{fd}"
                out.append(mkcase(cid, {"x": x}, f"out = ndx.full_like(x, ndx.asarray(np.array({fv}, dtype=np.{fd})){dk})",
                                  f"out = np.full_like(x, np.array({fv}, dtype=np.{fd}){ndk})", meta, rnd))
                continue
            out.append(mkcase(cid, {"x": x}, f"out = ndx.{f}(x{arg})", orc, meta, rnd))
        elif f == "eye":
            nr, nc, k = rnd.choice([0, 1, 2, 3, 5]), rnd.choice([None, 0, 1, 2, 4]), rnd.randint(-3, 3)
            dts = rnd.choice([None, "int32", "float32", "bool", "uint8", "float64", "int64"])
            dkw = "" if dts is None else f", dtype=ndx.{dts}"
            ndk = "" if dts is None else f", dtype=np.{dts}"
            meta["dtype"] = dts or "float64"
            meta["dclass"] = dclass(meta["dtype"])
            out.append({"id": cid, "inputs": {}, "meta": meta, "tol": [0, 0], "lazy_subsets": [{"names": []}],
                        "impl": f"out = ndx.eye({nr}, {nc}, k={k}{dkw})", "oracle": f"out = np.eye({nr}, {nc}, k={k}{ndk})"})
        elif f == "arange":
            kind = rnd.choice(["int", "int", "float"])
            meta["kind"] = kind
            if kind == "int":
                a, bb, s = rnd.randint(-6, 6), rnd.randint(-6, 12), rnd.choice([1, 2, 3, -1, -2, 5])
                form = rnd.choice(["stop", "startstop", "full"])
                args = {"stop": f"{abs(bb)}", "startstop": f"{a}, {bb}", "full": f"{a}, {bb}, {s}"}[form]
                meta["dtype"] = "int64"
                meta["dclass"] = "int"
                out.append({"id": cid, "inputs": {}, "meta": meta, "tol": [0, 0], "lazy_subsets": [{"names": []}],
                            "impl": f"out = ndx.arange({args})", "oracle": f"out = np.arange({args})"})
            else:
                a, bb, s = rnd.choice([0.0, 0.5, -1.0, 1.0]), rnd.choice([1.0, 2.0, 3.5, -2.0]), rnd.choice([0.1, 0.25, 0.5, -0.5, 0.3])
                meta["dtype"] = "float64"
                meta["dclass"] = "float"
                out.append({"id": cid, "inputs": {}, "meta": meta, "tol": [0, 0], "lazy_subsets": [{"names": []}],
                            "impl": f"out = ndx.arange({a}, {bb}, {s})", "oracle": f"out = np.arange({a}, {bb}, {s})"})
        elif f == "linspace":
            a, bb, num, ep = rnd.choice([0, -1.5, 2]), rnd.choice([1, 10.0, -3]), rnd.choice([0, 1, 2, 5, 9]), rnd.random() < 0.5
            meta["dtype"] = "float64"
            meta["dclass"] = "float"
            out.append({"id": cid, "inputs": {}, "meta": meta, "tol": [0, 0], "lazy_subsets": [{"names": []}],
                        "impl": f"out = ndx.linspace({a}, {bb}, {num}, endpoint={ep})", "oracle": f"out = np.linspace({a}, {bb}, {num}, endpoint={ep})"})
        elif f == "lazy_shape":
            # shape / fill given as arrays or placeholders
            s1 = {"dtype": "int64", "shape": [len(sh)], "data": list(sh)}
            which = rnd.choice(["zeros", "ones", "full", "broadcast_to"])
            meta["func"] = which + "(shape=array)"
            meta["dtype"] = "float64"
            if which == "full":
                v = {"dtype": "float64", "shape": [], "data": [ops.fhex(2.5)]}
                out.append(mkcase(cid, {"s": s1, "v": v}, "out = ndx.full(s, v)", "out = np.full(tuple(s), v)", meta, rnd, symbolic=False))
            elif which == "broadcast_to":
                v = ops.tensor(rnd, "int32", [1 if rnd.random() < 0.5 else q for q in sh][rnd.randint(0, len(sh)):], "token")
                out.append(mkcase(cid, {"s": s1, "v": v}, "out = ndx.broadcast_to(v, s)", "out = np.broadcast_to(v, tuple(s))", meta, rnd, symbolic=False))
            else:
                out.append(mkcase(cid, {"s": s1}, f"out = ndx.{which}(s)", f"out = np.{which}(tuple(s))", meta, rnd, symbolic=False))
    # full / full_like with a NULL scalar fill of a nullable dtype: every element of the result is null
    for k in range(max(4, n // 25)):
        d = rnd.choice(["nint64", "nfloat64", "nint32"])
        sh = ops.rand_shape(rnd, 2, 0.1, (1, 2, 3))
        pay = rnd.choice(["5", "0", "-3"])
        npd = ops.base(d)
        meta = {"func": "full", "dtype": d, "dclass": dclass(d), "fill": "null-scalar"}
        fill = f"ndx.asarray(np.ma.masked_array(np.array({pay}, dtype=np.{npd}), mask=True))"
        out.append(mkcase(f"{prefix}-nullfill-{k}", {}, f"out = ndx.full({sh!r}, {fill})",
                          f"out = np.ma.masked_array(np.full({sh!r}, {pay}, dtype=np.{npd}), mask=np.ones({sh!r}, dtype=bool))", meta, rnd))

    # asarray of Python sequences whose elements are NumPy scalars / rows: the dtype is the elements' own dtype
    for k in range(max(6, n // 20)):
        npd = rnd.choice(["int8", "int16", "int32", "uint8", "uint16", "float32", "int64", "bool"])
        vals = {"bool": ["True", "False"], "float32": ["1.5", "-2.0", "0.25"]}.get(npd, ["1", "2", "3"] if npd.startswith("u") else ["1", "-2", "3"])
        form = rnd.choice(["[{e}]", "({e},)", "[[{e}], [{e}]]"])
        elems = ", ".join(f"np.{npd if npd != 'bool' else 'bool_'}({rnd.choice(vals)})" for _ in range(rnd.randint(1, 3)))
        if rnd.random() < 0.3:
            lit = f"[np.array([{', '.join(vals[:2])}], dtype=np.{npd if npd != 'bool' else 'bool_'}), np.array([{', '.join(vals[:2])}], dtype=np.{npd if npd != 'bool' else 'bool_'})]"
        else:
            lit = form.replace("{e}", elems)
        meta = {"func": "asarray", "dtype": npd, "dclass": dclass(npd), "source": "sequence-of-numpy-scalars"}
        out.append(mkcase(f"{prefix}-seq-{k}", {}, f"out = ndx.asarray({lit})", f"out = np.asarray({lit})", meta, rnd))

    return out


# -------------------------------------------------------------------------------- casts ---

def cast_cases(rnd, n, prefix="K"):
    from harness_consts import ALL
    out = []
    pairs = [(a, b) for a in ALL for b in ALL]
    rnd.shuffle(pairs)
    i = 0
    while len(out) < n and i < len(pairs) * 3:
        a, b = pairs[i % len(pairs)]
        i += 1
        ba, bb = ops.base(a), ops.base(b)
        cid = f"{prefix}-{len(out)}-{a}-{b}"
        meta = {"func": "astype", "src": a, "dst": b, "dtype": a, "dclass": dclass(a), "dst_class": dclass(b)}
        sh = ops.rand_shape(rnd, 2, 0.1)
        x = ops.tensor(rnd, a, sh, "small")
        # in-range values only
        if ba in ops.FLOATS and bb in ops.INTS:
            lo, hi = ops.IINFO[bb]
            vals = [rnd.choice([0.0, 1.0, 2.5, 3.99, 100.75, -0.5 if lo < 0 else 0.5, -2.5 if lo < 0 else 2.5, -1.0 if lo < 0 else 1.0, float(min(hi, 2**24))]) for _ in range(ops.prod(sh))]
            x["data"] = [ops.fhex(ops.f32(v) if ba == "float32" else v) for v in vals]
        elif ba in ops.INTS and bb in ops.INTS:
            lo, hi = ops.IINFO[bb]
            lo2, hi2 = ops.IINFO[ba]
            x["data"] = [rnd.choice([max(lo, lo2), min(hi, hi2), 0, 1, min(hi, hi2) // 2]) for _ in range(ops.prod(sh))]
        elif ba in ops.INTS and bb in ops.FLOATS:
            lo2, hi2 = ops.IINFO[ba]
            x["data"] = [rnd.choice([lo2, hi2, 0, 1, hi2 // 3, min(hi2, 16777217), min(hi2, 2**53 + 1)]) for _ in range(ops.prod(sh))]
        elif ba in ops.INTS and bb == "utf8":
            lo2, hi2 = ops.IINFO[ba]
            x["data"] = [rnd.choice([lo2, hi2, 0, 1, hi2 - 1, hi2 // 2 + 1, 42]) for _ in range(ops.prod(sh))]
        elif ba == "utf8" and bb in ops.INTS:
            lo, hi = ops.IINFO[bb]
            x["data"] = ["s:" + str(rnd.choice([0, 1, hi, lo, 42])) for _ in range(ops.prod(sh))]
        elif ba == "utf8" and bb != "utf8":
            meta["scope"] = "text->float/bool (outside the property's explicit list)"
            continue
        elif bb == "utf8" and ba in ops.FLOATS + ["bool"]:
            continue
        npd = "np.str_" if bb == "utf8" else f"np.{bb}"
        if ops.nullable(a) and not ops.nullable(b):
            out.append(mkcase(cid, {"x": x}, f"out = ndx.astype(x, ndx.{b})", "raise TypeError('nullable -> core must raise')", meta, rnd, raise_family=["TE"], symbolic=False))
            continue
        if ops.nullable(b):
            orc = f"out = mk(data(x).astype({npd}), mask(x))"
        else:
            orc = f"out = x.astype({npd})"
        impl = f"out = ndx.astype(x, ndx.{b})"
        if bb in ops.INTS + ops.FLOATS and a != b and rnd.random() < 0.25:
            # the same cast again after an earlier result of it has been written to: casts are independent values
            impl = f"y_ = ndx.astype(x, ndx.{b}); y_[...] = 1; out = ndx.astype(x, ndx.{b})"
            meta["history"] = "cast-write-cast"
        out.append(mkcase(cid, {"x": x}, impl, orc, meta, rnd, symbolic=False))
    # special values through casts to a nullable dtype: no null may be invented
    for k in range(max(6, n // 12)):
        a = rnd.choice(["float64", "float32"])
        b = rnd.choice(["nfloat64", "nfloat32"])
        sh = [rnd.choice([2, 3, 4])]
        vals = [rnd.choice([float("nan"), float("inf"), float("-inf"), 1.5, -0.0, 0.0]) for _ in range(sh[0])]
        x = {"dtype": a, "shape": sh, "data": [ops.fhex(ops.f32(v) if a == "float32" and v == v and abs(v) != float("inf") else v) for v in vals]}
        meta = {"func": "astype", "src": a, "dst": b, "dtype": a, "dclass": dclass(a), "dst_class": dclass(b), "history": "special-values"}
        if rnd.random() < 0.5:
            form, orc = f"out = ndx.astype(x, ndx.{b})", f"out = mk(x.astype(np.{b[1:]}), np.zeros(x.shape, bool))"
        else:       # promotion of the plain operand by a nullable one of the same value dtype
            form = f"out = x + ndx.asarray(np.ma.masked_array(np.zeros({sh!r}, dtype=np.{a}), mask=False))"
            orc = f"out = mk(x + np.zeros({sh!r}, dtype=np.{a}), np.zeros(x.shape, bool))"
            meta = dict(meta, dst="n" + a, dst_class=dclass("n" + a))
        c = mkcase(f"{prefix}-special-{k}", {"x": x}, form, orc, meta, rnd, (1e-7, 0.0) if "float32" in (a, b) else (0.0, 0.0), symbolic=False)
        c["lazy_subsets"] = [{"names": ["x"]}]
        out.append(c)
    # subnormal values: non-zero is non-zero (the expectation is a literal: nothing in this process may round it)
    for k in range(max(3, n // 40)):
        vals = [rnd.choice(["0x0.0000000000001p-1022", "0x0.8p-1022", "-0x0.0000000000001p-1022", "0x0.0p+0", "0x1.0p-1022", "-0x0.0p+0"]) for _ in range(4)]
        x = {"dtype": "float64", "shape": [4], "data": vals}
        exp = [v not in ("0x0.0p+0", "-0x0.0p+0") for v in vals]
        meta = {"func": "astype", "src": "float64", "dst": "bool", "dtype": "float64", "dclass": "float", "dst_class": "bool", "history": "subnormal"}
        c = mkcase(f"{prefix}-subnormal-{k}", {"x": x}, "w_ = ndx.asarray(np.array([1.5])) * 2; out = ndx.astype(x, ndx.bool)", f"out = np.array({exp!r})", meta, rnd, symbolic=False)
        c["lazy_subsets"] = []
        out.append(c)
    # chains of casts: every link rounds / truncates (a chain is not the cast to the last dtype)
    chains = [("float64", "float32", "float64", [0.1, 1 / 3, 100.7, -2.3, 1.0e-3, 16777217.0]), ("float64", "int32", "float64", [2.5, -2.5, 100.75, 0.99, -0.5]),
              ("int64", "float32", "int64", [16777217, 33554435, -16777219, 5, 0]), ("float32", "float64", "float32", [0.1, 2.5, -7.25]),
              ("int32", "int8", "int32", [5, -7, 127, -128, 0]), ("float64", "float32", "int64", [16777217.0, 2.9999999999, -0.9999999999, 7.0]),
              ("nfloat64", "nfloat32", "nfloat64", [0.1, 1 / 3, 100.7]), ("float64", "float16", "float64", [0.1, 2049.0, 1 / 3])]
    for k in range(max(6, n // 10)):
        a, m, b, vals = rnd.choice(chains)
        if "float16" in (a, m, b):
            continue
        sh = [rnd.choice([1, 2, 3, 4])]
        ba = ops.base(a)
        data = [rnd.choice(vals) for _ in range(sh[0])]
        x = {"dtype": a, "shape": sh, "data": [ops.fhex(ops.f32(v) if ba == "float32" else float(v)) for v in data] if ba in ops.FLOATS else [int(v) for v in data]}
        if ops.nullable(a):
            x["mask"] = [rnd.random() < 0.3 for _ in data]
            orc = f"out = mk(data(x).astype(np.{ops.base(m)}).astype(np.{ops.base(b)}), mask(x))"
        else:
            orc = f"out = x.astype(np.{m}).astype(np.{b})"
        meta = {"func": "astype", "src": a, "dst": b, "via": m, "dtype": a, "dclass": dclass(a), "dst_class": dclass(b), "history": "cast-chain"}
        form = rnd.choice(["out = ndx.astype(ndx.astype(x, ndx.{m}), ndx.{b})", "out = x.astype(ndx.{m}).astype(ndx.{b})"])
        out.append(mkcase(f"{prefix}-chain-{k}", {"x": x}, form.format(m=m, b=b), orc, meta, rnd, symbolic=False))
    return out


# ------------------------------------------------------- histories on one array object ---

def call_update_call(rnd, cases, k, suffix="cuc"):
    """From single-statement cases `out = F(x, ...)` build `x_ = x.copy(); r0_ = F(x_, ...); x_[0,..,0] = v; out = F(x_, ...)`:
    the second call on the SAME array object after an in-place update must see the update (no result, cast or
    metadata may be remembered on the object).  Oracle: the original oracle on the updated NumPy array."""
    import re as _re
    out = []
    pool = [c for c in cases if c.get("oracle") and c["impl"].startswith("out = ") and ";" not in c["impl"] and "\n" not in c["impl"]
            and c["inputs"] and "to_numpy" not in c["impl"]]
    rnd.shuffle(pool)
    for c in pool:
        if len(out) >= k:
            break
        name = rnd.choice(sorted(c["inputs"]))
        t = c["inputs"][name]
        if not t["shape"] or ops.prod(t["shape"]) == 0 or not _re.search(r"\b%s\b" % name, c["impl"][6:]):
            continue
        b = ops.base(t["dtype"])
        d0 = t["data"][0]
        if ops.nullable(t["dtype"]):
            continue
        if b == "bool":
            lit = "False" if d0 else "True"
        elif b in ops.INTS:
            lo, hi = ops.IINFO[b]
            lit = str(d0 + 1 if d0 < min(hi, 100) else d0 - 1)
            if c["meta"].get("func") == "searchsorted" and name == "x1":      # x1 must stay sorted
                if d0 <= lo:
                    continue
                lit = str(d0 - 1)
        elif b in ops.FLOATS:
            lit = "3.0" if d0 == ops.fhex(7.0) else "7.0"
            if c["meta"].get("func") == "searchsorted" and name == "x1":
                if d0 in ("nan", "inf", "-inf"):
                    continue
                lit = repr(float.fromhex(d0) - 1.0) if isinstance(d0, str) else repr(float(d0) - 1.0)
        elif b == "utf8":
            w = len(d0) - 2          # NumPy's fixed-width string arrays would truncate a longer replacement
            if w <= 0:
                continue
            lit = repr("z" * w) if d0 != "s:" + "z" * w else repr("y" * w)
        else:
            continue
        idx = ", ".join("0" for _ in t["shape"])
        body = _re.sub(r"\b%s\b" % name, name + "_", c["impl"][6:])
        impl = f"{name}_ = {name}.copy(); r0_ = {body}; {name}_[{idx}] = {lit}; out = {body}"
        orc = f"{name} = {name}.copy(); {name}[{idx}] = {lit}; " + c["oracle"]
        n = dict(c)
        n.update({"id": f"{c['id']}-{suffix}", "impl": impl, "oracle": orc, "meta": dict(c["meta"], history="call-update-call")})
        out.append(n)
    return out


def flag_flip_first(rnd, cases, k, suffix="ff"):
    """From single-statement cases `out = F(x, ..., flag=B, ...)` build `r0_ = F(x, ..., flag=not B, ...); out = F(x, ..., flag=B, ...)`:
    the same call with the OTHER value of a boolean keyword (keepdims, include_initial, descending, stable) made first, in
    the same process, on the same operands, must not influence the result (no memo may be keyed without the flag).
    Oracle: the original oracle."""
    import re as _re
    out = []
    pool = [c for c in cases if c.get("oracle") and c["impl"].startswith("out = ") and ";" not in c["impl"] and "\n" not in c["impl"]
            and _re.search(r"\b(keepdims|include_initial|descending|stable)=(True|False)", c["impl"])]
    rnd.shuffle(pool)
    for c in pool[:k]:
        body = c["impl"][6:]
        flags = _re.findall(r"\b(keepdims|include_initial|descending|stable)=(True|False)", body)
        name, val = rnd.choice(flags)
        other = _re.sub(r"\b%s=%s" % (name, val), f"{name}={'False' if val == 'True' else 'True'}", body)
        n = dict(c)
        n.update({"id": f"{c['id']}-{suffix}", "impl": f"r0_ = {other}; out = {body}", "meta": dict(c["meta"], history="flag-flip-first", flipped=name)})
        out.append(n)
    return out


def mixed_dtype_cases(rnd, n, prefix="MD"):
    """Binary element-wise calls whose operands have DIFFERENT dtypes of one kind (the library casts one or both
    operands before the kernel runs); values small so that every result is representable."""
    pairs = [("int32", "int64"), ("int8", "int16"), ("int16", "int64"), ("uint8", "int16"), ("uint8", "uint32"), ("int8", "int32"),
             ("float32", "float64"), ("int16", "float32"), ("int32", "float64"), ("uint16", "int32")]
    fns = ["add", "subtract", "multiply", "less", "greater_equal", "equal", "not_equal"]
    out = []
    while len(out) < n:
        f = rnd.choice(fns)
        d1, d2 = rnd.choice(pairs)
        if rnd.random() < 0.5:
            d1, d2 = d2, d1
        a, b = ops.broadcast_pair(rnd, 2, 0.05)
        x, y = ops.tensor(rnd, d1, a, "small"), ops.tensor(rnd, d2, b, "small")
        meta = {"func": f, "dtype": d1, "dtype2": d2, "dclass": dclass(d1), "style": "mixed-dtypes"}
        npf = {"less": "less", "greater_equal": "greater_equal", "equal": "equal", "not_equal": "not_equal"}.get(f, f)
        out.append(mkcase(f"{prefix}-{len(out)}-{f}", {"x": x, "y": y}, f"out = ndx.{f}(x, y)", f"out = np.{npf}(x, y)", meta, rnd, ew_tol(f, d1)))
    return out
