"""Run generic op cases through the implementation worker and analyse the outcomes."""
from __future__ import annotations

import json

from vlib import core, ops

ONNX_ELEM = {1: "float32", 2: "uint8", 3: "int8", 4: "uint16", 5: "int16", 6: "int32", 7: "int64", 8: "utf8",
             9: "bool", 11: "float64", 12: "uint32", 13: "uint64"}


def dclass(d: str) -> str:
    b = ops.base(d)
    k = "bool" if b == "bool" else "str" if b == "utf8" else "float" if b in ops.FLOATS else "uint" if b.startswith("u") else "int"
    return ("n" if ops.nullable(d) else "") + k


COMPOSITE = ("expm1", "log1p", "logaddexp", "atan2", "sin", "cos")


def composite_region(case, a_ok, b_ok):
    """For the functions that ndonnx computes by a composite formula: WHERE in the domain the two results differ
    (the known weaknesses are regional; anything outside them is a new finding)."""
    try:
        import numpy as np
        f = case["meta"]["func"]
        dec = lambda t: np.array([float("nan") if v == "nan" else float("inf") if v == "inf" else float("-inf") if v == "-inf" else (float.fromhex(v) if isinstance(v, str) else float(v))
                                  for v in t["data"]], dtype=np.float64).reshape(t["shape"])
        ins = [dec(case["inputs"][k]) for k in sorted(case["inputs"])][:2]
        A, B = dec(a_ok), dec(b_ok)
        if A.shape != B.shape:
            return "shape"
        if f in ("logaddexp", "atan2") and len(ins) < 2:
            return "python-scalar"          # the second operand is a literal inside the program text
        ins = [np.broadcast_to(x, A.shape) for x in ins]
        f32 = "32" in case["meta"].get("dtype", "")
        eps = 1.2e-7 if f32 else 2.3e-16
        regs = set()
        for idx in np.ndindex(*A.shape):
            u, v = A[idx], B[idx]
            if (np.isnan(u) and np.isnan(v)) or u == v or (np.isfinite(u) and np.isfinite(v) and abs(u - v) <= 64 * eps * max(abs(u), abs(v))):
                continue
            x = ins[0][idx]
            y = ins[1][idx] if len(ins) > 1 else None
            if f in ("sin", "cos"):
                # onnxruntime's kernels are accurate to a few ulp of 1.0, not of a small result
                regs.add("small-absolute-error" if (np.isfinite(u) and np.isfinite(v) and abs(u - v) <= 8 * eps) else "other")
            elif f in ("expm1", "log1p"):
                regs.add("near-zero" if abs(x) < 0.5 else "other")
            elif f == "logaddexp":
                if np.isinf(x) and np.isinf(y) and x == y:
                    regs.add("equal-infinities")
                elif np.isfinite(u) and np.isfinite(v) and abs(u) < 0.5 and abs(u - v) <= 8 * eps:
                    regs.add("near-zero")           # log(1 + small): absolute error of a few ulp of 1.0
                elif np.isfinite(x) and np.isfinite(y) and max(abs(x), abs(y)) > (80.0 if f32 else 700.0):
                    regs.add("overflow")
                elif (np.isinf(x) or np.isinf(y)):
                    regs.add("infinite-operand")
                else:
                    regs.add("other")
            elif f == "atan2":      # inputs sorted by name: x (first argument, y-coordinate), y (second, x-coordinate)
                regs.add("quadrant" if (y < 0 or (y == 0 and np.signbit(y))) else "x-zero" if y == 0 else "infinite-operand" if (np.isinf(x) or np.isinf(y)) else "other")
        return "+".join(sorted(regs)) or "tolerance"
    except Exception as e:      # the region is advisory; never let it break a check
        return "unknown:" + type(e).__name__


def attrs_of(case, kind, mode):
    a = dict(case.get("meta", {}))
    a.update({"kind": kind, "mode": mode, "zero_extent": ops.has_zero(case)})
    return a


def replay_of(case, res, mode):
    return {"case": {k: case[k] for k in ("id", "inputs", "impl", "oracle", "lazy_subsets", "meta") if k in case},
            "mode": mode, "outcomes": res,
            "how_to_replay": "cd /verif && ./check <ID> --replay <this file>  (runs tools/harness/h_ops.py on the case)"}


def flatten_meta(m):
    if m is None:
        return []
    if isinstance(m, list):
        out = []
        for x in m:
            out += flatten_meta(x)
        return out
    return [m]


def flatten_val(v):
    if "tuple" in v:
        out = []
        for x in v["tuple"]:
            out += flatten_val(x)
        return out
    return [v]


def analyse(ctx, case, r, want=("oracle", "traced", "static")):
    """Returns the number of findings raised (known or not)."""
    if case.get("static_only"):
        want = tuple(w for w in want if w == "static")
    tol = case.get("tol", (0.0, 0.0))
    n = 0
    what_prefix = f"{case.get('meta', {}).get('func', '?')} [{case['id']}]"
    if r is None or "crash" in r or "timeout" in r or "handler_error" in r:
        kind = "crash" if r and "crash" in r else "timeout" if r and "timeout" in r else "handler_error"
        if kind == "handler_error":
            ctx.broken_machinery.append(f"handler error on {case['id']}: {r}")
            return 0
        ctx.finding(attrs_of(case, kind, "any"), f"{what_prefix}: interpreter {kind} ({r})", replay_of(case, r, "any"))
        return 1
    orc, eg = r.get("oracle"), r.get("eager")
    ref = None
    if eg is not None and "oracle" in want and orc is not None:
        ko, ke = ops.outcome_kind(orc), ops.outcome_kind(eg)
        if ko == "ok" and ke == "ok":
            why = ops.cmp_arrays(orc["ok"], eg["ok"], tol[0], tol[1], check_dtype=case.get("check_dtype", True),
                                 erase_masked=case.get("erase_masked", True))
            if why:
                n += 1
                at = attrs_of(case, why, "eager")
                if why == "value" and case.get("meta", {}).get("func") in COMPOSITE:
                    at["region"] = composite_region(case, orc["ok"], eg["ok"])
                ctx.finding(at, f"{what_prefix}: eager result differs from NumPy ({why})" + (f" [{at['region']}]" if "region" in at else ""), replay_of(case, r, "eager"))
        elif ko == "ok" and ke != "ok":
            n += 1
            ctx.finding(attrs_of(case, "raises", "eager"), f"{what_prefix}: NumPy succeeds, ndonnx {ke}: {eg.get('msg', '')[:80]}", replay_of(case, r, "eager"))
        elif ko != "ok" and ke == "ok" and case.get("must_raise"):
            n += 1
            ctx.finding(attrs_of(case, "accepts", "eager"), f"{what_prefix}: should be rejected ({ko}) but returns", replay_of(case, r, "eager"))
        elif ko != "ok" and ke != "ok" and case.get("raise_family"):
            if ke.split(":", 1)[1] not in case["raise_family"]:
                n += 1
                ctx.finding(attrs_of(case, "wrong-exception", "eager"), f"{what_prefix}: raises {ke}, expected one of {case['raise_family']}", replay_of(case, r, "eager"))
    if eg is not None and ops.outcome_kind(eg) == "ok":
        ref = eg["ok"]
    elif orc is not None and ops.outcome_kind(orc) == "ok" and eg is None:
        ref = orc["ok"]
    for m_ in flatten_meta((eg or {}).get("meta")) + [m for tr in r.get("traced", []) for m in flatten_meta(tr.get("meta") if isinstance(tr, dict) else None)]:
        if m_ and "fields" in m_ and m_["fields"][0] != m_["fields"][1]:
            n += 1
            ctx.finding(attrs_of(case, "field-order", "any"), f"{what_prefix}: the result lists its fields as {m_['fields'][0]}, its dtype {m_['dtype']} declares {m_['fields'][1]}", replay_of(case, r, "any"))
            break
    if "traced" in want or "static" in want:
        for sub, tr in zip(case.get("lazy_subsets", []), r.get("traced", [])):
            mode = "traced:" + ",".join(sub["names"])
            kt = ops.outcome_kind(tr) if "meta" not in tr else "ok"
            if kt != "ok":
                if ref is not None and "traced" in want:
                    n += 1
                    ctx.finding(attrs_of(case, "trace-" + kt.split(":")[0], "traced"), f"{what_prefix}: evaluates eagerly but tracing/export fails ({kt}: {tr.get('msg', '')[:80]})", replay_of(case, r, mode))
                elif eg is not None and ops.outcome_kind(eg) != "ok" and case.get("raise_family") and "raise" in tr:
                    if tr["raise"] not in case["raise_family"]:
                        n += 1
                        ctx.finding(attrs_of(case, "wrong-exception", "traced"), f"{what_prefix}: traced raises {tr['raise']}", replay_of(case, r, mode))
                continue
            # the declared dimensions of the field tensors of one struct-typed output are one shape
            gout = tr.get("gout") or {}
            byname = {}
            for nm, t_ in gout.items():
                for suf in ("_values", "_null"):
                    if nm.endswith(suf):
                        byname.setdefault(nm[: -len(suf)], {})[suf] = t_.get("dims")
            for nm, fs in byname.items():
                a_, b_ = fs.get("_values"), fs.get("_null")
                if len(fs) == 2 and a_ is not None and b_ is not None and (
                        len(a_) != len(b_) or any(isinstance(p_, int) and isinstance(q_, int) and p_ != q_ for p_, q_ in zip(a_, b_))):
                    n += 1
                    ctx.finding(attrs_of(case, "field-dims", "traced"), f"{what_prefix}: the exported fields of `{nm}` declare different dimensions: values {fs['_values']}, null {fs['_null']}", replay_of(case, r, mode))
                    break
            for ri, run in enumerate(tr.get("runs", [])):
                kr = ops.outcome_kind(run)
                expect = ref if not sub.get("feeds") else None
                if kr != "ok" and "FIELD-SHAPES" in str(run.get("msg", "")):
                    n += 1
                    ctx.finding(attrs_of(case, "field-shapes", "traced"), f"{what_prefix}: {run.get('msg', '')[:160]}", replay_of(case, r, mode))
                    continue
                if kr != "ok":
                    if expect is not None and "traced" in want:
                        n += 1
                        ctx.finding(attrs_of(case, "run-" + kr.split(":")[0], "traced"), f"{what_prefix}: exported model fails at run time ({run.get('msg', run)!s:.100})", replay_of(case, r, mode))
                    continue
                if expect is not None and "traced" in want:
                    why = ops.cmp_arrays(expect, run["ok"], tol[0], tol[1], erase_masked=case.get("erase_masked", True))
                    if why:
                        n += 1
                        ctx.finding(attrs_of(case, "traced-" + why, "traced"), f"{what_prefix}: exported model differs from eager evaluation ({why})", replay_of(case, r, mode))
                if "static" in want:
                    n += static_check(ctx, case, r, tr, run, mode, what_prefix)
            if "fold" in want and not sub["names"]:
                extra = [o for o in tr.get("ops", []) if o not in ("Constant", "Identity")]
                if extra:
                    n += 1
                    ctx.finding(attrs_of(case, "not-folded", "traced"), f"{what_prefix}: all inputs hold data but the graph has compute nodes {extra}", replay_of(case, r, mode))
    return n


def static_check(ctx, case, r, tr, run, mode, what_prefix):
    n = 0
    metas = flatten_meta(tr.get("meta"))
    vals = flatten_val(run["ok"])
    gout = tr.get("gout", {})
    for i, (m, v) in enumerate(zip(metas, vals)):
        if m is None or "shape" not in v:
            continue
        bad = None
        if m["dtype"] != v["dtype"]:
            bad = f"static dtype {m['dtype']} vs run {v['dtype']}"
        elif v.get("np_dtype") and ops.base(v["np_dtype"]) != ops.base(m["dtype"]) and not m["dtype"].startswith("struct"):
            bad = f"static dtype {m['dtype']} vs run-time element type {v['np_dtype']}"
        elif isinstance(m["ndim"], int) and m["ndim"] != len(v["shape"]):
            bad = f"static ndim {m['ndim']} vs run rank {len(v['shape'])}"
        elif isinstance(m["shape"], list):
            if len(m["shape"]) != len(v["shape"]) or any(s is not None and s != t for s, t in zip(m["shape"], v["shape"])):
                bad = f"static shape {m['shape']} vs run shape {v['shape']}"
        if bad:
            n += 1
            ctx.finding(attrs_of(case, "static-metadata", "traced"), f"{what_prefix}: {bad}", replay_of(case, r, mode))
    # declared graph outputs: element type and every integer dimension must match run time
    prefixes = ["out"] if len(vals) == 1 and "out" in gout or any(k.startswith("out_") for k in gout) and len(vals) == 1 else [f"out{i}" for i in range(len(vals))]
    for pfx, v in zip(prefixes, vals):
        if "shape" not in v:
            continue
        for name, g in gout.items():
            if name == pfx or (name.startswith(pfx + "_") and name[len(pfx) + 1:] in ("values", "null")):
                want_elem = "bool" if name.endswith("_null") else ops.base(v["dtype"])
                bad = None
                if ONNX_ELEM.get(g["elem"]) != want_elem:
                    bad = f"graph output {name} declares element type {ONNX_ELEM.get(g['elem'])}, run time {want_elem}"
                elif g["dims"] is not None and (len(g["dims"]) != len(v["shape"]) or any(isinstance(a, int) and a != b for a, b in zip(g["dims"], v["shape"]))):
                    bad = f"graph output {name} declares dims {g['dims']}, run-time shape {v['shape']}"
                if bad:
                    n += 1
                    ctx.finding(attrs_of(case, "static-metadata", "traced"), f"{what_prefix}: {bad}", replay_of(case, r, mode))
    return n


def evaluate(ctx, cases, want=("oracle", "traced", "static"), workers=14, per_case_timeout=120.0, handler="harness.h_ops"):
    res = core.run_cases(handler, cases, workers=workers, per_case_timeout=per_case_timeout)
    total = 0
    for c in cases:
        r = res.get(c["id"])
        total += analyse(ctx, c, r, want)
        key = json.dumps([c.get("meta"), c["inputs"], c["impl"]], sort_keys=True, default=str)
        nontriv = any(ops.prod(t["shape"]) >= 2 or len(t["shape"]) >= 1 for t in c["inputs"].values()) if c["inputs"] else True
        ctx.count(hash(key), nontrivial=nontriv)
    return res, total
