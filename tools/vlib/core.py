"""Common machinery of the /verif checks: paths, Coq runner, evidence, known findings,
crash-isolated implementation runner.  Pure stdlib (runs under /venv/bin/python)."""
from __future__ import annotations

import hashlib
import json
import os
import re
import signal
import subprocess
import sys
import time
from pathlib import Path

VERIF = Path(__file__).resolve().parents[2]
REPO = Path(os.environ.get("VERIF_REPO", "/repo"))
COQ = VERIF / "coq"
WORK = VERIF / ".work"
PY = "/venv/bin/python"
GUARD = "NDONNX_VERIF"

KERNEL_TB = [
    "Coq 8.16.1 kernel + vm_compute (no native_compute); coqc exit status is the verdict",
    "tools/vlib (this harness: generators, canonicaliser, Coq literal printers)",
]


def impl_env() -> dict:
    env = dict(os.environ)
    env["PYTHONPATH"] = f"{REPO}:{VERIF / 'tools'}"
    env["PYTHONHASHSEED"] = "0"
    env[GUARD] = "1"
    env["PYTHONWARNINGS"] = "ignore"
    env["OMP_NUM_THREADS"] = "1"
    env["ORT_DISABLE_ALL_LOGS"] = "1"
    return env


def sha256_file(p: Path) -> str:
    return hashlib.sha256(Path(p).read_bytes()).hexdigest()


# --------------------------------------------------------------------------- Coq ---------


def ensure_static_build(timeout: int = 1500) -> tuple[bool, str]:
    """(Re)build the hand-written development if stale.  Under a lock so that concurrent
    checks do not race."""
    import fcntl

    lock = open(COQ / ".build.lock", "w")
    fcntl.flock(lock, fcntl.LOCK_EX)
    try:
        if not (COQ / "Makefile").exists() or (COQ / "_CoqProject").stat().st_mtime > (
            COQ / "Makefile"
        ).stat().st_mtime:
            r = subprocess.run(
                ["coq_makefile", "-f", "_CoqProject", "-o", "Makefile"],
                cwd=COQ, capture_output=True, text=True,
            )
            if r.returncode != 0:
                return False, r.stdout + r.stderr
        r = subprocess.run(
            ["timeout", str(timeout), "make", "-j12"], cwd=COQ, capture_output=True, text=True
        )
        return r.returncode == 0, (r.stdout + r.stderr)[-6000:]
    finally:
        fcntl.flock(lock, fcntl.LOCK_UN)
        lock.close()


def coqc(vfile: Path, workdir: Path, timeout: int = 600) -> tuple[bool, str, float]:
    """Compile one generated/tie/props file living in `workdir` (logical root `G`)."""
    t0 = time.time()
    cmd = ["timeout", str(timeout), "coqc", "-noglob", "-Q", str(COQ), "ND", "-Q", str(workdir), "G", str(vfile)]
    r = subprocess.run(cmd, cwd=workdir, capture_output=True, text=True)
    return r.returncode == 0, r.stdout + r.stderr, time.time() - t0


def coqc_cmdline(vfile: str) -> str:
    return f"coqc -Q /verif/coq ND -Q /verif/.work/<ID> G {vfile}"


_ASSUME_RE = re.compile(r"^(Closed under the global context|Axioms:)", re.M)


def parse_assumptions(out: str) -> list[str]:
    """Return the blocks printed by `Print Assumptions` in a coqc output."""
    blocks, cur = [], None
    for line in out.splitlines():
        if line.startswith("Closed under the global context"):
            if cur is not None:
                blocks.append(cur)
                cur = None
            blocks.append("Closed under the global context")
        elif line.startswith("Axioms:"):
            if cur is not None:
                blocks.append(cur)
            cur = "Axioms:"
        elif cur is not None:
            if line.startswith(" ") or line.strip() == "" or re.match(r"^[A-Za-z_.0-9']+ *:", line) or line.startswith("  "):
                cur += "\n" + line
            else:
                blocks.append(cur)
                cur = None
    if cur is not None:
        blocks.append(cur)
    return blocks


# ------------------------------------------------------------------ Coq literal printers --


def cz(n: int) -> str:
    return f"({n})%Z" if n < 0 else f"{n}%Z"


def cnat(n: int) -> str:
    assert 0 <= n < 5000, n
    return f"{n}%nat"


def cbool(b) -> str:
    return "true" if b else "false"


def clist(items, sep="; ") -> str:
    return "[" + sep.join(items) + "]"


def copt(x, f) -> str:
    return "None" if x is None else f"(Some {f(x)})"


def cstring(s: str) -> str:
    assert all(32 <= ord(ch) < 127 and ch != '"' for ch in s), s
    return '"' + s + '"'


# ------------------------------------------------------------------------- findings -----


class KnownFindings:
    def __init__(self, prop: str):
        p = VERIF / "known_findings.json"
        data = json.loads(p.read_text()) if p.exists() else {"findings": []}
        self.entries = [e for e in data["findings"] if e["property"] == prop]
        self.seen: dict[str, dict] = {}

    def match(self, attrs: dict):
        for e in self.entries:
            if e.get("status") != "known":
                continue
            ok = True
            for k, v in e["match"].items():
                a = attrs.get(k)
                if k == "region" and isinstance(v, list) and isinstance(a, str):
                    # a finding may span several regions of the domain: every one of them must be a listed one
                    if not all(part in v for part in a.split("+")):
                        ok = False
                        break
                elif isinstance(v, list):
                    if a not in v:
                        ok = False
                        break
                elif a != v:
                    ok = False
                    break
            if ok:
                return e
        return None


# --------------------------------------------------------------------------- context ----


class Ctx:
    """One run of one property's check."""

    def __init__(self, prop: str, tier: str, seed: int):
        self.prop, self.tier, self.seed = prop, tier, seed
        self.t0 = time.time()
        self.work = WORK / prop
        self.work.mkdir(parents=True, exist_ok=True)
        for f in self.work.glob("*"):
            if f.is_file():
                f.unlink()
        rd = VERIF / "replays" / prop
        if rd.exists():
            for f in rd.glob("*.json"):
                f.unlink()
        self.known = KnownFindings(prop)
        self.obligations: list[dict] = []
        self.violations: list[dict] = []
        self.known_seen: dict[str, str] = {}
        self.coverage: dict = {}
        self.samples: list = []
        self.evaluations = 0
        self.nontrivial: set = set()
        self.assumptions: list[str] = []
        self.checker_cmds: list[str] = []
        self.trusted: list[str] = list(KERNEL_TB)
        self.assumes: list[str] = []
        self.notes: list[str] = []
        self.broken_machinery: list[str] = []
        self.translator_inputs: dict[str, str] = {}
        self.not_discharged: list[str] = []
        self.out_of_scope: list = []
        self.changed: list[str] = []      # T-snap: functions whose text differs from the transcription basis
        self.deep = False                 # set when the source changed: generators may deepen their search
        self._replay_n = 0

    # -- obligations (theorems, ties) --
    def obligation(self, name: str, ok: bool, detail: str = "", kind: str = "theorem"):
        self.obligations.append({"name": name, "ok": bool(ok), "kind": kind, "detail": detail[-1500:]})
        return ok

    def compile(self, name: str, vfile: Path, kind: str = "tie", timeout: int = 600):
        ok, out, dt = coqc(vfile, self.work, timeout)
        self.checker_cmds.append(coqc_cmdline(vfile.name))
        for b in parse_assumptions(out):
            if b not in self.assumptions:
                self.assumptions.append(b)
        self.obligation(name, ok, out if not ok else f"{dt:.1f}s", kind)
        return ok, out

    def static_build(self):
        ok, out = ensure_static_build()
        self.checker_cmds.append("make -C /verif/coq (coq_makefile project, full .vo build)")
        self.obligation("static development builds (all hand-written theorems)", ok, out if not ok else "", "theorem")
        if not ok:
            self.broken_machinery.append("static Coq development failed to build:\n" + out[-3000:])
        elif not getattr(self, "_snap_done", False) and not os.environ.get("VERIF_NOSNAP"):   # VERIF_NOSNAP: dev only (seed statistics)
            # T-snap: has the text the models were transcribed from changed?  (sets self.changed / self.deep)
            self._snap_done = True
            from translate import snap
            try:
                self.changed = snap.tie(self)
            except Exception as e:      # a source file that no longer parses etc.: the tie is broken, not the machinery
                self.changed = ["?"]
                self.deep = True
                self.obligation("T-snap: anchored functions could be hashed", False, repr(e), "tie")
        return ok

    # -- cases --
    def count(self, key=None, nontrivial: bool = True, n: int = 1):
        self.evaluations += n
        if key is not None and nontrivial:
            self.nontrivial.add(key if isinstance(key, (str, int, tuple)) else json.dumps(key, sort_keys=True, default=str))

    def sample(self, s, limit: int = 6):
        if len(self.samples) < limit:
            self.samples.append(s)

    # -- findings / violations --
    def finding(self, attrs: dict, what: str, replay: dict | None = None):
        """A concrete disagreement between implementation and property.  Known → line,
        unknown → violation with a replay file."""
        e = self.known.match(attrs)
        if e is not None:
            if e["id"] not in self.known_seen:
                self.known_seen[e["id"]] = f"{e['site']}: {e['what']}"
            return False
        key = json.dumps(attrs, sort_keys=True, default=str)
        if any(v["key"] == key for v in self.violations):
            return True
        path = self._write_replay({"property": self.prop, "attrs": attrs, "what": what, "replay": replay})
        self.violations.append({"key": key, "what": what, "replay": str(path), "found_input": True})
        return True

    def broken_obligation(self, name: str, detail: str):
        """A theorem / tie no longer checks and no failing input was found."""
        path = self._write_replay({"property": self.prop, "broken_obligation": name, "detail": detail[-4000:],
                                   "note": "no failing input found by the search; the property is no longer shown to hold"})
        self.violations.append({"key": "obl:" + name, "what": name, "replay": str(path), "found_input": False})

    def _write_replay(self, obj) -> Path:
        d = VERIF / "replays" / self.prop
        d.mkdir(parents=True, exist_ok=True)
        self._replay_n += 1
        p = d / f"{self.seed}-{self._replay_n}.json"
        p.write_text(json.dumps(obj, indent=1, default=str))
        return p

    # -- finish --
    def finish(self, level: str = "proof") -> int:
        # any failed obligation without a concrete violation → no-failing-input-found
        failed = [o for o in self.obligations if not o["ok"]]
        has_input = any(v["found_input"] for v in self.violations)
        if failed and not self.broken_machinery:
            for o in failed:
                if not has_input:
                    self.broken_obligation(o["name"], o["detail"])
        for kid, msg in sorted(self.known_seen.items()):
            print(f"KNOWN-FINDING: property={self.prop} {msg} [{kid}]")
        for v in self.violations:
            tail = "" if v["found_input"] else " no-failing-input-found"
            print(f"VIOLATION property={self.prop} replay={v['replay']}{tail}")
        cov = dict(self.coverage)
        cov.update({
            "obligations": len(self.obligations),
            "discharged": sum(1 for o in self.obligations if o["ok"]),
            "checker_cmd": "; ".join(dict.fromkeys(self.checker_cmds)) or "none",
            "trusted_base": self.trusted,
            "evaluations": self.evaluations,
            "distinct_nontrivial": len(self.nontrivial),
            "samples": self.samples or ["(none)"],
            "obligation_list": [{k: o[k] for k in ("name", "ok", "kind")} for o in self.obligations],
            "assumptions_printed": self.assumptions,
            "not_discharged": self.not_discharged,
            "known_findings_seen": sorted(self.known_seen),
            "out_of_scope_observations": self.out_of_scope[:20],
            "translator_inputs": self.translator_inputs,
            "notes": self.notes,
        })
        cov.setdefault("rule", "see notes")
        ev = {
            "property_id": self.prop, "tier": self.tier, "seed": self.seed, "level": level,
            "coverage": cov, "assumptions": self.assumes, "wall_s": round(time.time() - self.t0, 2),
            "violations": len(self.violations),
        }
        (VERIF / "evidence").mkdir(exist_ok=True)
        (VERIF / "evidence" / f"{self.prop}.json").write_text(json.dumps(ev, indent=1, default=str))
        if self.broken_machinery:
            for m in self.broken_machinery:
                print("MACHINERY-ERROR:", m[:2000], file=sys.stderr)
            return 2
        return 1 if self.violations else 0


# --------------------------------------------------------------- implementation runner ---


def run_cases(handler_module: str, cases: list[dict], workers: int = 12, per_case_timeout: float = 60.0,
              extra_env: dict | None = None) -> dict:
    """Run `cases` (each has a unique 'id') through tools/harness/worker.py in crash-isolated
    subprocesses.  Returns id -> outcome dict.  A worker that dies marks the case it was on
    as {'crash': signal}; a case exceeding the limit is {'timeout': true}."""
    if not cases:
        return {}
    env = impl_env()
    if extra_env:
        env.update(extra_env)
    workers = max(1, min(workers, len(cases)))
    chunks = [cases[i::workers] for i in range(workers)]
    results: dict = {}

    import threading

    def drive(chunk):
        todo = list(chunk)
        while todo:
            p = subprocess.Popen([PY, str(VERIF / "tools/harness/worker.py"), handler_module],
                                 stdin=subprocess.PIPE, stdout=subprocess.PIPE, stderr=subprocess.DEVNULL,
                                 env=env, cwd=str(REPO), text=True, bufsize=1)
            cur = {"i": 0, "t": time.time(), "started": False}
            done_flag = {"done": False, "timed": False}

            def watchdog():
                while not done_flag["done"]:
                    time.sleep(0.5)
                    limit = per_case_timeout if cur["started"] else per_case_timeout + 60
                    if time.time() - cur["t"] > limit:
                        done_flag["timed"] = True
                        try:
                            p.kill()
                        except Exception:
                            pass
                        return

            th = threading.Thread(target=watchdog, daemon=True)
            th.start()
            def feed(todo=todo, p=p):
                try:
                    for c in todo:
                        p.stdin.write(json.dumps(c) + "\n")
                    p.stdin.close()
                except (BrokenPipeError, ValueError, OSError):
                    pass

            threading.Thread(target=feed, daemon=True).start()
            n_done = 0
            for line in p.stdout:
                line = line.strip()
                if not line.startswith("{"):
                    continue
                try:
                    o = json.loads(line)
                except Exception:
                    continue
                if o.get("_ready"):
                    cur["started"] = True
                    cur["t"] = time.time()
                    continue
                results[o["id"]] = o["out"]
                n_done += 1
                cur["i"] = n_done
                cur["t"] = time.time()
            p.wait()
            done_flag["done"] = True
            if n_done < len(todo):
                bad = todo[n_done]
                if done_flag["timed"]:
                    results[bad["id"]] = {"timeout": True}
                else:
                    rc = p.returncode
                    results[bad["id"]] = {"crash": signal.Signals(-rc).name if rc and rc < 0 else f"exit{rc}"}
                todo = todo[n_done + 1:]
            else:
                todo = []

    ths = [threading.Thread(target=drive, args=(ch,)) for ch in chunks if ch]
    for t in ths:
        t.start()
    for t in ths:
        t.join()
    return results
