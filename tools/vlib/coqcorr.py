"""In-Coq correspondence with known-finding exclusion: compile `forallb ok cases = true`;
if it fails, read the BAD index list, let the caller classify each bad case (finding: known or
new); if every bad case is a listed known finding, re-state the Example over the remaining
cases (indices excluded by name in the file) and compile that."""
from __future__ import annotations

import re


def run(ctx, fname: str, obligation: str, header: str, case_type: str, lines: list[str], ok_fn: str, on_bad, timeout=900):
    """on_bad(i) -> True if case i is a NEW violation (reported), False if it matched a known finding."""
    drop = ("Fixpoint drop_idx {A} (ks : list nat) (l : list A) (i : nat) : list A :=\n"
            "  match l with [] => [] | x :: r => if existsb (Nat.eqb i) ks then drop_idx ks r (S i) else x :: drop_idx ks r (S i) end.\n")

    def src(excl):
        ex = "[" + "; ".join(str(i) for i in excl) + "]"
        return (header + drop + f"Definition cases : list {case_type} := [\n" + ";\n".join(lines) + "\n].\n"
                + f'Eval vm_compute in ("BAD"%string, bad_idx {ok_fn} cases 0).\n'
                + f"(* cases excluded by index are listed known findings (KNOWN-FINDING lines of this run) *)\n"
                + f"Example correspondence : forallb {ok_fn} (drop_idx {ex}%nat cases 0) = true.\nProof. vm_compute. reflexivity. Qed.\n")
    f = ctx.work / fname
    f.write_text(src([]))
    from vlib import core
    ok, out, dt = core.coqc(f, ctx.work, timeout)
    ctx.checker_cmds.append(core.coqc_cmdline(fname))
    if ok:
        ctx.obligation(obligation, True, f"{dt:.1f}s", "tie")
        return True
    flat = re.sub(r"\s+", " ", out)
    m = re.search(r'\("BAD"(?:%string)?, \[(.*?)\]\)', flat)
    if not m:
        ctx.obligation(obligation, False, out, "tie")
        return False
    bad = [int(i) for i in re.findall(r"\d+", m.group(1))]
    new = [i for i in bad if on_bad(i)]
    if new:
        ctx.obligation(obligation, False, f"{len(new)} new disagreements (reported with replays); e.g. case {new[0]}", "tie")
        return False
    f.write_text(src(bad))
    ok2, out2, dt2 = core.coqc(f, ctx.work, timeout)
    ctx.obligation(obligation + f" [{len(bad)} cases excluded: listed known findings]", ok2, out2 if not ok2 else f"{dt2:.1f}s", "tie")
    return ok2
