"""Shared by C02/C03/C04/C17: regenerate the element-wise table, compile it, check a law
theorem on it, and turn law violations into findings."""
from __future__ import annotations

import re

from translate import gen_elem
from vlib import core

TPL = core.VERIF / "tools" / "templates"


def gen_table(ctx):
    specs, out, unsup = gen_elem.generate(ctx.work, ctx)
    ok, o = ctx.compile("T-graph: regenerated element-wise table compiles (GenElem.v)", ctx.work / "GenElem.v", kind="tie")
    if not ok:
        ctx.broken_machinery.append("generated table does not compile: " + o[-1500:])
    ctx.translator_inputs["tools/harness/h_graph.py"] = core.sha256_file(core.VERIF / "tools/harness/h_graph.py")
    return specs, out, unsup


def law_on_generated(ctx, thm: str, patterns: str, lawfn: str, what: str, prop_attr: str):
    """Compile `Theorem thm : forall r in GenElem.table, known_class patterns r = None -> lawfn r = true`
    and the diagnostic; report rows that violate."""
    law = (f"Theorem {thm} :\n  forall r, In r GenElem.table -> known_class {patterns} r = None -> {lawfn} r = true.\n"
           f"Proof. apply guarded_sound. vm_compute. reflexivity. Qed.")
    src = (TPL / "ElemLawsGen.v").read_text().replace("@LAW@", law).replace("@THM@", thm)
    f = ctx.work / f"{thm}.v"
    f.write_text(src)
    ok, out = ctx.compile(f"{thm} (on the regenerated table)", f, kind="theorem")
    d = ctx.work / f"{thm}_diag.v"
    d.write_text((TPL / "ElemLawsDiag.v").read_text().replace("@PS@", patterns).replace("@LAWFN@", lawfn))
    ok2, dout = core.coqc(d, ctx.work)[:2]
    flat = re.sub(r"\s+", " ", dout)
    viol, known = [], []
    m = re.search(r'\("VIOL"(?:%string)?, \[(.*?)\]\)', flat)
    if m:
        viol = [int(x) for x in re.findall(r"\d+", m.group(1))]
    m = re.search(r'\("KNOWN"(?:%string)?, \[(.*?)\]\)', flat)
    if m:
        known = re.findall(r'"([^"]+)"', m.group(1))
    return ok, viol, known


def report_rows(ctx, specs, out, viol, law_name: str):
    for i in viol:
        f, a, h, _ = specs[i]
        o = out[(f, tuple(a), h)]
        attrs = {"law": law_name, "func": f, "args": list(a), "how": h}
        ctx.finding(attrs, f"{law_name} fails for {f}{tuple(a)} via {h}: observed {short(o)}",
                    replay={"function": f, "operands": list(a), "how": h, "observed": o, "law": law_name,
                            "how_to_replay": "trace ndonnx.<function> on placeholder arrays of the operand dtypes (shape ('N',)) and inspect dtype / exception"})


def short(o):
    if "raise" in o:
        return "raises " + o.get("cls", o["raise"])
    if "dtype_only" in o:
        return "dtype " + o["dtype_only"]
    if "unsupported" in o:
        return "untranslatable graph: " + o["unsupported"][:80]
    return "dtype " + o["dtype"]


def known_classes(ctx, classes):
    for c in classes:
        for e in ctx.known.entries:
            if e["id"] == c and e.get("status") == "known":
                ctx.known_seen[c] = f"{e['site']}: {e['what']}"
                break
        else:
            ctx.broken_machinery.append(f"baseline class {c} has no entry in known_findings.json")
