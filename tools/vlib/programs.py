"""Random multi-operation programs over the public API (for C01, C06, C07, C15, C16, C18)."""
from __future__ import annotations

import random

from vlib import ops
from vlib.family import dclass

NUM = ["int32", "int64", "float32", "float64", "uint8", "int8"]


def gen_program(rnd: random.Random, cid: str, max_ops=5, dtypes=NUM, nullable_p=0.15, zero_p=0.08, symbolic=True):
    d = rnd.choice(dtypes)
    if rnd.random() < nullable_p:
        d = "n" + d
    b = ops.base(d)
    sa, sb = ops.broadcast_pair(rnd, 3, zero_p)
    style = "small"
    inputs = {"a": ops.tensor(rnd, d, sa, style), "b": ops.tensor(rnd, d, sb, style)}
    if rnd.random() < 0.4:
        inputs["c"] = ops.tensor(rnd, d, ops.rand_shape(rnd, 2, zero_p), style)
    names = list(inputs)
    lines = []
    cur = "a"
    vars_ = list(names)
    n_ops = rnd.randint(1, max_ops)
    isf = b in ops.FLOATS
    for k in range(n_ops):
        v = f"t{k}"
        c = rnd.random()
        x = rnd.choice(vars_[-3:] + [cur])
        if c < 0.07:
            # constant-operand shortcuts: a data-holding one-element boolean of rank 0-2 meets operands that may be
            # placeholders with unrelated dynamic extents (the result must still be broadcast)
            cshape = rnd.choice(["()", "(1,)", "(1, 1)"])
            cval = rnd.choice(["True", "False"])
            const = f"ndx.asarray(np.full({cshape}, {cval}))"
            k_ = rnd.random()
            y = rnd.choice(["b", cur] + names)
            if k_ < 0.5:
                lines.append(f"{v} = ndx.where({const}, {x}, {y})" if rnd.random() < 0.7 else f"{v} = ndx.where({const}, {y}, {x})")
            else:
                f = rnd.choice(["logical_and", "logical_or"])
                args = f"{x} > 1, {const}" if rnd.random() < 0.5 else f"{const}, {x} > 1"
                lines.append(f"{v}c = ndx.{f}({args})")
                lines.append(f"{v} = ndx.where({v}c, {x}, {y})")
        elif c < 0.22:
            y = rnd.choice(["b", cur, "3"])
            op = rnd.choice(["+", "-", "*"])
            lines.append(f"{v} = {x} {op} {y}")
        elif c < 0.32:
            f = rnd.choice(["abs", "negative", "square", "sign"] + (["floor", "ceil", "trunc"] if isf else []))
            if b.startswith("u") and f == "negative":
                f = "abs"
            lines.append(f"{v} = ndx.{f}({x})")
        elif c < 0.42:
            f = rnd.choice(["sum", "max", "min"] if True else [])
            lines.append(f"{v} = ndx.{f}({x}, axis=None, keepdims=True) if {x}.ndim == 0 else ndx.{f}({x}, axis=-1, keepdims=True)")
        elif c < 0.5:
            lines.append(f"{v} = ndx.where({x} > 1, {x}, b)")
        elif c < 0.58:
            lines.append(f"{v} = ndx.flip({x})")
        elif c < 0.64:
            lines.append(f"{v} = ndx.expand_dims({x}, axis=0)")
        elif c < 0.70:
            lines.append(f"{v} = ndx.astype({x}, ndx.{'n' if ops.nullable(d) else ''}float64)")
        elif c < 0.76:
            lines.append(f"{v} = {x}[..., None]")
        elif c < 0.82:
            lines.append(f"{v} = ndx.broadcast_to({x}, nda.shape({x} + b))")
        elif c < 0.85:
            lines.append(f"{v} = {x}.copy(); {v} += 2")
        elif c < 0.865:
            p_, q_ = rnd.sample(names, 2)
            lines.append(f"{v} = {p_}.copy(); {v} += {q_}")
        elif c < 0.88:
            y = rnd.choice(names)
            lines.append(f"{v} = ndx.broadcast_to({x}, nda.shape({x} + {y})).copy(); {v} += {y}" if rnd.random() < 0.5 else f"{v} = ({x} + 0 * {y}).copy(); {v}[...] = {y}")
        elif c < 0.93:
            lines.append(f"{v} = ndx.concat([ndx.reshape({x}, [-1]), ndx.reshape(b, [-1])])")
        elif c < 0.97:
            lines.append(f"{v} = ndx.logical_and({x} > 0, {x} < 5)")
            cur = v
            vars_.append(v)
            lines.append(f"{v}x = ndx.where({v}, 1, 0)")
            v = v + "x"
        else:
            lines.append(f"{v} = ndx.reshape({x}, [-1])")
        cur = v
        vars_.append(v)
    lines.append(f"out = {cur}")
    src = "; ".join(lines)
    shapes = {k: t["shape"] for k, t in inputs.items()}
    subsets = []
    all_names = list(inputs)
    # every non-empty subset of <= 3 inputs (<= 7 subsets) + the empty one
    for m in range(1, 2 ** len(all_names)):
        sub = [n for i, n in enumerate(all_names) if m >> i & 1]
        s = {"names": sub}
        if symbolic and rnd.random() < 0.6:
            s["sigs"] = {n: ops.symbolic_sig(rnd, shapes[n], tag=n if rnd.random() < 0.7 else "") for n in sub}
        subsets.append(s)
    rnd.shuffle(subsets)
    return {"id": cid, "inputs": inputs, "impl": src, "oracle": None, "meta": {"func": "program", "dtype": d, "dclass": dclass(d), "n_ops": n_ops},
            "tol": [1e-6 if b == "float32" else 1e-12, 0.0] if isf else [0.0, 0.0], "lazy_subsets": subsets}
