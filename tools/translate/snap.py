"""T-snap: a change detector over the source text the hand-written models were transcribed from.

For every property, the functions named in the property's code anchors (properties.jsonl: state / mechanism `where`
entries) plus the functions whose bodies a Gallina model re-states (EXTRA below) are hashed: sha256 of the
function's AST with docstrings, comments, formatting and type annotations removed.  The hashes regenerated from /repo
on every run are compared, inside Coq, with the committed list coq/Ndx/SourceSnap.v (written by tools/dev/mk_snap.py
when the models were last transcribed / re-validated).  A difference is NOT a proof of a violation: it says the text
the model describes has changed, so the theorems no longer speak about this code; the check then deepens its search
around the changed functions and reports what it finds (or `no-failing-input-found`)."""
from __future__ import annotations

import ast
import hashlib
import json
import re

from vlib import core

# functions whose bodies are re-stated by a model although the anchors do not name them
EXTRA = {
    "C01": ["ndonnx/_corearray.py:_CoreArray.__init__/copy/to_numpy/_set/__getitem__/__setitem__", "ndonnx/_array.py:Array.to_numpy/copy/_set/__setitem__"],
    "C04": ["ndonnx/_core/_coreimpl.py:make_nullable", "ndonnx/_core/_nullableimpl.py:make_nullable/fill_null/make_array", "ndonnx/_data_types/classes.py:_cast_from/_cast_to"],
    "C07": ["ndonnx/_corearray.py:_CoreArray.__init__/to_numpy", "ndonnx/_array.py:Array.to_numpy"],
    "C08": ["ndonnx/_opset_extensions.py:getitem/getitem_null", "ndonnx/_corearray.py:_CoreArray.__getitem__", "ndonnx/_array.py:Array.__getitem__"],
    "C09": ["ndonnx/_opset_extensions.py:getitem/setitem/ndindex", "ndonnx/_array.py:Array.__setitem__/copy/astype", "ndonnx/_data_types/classes.py:_cast_from/_cast_to", "ndonnx/_funcs.py:astype/asarray"],
    "C10": ["ndonnx/_core/_numericimpl.py:argmax/argmin/cumulative_sum/all/any/mean/var/std/sum/prod/min/max/_determine_reduce_op_dtype", "ndonnx/_core/_boolimpl.py:all/any",
            "ndonnx/_opset_extensions.py:arg_max/arg_min/cumsum/reduce_sum/reduce_prod/reduce_min/reduce_max"],
    "C11": ["ndonnx/_funcs.py:concat/stack/broadcast_arrays/reshape/roll/flip/squeeze/expand_dims/permute_dims/take/broadcast_to/matrix_transpose/tril/triu"],
    "C12": ["ndonnx/_core/_numericimpl.py:sort/argsort/unique_all/unique_counts/unique_inverse/unique_values/searchsorted/nonzero", "ndonnx/_opset_extensions.py:top_k/unique/get_indices/ndindex/getitem_null"],
    "C13": ["ndonnx/_funcs.py:asarray/full/full_like/zeros/ones/empty/arange/eye/linspace/zeros_like/ones_like/empty_like", "ndonnx/_core/_shapeimpl.py:full/full_like/zeros_like/ones_like/make_array",
            "ndonnx/_core/_numericimpl.py:arange/eye/linspace/ones/zeros/empty/ones_like/zeros_like/empty_like", "ndonnx/_core/_coreimpl.py:make_array", "ndonnx/_core/_nullableimpl.py:make_array"],
    "C14": ["ndonnx/_funcs.py:astype", "ndonnx/_data_types/coretype.py:_cast_from/_cast_to", "ndonnx/_data_types/classes.py:_cast_from/_cast_to", "ndonnx/_opset_extensions.py:cast", "ndonnx/_array.py:Array.astype"],
    "C15": ["ndonnx/_array.py:Array.shape/_static_shape/ndim/dtype/__len__/_set", "ndonnx/_core/_shapeimpl.py:shape/static_shape", "ndonnx/_corearray.py:_CoreArray.shape/dtype/__init__"],
    "C16": ["ndonnx/_corearray.py:_CoreArray.__init__/_set/copy/to_numpy", "ndonnx/_core/_shapeimpl.py:where", "ndonnx/_core/_boolimpl.py:logical_and/logical_or"],
    "C18": ["ndonnx/_corearray.py:_CoreArray.__init__/to_numpy/copy", "ndonnx/_array.py:Array.to_numpy/__setitem__/_set", "ndonnx/_utility.py:promote", "ndonnx/additional/_additional.py:isin/static_map"],
    "C19": ["ndonnx/_build.py:build/collect_vars", "ndonnx/_propagation.py:wrapper/_aggregate_arguments/_flatten/_get_corearrays/_propagate_helper"],
    "C20": ["ndonnx/_array.py:Array.__bool__/__int__/__float__/__index__/__len__/__iter__"],
    "C05": ["ndonnx/_build.py:build/collect_vars/_assemble_outputs/_deconstruct_inputs/_extract_output_names/_get_dtype/_v1_dtypes"],
    "C06": ["ndonnx/_core/_coreimpl.py:make_nullable", "ndonnx/_core/_shapeimpl.py:roll/flip/reshape/full_like/zeros_like/ones_like/where/broadcast_to", "ndonnx/_funcs.py:broadcast_arrays"],
    "C17": ["ndonnx/_funcs.py:result_type/where/searchsorted/matmul/clip/concat/stack", "ndonnx/_core/_numericimpl.py:searchsorted/matmul/clip/var/std/mean/sum/prod/cumulative_sum", "ndonnx/additional/_additional.py:fill_null"],
    "C03": ["ndonnx/_funcs.py:result_type/can_cast", "ndonnx/_utility.py:promote"],
    "C02": ["ndonnx/_utility.py:promote", "ndonnx/_corearray.py:_CoreArray.astype/copy/_set", "ndonnx/_data_types/coretype.py:_cast_from/_cast_to"],
}


# implementation files a property quantifies over although its anchors do not list them (tier 3)
EXTRA_FILES = {
    "C17": ["ndonnx/_core/_numericimpl.py", "ndonnx/_core/_boolimpl.py", "ndonnx/_core/_stringimpl.py", "ndonnx/_core/_shapeimpl.py", "ndonnx/additional/_additional.py", "ndonnx/_array.py"],
    "C15": ["ndonnx/_core/_numericimpl.py", "ndonnx/_core/_boolimpl.py", "ndonnx/_core/_utils.py", "ndonnx/_corearray.py"],
    "C16": ["ndonnx/_core/_numericimpl.py", "ndonnx/_opset_extensions.py"],
    "C07": ["ndonnx/_core/_numericimpl.py"],
    "C03": ["ndonnx/_core/_numericimpl.py", "ndonnx/_core/_boolimpl.py", "ndonnx/_core/_shapeimpl.py", "ndonnx/_array.py"],
    "C06": ["ndonnx/_core/_utils.py", "ndonnx/_core/_coreimpl.py", "ndonnx/_funcs.py", "ndonnx/additional/_additional.py"],
    "C01": ["ndonnx/_core/_utils.py", "ndonnx/_funcs.py", "ndonnx/_data_types/classes.py", "ndonnx/_core/_nullableimpl.py", "ndonnx/_core/_coreimpl.py"],
    "C18": ["ndonnx/_corearray.py", "ndonnx/_utility.py"],
    "C19": ["ndonnx/_build.py"],
    "C05": ["ndonnx/_opset_extensions.py", "ndonnx/_core/_shapeimpl.py", "ndonnx/_corearray.py"],
    "C14": ["ndonnx/_propagation.py", "ndonnx/_corearray.py", "ndonnx/_array.py"],
    "C20": ["ndonnx/_opset_extensions.py", "ndonnx/_core/_shapeimpl.py", "ndonnx/_corearray.py", "ndonnx/_utility.py"],
    "C02": ["ndonnx/_propagation.py"],
    "C13": ["ndonnx/_array.py", "ndonnx/_corearray.py", "ndonnx/_utility.py"],
    "C12": ["ndonnx/_core/_utils.py", "ndonnx/_array.py"],
}


def _strip(node: ast.AST) -> ast.AST:
    for n in ast.walk(node):
        if isinstance(n, (ast.FunctionDef, ast.AsyncFunctionDef, ast.ClassDef, ast.Module)):
            if n.body and isinstance(n.body[0], ast.Expr) and isinstance(n.body[0].value, ast.Constant) and isinstance(n.body[0].value.value, str):
                n.body = n.body[1:] or [ast.Pass()]
        if isinstance(n, (ast.FunctionDef, ast.AsyncFunctionDef)):
            n.returns = None
        if isinstance(n, ast.arg):
            n.annotation = None
        if isinstance(n, ast.AnnAssign) and n.value is not None:
            n.annotation = ast.Constant(value=None)
    return node


def _functions(tree: ast.Module):
    """(qualname, node) of every function at any depth."""
    out = []

    def visit(body, prefix):
        for n in body:
            if isinstance(n, (ast.FunctionDef, ast.AsyncFunctionDef)):
                out.append((prefix + n.name, n))
                visit(n.body, prefix + n.name + ".")
            elif isinstance(n, ast.ClassDef):
                visit(n.body, prefix + n.name + ".")
            elif isinstance(n, (ast.If, ast.Try, ast.With)):
                visit(getattr(n, "body", []), prefix)
                visit(getattr(n, "orelse", []), prefix)
    visit(tree.body, "")
    return out


def _specs(prop: str):
    """[(file, name)] from the property's anchors and EXTRA."""
    rec = next(json.loads(l) for l in open(core.VERIF / "properties.jsonl") if json.loads(l)["id"] == prop)
    wheres = []
    a = rec.get("anchors", {})
    for key in ("state", "mechanism"):
        for e in a.get(key, []) or []:
            wheres.append(e.get("where", ""))
    wheres += EXTRA.get(prop, [])
    pairs = []
    for w in wheres:
        for part in w.split(";"):
            m = re.match(r"\s*(ndonnx/[\w/]+\.py)\s*:?\s*(.*)", part.strip())
            if not m:
                continue
            f, spec = m.group(1), m.group(2)
            spec = re.sub(r"\(.*?\)", "", spec)
            for tok in spec.split("/"):
                tok = tok.strip()
                if not tok:
                    continue
                name = tok.split(".")[-1].strip()
                if re.fullmatch(r"[A-Za-z_]\w*", name):
                    pairs.append((f, name))
    return sorted(set(pairs))


_ALL = {}


def _all_functions(repo):
    """qualified name -> node for every function of ndonnx/ (any depth)."""
    key = str(repo)
    if key not in _ALL:
        d = {}
        for p in sorted((repo / "ndonnx").rglob("*.py")):
            rel = str(p.relative_to(repo))
            try:
                tree = ast.parse(p.read_text())
            except SyntaxError:
                continue
            for q, node in _functions(tree):
                d[f"{rel}::{q}"] = node
        _ALL[key] = d
    return _ALL[key]


def _hash(node) -> str:
    import copy
    return hashlib.sha256(ast.dump(_strip(copy.deepcopy(node)), annotate_fields=False, include_attributes=False).encode()).hexdigest()[:20]


def hashes(prop: str, repo=None) -> list[tuple[str, str]]:
    """Anchored / modelled functions of the property (a name that is a class stands for all its methods) and the
    functions of ndonnx/ they call directly (matched by name: an over-approximation)."""
    repo = repo or core.REPO
    allf = _all_functions(repo)
    base = set()
    for f, name in _specs(prop):
        for k in allf:
            rel, q = k.split("::")
            parts = q.split(".")
            if rel == f and (parts[-1] == name or name in parts[:-1]):
                base.add(k)
    byname = {}
    for k in allf:
        byname.setdefault(k.split("::")[1].split(".")[-1], []).append(k)
    callees = set()
    for k in base:
        for n in ast.walk(allf[k]):
            if isinstance(n, ast.Call):
                fn = n.func
                nm = fn.attr if isinstance(fn, ast.Attribute) else fn.id if isinstance(fn, ast.Name) else None
                if nm in byname and len(byname[nm]) <= 6:       # names defined in more than 6 places (copy, shape, ...) say nothing
                    callees.update(byname[nm])
    rows = {k: _hash(allf[k]) for k in base | callees}
    # third tier: everything else in the files the property is anchored in (functions, and the code outside functions:
    # module-level statements and class bodies — tables, decorators, class attributes)
    rec = next(json.loads(l) for l in open(core.VERIF / "properties.jsonl") if json.loads(l)["id"] == prop)
    for f in list(rec.get("anchors", {}).get("files", []) or []) + EXTRA_FILES.get(prop, []):
        pth = repo / f
        if not pth.exists():
            rows[f"{f}::<missing>"] = "0" * 20
            continue
        for k in allf:
            if k.startswith(f + "::"):
                rows.setdefault(k, _hash(allf[k]))
        try:
            tree = ast.parse(pth.read_text())
        except SyntaxError:
            rows[f"{f}::<unparsable>"] = "0" * 20
            continue
        rows[f"{f}::<module-level code>"] = _hash(_outside_functions(tree))
    return sorted(rows.items())


def _outside_functions(tree: ast.Module) -> ast.Module:
    """The module with every function body removed (signatures, decorators, class attributes, tables stay)."""
    import copy
    t = copy.deepcopy(tree)
    for n in ast.walk(t):
        if isinstance(n, (ast.FunctionDef, ast.AsyncFunctionDef)):
            n.body = [ast.Pass()]
    return t


def emit(rows, name="snap") -> str:
    body = ";\n  ".join(f'("{k}", "{h}")' for k, h in rows)
    return ("From Coq Require Import List String.\nImport ListNotations.\nOpen Scope string_scope.\n"
            f"Definition {name} : list (string * string) :=\n  [{body}].\n")


TIE = """From Coq Require Import List String Bool.
From ND Require Import Ndx.SourceSnap.
From G Require Import GenSnap.
Import ListNotations.
Open Scope string_scope.
Definition pair_in (l : list (string * string)) (p : string * string) : bool :=
  existsb (fun q => String.eqb (fst p) (fst q) && String.eqb (snd p) (snd q)) l.
(* functions of this property's anchors whose text differs from (or is missing in) the committed transcription basis *)
Eval vm_compute in ("CHANGED", map fst (filter (fun p => negb (pair_in expected_@P@ p)) snap)).
Eval vm_compute in ("MISSING", map fst (filter (fun p => negb (existsb (fun q => String.eqb (fst p) (fst q)) snap)) expected_@P@)).
Example modelled_source_unchanged :
  forallb (pair_in expected_@P@) snap = true /\\ forallb (fun p => existsb (fun q => String.eqb (fst p) (fst q)) snap) expected_@P@ = true.
Proof. split; vm_compute; reflexivity. Qed.
"""


def tie(ctx) -> list[str]:
    """Run the snapshot tie for ctx.prop; returns the qualified names of changed / missing functions."""
    rows = hashes(ctx.prop)
    (ctx.work / "GenSnap.v").write_text(emit(rows))
    f = ctx.work / "TieSnap.v"
    f.write_text(TIE.replace("@P@", ctx.prop))
    ok0, _ = ctx.compile("T-snap: GenSnap.v compiles", ctx.work / "GenSnap.v")
    ok, out = ctx.compile(f"T-snap: the {len(rows)} functions this property is anchored in / the models re-state (and the library functions they call directly) read exactly as when the models were transcribed (AST hash, docstrings/annotations/formatting ignored)", f, kind="tie")
    ctx.trusted.append("tools/translate/snap.py (AST hashing of the anchored functions; a change detector, not a proof)")
    if ok:
        return []
    flat = re.sub(r"\s+", " ", out)
    changed = []
    for tag in ("CHANGED", "MISSING"):
        m = re.search(r'\("%s"(?:%%string)?, \[(.*?)\]\)' % tag, flat)
        if m:
            changed += re.findall(r'"([^"]+)"', m.group(1))
    ctx.notes.append("T-snap: source changed since transcription: " + ", ".join(changed))
    ctx.deep = True
    return changed
