"""T-src: fail-closed `ast` translators from /repo's source text to Gallina.

  dispatch_table()   _funcs.py / _array.py  ->  Gen: list of dispatch rows
  reduce_prologue()  _numericimpl.py sum/prod/min/max prologue -> Gen: Gallina functions
  index_functions()  _index.py, _corearray._normalise_index -> Gen: Gallina functions (C08)
  protocols()        _array.py __bool__/__int__/__float__/__index__/__len__/__iter__ (C20)

Any construct outside the whitelists raises Untranslatable (the tie is then broken, loudly)."""
from __future__ import annotations

import ast
from pathlib import Path

from vlib import core


class Untranslatable(Exception):
    pass


def src(rel: str) -> tuple[str, ast.Module]:
    p = core.REPO / rel
    text = p.read_text()
    return text, ast.parse(text)


def qs(s: str) -> str:
    if not all(32 <= ord(c) < 127 and c != '"' for c in s):
        raise Untranslatable(f"string {s!r}")
    return '"' + s + '"'


# ------------------------------------------------------------------------- dispatch -----

def _argv(node, params) -> str:
    if isinstance(node, ast.Name) and node.id in params:
        return f"AParam {qs(node.id)}"
    if isinstance(node, ast.Constant):
        return f"ALit {qs(repr(node.value))}"
    return "AOther"


def _find_ops_calls(fn: ast.FunctionDef):
    """All calls `<e>._ops.<attr>(...)`, `_unary(<e>._ops.<attr>, x)`, `_binary("<attr>", x, y)`,
    `getattr(<e>._ops, name)` inside fn."""
    found = []
    for n in ast.walk(fn):
        if isinstance(n, ast.Call):
            f = n.func
            if isinstance(f, ast.Attribute) and isinstance(f.value, ast.Attribute) and f.value.attr == "_ops":
                found.append(("ops", f.attr, n))
            elif isinstance(f, ast.Name) and f.id == "_unary" and n.args and isinstance(n.args[0], ast.Attribute) \
                    and isinstance(n.args[0].value, ast.Attribute) and n.args[0].value.attr == "_ops":
                found.append(("unary", n.args[0].attr, n))
            elif isinstance(f, ast.Name) and f.id == "_binary" and n.args and isinstance(n.args[0], ast.Constant):
                found.append(("binary", n.args[0].value, n))
    return found


def dispatch_table():
    text, mod = src("ndonnx/_funcs.py")
    public = None
    for n in mod.body:
        if isinstance(n, ast.Assign) and any(isinstance(t, ast.Name) and t.id == "__all__" for t in n.targets):
            public = [e.value for e in n.value.elts]
    if public is None:
        raise Untranslatable("__all__ not found in _funcs.py")
    rows = []
    fns = {n.name: n for n in mod.body if isinstance(n, ast.FunctionDef)}
    for name in public:
        fn = fns.get(name)
        if fn is None:
            raise Untranslatable(f"public function {name} has no def")
        params = [a.arg for a in fn.args.posonlyargs + fn.args.args + fn.args.kwonlyargs]
        calls = _find_ops_calls(fn)
        if not calls:
            # composite: record the ndonnx-level functions it calls
            callees = sorted({c.func.id for c in ast.walk(fn) if isinstance(c, ast.Call) and isinstance(c.func, ast.Name) and c.func.id in fns})
            rows.append((name, "composite", ";".join(callees), [], []))
            continue
        targets = sorted({(k, a) for k, a, _ in calls})
        for k, a in targets:
            call = [c for kk, aa, c in calls if (kk, aa) == (k, a)][0]
            pos = [_argv(x, params) for x in (call.args[1:] if k in ("unary", "binary") else call.args)]
            kws = [(kw.arg, _argv(kw.value, params)) for kw in call.keywords if kw.arg]
            rows.append((name, k, a, pos, kws))
    # Array methods and operators that forward to ndx.<f>(self, ...)
    text2, mod2 = src("ndonnx/_array.py")
    mrows = []
    cls = [n for n in mod2.body if isinstance(n, ast.ClassDef) and n.name == "Array"][0]
    for m in cls.body:
        if not isinstance(m, ast.FunctionDef):
            continue
        rets = [s for s in m.body if isinstance(s, ast.Return)]
        if len(rets) != 1 or not isinstance(rets[0].value, ast.Call):
            continue
        call = rets[0].value
        inner = call
        wrapped = ""
        # self._set(ndx.f(self, other))
        if isinstance(call.func, ast.Attribute) and call.func.attr == "_set" and call.args and isinstance(call.args[0], ast.Call):
            inner = call.args[0]
            wrapped = "_set"
        f = inner.func
        if isinstance(f, ast.Attribute) and isinstance(f.value, ast.Name) and f.value.id == "ndx":
            params = [a.arg for a in m.args.args + m.args.kwonlyargs]
            pos = [_argv(x, params) for x in inner.args]
            kws = [(kw.arg, _argv(kw.value, params)) for kw in inner.keywords if kw.arg]
            mrows.append((m.name, "method" + wrapped, f.attr, pos, kws))
    return rows, mrows


def emit_dispatch(rows, mrows) -> str:
    def row(r):
        name, k, a, pos, kws = r
        kw = "; ".join(f"({qs(kn)}, {v})" for kn, v in kws)
        return f"  {{| d_public := {qs(name)}; d_kind := {qs(k)}; d_target := {qs(a)}; d_pos := [{'; '.join(pos)}]; d_kw := [{kw}] |}}"
    hdr = ("From Coq Require Import List String.\nFrom ND Require Import Ndx.Dispatch.\nImport ListNotations.\nOpen Scope string_scope.\n\n")
    return (hdr + "Definition dispatch : list drow := [\n" + ";\n".join(row(r) for r in rows) + "\n].\n\n"
            + "Definition methods : list drow := [\n" + ";\n".join(row(r) for r in mrows) + "\n].\n")


# ----------------------------------------------------------------- reduction prologue -----

def _zexpr(node, env) -> str:
    """Integer expression over names in env."""
    if isinstance(node, ast.Name) and node.id in env:
        return env[node.id]
    if isinstance(node, ast.Attribute) and isinstance(node.value, ast.Name) and node.value.id == "x" and node.attr == "ndim":
        return "ndim"
    if isinstance(node, ast.Constant) and isinstance(node.value, int) and not isinstance(node.value, bool):
        return f"({node.value})%Z"
    if isinstance(node, ast.UnaryOp) and isinstance(node.op, ast.USub):
        return f"(- {_zexpr(node.operand, env)})%Z"
    if isinstance(node, ast.BinOp) and isinstance(node.op, (ast.Add, ast.Sub, ast.Mult)):
        op = {ast.Add: "+", ast.Sub: "-", ast.Mult: "*"}[type(node.op)]
        return f"({_zexpr(node.left, env)} {op} {_zexpr(node.right, env)})%Z"
    if isinstance(node, ast.IfExp):
        return f"(if {_bexpr(node.test, env)} then {_zexpr(node.body, env)} else {_zexpr(node.orelse, env)})"
    raise Untranslatable("integer expression " + ast.dump(node)[:80])


def _bexpr(node, env) -> str:
    if isinstance(node, ast.Compare) and len(node.ops) == 1:
        op = {ast.Lt: "<?", ast.LtE: "<=?", ast.Gt: ">?", ast.GtE: ">=?", ast.Eq: "=?"}.get(type(node.ops[0]))
        if op is None:
            raise Untranslatable("comparison " + ast.dump(node)[:80])
        return f"({_zexpr(node.left, env)} {op} {_zexpr(node.comparators[0], env)})%Z"
    raise Untranslatable("boolean expression " + ast.dump(node)[:80])


def _axis_test(node) -> str:
    """Classify a test on `axis`: 'none' (axis is None), 'scalar' (not isinstance(axis, Iterable))."""
    if isinstance(node, ast.Compare) and isinstance(node.left, ast.Name) and node.left.id == "axis" and len(node.ops) == 1 \
            and isinstance(node.comparators[0], ast.Constant) and node.comparators[0].value is None:
        if isinstance(node.ops[0], ast.Is):
            return "none"
        if isinstance(node.ops[0], ast.IsNot):
            return "notnone"
    if isinstance(node, ast.UnaryOp) and isinstance(node.op, ast.Not) and isinstance(node.operand, ast.Call) \
            and isinstance(node.operand.func, ast.Name) and node.operand.func.id == "isinstance" \
            and isinstance(node.operand.args[0], ast.Name) and node.operand.args[0].id == "axis" \
            and isinstance(node.operand.args[1], ast.Name) and node.operand.args[1].id == "Iterable":
        return "scalar"
    raise Untranslatable("test on axis: " + ast.dump(node)[:100])


def _axes_value(node, branch) -> str:
    if isinstance(node, ast.List) and len(node.elts) == 0:
        return "[]"
    if isinstance(node, ast.List) and len(node.elts) == 1 and isinstance(node.elts[0], ast.Name) and node.elts[0].id == "axis":
        if branch != "scalar":
            raise Untranslatable("[axis] outside the scalar branch")
        return "[a]"
    if isinstance(node, ast.Name) and node.id == "axis":
        if branch != "tuple":
            raise Untranslatable("axes = axis outside the tuple branch")
        return "l"
    raise Untranslatable("axes value " + ast.dump(node)[:80])


def reduce_prologue():
    text, mod = src("ndonnx/_core/_numericimpl.py")
    cls = [n for n in mod.body if isinstance(n, ast.ClassDef) and n.name == "_NumericOperationsImpl"][0]
    out = []
    for fname in ("sum", "prod", "min", "max"):
        fn = [m for m in cls.body if isinstance(m, ast.FunctionDef) and m.name == fname][0]
        body = fn.body
        # 1. the if / elif / else chain assigning `axes`
        chain = [s for s in body if isinstance(s, ast.If) and isinstance(s.test, (ast.Compare,)) and _safe(lambda: _axis_test(s.test)) == "none"]
        if len(chain) != 1:
            raise Untranslatable(f"{fname}: axes prologue not found")
        s = chain[0]
        br = {}
        def one_assign(stmts, branch):
            if len(stmts) != 1 or not isinstance(stmts[0], ast.Assign) or len(stmts[0].targets) != 1 \
                    or not isinstance(stmts[0].targets[0], ast.Name) or stmts[0].targets[0].id != "axes":
                raise Untranslatable(f"{fname}: branch {branch} is not `axes = ...`")
            return _axes_value(stmts[0].value, branch)
        br["none"] = one_assign(s.body, "none")
        if len(s.orelse) != 1 or not isinstance(s.orelse[0], ast.If) or _axis_test(s.orelse[0].test) != "scalar":
            raise Untranslatable(f"{fname}: elif not isinstance(axis, Iterable) expected")
        br["scalar"] = one_assign(s.orelse[0].body, "scalar")
        br["tuple"] = one_assign(s.orelse[0].orelse, "tuple")
        # 2. optional normalisation comprehension `axes = [<elt> for ax in axes]`
        idx = body.index(s)
        norm = "ax"
        for st in body[idx + 1:]:
            if isinstance(st, ast.Assign) and isinstance(st.targets[0], ast.Name) and st.targets[0].id == "axes":
                v = st.value
                if not (isinstance(v, ast.ListComp) and len(v.generators) == 1 and isinstance(v.generators[0].target, ast.Name)
                        and v.generators[0].target.id == "ax" and isinstance(v.generators[0].iter, ast.Name)
                        and v.generators[0].iter.id == "axes" and not v.generators[0].ifs):
                    raise Untranslatable(f"{fname}: unexpected reassignment of axes")
                norm = _zexpr(v.elt, {"ax": "ax"})
        # 3. the reduce call: keepdims / noop_with_empty_axes keywords
        calls = [c for c in ast.walk(fn) if isinstance(c, ast.Call) and isinstance(c.func, ast.Attribute)
                 and c.func.attr.startswith("reduce_")]
        if len(calls) != 1:
            raise Untranslatable(f"{fname}: expected exactly one opx.reduce_* call")
        call = calls[0]
        kw = {k.arg: k.value for k in call.keywords}
        if set(kw) != {"keepdims", "noop_with_empty_axes"}:
            raise Untranslatable(f"{fname}: reduce keywords {sorted(kw)}")
        if isinstance(kw["keepdims"], ast.Name) and kw["keepdims"].id == "keepdims":
            keep = "keep"
        elif isinstance(kw["keepdims"], ast.Constant) and isinstance(kw["keepdims"].value, bool):
            keep = "true" if kw["keepdims"].value else "false"
        else:
            raise Untranslatable(f"{fname}: keepdims argument")
        t = kw["noop_with_empty_axes"]
        if isinstance(t, ast.Constant) and isinstance(t.value, bool):
            noop = "true" if t.value else "false"
        else:
            k = _axis_test(t)
            noop = {"notnone": "match axis with AxNone => false | _ => true end", "none": "match axis with AxNone => true | _ => false end"}[k]
        op = call.func.attr
        if not (len(call.args) == 2 and isinstance(call.args[1], ast.Call) and isinstance(call.args[1].func, ast.Attribute)
                and call.args[1].func.attr == "const" and isinstance(call.args[1].args[0], ast.Name) and call.args[1].args[0].id == "axes"):
            raise Untranslatable(f"{fname}: axes operand of the reduce call")
        out.append((fname, br, norm, keep, noop, op))
    return out


def _safe(f):
    try:
        return f()
    except Untranslatable:
        return None


def emit_reduce(rows) -> str:
    hdr = ("From Coq Require Import List ZArith String Bool.\nFrom ND Require Import Base.Tensor Ndx.Reduce.\nImport ListNotations.\n\n")
    parts = [hdr]
    for fname, br, norm, keep, noop, op in rows:
        parts.append(
            f"Definition gen_axes_{fname} (ndim : Z) (axis : axis_spec) : list Z :=\n"
            f"  let axes := match axis with AxNone => {br['none']} | AxInt a => {br['scalar']} | AxTuple l => {br['tuple']} end in\n"
            f"  map (fun ax => {norm}) axes.\n"
            f"Definition gen_noop_{fname} (axis : axis_spec) : bool := {noop}.\n"
            f"Definition gen_keep_{fname} (keep : bool) : bool := {keep}.\n"
            f'Definition gen_op_{fname} : string := "{op}"%string.\n\n')
    return "".join(parts)


# ------------------------------------------------------------------ _index.py (C08) -------

class _Fresh:
    def __init__(self):
        self.n = 0

    def __call__(self, base="t"):
        self.n += 1
        return f"{base}{self.n}"


def _pe(node, fresh) -> str:
    """Python expression -> Gallina term of type M pyval."""
    if isinstance(node, ast.Name):
        if node.id in ("Ellipsis",):
            return "(Ret PEllipsis)"
        return f"(Ret v_{node.id})"
    if isinstance(node, ast.Constant):
        v = node.value
        if v is None:
            return "(Ret PNone)"
        if v is Ellipsis:
            return "(Ret PEllipsis)"
        if isinstance(v, bool):
            return f"(Ret (PBool {'true' if v else 'false'}))"
        if isinstance(v, int):
            return f"(Ret (PInt ({v})))"
        raise Untranslatable(f"constant {v!r}")
    if isinstance(node, ast.Attribute):
        # np.iinfo(np.int64).max / .min
        if node.attr in ("max", "min") and isinstance(node.value, ast.Call) and ast.unparse(node.value) == "np.iinfo(np.int64)":
            return f"(Ret (PInt INDEX_{'MAX' if node.attr == 'max' else 'MIN'}))"
        if node.attr in ("start", "stop", "step"):
            return f"(bind {_pe(node.value, fresh)} attr_{node.attr})"
        raise Untranslatable("attribute " + ast.unparse(node))
    if isinstance(node, ast.IfExp):
        c = fresh("c")
        return f"(bind {_pe(node.test, fresh)} (fun {c} => if truthy {c} then {_pe(node.body, fresh)} else {_pe(node.orelse, fresh)}))"
    if isinstance(node, ast.BoolOp):
        vals = node.values
        acc = _pe(vals[-1], fresh)
        for v in reversed(vals[:-1]):
            t = fresh("b")
            if isinstance(node.op, ast.Or):
                acc = f"(bind {_pe(v, fresh)} (fun {t} => if truthy {t} then Ret {t} else {acc}))"
            else:
                acc = f"(bind {_pe(v, fresh)} (fun {t} => if truthy {t} then {acc} else Ret {t}))"
        return acc
    if isinstance(node, ast.UnaryOp) and isinstance(node.op, ast.Not):
        t = fresh("n")
        return f"(bind {_pe(node.operand, fresh)} (fun {t} => Ret (PBool (negb (truthy {t})))))"
    if isinstance(node, ast.Compare) and len(node.ops) == 1:
        op, r = node.ops[0], node.comparators[0]
        a, b = fresh("l"), fresh("r")
        if isinstance(op, (ast.Is, ast.IsNot)):
            if isinstance(r, ast.Constant) and r.value is None:
                e = f"py_is_none {a}"
            elif isinstance(r, ast.Name) and r.id == "Ellipsis":
                e = f"match {a} with PEllipsis => true | _ => false end"
            else:
                raise Untranslatable("is-comparison " + ast.unparse(node))
            if isinstance(op, ast.IsNot):
                e = f"negb ({e})"
            return f"(bind {_pe(node.left, fresh)} (fun {a} => Ret (PBool ({e}))))"
        if isinstance(op, (ast.Eq, ast.NotEq)):
            e = f"py_eq {a} {b}"
            if isinstance(op, ast.NotEq):
                e = f"negb ({e})"
            return f"(bind {_pe(node.left, fresh)} (fun {a} => bind {_pe(r, fresh)} (fun {b} => Ret (PBool ({e})))))"
        fn = {ast.Gt: "py_gt", ast.Lt: "py_lt", ast.GtE: "py_ge", ast.LtE: "py_le"}.get(type(op))
        if fn is None:
            raise Untranslatable("comparison " + ast.unparse(node))
        q = fresh("q")
        return f"(bind {_pe(node.left, fresh)} (fun {a} => bind {_pe(r, fresh)} (fun {b} => bind ({fn} {a} {b}) (fun {q} => Ret (PBool {q})))))"
    if isinstance(node, ast.Call) and isinstance(node.func, ast.Name):
        if node.func.id == "slice" and len(node.args) == 3 and not node.keywords:
            a, b, c = fresh("a"), fresh("b"), fresh("c")
            return (f"(bind {_pe(node.args[0], fresh)} (fun {a} => bind {_pe(node.args[1], fresh)} (fun {b} => "
                    f"bind {_pe(node.args[2], fresh)} (fun {c} => Ret (PSlice {a} {b} {c})))))")
        if node.func.id == "isinstance" and len(node.args) == 2:
            cls = ast.unparse(node.args[1]).replace(" ", "")
            t = fresh("i")
            if cls in ("(int,bool)", "(bool,int)"):
                return f"(bind {_pe(node.args[0], fresh)} (fun {t} => Ret (PBool (isinstance_int_bool {t}))))"
            if cls == "slice":
                return f"(bind {_pe(node.args[0], fresh)} (fun {t} => Ret (PBool (isinstance_slice {t}))))"
            if cls in ("(type(None),type(Ellipsis))", "(type(Ellipsis),type(None))"):
                return f"(bind {_pe(node.args[0], fresh)} (fun {t} => Ret (PBool (match {t} with PNone | PEllipsis => true | _ => false end))))"
            raise Untranslatable("isinstance class " + cls)
    raise Untranslatable("expression " + ast.unparse(node)[:80])


def _ps(stmts, fresh) -> str:
    """Statements of the per-item loop body -> Gallina term of type M pyval (the appended value)."""
    if not stmts:
        raise Untranslatable("control falls off the end of a branch")
    s, rest = stmts[0], stmts[1:]
    if isinstance(s, ast.If):
        if rest:
            raise Untranslatable("statements after an if")
        c = fresh("c")
        return f"(bind {_pe(s.test, fresh)} (fun {c} => if truthy {c} then {_ps(s.body, fresh)} else {_ps(s.orelse, fresh)}))"
    if isinstance(s, (ast.Assign, ast.AnnAssign)):
        tgt = s.targets[0] if isinstance(s, ast.Assign) else s.target
        if not isinstance(tgt, ast.Name) or s.value is None:
            raise Untranslatable("assignment target")
        return f"(bind {_pe(s.value, fresh)} (fun v_{tgt.id} => {_ps(rest, fresh)}))"
    if isinstance(s, ast.Expr) and isinstance(s.value, ast.Call) and ast.unparse(s.value.func) == "ret.append" and len(s.value.args) == 1:
        if rest:
            raise Untranslatable("statements after ret.append")
        return _pe(s.value.args[0], fresh)
    if isinstance(s, ast.Raise) and isinstance(s.exc, ast.Call) and isinstance(s.exc.func, ast.Name) \
            and s.exc.func.id in ("TypeError", "IndexError", "ValueError"):
        return f"(Raise {s.exc.func.id})"
    raise Untranslatable("statement " + ast.unparse(s)[:80])


def index_functions() -> str:
    text, mod = src("ndonnx/_index.py")
    fns = {n.name: n for n in mod.body if isinstance(n, ast.FunctionDef)}
    fresh = _Fresh()
    # ---- index_normalise: ret = []; for x in a: <body>; return tuple(ret)
    fn = fns["index_normalise"]
    body = [s for s in fn.body if not (isinstance(s, ast.Expr) and isinstance(s.value, ast.Constant))]
    if not (len(body) == 3 and isinstance(body[0], (ast.Assign, ast.AnnAssign)) and isinstance(body[1], ast.For)
            and isinstance(body[2], ast.Return) and ast.unparse(body[2].value) == "tuple(ret)"
            and isinstance(body[1].target, ast.Name) and body[1].target.id == "x" and not body[1].orelse
            and ast.unparse(body[1].iter) == fn.args.args[0].arg):
        raise Untranslatable("index_normalise: unexpected statement structure")
    item = _ps(body[1].body, fresh)
    # ---- construct_index (fixed statement skeleton, expressions translated)
    ci = fns["construct_index"]
    cb = [s for s in ci.body if not (isinstance(s, ast.Expr) and isinstance(s.value, ast.Constant))]
    if not (len(cb) == 3 and isinstance(cb[0], ast.Assign) and ast.unparse(cb[0]) == "index_ = index if isinstance(index, tuple) else (index,)"
            and isinstance(cb[1], ast.If) and ast.unparse(cb[1].test) == "any((i is Ellipsis for i in index_))"
            and not cb[1].orelse and ast.unparse(cb[2]) == "return index_normalise(index_)"):
        raise Untranslatable("construct_index: unexpected statement structure: " + " | ".join(ast.unparse(s)[:60] for s in cb))
    ib = cb[1].body
    want = ["rank = get_rank(arr)", "ellipsis_position = index_.index(Ellipsis)"]
    if [ast.unparse(s) for s in ib[:2]] != want or len(ib) != 4:
        raise Untranslatable("construct_index: ellipsis branch")
    # count_some = len([x for x in index_ if <pred>])
    cs = ib[2]
    if not (isinstance(cs, ast.Assign) and ast.unparse(cs.targets[0]) == "count_some" and isinstance(cs.value, ast.Call)
            and ast.unparse(cs.value.func) == "len" and isinstance(cs.value.args[0], ast.ListComp)
            and ast.unparse(cs.value.args[0].elt) == "x" and len(cs.value.args[0].generators) == 1
            and ast.unparse(cs.value.args[0].generators[0].iter) == "index_" and len(cs.value.args[0].generators[0].ifs) == 1):
        raise Untranslatable("construct_index: count_some")
    pred = _pe(cs.value.args[0].generators[0].ifs[0], fresh)
    # index_ = index_[:ellipsis_position] + tuple([<fill>] * (<n>)) + index_[<from>:]
    asg = ib[3]
    v = asg.value
    try:
        left, mid, right = v.left.left, v.left.right, v.right
        assert ast.unparse(asg.targets[0]) == "index_"
        assert isinstance(left, ast.Subscript) and ast.unparse(left.value) == "index_" and left.slice.lower is None
        assert isinstance(right, ast.Subscript) and ast.unparse(right.value) == "index_" and right.slice.upper is None
        assert isinstance(mid, ast.Call) and ast.unparse(mid.func) == "tuple" and isinstance(mid.args[0], ast.BinOp) and isinstance(mid.args[0].op, ast.Mult)
        fill_list, count = mid.args[0].left, mid.args[0].right
        assert isinstance(fill_list, ast.List) and len(fill_list.elts) == 1
    except (AssertionError, AttributeError):
        raise Untranslatable("construct_index: expansion statement " + ast.unparse(asg)[:120])
    env = {"rank": "rank", "count_some": "count_some", "ellipsis_position": "epos"}
    fill = _pe(fill_list.elts[0], fresh)
    upto = _zexpr(left.slice.upper, env)
    cnt = _zexpr(count, env)
    frm = _zexpr(right.slice.lower, env)
    # ---- _CoreArray._normalise_index rank check
    t2, m2 = src("ndonnx/_corearray.py")
    cls = [n for n in m2.body if isinstance(n, ast.ClassDef) and n.name == "_CoreArray"][0]
    ni = [m for m in cls.body if isinstance(m, ast.FunctionDef) and m.name == "_normalise_index"][0]
    els = ni.body[0].orelse if isinstance(ni.body[0], ast.If) else None
    if els is None or len(els) != 4 or ast.unparse(els[0]) != "index = construct_index(self, index)" \
            or not ast.unparse(els[1]).startswith("indexing_expressions = len(tuple((idx for idx in index if ") \
            or ast.unparse(els[3]) != "return index":
        raise Untranslatable("_normalise_index: structure")
    gen = els[1].value.args[0].args[0]
    if not (isinstance(gen, ast.GeneratorExp) and ast.unparse(gen.elt) == "idx" and len(gen.generators[0].ifs) == 1):
        raise Untranslatable("_normalise_index: counting expression")
    cpred = _pe(gen.generators[0].ifs[0], fresh).replace("v_idx", "v_x")
    chk = els[2]
    if not (isinstance(chk, ast.If) and isinstance(chk.test, ast.Compare) and len(chk.body) == 1 and isinstance(chk.body[0], ast.Raise)):
        raise Untranslatable("_normalise_index: rank check")
    cmpop = {ast.NotEq: "negb (ndim =? cnt)%Z", ast.Eq: "(ndim =? cnt)%Z", ast.Lt: "(ndim <? cnt)%Z", ast.Gt: "(cnt <? ndim)%Z",
             ast.LtE: "(ndim <=? cnt)%Z", ast.GtE: "(cnt <=? ndim)%Z"}.get(type(chk.test.ops[0]))
    if cmpop is None or ast.unparse(chk.test.left) != "self.ndim" or ast.unparse(chk.test.comparators[0]) != "indexing_expressions":
        raise Untranslatable("_normalise_index: rank test " + ast.unparse(chk.test))
    exc = chk.body[0].exc.func.id
    hdr = ("From Coq Require Import List ZArith Bool.\nFrom ND Require Import Ndx.PyVal.\nImport ListNotations.\nOpen Scope Z_scope.\n\n")
    return (hdr
            + f"Definition gen_normalise_item (v_x : pyval) : M pyval :=\n  {item}.\n\n"
            + "Definition gen_index_normalise (a : list pyval) : M (list pyval) := mmap gen_normalise_item a.\n\n"
            + f"Definition gen_counts_as_some (v_x : pyval) : M pyval :=\n  {pred}.\n"
            + f"Definition gen_fill : M pyval := {fill}.\n"
            + f"Definition gen_prefix_upto (rank count_some epos : Z) : Z := {upto}.\n"
            + f"Definition gen_fill_count (rank count_some epos : Z) : Z := {cnt}.\n"
            + f"Definition gen_suffix_from (rank count_some epos : Z) : Z := {frm}.\n\n"
            + f"Definition gen_counts_as_expression (v_x : pyval) : M pyval :=\n  {cpred}.\n"
            + f"Definition gen_rank_mismatch (ndim cnt : Z) : bool := {cmpop}.\n"
            + f"Definition gen_rank_exn : exn := {exc}.\n")


# ------------------------------------------------------------------ census (C01/C07/C16) --

VALUE_ATTRS = ("to_numpy", "_eager_value", "_static_shape", "ORT_PRESENT")


def census():
    """Every read of an eager value / static shape / ORT flag in ndonnx/, with its enclosing
    function; and the decorator + body shape of every function of _opset_extensions.py."""
    sites = []
    for f in sorted((core.REPO / "ndonnx").rglob("*.py")):
        rel = str(f.relative_to(core.REPO))
        mod = ast.parse(f.read_text())

        def visit(node, qual):
            for ch in ast.iter_child_nodes(node):
                if isinstance(ch, (ast.FunctionDef, ast.ClassDef)):
                    visit(ch, qual + [ch.name])
                else:
                    for n in ast.walk(ch) if not isinstance(ch, (ast.FunctionDef, ast.ClassDef)) else []:
                        if isinstance(n, (ast.FunctionDef, ast.ClassDef)):
                            continue
                        name = None
                        if isinstance(n, ast.Attribute) and n.attr in VALUE_ATTRS:
                            name = n.attr
                        elif isinstance(n, ast.Name) and n.id in VALUE_ATTRS:
                            name = n.id
                        if name:
                            sites.append(f"{rel}:{'.'.join(qual) or '<module>'}:{name}")
        # nested function bodies are visited through visit(); ast.walk above would double count
        # nested defs, so walk statement-wise
        def walk_stmts(body, qual):
            for st in body:
                if isinstance(st, (ast.FunctionDef, ast.AsyncFunctionDef, ast.ClassDef)):
                    walk_stmts(st.body, qual + [st.name])
                    for d in getattr(st, "decorator_list", []):
                        scan(d, qual)
                else:
                    scan(st, qual)

        def scan(node, qual):
            stack = [node]
            while stack:
                n = stack.pop()
                if isinstance(n, (ast.FunctionDef, ast.AsyncFunctionDef, ast.ClassDef, ast.Lambda)) and n is not node:
                    if isinstance(n, ast.Lambda):
                        stack.extend(ast.iter_child_nodes(n))
                    else:
                        walk_stmts(n.body, qual + [n.name])
                    continue
                name = None
                if isinstance(n, ast.Attribute) and n.attr in VALUE_ATTRS:
                    name = n.attr
                elif isinstance(n, ast.Name) and n.id in VALUE_ATTRS:
                    name = n.id
                if name:
                    sites.append(f"{rel}:{'.'.join(qual) or '<module>'}:{name}")
                stack.extend(ast.iter_child_nodes(n))
        sites.clear() if False else None
        walk_stmts(mod.body, [])
    counted = {}
    for s in sites:
        counted[s] = counted.get(s, 0) + 1
    site_rows = [f"{k}#{v}" for k, v in sorted(counted.items())]
    # _opset_extensions: decorator and body shape
    text, mod = src("ndonnx/_opset_extensions.py")
    prim_rows = []
    for n in mod.body:
        if isinstance(n, ast.FunctionDef):
            decos = [ast.unparse(d) for d in n.decorator_list]
            body = [s for s in n.body if not (isinstance(s, ast.Expr) and isinstance(s.value, ast.Constant))]
            simple = len(body) == 1 and isinstance(body[0], ast.Return)
            uses_value = any(isinstance(x, ast.Attribute) and x.attr in ("to_numpy", "_eager_value") for x in ast.walk(n))
            prim_rows.append(f"{n.name}|{','.join(decos)}|{'simple' if simple else 'multi'}|{'reads-value' if uses_value else 'var-only'}")
    return site_rows, prim_rows


def emit_census(site_rows, prim_rows) -> str:
    hdr = "From Coq Require Import List String.\nImport ListNotations.\nOpen Scope string_scope.\n\n"
    return (hdr + "Definition sites : list string := [\n" + ";\n".join("  " + qs(s) for s in site_rows) + "\n].\n\n"
            + "Definition primitives : list string := [\n" + ";\n".join("  " + qs(s) for s in prim_rows) + "\n].\n")


# ------------------------------------------------------------------ protocols (C20) -------

def _proto_cond(node) -> str:
    """Boolean expression over the observable state of an array (record pstate `s`)."""
    u = ast.unparse(node)
    if isinstance(node, ast.BoolOp):
        op = " && " if isinstance(node.op, ast.And) else " || "
        return "(" + op.join(_proto_cond(v) for v in node.values) + ")"
    if isinstance(node, ast.UnaryOp) and isinstance(node.op, ast.Not):
        return f"(negb {_proto_cond(node.operand)})"
    table = {
        "eager_value is None": "(negb (has_value s))",
        "eager_value is not None": "(has_value s)",
        "eager_value.size == 1": "(size s =? 1)",
        "eager_value.size != 1": "(negb (size s =? 1))",
        "self.ndim == 0": "(ndim s =? 0)",
        "self.ndim != 0": "(negb (ndim s =? 0))",
        "isinstance(eager_value.item(), int)": "(item_is_int s || item_is_bool s)",
        "isinstance(eager_value.item(), bool)": "(item_is_bool s)",
        "isinstance(self.shape[0], int)": "(match shape0 s with DimInt _ => true | _ => false end)",
        "isinstance(n, int)": "(match shape0 s with DimInt _ => true | _ => false end)",
    }
    if u in table:
        return table[u]
    raise Untranslatable("protocol condition " + u)


def _proto_ret(node) -> str:
    u = ast.unparse(node)
    table = {"float(eager_value)": "PConv ToFloat", "int(eager_value)": "PConv ToInt", "bool(eager_value)": "PConv ToBool",
             "self.shape[0]": "(match shape0 s with DimInt n => PLen n | NoDim => PRaiseOther | DimDynamic => PRaiseOther end)",
             "(self[i, ...] for i in range(n))": "(match shape0 s with DimInt n => PIter n | _ => PRaiseOther end)"}
    if u in table:
        return table[u]
    raise Untranslatable("protocol return " + u)


def _proto_stmts(stmts) -> str:
    if not stmts:
        raise Untranslatable("protocol method falls off the end")
    s, rest = stmts[0], stmts[1:]
    if isinstance(s, ast.Assign) and ast.unparse(s) == "eager_value = self.to_numpy()":
        return _proto_stmts(rest)
    if isinstance(s, ast.Return):
        return _proto_ret(s.value)
    if isinstance(s, ast.Raise) and isinstance(s.exc, ast.Call) and isinstance(s.exc.func, ast.Name):
        return {"ValueError": "PRaiseVE", "TypeError": "PRaiseTE"}.get(s.exc.func.id, "PRaiseOther")
    if isinstance(s, ast.If):
        els = s.orelse if s.orelse else rest
        if s.orelse and rest:
            raise Untranslatable("statements after if/else")
        if ast.unparse(s.test) == "isinstance(self.shape[0], int)":
            # evaluating self.shape[0] on a 0-d array raises IndexError before isinstance runs
            return f"(match shape0 s with NoDim => PRaiseOther | DimInt _ => {_proto_stmts(s.body)} | DimDynamic => {_proto_stmts(els)} end)"
        return f"(if {_proto_cond(s.test)} then {_proto_stmts(s.body)} else {_proto_stmts(els)})"
    if isinstance(s, ast.Try) and ast.unparse(s.body[0]) in ("(n, *_) = self.shape", "n, *_ = self.shape") and len(s.handlers) == 1:
        # `n, *_ = self.shape`: on a 0-d array the unpacking itself raises (ValueError); the
        # handler only catches IndexError
        h = s.handlers[0]
        return f"(match shape0 s with NoDim => PRaiseVE | _ => {_proto_stmts(rest)} end)"
    raise Untranslatable("protocol statement " + ast.unparse(s)[:80])


def protocols() -> str:
    text, mod = src("ndonnx/_array.py")
    cls = [n for n in mod.body if isinstance(n, ast.ClassDef) and n.name == "Array"][0]
    out = ["From Coq Require Import List Bool ZArith.\nFrom ND Require Import Ndx.Proto.\nOpen Scope Z_scope.\n"]
    for py, name in (("__float__", "float"), ("__index__", "index"), ("__int__", "int"), ("__bool__", "bool"), ("__len__", "len"), ("__iter__", "iter")):
        fn = [m for m in cls.body if isinstance(m, ast.FunctionDef) and m.name == py]
        if len(fn) != 1:
            raise Untranslatable(f"Array.{py} not found")
        body = [s for s in fn[0].body if not (isinstance(s, ast.Expr) and isinstance(s.value, ast.Constant))]
        out.append(f"Definition gen_{name} (s : pstate) : poutcome :=\n  {_proto_stmts(body)}.\n")
    return "\n".join(out)


# ------------------------------------------------------------------ build tables (C05) ----

def build_tables() -> str:
    """_build._v1_dtypes (schema name -> dtype alias) and aliases.py (alias -> class name)."""
    text, mod = src("ndonnx/_build.py")
    v1 = None
    for n in mod.body:
        if isinstance(n, (ast.Assign, ast.AnnAssign)):
            tgt = n.targets[0] if isinstance(n, ast.Assign) else n.target
            if isinstance(tgt, ast.Name) and tgt.id == "_v1_dtypes" and isinstance(n.value, ast.Dict):
                v1 = [(k.value, v.attr) for k, v in zip(n.value.keys, n.value.values)
                      if isinstance(k, ast.Constant) and isinstance(v, ast.Attribute)]
                if len(v1) != len(n.value.keys):
                    raise Untranslatable("_v1_dtypes: unexpected entry")
    if v1 is None:
        raise Untranslatable("_v1_dtypes not found")
    t2, m2 = src("ndonnx/_data_types/aliases.py")
    alias = {}
    for n in m2.body:
        if isinstance(n, ast.AnnAssign) and isinstance(n.target, ast.Name) and isinstance(n.value, ast.Call) and isinstance(n.value.func, ast.Name):
            alias[n.target.id] = n.value.func.id
    core = {"bool": "CBool", "int8": "CI8", "int16": "CI16", "int32": "CI32", "int64": "CI64", "uint8": "CU8", "uint16": "CU16",
            "uint32": "CU32", "uint64": "CU64", "float32": "CF32", "float64": "CF64", "utf8": "CStr"}

    def cd(a):
        if a in core:
            return f"(DCore {core[a]})"
        if a.startswith("n") and a[1:] in core:
            return f"(DNull {core[a[1:]]})"
        raise Untranslatable(f"dtype alias {a}")
    rows = ";\n".join(f"  ({qs(k)}, {cd(a)})" for k, a in v1)
    arows = ";\n".join(f"  ({cd(a)}, {qs(c)})" for a, c in sorted(alias.items()))
    return ("From Coq Require Import List String.\nFrom ND Require Import Base.Dtype.\nImport ListNotations.\nOpen Scope string_scope.\n\n"
            f"Definition v1_dtypes : list (string * dtype) := [\n{rows}\n].\n\n"
            f"(* dtype singleton -> class name (= Schema.type_name, type(self).__name__) *)\nDefinition class_names : list (dtype * string) := [\n{arows}\n].\n")


# ------------------------------------------------------------------ null fill of the reductions (C04 / C10) ---
def null_fills():
    """For sum/prod/min/max/all/any of _NumericOperationsImpl: every statement
    `x = ndx.where(x.null, FILL, x.values)` with the isinstance class guarding it and FILL classified as a literal or
    the type's min/max.  Fail-closed: any other read of x.null / x.values in the function is refused."""
    text, mod = src("ndonnx/_core/_numericimpl.py")
    cls = [n for n in mod.body if isinstance(n, ast.ClassDef) and n.name == "_NumericOperationsImpl"][0]
    out = []

    def is_x_attr(n, attr):
        return isinstance(n, ast.Attribute) and n.attr == attr and isinstance(n.value, ast.Name) and n.value.id == "x"

    def classify(node, env, fname):
        if isinstance(node, ast.Constant) and isinstance(node.value, (bool, int)):
            return node.value
        if isinstance(node, ast.Call) and isinstance(node.func, ast.Attribute) and node.func.attr == "asarray" and node.args:
            a = node.args[0]
            if isinstance(a, ast.Constant) and isinstance(a.value, (bool, int)):
                return a.value
            if isinstance(a, ast.Attribute) and a.attr in ("min", "max") and isinstance(a.value, ast.Call) \
                    and isinstance(a.value.func, ast.Attribute) and a.value.func.attr in ("get_finfo", "get_iinfo"):
                return "type" + a.attr
            raise Untranslatable(f"{fname}: fill value {ast.dump(a)[:80]}")
        if isinstance(node, ast.Name) and node.id in env:
            return env[node.id]
        raise Untranslatable(f"{fname}: fill expression {ast.dump(node)[:80]}")

    for fname in ("sum", "prod", "min", "max", "all", "any"):
        fn = [m for m in cls.body if isinstance(m, ast.FunctionDef) and m.name == fname][0]
        fills = []
        n_reads = 0
        for n in ast.walk(fn):
            if is_x_attr(n, "null") or is_x_attr(n, "values"):
                n_reads += 1
            if isinstance(n, ast.Attribute) and n.attr == "dtype" and is_x_attr(n.value, "values"):
                n_reads -= 1          # x.values.dtype: the dtype of the values field, not its data

        def visit(stmts, guard):
            env = {}
            for st in stmts:
                if isinstance(st, ast.If):
                    g = None
                    t = st.test
                    if isinstance(t, ast.Call) and isinstance(t.func, ast.Name) and t.func.id == "isinstance" and len(t.args) == 2 \
                            and isinstance(t.args[0], ast.Attribute) and t.args[0].attr == "dtype" and isinstance(t.args[1], ast.Attribute):
                        g = t.args[1].attr
                    visit(st.body, g or guard)
                    visit(st.orelse, guard)
                elif isinstance(st, ast.Assign) and len(st.targets) == 1 and isinstance(st.targets[0], ast.Name):
                    tgt, v = st.targets[0].id, st.value
                    if tgt == "x" and isinstance(v, ast.Call) and isinstance(v.func, ast.Attribute) and v.func.attr == "where" and len(v.args) == 3 \
                            and is_x_attr(v.args[0], "null") and is_x_attr(v.args[2], "values"):
                        if guard is None:
                            raise Untranslatable(f"{fname}: null fill outside an isinstance guard")
                        fills.append((guard, classify(v.args[1], env, fname)))
                    elif tgt != "x":
                        try:
                            env[tgt] = classify(v, env, fname)
                        except Untranslatable:
                            pass
        visit(fn.body, None)
        if not fills:
            raise Untranslatable(f"{fname}: no statement `x = ndx.where(x.null, FILL, x.values)` found")
        if n_reads != 2 * len(fills):
            raise Untranslatable(f"{fname}: x.null / x.values are read outside the null-fill statements ({n_reads} reads, {len(fills)} fills)")
        out.append((fname, fills))
    return out


def emit_null_fills(rows) -> str:
    def fk(v):
        if v is True or v is False:
            return f"FBool {'true' if v else 'false'}"
        if isinstance(v, int):
            return f"FInt ({v})"
        return {"typemin": "FTypeMin", "typemax": "FTypeMax"}[v]
    body = ";\n   ".join('("%s", [%s])' % (f, "; ".join('("%s", %s)' % (g, fk(k)) for g, k in fills)) for f, fills in rows)
    return ("From Coq Require Import List ZArith Bool String.\nFrom ND Require Import Ndx.NullReduce.\nImport ListNotations.\nOpen Scope string_scope.\n"
            "(* GENERATED from ndonnx/_core/_numericimpl.py: the null-fill statement of every reduction *)\n"
            f"Definition null_fills : list (string * list (string * fillk)) :=\n  [{body}].\n")


# ------------------------------------------------------------------ all / any as forms (C10) ---
def allany_forms():
    """all/any of _NumericOperationsImpl and _BooleanOperationsImpl: after the optional null fill the body must be
        <name> = <B> if x.dtype == ndx.bool else <N>
        return ndx.<OUTER>(ndx.<RED>(<name>.astype(ndx.int64), axis=axis, keepdims=keepdims), 0)
    Returns [(where, fname, inner_bool, inner_num, red, outer)].  Fail-closed."""
    out = []
    POINT = {"ndx.logical_not(x)": "PNot", "x": "PId", "ndx.equal(x, 0)": "PEq0", "ndx.not_equal(x, 0)": "PNe0"}
    for rel, cname, tag in (("ndonnx/_core/_numericimpl.py", "_NumericOperationsImpl", "num"), ("ndonnx/_core/_boolimpl.py", "_BooleanOperationsImpl", "bool")):
        text, mod = src(rel)
        cls = [n for n in mod.body if isinstance(n, ast.ClassDef) and n.name == cname]
        if not cls:
            raise Untranslatable(f"{rel}: class {cname} not found")
        for fname in ("all", "any"):
            fns = [m for m in cls[0].body if isinstance(m, ast.FunctionDef) and m.name == fname]
            if len(fns) != 1:
                raise Untranslatable(f"{cname}.{fname}: not found")
            fn = fns[0]
            kw = [a.arg for a in fn.args.kwonlyargs]
            if [a.arg for a in fn.args.args] != ["self", "x"] or kw != ["axis", "keepdims"]:
                raise Untranslatable(f"{cname}.{fname}: signature {ast.unparse(fn.args)}")
            body = [s for s in fn.body if not (isinstance(s, ast.Expr) and isinstance(s.value, ast.Constant))]
            if body and isinstance(body[0], ast.If) and ast.unparse(body[0].test) == "isinstance(x.dtype, dtypes.NullableCore)" and not body[0].orelse \
                    and len(body[0].body) == 1 and ast.unparse(body[0].body[0]).startswith("x = ndx.where(x.null, "):
                body = body[1:]          # the null fill (its value is C04's business: null_fills())
            if len(body) != 2 or not isinstance(body[0], ast.Assign) or not isinstance(body[1], ast.Return):
                raise Untranslatable(f"{cname}.{fname}: unexpected statements: " + " | ".join(ast.unparse(s)[:50] for s in body))
            a, r = body
            v = a.value
            if not (len(a.targets) == 1 and isinstance(a.targets[0], ast.Name) and isinstance(v, ast.IfExp) and ast.unparse(v.test) == "x.dtype == ndx.bool"):
                raise Untranslatable(f"{cname}.{fname}: inner step " + ast.unparse(a)[:80])
            name = a.targets[0].id
            ib, inn = POINT.get(ast.unparse(v.body)), POINT.get(ast.unparse(v.orelse))
            if ib not in ("PNot", "PId") or inn not in ("PEq0", "PNe0"):
                raise Untranslatable(f"{cname}.{fname}: inner expressions " + ast.unparse(v)[:80])
            rv = r.value
            ok = (isinstance(rv, ast.Call) and ast.unparse(rv.func) in ("ndx.equal", "ndx.not_equal") and len(rv.args) == 2 and not rv.keywords
                  and ast.unparse(rv.args[1]) == "0" and isinstance(rv.args[0], ast.Call) and ast.unparse(rv.args[0].func) in ("ndx.sum", "ndx.prod", "ndx.min", "ndx.max")
                  and len(rv.args[0].args) == 1 and ast.unparse(rv.args[0].args[0]) == f"{name}.astype(ndx.int64)"
                  and sorted((k.arg, ast.unparse(k.value)) for k in rv.args[0].keywords) == [("axis", "axis"), ("keepdims", "keepdims")])
            if not ok:
                raise Untranslatable(f"{cname}.{fname}: return expression " + ast.unparse(rv)[:120])
            outer = "PEq0" if ast.unparse(rv.func) == "ndx.equal" else "PNe0"
            red = {"ndx.sum": "FSum", "ndx.prod": "FProd", "ndx.min": "FMin", "ndx.max": "FMax"}[ast.unparse(rv.args[0].func)]
            out.append((tag, fname, ib, inn, red, outer))
    return out


def emit_allany(rows) -> str:
    defs = "\n".join(f"Definition gen_{tag}_{f} : aform := {{| af_inner_bool := {ib}; af_inner_num := {inn}; af_red := {red}; af_outer := {outer} |}}."
                     for tag, f, ib, inn, red, outer in rows)
    return ("From Coq Require Import List ZArith Bool.\nFrom ND Require Import Ndx.ReduceMore.\n"
            "(* GENERATED from _numericimpl.py / _boolimpl.py: all / any as (inner step, reducer, outer comparison) *)\n" + defs + "\n")


# ------------------------------------------------------------------ name joining in _build.py (C05) ---
def build_joins():
    """How _flatten and _assemble_outputs.helper form the tensor name of a sub-field and index the flat table:
    the recursive call must pass f"{<the accumulated-path parameter>}_{<the loop's field variable>}", and the leaf must
    read / write the table under the accumulated path.  Returns dict of booleans + separator.  Fail-closed."""
    text, mod = src("ndonnx/_build.py")

    def find(body, name):
        for n in body:
            if isinstance(n, ast.FunctionDef) and n.name == name:
                return n
        raise Untranslatable(f"_build.py: function {name} not found")

    def join_of(call_arg, loop_field):
        if not (isinstance(call_arg, ast.JoinedStr) and len(call_arg.values) == 3 and isinstance(call_arg.values[0], ast.FormattedValue)
                and isinstance(call_arg.values[1], ast.Constant) and isinstance(call_arg.values[2], ast.FormattedValue)
                and isinstance(call_arg.values[0].value, ast.Name) and isinstance(call_arg.values[2].value, ast.Name)):
            raise Untranslatable("_build.py: sub-field name is not f\"{a}<sep>{b}\": " + ast.unparse(call_arg))
        if call_arg.values[2].value.id != loop_field:
            raise Untranslatable("_build.py: sub-field name does not end with the loop's field variable: " + ast.unparse(call_arg))
        return call_arg.values[0].value.id, call_arg.values[1].value

    # ---- _flatten(input_dict, dtype, field_name)
    fl = find(mod.body, "_flatten")
    params = [a.arg for a in fl.args.args]
    if len(params) != 3:
        raise Untranslatable("_flatten: signature")
    acc_param = params[2]
    rec = [n for n in ast.walk(fl) if isinstance(n, ast.Call) and isinstance(n.func, ast.Name) and n.func.id == "_flatten"]
    loops = [n for n in ast.walk(fl) if isinstance(n, ast.For)]
    if len(rec) != 1 or len(loops) != 1 or not isinstance(loops[0].target, ast.Tuple) or ast.unparse(loops[0].iter) != f"{params[1]}._fields().items()" \
            or len(rec[0].args) != 3 or ast.unparse(rec[0].args[0]) != f"{params[0]}[{loops[0].target.elts[0].id}]" or ast.unparse(rec[0].args[1]) != loops[0].target.elts[1].id:
        raise Untranslatable("_flatten: recursion structure")
    head, sep1 = join_of(rec[0].args[2], loops[0].target.elts[0].id)
    leaf = [n for n in ast.walk(fl) if isinstance(n, ast.Return) and isinstance(n.value, ast.Dict)]
    if len(leaf) != 1 or len(leaf[0].value.keys) != 1 or not isinstance(leaf[0].value.keys[0], ast.Name) or ast.unparse(leaf[0].value.values[0]) != f"{params[0]}['data']":
        raise Untranslatable("_flatten: leaf")
    out = {"flatten_acc": head == acc_param, "flatten_leaf_by_path": leaf[0].value.keys[0].id == acc_param}
    # ---- _assemble_outputs -> _assemble_output(name, type) -> helper(cur_type, prefix)
    ao = find(find(mod.body, "_assemble_outputs").body, "_assemble_output")
    hp = find(ao.body, "helper")
    hparams = [a.arg for a in hp.args.args]
    if len(hparams) != 2:
        raise Untranslatable("helper: signature")
    rec = [n for n in ast.walk(hp) if isinstance(n, ast.Call) and isinstance(n.func, ast.Name) and n.func.id == "helper"]
    comps = [n for n in ast.walk(hp) if isinstance(n, ast.DictComp)]
    if len(rec) != 1 or len(comps) != 1 or len(comps[0].generators) != 1 or not isinstance(comps[0].generators[0].target, ast.Tuple) \
            or ast.unparse(comps[0].generators[0].iter) != f"{hparams[0]}._fields().items()" or comps[0].generators[0].ifs \
            or ast.unparse(comps[0].key) != comps[0].generators[0].target.elts[0].id or comps[0].value is not rec[0] \
            or len(rec[0].args) != 2 or ast.unparse(rec[0].args[0]) != comps[0].generators[0].target.elts[1].id:
        raise Untranslatable("helper: recursion structure")
    head2, sep2 = join_of(rec[0].args[1], comps[0].generators[0].target.elts[0].id)
    subs = [n for n in ast.walk(hp) if isinstance(n, ast.Subscript) and isinstance(n.value, ast.Name) and n.value.id == "output_data"]
    if len(subs) != 1 or not isinstance(subs[0].slice, ast.Name):
        raise Untranslatable("helper: leaf lookup")
    top = [n for n in ast.walk(ao) if isinstance(n, ast.Call) and isinstance(n.func, ast.Name) and n.func.id == "helper" and n is not rec[0]]
    ao_params = [a.arg for a in ao.args.args]
    if len(top) != 1 or [ast.unparse(a) for a in top[0].args] != [ao_params[1], ao_params[0]]:
        raise Untranslatable("_assemble_output: initial call of helper")
    if sep1 != sep2:
        raise Untranslatable(f"_build.py: different separators {sep1!r} / {sep2!r}")
    out.update({"assemble_acc": head2 == hparams[1], "assemble_leaf_by_path": subs[0].slice.id == hparams[1], "sep": sep1})
    if not out["assemble_acc"] and head2 != ao_params[0]:
        raise Untranslatable("helper: sub-field names start with neither the accumulated path nor the output name: " + head2)
    return out


def emit_build_joins(j) -> str:
    b = lambda x: "true" if x else "false"
    return ("From Coq Require Import String Bool.\nOpen Scope string_scope.\n(* GENERATED from ndonnx/_build.py: how _flatten and _assemble_outputs.helper form and use tensor names *)\n"
            f"Definition gen_flatten_acc : bool := {b(j['flatten_acc'])}.\nDefinition gen_flatten_leaf_by_path : bool := {b(j['flatten_leaf_by_path'])}.\n"
            f"Definition gen_assemble_acc : bool := {b(j['assemble_acc'])}.\nDefinition gen_assemble_leaf_by_path : bool := {b(j['assemble_leaf_by_path'])}.\n"
            f"Definition gen_sep : string := {qs(j['sep'])}.\n")


# ------------------------------------------------------------------ the basic-index lowering opx.getitem (C08) ---
_GETITEM_HEAD = """if isinstance(index, _CoreArray):
    if get_dtype(index) == np.bool_:
        if get_rank(corearray) < get_rank(index):
            raise IndexError('Indexing with boolean array cannot happen')
        return getitem_null(corearray, index)
    else:
        return _CoreArray(op.gather(corearray.var, index.var, axis=0))
elif len(index) == 0:
    return corearray.copy()
elif all((isinstance(i, bool) for i in index)):
    index = typing.cast(tuple[bool, ...], index)
    return getitem(corearray, _CoreArray(op.const(index) if len(index) > 1 else op.const(index[0])))"""
_GETITEM_SLICE = """if axis_slices:
    ndim = get_rank(var)
    var = op.slice(var, op.const(np.array([x[0] for x in axis_slices], np.int64)), op.const(np.array([x[1] for x in axis_slices], np.int64)), op.const(np.array([x[3] for x in axis_slices], np.int64)), op.const(np.array([x[2] for x in axis_slices], np.int64)))
    var = unsafe_reshape(var, tuple((None for i in builtins.range(ndim))))"""


def getitem_form():
    """_opset_extensions.getitem, tuple-of-scalars path, as a FORM: what enumerate() runs over when the stepped slices and
    the integer entries are numbered (the index without None entries, or the raw index), whether the Gathers are applied
    in reverse order, and what the new-axis positions are counted over.  Everything else must read exactly as the text
    the model Ndx/GetItem.v ndx_getitem was transcribed from.  Fail-closed."""
    text, mod = src("ndonnx/_opset_extensions.py")
    fns = [n for n in mod.body if isinstance(n, ast.FunctionDef) and n.name == "getitem"]
    if len(fns) != 1:
        raise Untranslatable("getitem not found")
    fn = fns[0]
    if [a.arg for a in fn.args.args] != ["corearray", "index"] or [ast.unparse(d) for d in fn.decorator_list] != ["eager_propagate"]:
        raise Untranslatable("getitem: signature / decorator")
    body = [s for s in fn.body if not (isinstance(s, ast.Expr) and isinstance(s.value, ast.Constant))]
    u = [ast.unparse(s) for s in body]
    if len(body) != 11:
        raise Untranslatable(f"getitem: {len(body)} statements (expected 11): " + " | ".join(x[:40] for x in u))
    if u[0] != _GETITEM_HEAD:
        raise Untranslatable("getitem: the dispatch on index arrays / the empty index / all-bool indices changed")
    if u[1] != "index_some = [x for x in index if x is not None]":
        raise Untranslatable("getitem: index_some: " + u[1])

    def over(stmt_src, prefix, suffix):
        for base, tag in (("index_some", "OverIndexSome"), ("index", "OverIndex")):
            if stmt_src == prefix + f"enumerate({base})" + suffix:
                return tag
        raise Untranslatable("getitem: " + stmt_src[:120])
    s_over = over(u[2], "axis_slices = [(x.start, x.stop, x.step, ind) for ind, x in ", " if isinstance(x, slice) and x.step is not None]")
    if u[3] != "var = corearray.var" or u[4] != _GETITEM_SLICE:
        raise Untranslatable("getitem: the Slice node (inputs starts, ends, axes, steps) changed")
    i_over = over(u[5], "axis_indices = [(ind, x) for ind, x in ", " if isinstance(x, int)]")
    if u[6] == "for axis, axis_index in reversed(axis_indices):\n    var = op.gather(var, op.const(axis_index), axis=axis)":
        rev = True
    elif u[6] == "for axis, axis_index in axis_indices:\n    var = op.gather(var, op.const(axis_index), axis=axis)":
        rev = False
    else:
        raise Untranslatable("getitem: the Gather loop changed")
    if u[7] != "index_filtered = [x for x in index if isinstance(x, (type(None), slice))]":
        raise Untranslatable("getitem: index_filtered: " + u[7])
    n_over = {"axis_new_axes = [ind for ind, x in enumerate(index_filtered) if x is None]": True,
              "axis_new_axes = [ind for ind, x in enumerate(index) if x is None]": False}.get(u[8])
    if n_over is None:
        raise Untranslatable("getitem: axis_new_axes: " + u[8])
    if u[9] != "if len(axis_new_axes) != 0:\n    var = op.unsqueeze(var, axes=op.const(axis_new_axes, dtype=np.int64))" or u[10] != "return _CoreArray(var)":
        raise Untranslatable("getitem: the Unsqueeze / return changed")
    return {"slices_over": s_over, "ints_over": i_over, "reversed": rev, "new_over_filtered": n_over}


def emit_getitem_form(f) -> str:
    b = lambda x: "true" if x else "false"
    return ("From Coq Require Import Bool.\nFrom ND Require Import Ndx.GetItemForm.\n(* GENERATED from ndonnx/_opset_extensions.py getitem *)\n"
            f"Definition gen_getitem_form : gform := {{| gf_slices_over := {f['slices_over']}; gf_ints_over := {f['ints_over']}; "
            f"gf_gather_reversed := {b(f['reversed'])}; gf_new_axes_over_filtered := {b(f['new_over_filtered'])} |}}.\n")


# ------------------------------------------------------------------ flip (C11) ---
def flip_form():
    """UniformShapeOperations.flip as a form: rank-0 shortcut, which axis arguments are normalised, which slice the member
    axes get.  Everything else must read as transcribed.  Fail-closed."""
    text, mod = src("ndonnx/_core/_shapeimpl.py")
    cls = [n for n in mod.body if isinstance(n, ast.ClassDef) and n.name == "UniformShapeOperations"]
    fns = [m for m in (cls[0].body if cls else []) if isinstance(m, ast.FunctionDef) and m.name == "flip"]
    if len(fns) != 1 or [a.arg for a in fns[0].args.args] != ["self", "x", "axis"]:
        raise Untranslatable("flip: not found / signature")
    u = [ast.unparse(s) for s in fns[0].body if not (isinstance(s, ast.Expr) and isinstance(s.value, ast.Constant))]
    rank0 = False
    if u and u[0] == "if x.ndim == 0:\n    return x.copy()":
        rank0, u = True, u[1:]
    NORM = "axis = [x.ndim + ax if ax < 0 else ax for ax in axis]"
    BRANCH = "if axis is None:\n    axis = range(x.ndim)\nelif not isinstance(axis, Iterable):\n    axis = [axis]"
    BRANCH_S = "if axis is None:\n    axis = range(x.ndim)\nelif not isinstance(axis, Iterable):\n    axis = [x.ndim + axis if axis < 0 else axis]"
    if len(u) == 4 and u[0] == BRANCH and u[1] == NORM:
        norm, rest = "NormAll", u[2:]
    elif len(u) == 3 and u[0] == BRANCH_S:
        norm, rest = "NormScalarOnly", u[1:]
    elif len(u) == 3 and u[0] == BRANCH:
        norm, rest = "NormNever", u[1:]
    else:
        raise Untranslatable("flip: axis handling: " + " | ".join(x[:60] for x in u))
    idx = {"index = tuple((slice(None, None, None) if i not in axis else slice(None, None, -1) for i in range(0, x.ndim)))": True,
           "index = tuple((slice(None, None, -1) if i in axis else slice(None, None, None) for i in range(0, x.ndim)))": True,
           "index = tuple((slice(None, None, -1) if i not in axis else slice(None, None, None) for i in range(0, x.ndim)))": False}.get(rest[0])
    if idx is None or rest[1] != "return x[index]":
        raise Untranslatable("flip: index construction: " + rest[0][:120])
    return {"rank0": rank0, "norm": norm, "member_reversed": idx}


def emit_flip_form(f) -> str:
    b = lambda x: "true" if x else "false"
    return ("From Coq Require Import Bool.\nFrom ND Require Import Ndx.FlipForm.\n(* GENERATED from ndonnx/_core/_shapeimpl.py flip *)\n"
            f"Definition gen_flip_form : fform := {{| ff_rank0_copies := {b(f['rank0'])}; ff_norm := {f['norm']}; ff_member_reversed := {b(f['member_reversed'])} |}}.\n")
