"""T-src: fail-closed `ast` translators from /repo's source text to Gallina.

  dispatch_table()   _funcs.py / _array.py  ->  Gen: list of dispatch rows
  reduce_prologue()  _numericimpl.py sum/prod/min/max prologue -> Gen: Gallina functions
  index_functions()  _index.py, _corearray._normalise_index -> Gen: Gallina functions (C08)
  protocols()        _array.py __bool__/__int__/__float__/__index__/__len__/__iter__ (C20)

Any construct outside the whitelists raises Untranslatable (the tie is then broken, loudly)."""
from __future__ import annotations

import ast
from pathlib import Path

from vlib import core


class Untranslatable(Exception):
    pass


def src(rel: str) -> tuple[str, ast.Module]:
    p = core.REPO / rel
    text = p.read_text()
    return text, ast.parse(text)


def qs(s: str) -> str:
    if not all(32 <= ord(c) < 127 and c != '"' for c in s):
        raise Untranslatable(f"string {s!r}")
    return '"' + s + '"'


# ------------------------------------------------------------------------- dispatch -----

def _argv(node, params) -> str:
    if isinstance(node, ast.Name) and node.id in params:
        return f"AParam {qs(node.id)}"
    if isinstance(node, ast.Constant):
        return f"ALit {qs(repr(node.value))}"
    return "AOther"


def _find_ops_calls(fn: ast.FunctionDef):
    """All calls `<e>._ops.<attr>(...)`, `_unary(<e>._ops.<attr>, x)`, `_binary("<attr>", x, y)`,
    `getattr(<e>._ops, name)` inside fn."""
    found = []
    for n in ast.walk(fn):
        if isinstance(n, ast.Call):
            f = n.func
            if isinstance(f, ast.Attribute) and isinstance(f.value, ast.Attribute) and f.value.attr == "_ops":
                found.append(("ops", f.attr, n))
            elif isinstance(f, ast.Name) and f.id == "_unary" and n.args and isinstance(n.args[0], ast.Attribute) \
                    and isinstance(n.args[0].value, ast.Attribute) and n.args[0].value.attr == "_ops":
                found.append(("unary", n.args[0].attr, n))
            elif isinstance(f, ast.Name) and f.id == "_binary" and n.args and isinstance(n.args[0], ast.Constant):
                found.append(("binary", n.args[0].value, n))
    return found


def dispatch_table():
    text, mod = src("ndonnx/_funcs.py")
    public = None
    for n in mod.body:
        if isinstance(n, ast.Assign) and any(isinstance(t, ast.Name) and t.id == "__all__" for t in n.targets):
            public = [e.value for e in n.value.elts]
    if public is None:
        raise Untranslatable("__all__ not found in _funcs.py")
    rows = []
    fns = {n.name: n for n in mod.body if isinstance(n, ast.FunctionDef)}
    for name in public:
        fn = fns.get(name)
        if fn is None:
            raise Untranslatable(f"public function {name} has no def")
        params = [a.arg for a in fn.args.posonlyargs + fn.args.args + fn.args.kwonlyargs]
        calls = _find_ops_calls(fn)
        if not calls:
            # composite: record the ndonnx-level functions it calls
            callees = sorted({c.func.id for c in ast.walk(fn) if isinstance(c, ast.Call) and isinstance(c.func, ast.Name) and c.func.id in fns})
            rows.append((name, "composite", ";".join(callees), [], []))
            continue
        targets = sorted({(k, a) for k, a, _ in calls})
        for k, a in targets:
            call = [c for kk, aa, c in calls if (kk, aa) == (k, a)][0]
            pos = [_argv(x, params) for x in (call.args[1:] if k in ("unary", "binary") else call.args)]
            kws = [(kw.arg, _argv(kw.value, params)) for kw in call.keywords if kw.arg]
            rows.append((name, k, a, pos, kws))
    # Array methods and operators that forward to ndx.<f>(self, ...)
    text2, mod2 = src("ndonnx/_array.py")
    mrows = []
    cls = [n for n in mod2.body if isinstance(n, ast.ClassDef) and n.name == "Array"][0]
    for m in cls.body:
        if not isinstance(m, ast.FunctionDef):
            continue
        rets = [s for s in m.body if isinstance(s, ast.Return)]
        if len(rets) != 1 or not isinstance(rets[0].value, ast.Call):
            continue
        call = rets[0].value
        inner = call
        wrapped = ""
        # self._set(ndx.f(self, other))
        if isinstance(call.func, ast.Attribute) and call.func.attr == "_set" and call.args and isinstance(call.args[0], ast.Call):
            inner = call.args[0]
            wrapped = "_set"
        f = inner.func
        if isinstance(f, ast.Attribute) and isinstance(f.value, ast.Name) and f.value.id == "ndx":
            params = [a.arg for a in m.args.args + m.args.kwonlyargs]
            pos = [_argv(x, params) for x in inner.args]
            kws = [(kw.arg, _argv(kw.value, params)) for kw in inner.keywords if kw.arg]
            mrows.append((m.name, "method" + wrapped, f.attr, pos, kws))
    return rows, mrows


def emit_dispatch(rows, mrows) -> str:
    def row(r):
        name, k, a, pos, kws = r
        kw = "; ".join(f"({qs(kn)}, {v})" for kn, v in kws)
        return f"  {{| d_public := {qs(name)}; d_kind := {qs(k)}; d_target := {qs(a)}; d_pos := [{'; '.join(pos)}]; d_kw := [{kw}] |}}"
    hdr = ("From Coq Require Import List String.\nFrom ND Require Import Ndx.Dispatch.\nImport ListNotations.\nOpen Scope string_scope.\n\n")
    return (hdr + "Definition dispatch : list drow := [\n" + ";\n".join(row(r) for r in rows) + "\n].\n\n"
            + "Definition methods : list drow := [\n" + ";\n".join(row(r) for r in mrows) + "\n].\n")


# ----------------------------------------------------------------- reduction prologue -----

def _zexpr(node, env) -> str:
    """Integer expression over names in env."""
    if isinstance(node, ast.Name) and node.id in env:
        return env[node.id]
    if isinstance(node, ast.Attribute) and isinstance(node.value, ast.Name) and node.value.id == "x" and node.attr == "ndim":
        return "ndim"
    if isinstance(node, ast.Constant) and isinstance(node.value, int) and not isinstance(node.value, bool):
        return f"({node.value})%Z"
    if isinstance(node, ast.UnaryOp) and isinstance(node.op, ast.USub):
        return f"(- {_zexpr(node.operand, env)})%Z"
    if isinstance(node, ast.BinOp) and isinstance(node.op, (ast.Add, ast.Sub, ast.Mult)):
        op = {ast.Add: "+", ast.Sub: "-", ast.Mult: "*"}[type(node.op)]
        return f"({_zexpr(node.left, env)} {op} {_zexpr(node.right, env)})%Z"
    if isinstance(node, ast.IfExp):
        return f"(if {_bexpr(node.test, env)} then {_zexpr(node.body, env)} else {_zexpr(node.orelse, env)})"
    raise Untranslatable("integer expression " + ast.dump(node)[:80])


def _bexpr(node, env) -> str:
    if isinstance(node, ast.Compare) and len(node.ops) == 1:
        op = {ast.Lt: "<?", ast.LtE: "<=?", ast.Gt: ">?", ast.GtE: ">=?", ast.Eq: "=?"}.get(type(node.ops[0]))
        if op is None:
            raise Untranslatable("comparison " + ast.dump(node)[:80])
        return f"({_zexpr(node.left, env)} {op} {_zexpr(node.comparators[0], env)})%Z"
    raise Untranslatable("boolean expression " + ast.dump(node)[:80])


def _axis_test(node) -> str:
    """Classify a test on `axis`: 'none' (axis is None), 'scalar' (not isinstance(axis, Iterable))."""
    if isinstance(node, ast.Compare) and isinstance(node.left, ast.Name) and node.left.id == "axis" and len(node.ops) == 1 \
            and isinstance(node.comparators[0], ast.Constant) and node.comparators[0].value is None:
        if isinstance(node.ops[0], ast.Is):
            return "none"
        if isinstance(node.ops[0], ast.IsNot):
            return "notnone"
    if isinstance(node, ast.UnaryOp) and isinstance(node.op, ast.Not) and isinstance(node.operand, ast.Call) \
            and isinstance(node.operand.func, ast.Name) and node.operand.func.id == "isinstance" \
            and isinstance(node.operand.args[0], ast.Name) and node.operand.args[0].id == "axis" \
            and isinstance(node.operand.args[1], ast.Name) and node.operand.args[1].id == "Iterable":
        return "scalar"
    raise Untranslatable("test on axis: " + ast.dump(node)[:100])


def _axes_value(node, branch) -> str:
    if isinstance(node, ast.List) and len(node.elts) == 0:
        return "[]"
    if isinstance(node, ast.List) and len(node.elts) == 1 and isinstance(node.elts[0], ast.Name) and node.elts[0].id == "axis":
        if branch != "scalar":
            raise Untranslatable("[axis] outside the scalar branch")
        return "[a]"
    if isinstance(node, ast.Name) and node.id == "axis":
        if branch != "tuple":
            raise Untranslatable("axes = axis outside the tuple branch")
        return "l"
    raise Untranslatable("axes value " + ast.dump(node)[:80])


def reduce_prologue():
    text, mod = src("ndonnx/_core/_numericimpl.py")
    cls = [n for n in mod.body if isinstance(n, ast.ClassDef) and n.name == "_NumericOperationsImpl"][0]
    out = []
    for fname in ("sum", "prod", "min", "max"):
        fn = [m for m in cls.body if isinstance(m, ast.FunctionDef) and m.name == fname][0]
        body = fn.body
        # 1. the if / elif / else chain assigning `axes`
        chain = [s for s in body if isinstance(s, ast.If) and isinstance(s.test, (ast.Compare,)) and _safe(lambda: _axis_test(s.test)) == "none"]
        if len(chain) != 1:
            raise Untranslatable(f"{fname}: axes prologue not found")
        s = chain[0]
        br = {}
        def one_assign(stmts, branch):
            if len(stmts) != 1 or not isinstance(stmts[0], ast.Assign) or len(stmts[0].targets) != 1 \
                    or not isinstance(stmts[0].targets[0], ast.Name) or stmts[0].targets[0].id != "axes":
                raise Untranslatable(f"{fname}: branch {branch} is not `axes = ...`")
            return _axes_value(stmts[0].value, branch)
        br["none"] = one_assign(s.body, "none")
        if len(s.orelse) != 1 or not isinstance(s.orelse[0], ast.If) or _axis_test(s.orelse[0].test) != "scalar":
            raise Untranslatable(f"{fname}: elif not isinstance(axis, Iterable) expected")
        br["scalar"] = one_assign(s.orelse[0].body, "scalar")
        br["tuple"] = one_assign(s.orelse[0].orelse, "tuple")
        # 2. optional normalisation comprehension `axes = [<elt> for ax in axes]`
        idx = body.index(s)
        norm = "ax"
        for st in body[idx + 1:]:
            if isinstance(st, ast.Assign) and isinstance(st.targets[0], ast.Name) and st.targets[0].id == "axes":
                v = st.value
                if not (isinstance(v, ast.ListComp) and len(v.generators) == 1 and isinstance(v.generators[0].target, ast.Name)
                        and v.generators[0].target.id == "ax" and isinstance(v.generators[0].iter, ast.Name)
                        and v.generators[0].iter.id == "axes" and not v.generators[0].ifs):
                    raise Untranslatable(f"{fname}: unexpected reassignment of axes")
                norm = _zexpr(v.elt, {"ax": "ax"})
        # 3. the reduce call: keepdims / noop_with_empty_axes keywords
        calls = [c for c in ast.walk(fn) if isinstance(c, ast.Call) and isinstance(c.func, ast.Attribute)
                 and c.func.attr.startswith("reduce_")]
        if len(calls) != 1:
            raise Untranslatable(f"{fname}: expected exactly one opx.reduce_* call")
        call = calls[0]
        kw = {k.arg: k.value for k in call.keywords}
        if set(kw) != {"keepdims", "noop_with_empty_axes"}:
            raise Untranslatable(f"{fname}: reduce keywords {sorted(kw)}")
        if isinstance(kw["keepdims"], ast.Name) and kw["keepdims"].id == "keepdims":
            keep = "keep"
        elif isinstance(kw["keepdims"], ast.Constant) and isinstance(kw["keepdims"].value, bool):
            keep = "true" if kw["keepdims"].value else "false"
        else:
            raise Untranslatable(f"{fname}: keepdims argument")
        t = kw["noop_with_empty_axes"]
        if isinstance(t, ast.Constant) and isinstance(t.value, bool):
            noop = "true" if t.value else "false"
        else:
            k = _axis_test(t)
            noop = {"notnone": "match axis with AxNone => false | _ => true end", "none": "match axis with AxNone => true | _ => false end"}[k]
        op = call.func.attr
        if not (len(call.args) == 2 and isinstance(call.args[1], ast.Call) and isinstance(call.args[1].func, ast.Attribute)
                and call.args[1].func.attr == "const" and isinstance(call.args[1].args[0], ast.Name) and call.args[1].args[0].id == "axes"):
            raise Untranslatable(f"{fname}: axes operand of the reduce call")
        out.append((fname, br, norm, keep, noop, op))
    return out


def _safe(f):
    try:
        return f()
    except Untranslatable:
        return None


def emit_reduce(rows) -> str:
    hdr = ("From Coq Require Import List ZArith String Bool.\nFrom ND Require Import Base.Tensor Ndx.Reduce.\nImport ListNotations.\n\n")
    parts = [hdr]
    for fname, br, norm, keep, noop, op in rows:
        parts.append(
            f"Definition gen_axes_{fname} (ndim : Z) (axis : axis_spec) : list Z :=\n"
            f"  let axes := match axis with AxNone => {br['none']} | AxInt a => {br['scalar']} | AxTuple l => {br['tuple']} end in\n"
            f"  map (fun ax => {norm}) axes.\n"
            f"Definition gen_noop_{fname} (axis : axis_spec) : bool := {noop}.\n"
            f"Definition gen_keep_{fname} (keep : bool) : bool := {keep}.\n"
            f'Definition gen_op_{fname} : string := "{op}"%string.\n\n')
    return "".join(parts)
