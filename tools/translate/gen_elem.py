"""T-graph driver: builds the element-wise function x dtype table from /repo's working tree
and prints it as Gallina (`Definition table : list row`)."""
from __future__ import annotations

import json
import sys

from vlib import core
from harness_consts import ALL, CORE, UNARY, BINARY, OPERATORS, REDUCED, SCALAR_NAMES

COQ_CORE = {"bool": "CBool", "int8": "CI8", "int16": "CI16", "int32": "CI32", "int64": "CI64",
            "uint8": "CU8", "uint16": "CU16", "uint32": "CU32", "uint64": "CU64",
            "float32": "CF32", "float64": "CF64", "utf8": "CStr"}
COQ_SCAL = {"pybool": "PyBool", "pyint": "PyInt", "pyfloat": "PyFloat", "pystr": "PyStr"}


def coq_dtype(name: str) -> str:
    if name.startswith("n") and name[1:] in COQ_CORE:
        return f"(DNull {COQ_CORE[name[1:]]})"
    return f"(DCore {COQ_CORE[name]})"


def coq_arg(a: str) -> str:
    if a in COQ_SCAL:
        return f"AScal {COQ_SCAL[a]}"
    return f"AArr {coq_dtype(a)}"


def row_specs():
    """[(fname, [args], how, mode)]  mode: 'ranks' (fexpr, traced at 3 ranks), 'full' (fexpr),
    'light' (result dtype / exception only)"""
    rows = []
    for f in UNARY:
        for d in ALL:
            rows.append((f, [d], "func", "ranks"))
    for f in BINARY:
        for a in ALL:
            for b in ALL:
                mode = "ranks" if a == b else "full" if (a in REDUCED and b in REDUCED) else "light"
                rows.append((f, [a, b], "func", mode))
        h = "op" if f in OPERATORS else "func"
        for s in SCALAR_NAMES:
            for d in REDUCED:
                rows.append((f, [d, s], h, "full"))
                rows.append((f, [s, d], h, "full"))
    for f in OPERATORS:
        for d in ALL:
            rows.append((f, [d, d], "op", "full"))
    return rows


def collect(workers=14):
    specs = row_specs()
    ranks = [s for s in specs if s[3] == "ranks"]
    full = [s for s in specs if s[3] == "full"]
    light = [s for s in specs if s[3] == "light"]
    n = 3 * workers
    cases = [{"id": f"r{i}", "rows": [[f, a, h] for f, a, h, _ in ranks[i::n]], "ranks": True} for i in range(n)]
    cases += [{"id": f"g{i}", "rows": [[f, a, h] for f, a, h, _ in full[i::n]], "ranks": False} for i in range(n)]
    res = core.run_cases("harness.h_graph", cases, workers=workers, per_case_timeout=300)
    out = {}
    problems = []
    for c in cases:
        r = res.get(c["id"], {})
        if "rows" not in r:
            problems.append(f"{c['id']}: {r}")
            continue
        for f, a, h, o in r["rows"]:
            out[(f, tuple(a), h)] = o
    # dtype-only rows
    by_f = {}
    for f, a, h, _ in light:
        by_f.setdefault(f, []).append(a)
    cases2 = [{"id": f"d-{f}", "kind": "binary", "func": f, "pairs": ps} for f, ps in by_f.items()]
    res2 = core.run_cases("harness.h_dtypes", cases2, workers=workers, per_case_timeout=300)
    for c in cases2:
        r = res2.get(c["id"], {})
        if "rows" not in r:
            problems.append(f"{c['id']}: {r}")
            continue
        for f, a, b, o in r["rows"]:
            if o.startswith("!"):
                out[(f, (a, b), "func")] = {"raise": o[1:].split("|")[0]}
            elif o.startswith("?"):
                out[(f, (a, b), "func")] = {"raise": "Other:returned"}
            else:
                out[(f, (a, b), "func")] = {"dtype_only": o}
    return specs, out, problems


def coq_row(f, args, how, o) -> str:
    h = "HOper" if how == "op" else "HFunc"
    a = "[" + "; ".join(coq_arg(x) for x in args) + "]"
    if "unsupported" in o:
        out = "Untranslated"
    elif "raise" in o:
        fam = o["raise"]
        e = "ETypeError" if fam == "TE" else "EValueError" if fam == "VE" else "EOther"
        out = f"Raises {e}"
    elif "dtype_only" in o:
        out = f"DtypeOnly {coq_dtype(o['dtype_only'])}"
    else:
        n = "None" if o["null"] is None else f"(Some {o['null']})"
        out = f"Traced {coq_dtype(o['dtype'])} {o['values']} {n}"
    return f'  {{| r_fn := "{f}"; r_how := {h}; r_args := {a}; r_out := {out} |}}'


def emit(specs, out, name="table") -> str:
    lines = []
    for f, a, h, _ in specs:
        lines.append(coq_row(f, a, h, out[(f, tuple(a), h)]))
    hdr = ("From Coq Require Import List ZArith String.\nFrom ND Require Import Base.Dtype Ndx.ElemSyntax.\n"
           "Import ListNotations.\nOpen Scope string_scope.\nOpen Scope Z_scope.\n\n")
    return hdr + f"Definition {name} : list row := [\n" + ";\n".join(lines) + "\n].\n"


def tree_hash() -> str:
    import hashlib
    h = hashlib.sha256()
    for f in sorted((core.REPO / "ndonnx").rglob("*.py")):
        h.update(str(f.relative_to(core.REPO)).encode())
        h.update(f.read_bytes())
    h.update(open(__file__, "rb").read())
    h.update((core.VERIF / "tools/harness/h_graph.py").read_bytes())
    return h.hexdigest()


def generate(workdir, ctx=None):
    """Write GenElem.v into workdir (cached by the hash of /repo/ndonnx/**/*.py: the table is
    a deterministic function of the source).  Returns (specs, out) or raises."""
    import pickle
    hsh = tree_hash()
    cache = core.WORK / "cache"
    cache.mkdir(parents=True, exist_ok=True)
    cf = cache / f"elem-{hsh}.pkl"
    if cf.exists():
        specs, out, problems = pickle.load(open(cf, "rb"))
    else:
        specs, out, problems = collect()
        if not problems:
            for old in cache.glob("elem-*.pkl"):
                old.unlink()
            pickle.dump((specs, out, problems), open(cf, "wb"))
    if ctx is not None:
        ctx.translator_inputs["ndonnx/**/*.py (sha256 of tree)"] = hsh
    if problems:
        raise RuntimeError("T-graph collection failed: " + "; ".join(problems)[:2000])
    unsup = [(k, v["unsupported"]) for k, v in out.items() if "unsupported" in v]
    (workdir / "GenElem.v").write_text(emit(specs, out))
    return specs, out, unsup


if __name__ == "__main__":
    specs, out, problems = collect()
    if problems:
        print("\n".join(problems), file=sys.stderr)
        sys.exit(2)
    sys.stdout.write(emit(specs, out))
