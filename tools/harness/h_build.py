"""C05: build models and check the exported artifact."""
import json

import numpy as np
import onnx

import ndonnx as ndx
import ndonnx._build as nb
import ndonnx._data_types as dtypes
from harness import nd
from harness.h_ops import _guard
from ndonnx._core import UniformShapeOperations
from ndonnx._data_types.schema import Schema
from ndonnx._data_types.structtype import StructType


class PairOps(UniformShapeOperations):
    pass


class Pair(StructType):
    """user struct dtype: two fields, one of them a nested nullable"""

    def _fields(self):
        return {"lo": ndx.int64, "hi": ndx.nfloat64}

    def _parse_input(self, x):
        lo = np.asarray([v[0] for v in x.reshape(-1)], dtype=np.int64).reshape(x.shape)
        hi = np.ma.masked_array([0.0 if v[1] is None else v[1] for v in x.reshape(-1)], mask=[v[1] is None for v in x.reshape(-1)]).reshape(x.shape)
        return {"lo": self._fields()["lo"]._parse_input(lo), "hi": self._fields()["hi"]._parse_input(hi)}

    def _assemble_output(self, fields):
        lo, hi = fields["lo"], fields["hi"]
        out = np.empty(np.shape(lo), dtype=object)
        for i in np.ndindex(*np.shape(lo)):
            out[i] = (int(lo[i]), None if np.ma.getmaskarray(hi)[i] else float(hi[i]))
        return out

    def copy(self):
        return self

    def _schema(self):
        return Schema(type_name="Pair", author="verif")

    _ops = PairOps()


ELEM = {"bool": 9, "int8": 3, "int16": 5, "int32": 6, "int64": 7, "uint8": 2, "uint16": 4, "uint32": 12, "uint64": 13, "float32": 1, "float64": 11, "utf8": 8}


def flat_names(name, dtype):
    if isinstance(dtype, ndx.CoreType):
        return [(name, ELEM[nd.dt_name(dtype)])]
    out = []
    for f, t in dtype._fields().items():
        out += flat_names(f"{name}_{f}", t)
    return out


def handle(case):
    def go():
        arrs, declared = {}, {}
        for name, spec in case["inputs"].items():
            d = Pair() if spec["dtype"] == "pair" else nd.dt(spec["dtype"])
            arrs[name] = ndx.array(shape=tuple(spec["sig"]), dtype=d)
            declared[name] = (d, spec["sig"])
        ns = {"ndx": ndx, "np": np}
        ns.update(arrs)
        exec(case["program"], ns)
        outs = {k: ns[v] for k, v in case["outputs"]}
        ins = {k: arrs[k] for k in case["input_order"]}
        model = ndx.build(ins, outs)
        res = {"problems": []}
        P = res["problems"].append
        try:
            onnx.checker.check_model(model, full_check=True)
        except Exception as e:  # noqa
            P(f"checker: {type(e).__name__}: {str(e)[:160]}")
        try:
            sess = nd.ort().InferenceSession(model.SerializeToString())
        except Exception as e:  # noqa
            P(f"onnxruntime load: {type(e).__name__}: {str(e)[:160]}")
            sess = None
        # interface: names, order, element types, dims
        want_in = [x for k in case["input_order"] for x in flat_names(k, declared[k][0])]
        got_in = [(i.name, i.type.tensor_type.elem_type) for i in model.graph.input]
        if got_in != want_in:
            P(f"graph inputs {got_in} != requested {want_in}")
        want_out = [x for k, _ in case["outputs"] for x in flat_names(k, outs[k].dtype)]
        got_out = [(o.name, o.type.tensor_type.elem_type) for o in model.graph.output]
        if got_out != want_out:
            P(f"graph outputs {got_out} != requested {want_out}")
        for i in model.graph.input:
            base = [k for k in case["input_order"] if i.name == k or i.name.startswith(k + "_")]
            sig = declared[sorted(base, key=len)[-1]][1] if base else None
            dims = [(d.dim_value if d.HasField("dim_value") else (d.dim_param or None)) for d in i.type.tensor_type.shape.dim]
            if sig is not None and dims != list(sig):
                P(f"input {i.name} declares dims {dims}, requested {list(sig)}")
        # schema
        meta = {p.key: p.value for p in model.metadata_props}
        try:
            sch = json.loads(meta["ndonnx_schema"])
            if sch.get("version") != 1:
                P(f"schema version {sch.get('version')}")
            for kind, req in (("input_schema", [(k, declared[k][0]) for k in case["input_order"]]), ("output_schema", [(k, outs[k].dtype) for k, _ in case["outputs"]])):
                if list(sch[kind]) != [k for k, _ in req]:
                    P(f"{kind} names {list(sch[kind])} != {[k for k, _ in req]}")
                for k, d in req:
                    tn = sch[kind].get(k, {}).get("type_name")
                    if isinstance(d, Pair):
                        if tn != "Pair":
                            P(f"{kind}[{k}] type_name {tn}")
                    else:
                        back = nb._get_dtype(tn, 1) if tn in nb._v1_dtypes else None
                        if back != d:
                            P(f"{kind}[{k}] type_name {tn!r} maps back to {back}, dtype is {d}")
        except Exception as e:  # noqa
            P(f"schema: {type(e).__name__}: {str(e)[:120]}")
        # round trip through the documented helpers
        if sess is not None and case.get("values"):
            try:
                vals = {}
                for k in case["input_order"]:
                    v = case["values"][k]
                    if declared[k][0] == Pair():
                        a = np.empty(v["shape"], dtype=object)
                        flat = [(int(x[0]), x[1]) for x in v["data"]]
                        for j, idx in enumerate(np.ndindex(*v["shape"])):
                            a[idx] = flat[j]
                        vals[k] = a
                    else:
                        vals[k] = nd.dec_array(v)
                feeds = nb._deconstruct_inputs(vals, {k: declared[k][0] for k in case["input_order"]})
                names = [o.name for o in sess.get_outputs()]
                raw = dict(zip(names, sess.run(None, feeds)))
                assembled = nb._assemble_outputs(raw, {k: outs[k].dtype for k, _ in case["outputs"]})
                # reference: eager evaluation
                ens = {"ndx": ndx, "np": np}
                for k in case["input_order"]:
                    ens[k] = ndx.asarray(vals[k], dtype=declared[k][0]) if isinstance(declared[k][0], Pair) else ndx.asarray(vals[k])
                for k in case["inputs"]:
                    if k not in ens:
                        v = case["values"][k]
                        ens[k] = ndx.asarray(nd.dec_array(v))
                exec(case["program"], ens)
                for k, v in case["outputs"]:
                    ref = ens[v].to_numpy()
                    got = assembled[k]
                    if isinstance(outs[k].dtype, Pair):
                        same = ref.shape == got.shape and list(ref.reshape(-1)) == list(got.reshape(-1))
                    else:
                        same = nd.same(nd.enc_array(ref), nd.enc_array(got))
                    if not same:
                        P(f"round trip of output {k}: assembled {str(got)[:80]} != eager {str(ref)[:80]}")
            except Exception as e:  # noqa
                P(f"round trip: {type(e).__name__}: {str(e)[:160]}")
        res["n_nodes"] = len(model.graph.node)
        return {"ok": res}
    return _guard(go)
