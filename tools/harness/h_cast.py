"""Cast matrix observations: result dtype / exception family for every ordered dtype pair
(eager and lazy), can_cast, and exact scalar value observations for core -> core casts."""
import numpy as np

import ndonnx as ndx
from harness import nd
from harness.h_elemobs import enc


def handle(case):
    k = case["kind"]
    if k == "matrix":
        rows = []
        for a, b in case["pairs"]:
            for eager in (True, False):
                try:
                    if eager:
                        base = nd.np_dtype(a)
                        v = np.array(["1", "2"]) if a.endswith("utf8") else np.array([1, 0]).astype(base)
                        if nd.is_nullable(a):
                            v = np.ma.masked_array(v, mask=[False, True])
                        x = ndx.asarray(v)
                    else:
                        x = ndx.array(shape=("N",), dtype=nd.dt(a))
                    y = ndx.astype(x, nd.dt(b))
                    o = nd.dt_name(y.dtype)
                    extra = {}
                    if eager:
                        val = y.to_numpy()
                        extra["shape"] = list(np.shape(val))
                        if isinstance(val, np.ma.MaskedArray):
                            extra["mask"] = [bool(m) for m in np.ma.getmaskarray(val).reshape(-1)]
                        extra["same_object"] = y is x
                    rows.append([a, b, eager, o, extra])
                except BaseException as e:  # noqa
                    if isinstance(e, (KeyboardInterrupt, SystemExit)):
                        raise
                    rows.append([a, b, eager, "!" + nd.exc_family(e), {"cls": type(e).__name__}])
        return {"rows": rows}
    if k == "can_cast":
        rows = []
        for a, b in case["pairs"]:
            try:
                rows.append([a, b, bool(ndx.can_cast(nd.dt(a), nd.dt(b)))])
            except BaseException as e:  # noqa
                rows.append([a, b, "!" + nd.exc_family(e)])
        return {"rows": rows}
    if k == "values":
        a, b, vals = case["src"], case["dst"], case["values"]
        arr = nd.dec_array({"dtype": a, "shape": [len(vals)], "data": vals})
        outs = []
        try:
            r = ndx.astype(ndx.asarray(arr), nd.dt(b)).to_numpy()
            outs = [enc(x) for x in np.asarray(r).reshape(-1)]
        except BaseException as e:  # noqa
            if isinstance(e, (KeyboardInterrupt, SystemExit)):
                raise
            outs = ["EErr"] * len(vals)
        return {"ins": [enc(x) for x in arr], "outs": outs}
    raise ValueError(k)
