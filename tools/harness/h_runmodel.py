"""Run serialized models (built elsewhere) with onnxruntime."""
import base64

import numpy as np
import onnx

import ndonnx as ndx
from harness import nd
from harness.h_ops import _guard


def handle(case):
    model = onnx.load_from_string(base64.b64decode(case["model"]))
    feeds = {}
    for k, spec in case["feeds"].items():
        feeds.update(nd.feeds_for(k, spec))

    class _O:
        def __init__(self, d):
            self.dtype = nd.dt(d)

    def go():
        vals = nd.run_model(model, feeds, {k: _O(d) for k, d in case["outs"].items()})
        res = {}
        for k, v in vals.items():
            e = nd.enc_array(v)
            e["dtype"] = case["outs"][k]
            res[k] = e
        return {"ok": res}
    return _guard(go)
