"""C18: determinism / history independence / no side effects of export."""
import hashlib

import numpy as np
import onnx
from onnx import numpy_helper

import ndonnx as ndx
import ndonnx.additional as nda
from harness import nd
from harness.h_ops import _guard


def canon(model: onnx.ModelProto):
    g = model.graph
    prod = {}
    for n in g.node:
        for o in n.output:
            prod[o] = n
    inits = {i.name: i for i in g.initializer}
    names = {}
    out = []

    def vid(name):
        if name == "":
            return "-"
        if name in names:
            return names[name]
        if name in prod:
            n = prod[name]
            ins = [vid(i) for i in n.input]
            attrs = []
            for a in sorted(n.attribute, key=lambda a: a.name):
                v = onnx.helper.get_attribute_value(a)
                if isinstance(v, onnx.TensorProto):
                    arr = numpy_helper.to_array(v)
                    v = ("tensor", str(arr.dtype), arr.shape, arr.tobytes() if arr.dtype.kind != "O" else tuple(map(str, arr.reshape(-1))))
                elif isinstance(v, onnx.GraphProto):
                    v = ("graph", canon_graph(v))
                elif isinstance(v, (list, tuple)):
                    v = tuple(x if not isinstance(x, bytes) else x.decode() for x in v)
                elif isinstance(v, bytes):
                    v = v.decode()
                attrs.append((a.name, repr(v)))
            k = len(names)
            for j, o in enumerate(n.output):
                names[o] = f"v{k}.{j}"
            out.append((n.op_type, n.domain, tuple(attrs), tuple(ins), len(n.output)))
            return names[name]
        if name in inits:
            arr = numpy_helper.to_array(inits[name])
            names[name] = "init:" + hashlib.sha1(repr((str(arr.dtype), arr.shape, arr.tobytes() if arr.dtype.kind != "O" else tuple(arr.reshape(-1)))).encode()).hexdigest()[:12]
            return names[name]
        names[name] = "in:" + name
        return names[name]

    def canon_graph(gr):
        return tuple((n.op_type, tuple(sorted(a.name for a in n.attribute)), len(n.input)) for n in gr.node)

    outs = [(o.name, vid(o.name), o.type.tensor_type.elem_type,
             tuple((d.dim_value if d.HasField("dim_value") else (d.dim_param or None)) for d in o.type.tensor_type.shape.dim)) for o in g.output]
    ins = [(i.name, i.type.tensor_type.elem_type, tuple((d.dim_value if d.HasField("dim_value") else (d.dim_param or None)) for d in i.type.tensor_type.shape.dim)) for i in g.input]
    meta = sorted((p.key, p.value) for p in model.metadata_props)
    return repr((ins, outs, out, meta, [(o.domain, o.version) for o in model.opset_import]))


def handle(case):
    def go():
        ns0 = {"ndx": ndx, "np": np, "nda": nda}
        consts0 = [nd.enc_array(getattr(ndx, k).to_numpy()) for k in ("pi", "e", "inf", "nan")]
        hist_log = []
        for st in case.get("history", []):
            r = _guard(lambda: exec(st, ns0) or {"ok": 1})
            hist_log.append("raise" if "raise" in r else "ok")
        # the computation under test
        ns = {"ndx": ndx, "np": np, "nda": nda}
        arrs = {k: ndx.array(shape=tuple(v["sig"]), dtype=nd.dt(v["dtype"])) for k, v in case["inputs"].items()}
        eag = {k: ndx.asarray(nd.dec_array(v)) for k, v in case.get("constants", {}).items()}
        ns.update(arrs)
        ns.update(eag)
        exec(case["program"], ns)
        out = ns["out"]
        before = {k: nd.enc_array(a.to_numpy()) for k, a in eag.items()}
        m1 = ndx.build(arrs, {"out": out})
        _ = out.to_numpy(), repr(out), out.shape, out.ndim            # reads
        m2 = ndx.build(arrs, {"out": out})
        for a in eag.values():
            a.to_numpy(); repr(a); a.shape
        m3 = ndx.build(arrs, {"out": out})
        after = {k: nd.enc_array(a.to_numpy()) for k, a in eag.items()}
        consts1 = [nd.enc_array(getattr(ndx, k).to_numpy()) for k in ("pi", "e", "inf", "nan")]
        b1, b2, b3 = (m.SerializeToString() for m in (m1, m2, m3))
        return {"ok": {"raw": hashlib.sha256(b1).hexdigest(), "raw_repeat_equal": b1 == b2 == b3, "canon": hashlib.sha256(canon(m1).encode()).hexdigest(),
                       "canon_repeat_equal": canon(m1) == canon(m2) == canon(m3), "consts_unchanged": consts0 == consts1, "pool_unchanged": before == after,
                       "history": hist_log, "n_nodes": len(m1.graph.node)}}
    return _guard(go)
