"""Protocol observations (bool/int/float/index/len/iter) for ndonnx arrays and NumPy."""
import operator

import numpy as np

import ndonnx as ndx
from harness import nd


def obs(fn):
    try:
        v = fn()
    except BaseException as e:  # noqa
        if isinstance(e, (KeyboardInterrupt, SystemExit)):
            raise
        return {"raise": nd.exc_family(e), "cls": type(e).__name__}
    return {"val": nd.enc_scalar(v) if not isinstance(v, list) else v}


def it(x, is_ndx):
    def go():
        out = []
        for k, e in enumerate(iter(x)):
            if k > 50:
                raise RuntimeError("iteration does not terminate")
            out.append(nd.enc_array(e.to_numpy() if is_ndx else e))
        return out
    return go


def handle(case):
    rows = []
    for spec in case["arrays"]:
        kind = spec["kind"]
        if kind == "eager":
            a = nd.dec_array(spec["tensor"])
            x = ndx.asarray(a)
            ref = a
        else:
            x = ndx.array(shape=tuple(spec["sig"]), dtype=nd.dt(spec["dtype"]))
            if spec.get("expr"):
                x = eval(spec["expr"], {"x": x, "ndx": ndx})
            ref = None
        row = {"spec": spec, "ndx": {}, "np": {}}
        for name, f in (("bool", bool), ("int", int), ("float", float), ("index", operator.index), ("len", len)):
            row["ndx"][name] = obs(lambda: f(x))
            if ref is not None:
                row["np"][name] = obs(lambda: f(ref))
        row["ndx"]["iter"] = obs(it(x, True))
        if ref is not None:
            row["np"]["iter"] = obs(it(ref, False))
            # x[i] for the iteration law
            try:
                row["items"] = [nd.enc_array(x[i, ...].to_numpy()) for i in range(a.shape[0])] if a.ndim else None
            except BaseException as e:  # noqa
                row["items"] = "!" + type(e).__name__
            # the same protocols after the array has been re-shaped IN PLACE (its extent was queried before)
            if a.ndim >= 1 and a.size > 0:
                try:
                    y = ndx.asarray(a)
                    _ = (len(y), y.shape, y.ndim)
                    ndx.reshape(y, [1, -1], copy=False)
                    ref2 = a.reshape(1, -1)
                    row["after_inplace_reshape"] = {"ndx_len": obs(lambda: len(y)), "np_len": obs(lambda: len(ref2)),
                                                    "ndx_iter": obs(it(y, True)), "np_iter": obs(it(ref2, False))}
                except BaseException as e:  # noqa
                    row["after_inplace_reshape"] = {"error": type(e).__name__ + ": " + str(e)[:120]}
        rows.append(row)
    return {"rows": rows}
