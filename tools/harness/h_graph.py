"""T-graph: trace an element-wise function on placeholders, export the ONNX graph and
translate it node for node into a Gallina `fexpr` term (Ndx/ElemSyntax.v).  Fail-closed:
any node, attribute or constant outside the supported vocabulary raises Unsupported."""
from __future__ import annotations

import math

import numpy as np
import onnx
from onnx import numpy_helper

import ndonnx as ndx
from harness import nd
from harness.h_dtypes import OPFN, SCALARS


class Unsupported(Exception):
    pass


OP1 = {"Abs": "OAbs", "Neg": "ONeg", "Not": "ONot", "BitwiseNot": "OBitNot", "Floor": "OFloor",
       "Ceil": "OCeil", "Round": "ORound", "Sqrt": "OSqrt", "Exp": "OExp", "Log": "OLog",
       "Sin": "OSin", "Cos": "OCos", "Tan": "OTan", "Asin": "OAsin", "Acos": "OAcos",
       "Atan": "OAtan", "Sinh": "OSinh", "Cosh": "OCosh", "Tanh": "OTanh", "Asinh": "OAsinh",
       "Acosh": "OAcosh", "Atanh": "OAtanh", "IsNaN": "OIsNaN", "IsInf": "OIsInf"}
OP2 = {"Add": "OAdd", "Sub": "OSub", "Mul": "OMul", "Div": "ODiv", "Pow": "OPow", "And": "OAnd",
       "Or": "OOr", "Xor": "OXor", "BitwiseAnd": "OBitAnd", "BitwiseOr": "OBitOr",
       "BitwiseXor": "OBitXor", "Equal": "OEqual", "Less": "OLess", "LessOrEqual": "OLessEq",
       "Greater": "OGreater", "GreaterOrEqual": "OGreaterEq", "StringConcat": "OStrCat"}
ONNX2CORE = {onnx.TensorProto.BOOL: "CBool", onnx.TensorProto.INT8: "CI8", onnx.TensorProto.INT16: "CI16",
             onnx.TensorProto.INT32: "CI32", onnx.TensorProto.INT64: "CI64", onnx.TensorProto.UINT8: "CU8",
             onnx.TensorProto.UINT16: "CU16", onnx.TensorProto.UINT32: "CU32", onnx.TensorProto.UINT64: "CU64",
             onnx.TensorProto.FLOAT: "CF32", onnx.TensorProto.DOUBLE: "CF64", onnx.TensorProto.STRING: "CStr"}
NP2CORE = {"bool": "CBool", "int8": "CI8", "int16": "CI16", "int32": "CI32", "int64": "CI64",
           "uint8": "CU8", "uint16": "CU16", "uint32": "CU32", "uint64": "CU64", "float32": "CF32",
           "float64": "CF64"}


def z(n: int) -> str:
    return f"({n})" if n < 0 else str(n)


def const_expr(arr: np.ndarray) -> str:
    if arr.size != 1:
        raise Unsupported(f"non-scalar constant of shape {arr.shape}")
    v = arr.reshape(-1)[0]
    k = arr.dtype.kind
    if k in "US" or k == "O":
        s = v.decode() if isinstance(v, bytes) else str(v)
        if not all(32 <= ord(ch) < 127 and ch != '"' for ch in s):
            raise Unsupported("string constant")
        return f'(KS "{s}")'
    c = NP2CORE[str(arr.dtype)]
    if k == "b":
        return f"(KZ {c} {1 if v else 0})"
    if k in "iu":
        return f"(KZ {c} {z(int(v))})"
    f = float(v)
    if math.isnan(f):
        return f"(KFnan {c})"
    if math.isinf(f):
        return f"(KFinf {c} {'true' if f < 0 else 'false'})"
    if f == 0.0:
        return f"(KFzero {c} {'true' if math.copysign(1, f) < 0 else 'false'})"
    m, e = math.frexp(f)  # f = m * 2**e, 0.5 <= |m| < 1
    mi = int(m * (1 << 53))
    ee = e - 53
    while mi % 2 == 0:
        mi //= 2
        ee += 1
    return f"(KF {c} {z(mi)} {z(ee)})"


def graph_to_fexpr(model: onnx.ModelProto, inputs: dict[str, str], outputs: list[str]) -> list[str]:
    g = model.graph
    prod = {}
    for n in g.node:
        for o in n.output:
            prod[o] = n
    inits = {i.name: numpy_helper.to_array(i) for i in g.initializer}
    memo: dict[str, str] = {}

    def attr(n, name, default=None):
        for a in n.attribute:
            if a.name == name:
                return onnx.helper.get_attribute_value(a)
        return default

    def known_attrs(n, allowed):
        for a in n.attribute:
            if a.name not in allowed:
                raise Unsupported(f"{n.op_type}: attribute {a.name}")

    def ex(name: str) -> str:
        if name in memo:
            return memo[name]
        if name in inputs:
            r = inputs[name]
        elif name in inits:
            r = const_expr(inits[name])
        else:
            n = prod.get(name)
            if n is None:
                raise Unsupported(f"dangling value {name}")
            r = node(n, name)
        memo[name] = r
        return r

    def node(n, outname) -> str:
        t = n.op_type
        if n.domain not in ("", "ai.onnx"):
            raise Unsupported(f"domain {n.domain}")
        if t == "Identity":
            known_attrs(n, [])
            return ex(n.input[0])
        if t == "Constant":
            known_attrs(n, ["value"])
            return const_expr(numpy_helper.to_array(attr(n, "value")))
        if t in OP1:
            known_attrs(n, ["detect_negative", "detect_positive"] if t == "IsInf" else [])
            if t == "IsInf" and (attr(n, "detect_negative", 1) != 1 or attr(n, "detect_positive", 1) != 1):
                raise Unsupported("IsInf with detect_* = 0")
            return f"(Op1 {OP1[t]} {ex(n.input[0])})"
        if t in OP2:
            known_attrs(n, [])
            return f"(Op2 {OP2[t]} {ex(n.input[0])} {ex(n.input[1])})"
        if t == "Mod":
            known_attrs(n, ["fmod"])
            o = "OFmod" if attr(n, "fmod", 0) == 1 else "OMod"
            return f"(Op2 {o} {ex(n.input[0])} {ex(n.input[1])})"
        if t == "BitShift":
            known_attrs(n, ["direction"])
            d = attr(n, "direction")
            d = d.decode() if isinstance(d, bytes) else d
            o = {"LEFT": "OShl", "RIGHT": "OShr"}[d]
            return f"(Op2 {o} {ex(n.input[0])} {ex(n.input[1])})"
        if t == "Cast":
            known_attrs(n, ["to", "saturate"])
            if attr(n, "saturate", 1) != 1:
                raise Unsupported("Cast saturate=0")
            return f"(Cast {ONNX2CORE[attr(n, 'to')]} {ex(n.input[0])})"
        if t == "Where":
            known_attrs(n, [])
            return f"(Where {ex(n.input[0])} {ex(n.input[1])} {ex(n.input[2])})"
        if t == "Clip":
            known_attrs(n, [])
            if len(n.input) != 3 or not n.input[1] or not n.input[2]:
                raise Unsupported("Clip without both bounds")
            return f"(Clip {ex(n.input[0])} {ex(n.input[1])} {ex(n.input[2])})"
        if t == "Expand":
            known_attrs(n, [])
            sh = prod.get(n.input[1])
            if sh is None or sh.op_type != "Shape" or len(sh.attribute) != 0 and any(
                    (a.name == "start" and onnx.helper.get_attribute_value(a) != 0) or a.name == "end" for a in sh.attribute):
                raise Unsupported("Expand whose shape is not Shape(x)")
            return f"(FullLike {ex(n.input[0])} {ex(sh.input[0])})"
        raise Unsupported(f"operator {t}")

    return [ex(o) for o in outputs]


def trace_row(fname: str, dnames: list[str], rank_sig, how: str = "func") -> dict:
    """Trace ndx.<fname> (or operator) on placeholders of the given dtypes; returns
    {'raise': fam} or {'dtype':..., 'values': fexpr, 'null': fexpr|None}."""
    args = []
    inputs = {}
    build_in = {}
    for i, dn in enumerate(dnames):
        if dn in nd.ALL:
            a = ndx.array(shape=rank_sig, dtype=nd.dt(dn))
            nm = f"x{i}"
            build_in[nm] = a
            if nd.is_nullable(dn):
                inputs[f"{nm}_values"] = f"(ArgV {i})"
                inputs[f"{nm}_null"] = f"(ArgN {i})"
            else:
                inputs[nm] = f"(ArgV {i})"
            args.append(a)
        else:
            args.append(SCALARS[dn])
    try:
        r = OPFN[fname](*args) if how == "op" else getattr(ndx, fname)(*args)
    except BaseException as e:  # noqa
        if isinstance(e, (KeyboardInterrupt, SystemExit)):
            raise
        return {"raise": nd.exc_family(e), "cls": type(e).__name__}
    if not isinstance(r, ndx.Array):
        return {"raise": "Other:returned-" + type(r).__name__, "cls": "-"}
    dn = nd.dt_name(r.dtype)
    model = ndx.build(build_in, {"r": r})
    if dn.startswith("struct"):
        raise Unsupported("struct result")
    if nd.is_nullable(dn):
        v, n = graph_to_fexpr(model, inputs, ["r_values", "r_null"])
        return {"dtype": dn, "values": v, "null": n}
    (v,) = graph_to_fexpr(model, inputs, ["r"])
    return {"dtype": dn, "values": v, "null": None}


def handle(case):
    rows = []
    for fname, dnames, how in case["rows"]:
        try:
            r0 = trace_row(fname, dnames, ("N",), how)
            if case.get("ranks"):
                for sig in ((), ("N", 3, None)):
                    r1 = trace_row(fname, dnames, sig, how)
                    if r1 != r0:
                        r0 = {"unsupported": f"rank-dependent graph: {sig}: {r1} vs {r0}"}
                        break
        except Unsupported as e:
            r0 = {"unsupported": str(e)}
        rows.append([fname, dnames, how, r0])
    return {"rows": rows}
