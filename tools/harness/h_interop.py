"""C19: spox interop, eager_propagate on user functions, user struct dtypes."""
import numpy as np
import spox.opset.ai.onnx.v19 as op

import ndonnx as ndx
import ndonnx.additional as nda
from harness import nd
from harness.h_build import Pair
from harness.h_ops import _guard
from ndonnx._corearray import _CoreArray
from ndonnx._propagation import eager_propagate


def _pair_array(spec):
    a = np.empty(spec["shape"], dtype=object)
    flat = [(int(x[0]), None if x[1] is None else float(x[1])) for x in spec["data"]]
    for j, idx in enumerate(np.ndindex(*spec["shape"])):
        a[idx] = flat[j]
    return a


def _enc_pair(a):
    return {"shape": list(a.shape), "data": [list(x) for x in a.reshape(-1)]}


@eager_propagate
def user_fn(args, scale=None, opts=None):
    """A user function over nested argument structures: list/tuple/dict/slice of _CoreArrays."""
    xs = args["xs"]                       # list of core arrays
    a, b = args["pair"]                   # tuple
    s = opts.start if opts is not None else None     # a slice carrying a core array
    acc = xs[0].var
    for x in xs[1:]:
        acc = op.add(acc, x.var)
    acc = op.mul(acc, a.var)
    acc = op.sub(acc, b.var)
    if scale is not None:
        acc = op.mul(acc, scale.var)
    if s is not None:
        acc = op.add(acc, s.var)
    return _CoreArray(acc), _CoreArray(op.neg(acc))


@eager_propagate
def user_fn2(acc, step):
    """A user function over Arrays: updates its first argument in place (not idempotent) and returns three outputs —
    computed by library functions only, through a directly applied operator, and from both."""
    acc += step
    lib = ndx.sum(acc, axis=0, keepdims=True) if acc.ndim else acc + 0
    direct = ndx.from_spox_var(op.neg(acc.spox_var()))
    return lib, direct, acc * 2


@eager_propagate
def user_fn3(a, b):
    """Several outputs, some of them the very same array (and nullable results that reuse one mask object)."""
    s_ = a + b
    t_ = a * b
    return s_, s_, t_, s_ - t_


@eager_propagate
def user_fn4(a, b):
    """Returns a user struct array assembled with its fields given in another order than the dtype declares them
    (and a plain array after it)."""
    s_ = ndx.Array._from_fields(Pair(), hi=nda.make_nullable(b * 2.0, b > 100.0), lo=a + 1)
    return s_, a - 1


def handle(case):
    k = case["kind"]
    if k == "propagate4":
        def go():
            vals = {n: nd.dec_array(t) for n, t in case["values"].items()}
            res = {}
            import ndonnx._build as nb
            for lazy_set in case["lazy_sets"]:
                ins = {n: ndx.array(shape=tuple(case["values"][n]["shape"]), dtype=nd.dt(case["values"][n]["dtype"])) for n in lazy_set}
                arrs = {n: (ins[n] if n in lazy_set else ndx.asarray(vals[n].copy())) for n in ("a", "b")}
                s_, p_ = user_fn4(arrs["a"], arrs["b"])
                r = {"values": [None if s_.to_numpy() is None else _enc_pair(s_.to_numpy()), None if p_.to_numpy() is None else nd.enc_array(p_.to_numpy())]}
                model = ndx.build(ins, {"s": s_, "p": p_})
                feeds = {}
                for n in lazy_set:
                    feeds.update(nd.feeds_for(n, case["values"][n]))
                sess = nd.ort().InferenceSession(model.SerializeToString())
                raw = dict(zip([o.name for o in sess.get_outputs()], sess.run(None, feeds)))
                got = nb._assemble_outputs(raw, {"s": s_.dtype, "p": p_.dtype})
                r["model"] = [_enc_pair(got["s"]), nd.enc_array(got["p"])]
                res[",".join(sorted(lazy_set)) or "-"] = r
            a, b = vals["a"], vals["b"]
            orc = np.empty(a.shape, dtype=object)
            for i in np.ndindex(*a.shape):
                orc[i] = (int(a[i]) + 1, None if b[i] > 100.0 else float(b[i]) * 2.0)
            res["oracle"] = [_enc_pair(orc), nd.enc_array(a - 1)]
            return {"ok": res}
        return _guard(go)
    if k == "propagate3":
        def go():
            vals = {n: nd.dec_array(t) for n, t in case["values"].items()}
            res = {}
            for lazy_set in case["lazy_sets"]:
                ins = {n: ndx.array(shape=tuple(case["values"][n]["shape"]), dtype=nd.dt(case["values"][n]["dtype"])) for n in lazy_set}
                arrs = {n: (ins[n] if n in lazy_set else ndx.asarray(vals[n].copy())) for n in ("a", "b")}
                outs = user_fn3(arrs["a"], arrs["b"])
                r = {"values": [None if o.to_numpy() is None else nd.enc_array(o.to_numpy()) for o in outs]}
                named = {f"o{i}": ndx.asarray(o, copy=True) if False else o for i, o in enumerate(outs)}
                # the same array under two output names is built through copies (one graph output per name)
                named = {"o0": outs[0], "o1": outs[1] + 0, "o2": outs[2], "o3": outs[3]}
                model = ndx.build(ins, named)
                feeds = {}
                for n in lazy_set:
                    feeds.update(nd.feeds_for(n, case["values"][n]))
                got = nd.run_model(model, feeds, named)
                r["model"] = [nd.enc_array(got[k_]) for k_ in ("o0", "o1", "o2", "o3")]
                res[",".join(sorted(lazy_set)) or "-"] = r
            a, b = vals["a"], vals["b"]
            res["oracle"] = [nd.enc_array(a + b), nd.enc_array(a + b), nd.enc_array(a * b), nd.enc_array((a + b) - a * b)]
            return {"ok": res}
        return _guard(go)
    if k == "propagate2":
        def go():
            vals = {n: nd.dec_array(t) for n, t in case["values"].items()}
            res = {}
            for lazy_set in case["lazy_sets"]:
                ins = {n: ndx.array(shape=tuple(case["values"][n]["shape"]), dtype=nd.dt(case["values"][n]["dtype"])) for n in lazy_set}
                arrs = {n: (ins[n].copy() if n in lazy_set else ndx.asarray(vals[n].copy())) for n in ("acc", "step")}
                outs = user_fn2(arrs["acc"], arrs["step"])
                r = {"values": [None if o.to_numpy() is None else nd.enc_array(o.to_numpy()) for o in outs],
                     "acc_after": None if arrs["acc"].to_numpy() is None else nd.enc_array(arrs["acc"].to_numpy())}
                named = {"o0": outs[0], "o1": outs[1], "o2": outs[2], "acc_out": arrs["acc"]}
                model = ndx.build(ins, named)
                feeds = {}
                for n in lazy_set:
                    feeds.update(nd.feeds_for(n, case["values"][n]))
                got = nd.run_model(model, feeds, named)
                r["model"] = [nd.enc_array(got[k_]) for k_ in ("o0", "o1", "o2", "acc_out")]
                res[",".join(sorted(lazy_set)) or "-"] = r
            a2 = vals["acc"] + vals["step"]
            res["oracle"] = [nd.enc_array(np.sum(a2, axis=0, keepdims=True) if a2.ndim else a2 + 0), nd.enc_array(-a2), nd.enc_array(a2 * 2), nd.enc_array(a2)]
            return {"ok": res}
        return _guard(go)
    if k == "spox":
        def go():
            x_np = nd.dec_array(case["x"])
            res = {}
            for mode in ("eager", "lazy"):
                x = ndx.asarray(x_np) if mode == "eager" else ndx.array(shape=tuple(case["sig"]), dtype=nd.dt(case["x"]["dtype"]))
                ns = {"ndx": ndx, "np": np, "op": op, "x": x, "nda": nda}
                exec(case["program"], ns)
                out = ns["out"]
                rt = ndx.from_spox_var(out.spox_var())
                info = {"dtype": nd.dt_name(out.dtype), "rt_dtype": nd.dt_name(rt.dtype), "rt_value_retained": rt.to_numpy() is not None,
                        "rt_static_shape": [d if isinstance(d, int) else None for d in rt._static_shape]}
                if mode == "lazy":
                    model = ndx.build({"x": x}, {"out": out, "rt": rt})
                    vals = nd.run_model(model, nd.feeds_for("x", case["x"]), {"out": out, "rt": rt})
                    info["out"] = nd.enc_array(vals["out"])
                    info["rt"] = nd.enc_array(vals["rt"])
                else:
                    model = ndx.build({}, {"out": out, "rt": rt})
                    vals = nd.run_model(model, {}, {"out": out, "rt": rt})
                    info["out"] = nd.enc_array(vals["out"])
                    info["rt"] = nd.enc_array(vals["rt"])
                res[mode] = info
            with np.errstate(all="ignore"):
                ns = {"np": np, "x": x_np}
                exec(case["oracle"], ns)
                res["oracle"] = nd.enc_array(ns["out"])
            return {"ok": res}
        return _guard(go)
    if k == "propagate":
        def go():
            vals = {n: nd.dec_array(t) for n, t in case["values"].items()}
            res = {}
            for lazy_set in case["lazy_sets"]:
                def mk(n):
                    if n in lazy_set:
                        return ndx.array(shape=tuple(case["values"][n]["shape"]), dtype=nd.dt(case["values"][n]["dtype"]))._core()
                    return ndx.asarray(vals[n])._core()
                cs = {n: mk(n) for n in vals}
                args = {"xs": [cs["x0"], cs["x1"]], "pair": (cs["a"], cs["b"])}
                kwargs = {}
                if case.get("scale"):
                    kwargs["scale"] = cs["s"]
                if case.get("opts"):
                    kwargs["opts"] = slice(cs["t"], None, None)
                o1, o2 = user_fn(args, **kwargs)
                r = {"values": [None if o.to_numpy() is None else nd.enc_array(o.to_numpy()) for o in (o1, o2)]}
                used = ["x0", "x1", "a", "b"] + (["s"] if case.get("scale") else []) + (["t"] if case.get("opts") else [])
                lz = [n for n in used if n in lazy_set]
                arrs_in = {n: ndx.from_spox_var(cs[n].var) for n in lz}
                model = ndx.build(arrs_in, {"o1": ndx.from_spox_var(o1.var), "o2": ndx.from_spox_var(o2.var)})
                feeds = {}
                for n in lz:
                    feeds.update(nd.feeds_for(n, case["values"][n]))
                class _O:
                    def __init__(self, d):
                        self.dtype = d
                got = nd.run_model(model, feeds, {"o1": _O(o1.dtype), "o2": _O(o2.dtype)})
                r["model"] = [nd.enc_array(got["o1"]), nd.enc_array(got["o2"])]
                r["inputs_still_lazy"] = all(cs[n].to_numpy() is None for n in lz)
                res[",".join(sorted(lazy_set)) or "-"] = r
            x0, x1, a, b = vals["x0"], vals["x1"], vals["a"], vals["b"]
            acc = (x0 + x1) * a - b
            if case.get("scale"):
                acc = acc * vals["s"]
            if case.get("opts"):
                acc = acc + vals["t"]
            res["oracle"] = [nd.enc_array(acc), nd.enc_array(-acc)]
            return {"ok": res}
        return _guard(go)
    if k == "struct":
        def go():
            a = _pair_array(case["x"])
            res = {}
            x = ndx.asarray(a, dtype=Pair())
            res["roundtrip"] = _enc_pair(x.to_numpy())
            ns = {"ndx": ndx, "np": np, "nda": nda, "x": x}
            exec(case["program"], ns)
            y = ns["out"]
            res["dtype_kept"] = isinstance(y.dtype, Pair)
            res["fields"] = list(y._fields)
            res["out"] = _enc_pair(y.to_numpy())
            # traced
            xl = ndx.array(shape=tuple(case["sig"]), dtype=Pair())
            ns2 = {"ndx": ndx, "np": np, "nda": nda, "x": xl}
            exec(case["program"], ns2)
            yl = ns2["out"]
            model = ndx.build({"x": xl}, {"out": yl})
            import ndonnx._build as nb
            feeds = nb._deconstruct_inputs({"x": a}, {"x": Pair()})
            sess = nd.ort().InferenceSession(model.SerializeToString())
            raw = dict(zip([o.name for o in sess.get_outputs()], sess.run(None, feeds)))
            got = nb._assemble_outputs(raw, {"out": yl.dtype})["out"]
            res["traced"] = _enc_pair(got)
            # oracle: the same layout function on the object array
            ns3 = {"np": np, "x": a}
            exec(case["oracle"], ns3)
            res["oracle"] = _enc_pair(ns3["out"])
            return {"ok": res}
        return _guard(go)
    raise ValueError(k)
