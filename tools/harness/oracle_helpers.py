"""Helpers available to NumPy oracle programs."""
import numpy as np


def lay(f, x):
    """Apply a pure layout function to values and mask alike."""
    if isinstance(x, np.ma.MaskedArray):
        return np.ma.masked_array(f(np.asarray(x.data)), mask=f(np.ma.getmaskarray(x)))
    return f(x)


def lay2(f, xs):
    if any(isinstance(x, np.ma.MaskedArray) for x in xs):
        d = f([np.asarray(getattr(x, "data", x)) for x in xs])
        m = f([np.ma.getmaskarray(x) if isinstance(x, np.ma.MaskedArray) else np.zeros(np.shape(x), bool) for x in xs])
        return np.ma.masked_array(d, mask=m)
    return f(xs)


def data(x):
    return np.asarray(x.data) if isinstance(x, np.ma.MaskedArray) else np.asarray(x)


def mask(x):
    return np.ma.getmaskarray(x) if isinstance(x, np.ma.MaskedArray) else np.zeros(np.shape(x), bool)


def mk(d, m):
    return np.ma.masked_array(np.array(d), mask=np.array(np.broadcast_to(m, np.shape(d))))


def nullred(f, x, neutral, **kw):
    """Reduction treating nulls as absent: fill with the neutral element."""
    if isinstance(x, np.ma.MaskedArray):
        return f(np.where(np.ma.getmaskarray(x), np.asarray(neutral, dtype=x.dtype), np.asarray(x.data)), **kw)
    return f(x, **kw)
