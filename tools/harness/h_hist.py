"""Histories over a pool of arrays with a NumPy shadow (independent copies) — C09 / C18."""
import numpy as np

import ndonnx as ndx
import ndonnx.additional as nda
from harness import nd, oracle_helpers
from harness.h_ops import _guard


def handle(case):
    """steps: list of {"impl": python over pool p (list of ndx arrays), "shadow": python over q (numpy list)}.
    After every step every pool array is compared with its shadow."""
    p = [ndx.asarray(nd.dec_array(t)) for t in case["pool"]]
    q = [nd.dec_array(t).copy() for t in case["pool"]]
    log = []
    ns_i = {"ndx": ndx, "np": np, "nda": nda, "p": p}
    ns_s = {"np": np, "q": q}
    ns_s.update({k: getattr(oracle_helpers, k) for k in dir(oracle_helpers) if not k.startswith("_")})
    for k, st in enumerate(case["steps"]):
        ri = _guard(lambda: exec(st["impl"], ns_i) or {"ok": None})
        with np.errstate(all="ignore"):
            rs = _guard(lambda: exec(st["shadow"], ns_s) or {"ok": None})
        entry = {"step": k, "impl": st["impl"], "ri": ri if "raise" in ri else "ok", "rs": rs if "raise" in rs else "ok"}
        if ("raise" in ri) != ("raise" in rs):
            entry["diverged"] = "one side raised"
            log.append(entry)
            break
        if "raise" in ri:
            log.append(entry)
            continue
        snap = []
        for a, b in zip(p, q):
            ea = nd.enc_array(a.to_numpy())
            eb = nd.enc_array(b)
            snap.append([ea, eb])
        entry["pool"] = snap
        log.append(entry)
    return {"log": log}
