"""Helpers used inside implementation workers: dtype tables, array construction (eager /
lazy), traced evaluation through onnxruntime, canonical encodings of values/outcomes."""
from __future__ import annotations

import math
import warnings

import numpy as np

warnings.filterwarnings("ignore")

import ndonnx as ndx  # noqa: E402

CORE = ["bool", "int8", "int16", "int32", "int64", "uint8", "uint16", "uint32", "uint64",
        "float32", "float64", "utf8"]
NULLABLE = ["n" + c for c in CORE]
ALL = CORE + NULLABLE
COQ_CORE = {"bool": "CBool", "int8": "CI8", "int16": "CI16", "int32": "CI32", "int64": "CI64",
            "uint8": "CU8", "uint16": "CU16", "uint32": "CU32", "uint64": "CU64",
            "float32": "CF32", "float64": "CF64", "utf8": "CStr"}


def dt(name: str):
    return getattr(ndx, name)


def dt_name(d) -> str:
    for n in ALL:
        if getattr(ndx, n) == d:
            return n
    return "struct:" + type(d).__name__


def coq_dtype(name: str) -> str:
    if name.startswith("struct"):
        return "DStruct"
    if name.startswith("n") and name[1:] in COQ_CORE:
        return f"(DNull {COQ_CORE[name[1:]]})"
    return f"(DCore {COQ_CORE[name]})"


def np_dtype(name: str):
    base = name[1:] if name.startswith("n") and name[1:] in CORE else name
    return np.dtype("str") if base == "utf8" else np.dtype(base)


def is_nullable(name: str) -> bool:
    return name.startswith("n") and name[1:] in CORE


def exc_family(e: BaseException) -> str:
    if isinstance(e, TypeError):
        return "TE"
    if isinstance(e, ValueError):
        return "VE"
    if isinstance(e, IndexError):
        return "IE"
    if isinstance(e, (KeyError, AttributeError, NotImplementedError, ZeroDivisionError, OverflowError)):
        return "Other:" + type(e).__name__
    return "Other:" + type(e).__name__


# ---------------------------------------------------------------- values <-> JSON -------


def enc_scalar(v):
    if isinstance(v, (np.bool_, bool)):
        return bool(v)
    if isinstance(v, (np.integer, int)):
        return int(v)
    if isinstance(v, (np.floating, float)):
        f = float(v)
        if math.isnan(f):
            return "nan"
        return f.hex()
    if isinstance(v, (str, np.str_)):
        return "s:" + str(v)
    return repr(v)


def enc_array(a) -> dict:
    """Canonical encoding of a numpy (masked) array."""
    if a is None:
        return {"none": True}
    mask = None
    if isinstance(a, np.ma.MaskedArray):
        mask = np.broadcast_to(np.ma.getmaskarray(a), a.shape)
        data = np.asarray(a.data)
    else:
        data = np.asarray(a)
    kind = data.dtype.kind
    dname = "utf8" if kind in "UO" else str(data.dtype)
    flat = [enc_scalar(x) for x in data.reshape(-1).tolist()] if kind not in "f" else [
        enc_scalar(x) for x in data.reshape(-1)]
    out = {"dtype": dname, "shape": list(data.shape), "data": flat}
    if mask is not None:
        out["mask"] = [bool(x) for x in mask.reshape(-1).tolist()]
        out["dtype"] = "n" + dname
    return out


def dec_array(spec: dict):
    """JSON spec -> numpy array (masked if 'mask' present)."""
    name = spec["dtype"]
    nd = np_dtype(name)
    vals = []
    for x in spec["data"]:
        if isinstance(x, str):
            if x == "nan":
                vals.append(float("nan"))
            elif x.startswith("s:"):
                vals.append(x[2:])
            else:
                vals.append(float.fromhex(x))
        else:
            vals.append(x)
    arr = np.array(vals, dtype=nd).reshape(spec["shape"]) if vals or True else None
    if is_nullable(name):
        mask = np.array(spec.get("mask", [False] * arr.size), dtype=bool).reshape(spec["shape"])
        return np.ma.masked_array(arr, mask=mask)
    return arr


def masked_erase(enc: dict) -> dict:
    """Erase payloads under the mask (they are unspecified)."""
    if "mask" not in enc:
        return enc
    e = dict(enc)
    e["data"] = [None if m else d for d, m in zip(enc["data"], enc["mask"])]
    return e


def same(a: dict, b: dict, erase: bool = True, ulp: int = 0) -> bool:
    if erase:
        a, b = masked_erase(a), masked_erase(b)
    if a.get("dtype") != b.get("dtype") or a.get("shape") != b.get("shape"):
        return False
    if a.get("mask") != b.get("mask"):
        return False
    da, db = a.get("data"), b.get("data")
    if da == db:
        return True
    if ulp and a.get("dtype", "").lstrip("n") in ("float32", "float64") and len(da) == len(db):
        return all(close_ulp(x, y, a["dtype"].lstrip("n"), ulp) for x, y in zip(da, db))
    return False


def close_ulp(x, y, dname: str, ulp: int) -> bool:
    if x == y:
        return True
    if x is None or y is None or x == "nan" or y == "nan":
        return False
    fx, fy = float.fromhex(x), float.fromhex(y)
    if math.isinf(fx) or math.isinf(fy):
        return False
    t = np.float32 if dname == "float32" else np.float64
    ax, ay = t(fx), t(fy)
    if ax == ay:  # +0 / -0 differ by sign only
        return math.copysign(1, fx) == math.copysign(1, fy)
    sp = float(np.spacing(np.maximum(np.abs(ax), np.abs(ay))))
    return abs(float(ax) - float(ay)) <= ulp * sp


# ---------------------------------------------------------------- arrays ----------------


def eager(spec: dict):
    a = dec_array(spec)
    return ndx.asarray(a)


def lazy(spec: dict, sig=None):
    shape = tuple(spec["shape"]) if sig is None else tuple(sig)
    return ndx.array(shape=shape, dtype=dt(spec["dtype"]))


def feeds_for(name: str, spec: dict) -> dict:
    a = dec_array(spec)
    if is_nullable(spec["dtype"]):
        return {f"{name}_values": np.asarray(a.data), f"{name}_null": np.ma.getmaskarray(a)}
    return {name: np.asarray(a)}


_ORT = None


def ort():
    global _ORT
    if _ORT is None:
        import onnxruntime as _o

        _o.set_default_logger_severity(4)
        _ORT = _o
    return _ORT


def run_model(model, feeds: dict, outputs: dict) -> dict:
    """Run a built model; reassemble outputs by the dtype of the `outputs` arrays."""
    o = ort()
    so = o.SessionOptions()
    so.log_severity_level = 4
    sess = o.InferenceSession(model.SerializeToString(), so)
    names = [x.name for x in sess.get_outputs()]
    in_names = {x.name for x in sess.get_inputs()}
    res = dict(zip(names, sess.run(None, {k: v for k, v in feeds.items() if k in in_names})))
    out = {}
    for k, arr in outputs.items():
        out[k] = assemble(k, arr.dtype, res)
    return out


def assemble(prefix, dtype, res):
    if isinstance(dtype, ndx.CoreType):
        v = res[prefix]
        if dtype == ndx.utf8:
            v = v.astype(np.str_)
        return v
    fields = {f: assemble(f"{prefix}_{f}", ft, res) for f, ft in dtype._fields().items()}
    shapes = {f: tuple(np.shape(v)) for f, v in fields.items()}
    if len(set(shapes.values())) > 1:
        # numpy would silently broadcast a size-1 mask: the fields of one array must have one shape
        raise ValueError(f"FIELD-SHAPES: the fields of output {prefix!r} have different run-time shapes {shapes}")
    return dtype._assemble_output(fields)


def outcome(fn):
    """Run fn() -> numpy value; encode value or exception family."""
    try:
        v = fn()
    except BaseException as e:  # noqa
        if isinstance(e, (KeyboardInterrupt, SystemExit)):
            raise
        return {"raise": exc_family(e), "msg": str(e)[:200]}
    if isinstance(v, dict) and ("ok" in v or "raise" in v):
        return v
    return {"ok": enc_array(v)}
