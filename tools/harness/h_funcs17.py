"""C17 beyond element-wise functions: outcome class of public non-element-wise functions on operand
kinds outside / inside their domain.  One case = a list of calls; every call is described by
function name, operand kinds, optional dtype= kind, lazy/eager."""
from __future__ import annotations

import numpy as np

import ndonnx as ndx
import ndonnx.additional as nda
from harness import nd
from harness.h_build import Pair

NP = {"utf8": np.array(["1", "2", "6"]), "bool": np.array([True, False, True]), "int64": np.array([1, 2, 3]),
      "float64": np.array([1.0, 2.0, 3.0]),
      "uint8": np.array([1, 2, 3], dtype=np.uint8), "uint32": np.array([1, 2, 3], dtype=np.uint32), "int8": np.array([1, 2, 3], dtype=np.int8),
      "float32": np.array([1.0, 2.0, 3.0], dtype=np.float32)}
DT = {"AUtf8": "utf8", "ANUtf8": "nutf8", "ABool": "bool", "ANBool": "nbool", "AInt": "int64", "AFloat": "float64", "ANInt": "nint64",
      "AUInt8": "uint8", "AUInt32": "uint32", "AInt8": "int8", "AFloat32": "float32", "ANUInt8": "nuint8", "ANFloat": "nfloat64"}
PY = {"PInt": 1, "PFloat": 1.5, "PBool": True, "PStr": "a"}


def mk(kind, lazy):
    if kind in PY:
        return PY[kind]
    if kind == "AStruct":
        return ndx.array(shape=(3,), dtype=Pair())
    d = DT[kind]
    if lazy:
        return ndx.array(shape=("N",), dtype=nd.dt(d))
    a = ndx.asarray(NP[d.lstrip("n")])
    if d.startswith("n"):
        a = nda.make_nullable(a, ndx.asarray(np.array([False, True, False])))
    return a


def call(f, args, kw):
    kws = {} if kw is None else {"dtype": nd.dt(DT[kw])}
    if f in ("concat", "stack"):
        return getattr(ndx, f)(list(args))
    if f == "clip":
        x, *b = args
        return ndx.clip(x, min=b[0] if b else None, max=b[1] if len(b) > 1 else None)
    if f == "fill_null":
        return nda.fill_null(*args)
    return getattr(ndx, f)(*args, **kws)


def handle(case):
    out = []
    for c in case["calls"]:
        try:
            args = [mk(k, c["lazy"]) for k in c["args"]]
            r = call(c["f"], args, c.get("kw"))
            if isinstance(r, ndx.Array):
                o = "ok:" + nd.dt_name(r.dtype)
            else:
                o = "ok:" + type(r).__name__
        except BaseException as e:  # noqa
            if isinstance(e, (KeyboardInterrupt, SystemExit)):
                raise
            o = ("T:" if isinstance(e, TypeError) else "X:") + type(e).__name__ + ":" + str(e)[:80]
        out.append(o)
    return {"outs": out}
