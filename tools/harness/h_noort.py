"""Trace and build with onnxruntime NOT importable (C16).  Returns serialized models."""
import sys

sys.modules["onnxruntime"] = None  # import onnxruntime -> ImportError

import base64  # noqa: E402
import warnings  # noqa: E402

warnings.filterwarnings("ignore")
import numpy as np  # noqa: E402

import ndonnx as ndx  # noqa: E402
import ndonnx.additional as nda  # noqa: E402
import ndonnx._propagation as _prop  # noqa: E402
from harness import nd  # noqa: E402
from harness.h_ops import _collect_outputs, _guard, _run, _static_meta  # noqa: E402


def handle(case):
    if _prop.ORT_PRESENT:
        return {"handler_error": "onnxruntime was importable in the masked worker"}
    inputs = case["inputs"]
    np_in = {k: nd.dec_array(v) for k, v in inputs.items()}
    out = []
    for sub in case.get("lazy_subsets", []):
        def tr(sub=sub):
            ns = {"ndx": ndx, "np": np, "nda": nda}
            arrs = {}
            for k, v in np_in.items():
                if k in sub["names"]:
                    sig = sub.get("sigs", {}).get(k)
                    shape = tuple(sig) if sig is not None else tuple(inputs[k]["shape"])
                    arrs[k] = ndx.array(shape=shape, dtype=nd.dt(inputs[k]["dtype"]))
                else:
                    arrs[k] = ndx.asarray(v)
            ns.update(arrs)
            o = _run(case["impl"], ns)
            outs = _collect_outputs(o)
            model = ndx.build({k: arrs[k] for k in sub["names"]}, outs)
            return {"model": base64.b64encode(model.SerializeToString()).decode(), "meta": _static_meta(o),
                    "outs": {k: nd.dt_name(a.dtype) for k, a in outs.items()}, "n_nodes": len(model.graph.node)}
        out.append(_guard(tr))
    return {"traced": out}
