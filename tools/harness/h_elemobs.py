"""Scalar observations of element-wise functions for the in-Coq correspondence
(Ndx/ElemCorr.v): exact encodings of operands and results."""
from __future__ import annotations

import math

import numpy as np

import ndonnx as ndx
from harness import nd


def enc(v) -> str:
    if isinstance(v, (np.bool_, bool)):
        return f"EB {'true' if v else 'false'}"
    if isinstance(v, (np.integer, int)):
        n = int(v)
        return f"EZ ({n})"
    if isinstance(v, (np.floating, float)):
        f = float(v)
        if math.isnan(f):
            return "EFnan"
        s = "true" if math.copysign(1.0, f) < 0 else "false"
        if math.isinf(f):
            return f"EFinf {s}"
        if f == 0.0:
            return f"EFzero {s}"
        m, e = math.frexp(abs(f))
        mi, ee = int(m * (1 << 53)), e - 53
        while mi % 2 == 0:
            mi //= 2
            ee += 1
        return f"EF {s} {mi}%positive ({ee})"
    return "ESkip"


def handle(case):
    fn, dts, ops = case["fn"], case["dtypes"], case["operands"]
    cols = []
    for j, d in enumerate(dts):
        vals = [nd.dec_array({"dtype": d, "shape": [], "data": [o[j]]}).item() if False else o[j] for o in ops]
        arr = nd.dec_array({"dtype": d, "shape": [len(ops)], "data": vals})
        cols.append(arr)

    def call(arrs):
        return getattr(ndx, fn)(*[ndx.asarray(a) for a in arrs]).to_numpy()

    outs = None
    try:
        r = call(cols)
        outs = [enc(x) for x in np.asarray(r).reshape(-1)] if not isinstance(r, np.ma.MaskedArray) else None
        if outs is not None and len(outs) != len(ops):
            outs = None
    except BaseException as e:  # noqa
        if isinstance(e, (KeyboardInterrupt, SystemExit)):
            raise
        outs = None
    if outs is None:
        outs = []
        for i in range(len(ops)):
            try:
                r = call([c[i:i + 1] for c in cols])
                outs.append(enc(np.asarray(r).reshape(-1)[0]))
            except BaseException as e:  # noqa
                if isinstance(e, (KeyboardInterrupt, SystemExit)):
                    raise
                outs.append("EErr")
    ins = [[enc(c[i]) for c in cols] for i in range(len(ops))]
    return {"ins": ins, "outs": outs}
