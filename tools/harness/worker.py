"""Implementation-side worker: reads one JSON case per line, writes one JSON outcome per
line.  Runs under /venv/bin/python with PYTHONPATH=/repo:/verif/tools, cwd=/repo."""
import importlib
import json
import os
import sys
import traceback
import warnings

warnings.filterwarnings("ignore")
os.environ.setdefault("ORT_DISABLE_ALL_LOGS", "1")


def main():
    mod = importlib.import_module(sys.argv[1])
    out = sys.stdout
    out.write(json.dumps({"_ready": True}) + "\n")
    out.flush()
    for line in sys.stdin:
        line = line.strip()
        if not line:
            continue
        case = json.loads(line)
        try:
            res = mod.handle(case)
        except BaseException as e:  # handler bug: report, never die silently
            res = {"handler_error": f"{type(e).__name__}: {e}", "tb": traceback.format_exc()[-1500:]}
        out.write(json.dumps({"id": case["id"], "out": res}, default=str) + "\n")
        out.flush()


if __name__ == "__main__":
    main()
