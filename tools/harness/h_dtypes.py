"""Trace-time dtype observations (no onnxruntime session needed): result_type tables,
result dtypes / exception families of every element-wise function."""
from __future__ import annotations

import itertools

import numpy as np

import ndonnx as ndx
from harness import nd

UNARY = ["abs", "acos", "acosh", "asin", "asinh", "atan", "atanh", "bitwise_invert", "ceil", "cos",
         "cosh", "exp", "expm1", "floor", "isfinite", "isinf", "isnan", "log", "log1p", "log2",
         "log10", "logical_not", "negative", "positive", "round", "sign", "sin", "sinh", "square",
         "sqrt", "tan", "tanh", "trunc"]
BINARY = ["add", "atan2", "bitwise_and", "bitwise_left_shift", "bitwise_or", "bitwise_right_shift",
          "bitwise_xor", "divide", "equal", "floor_divide", "greater", "greater_equal", "less",
          "less_equal", "logaddexp", "logical_and", "logical_or", "logical_xor", "multiply",
          "not_equal", "pow", "remainder", "subtract"]
OPERATORS = {"add": "__add__", "subtract": "__sub__", "multiply": "__mul__", "divide": "__truediv__",
             "floor_divide": "__floordiv__", "remainder": "__mod__", "pow": "__pow__",
             "bitwise_and": "__and__", "bitwise_or": "__or__", "bitwise_xor": "__xor__",
             "bitwise_left_shift": "__lshift__", "bitwise_right_shift": "__rshift__",
             "less": "__lt__", "less_equal": "__le__", "greater": "__gt__", "greater_equal": "__ge__",
             "equal": "__eq__", "not_equal": "__ne__"}
import operator as _op

OPFN = {"add": _op.add, "subtract": _op.sub, "multiply": _op.mul, "divide": _op.truediv,
        "floor_divide": _op.floordiv, "remainder": _op.mod, "pow": _op.pow, "bitwise_and": _op.and_,
        "bitwise_or": _op.or_, "bitwise_xor": _op.xor, "bitwise_left_shift": _op.lshift,
        "bitwise_right_shift": _op.rshift, "less": _op.lt, "less_equal": _op.le, "greater": _op.gt,
        "greater_equal": _op.ge, "equal": _op.eq, "not_equal": _op.ne}

SCALARS = {"pybool": True, "pyint": 3, "pyfloat": 1.5, "pystr": "a"}
# NumPy scalars: each behaves as a 0-d array of its dtype (np.float64 is also a Python float)
NPSCALARS = {"np:float64": np.float64(1.5), "np:float32": np.float32(1.5), "np:int64": np.int64(3), "np:int32": np.int32(3),
             "np:uint8": np.uint8(3), "np:bool": np.bool_(True), "np:utf8": np.str_("a"), "np:int8": np.int8(3), "np:uint64": np.uint64(3)}
SCALARS.update(NPSCALARS)


def _dt_out(fn):
    try:
        r = fn()
    except BaseException as e:  # noqa
        if isinstance(e, (KeyboardInterrupt, SystemExit)):
            raise
        return "!" + nd.exc_family(e) + ("|" + type(e).__name__)
    if isinstance(r, ndx.Array):
        return nd.dt_name(r.dtype)
    if isinstance(r, (ndx.CoreType,)) or hasattr(r, "_fields"):
        return nd.dt_name(r)
    return "?" + type(r).__name__


def _mk(name, eager: bool):
    if name in nd.ALL:
        if eager:
            base = nd.np_dtype(name)
            v = np.array(["a", "b"]) if name.endswith("utf8") else np.array([1, 2]).astype(base)
            if nd.is_nullable(name):
                v = np.ma.masked_array(v, mask=[False, True])
            return ndx.asarray(v)
        return ndx.array(shape=(2,), dtype=nd.dt(name))
    return SCALARS[name]


def handle(case):
    k = case["kind"]
    if k == "result_type":
        a = case["a"]
        rows = []
        for names in case["tuples"]:
            rows.append([names, _dt_out(lambda: ndx.result_type(*[nd.dt(n) for n in names]))])
        return {"rows": rows}
    if k == "result_type_arrays":
        rows = []
        for names in case["tuples"]:
            rows.append([names, _dt_out(lambda: ndx.result_type(*[_mk(n, False) for n in names]))])
        return {"rows": rows}
    if k == "unary":
        rows = []
        for f in case["funcs"]:
            for d in case["dtypes"]:
                x = _mk(d, case.get("eager", False))
                rows.append([f, d, _dt_out(lambda: getattr(ndx, f)(x))])
        return {"rows": rows}
    if k == "binary":
        rows = []
        f = case["func"]
        eager = case.get("eager", False)
        for a, b in case["pairs"]:
            x, y = _mk(a, eager), _mk(b, eager)
            rows.append([f, a, b, _dt_out(lambda: getattr(ndx, f)(x, y))])
        return {"rows": rows}
    if k == "operator":
        rows = []
        f = case["func"]
        for a, b in case["pairs"]:
            x, y = _mk(a, False), _mk(b, False)
            rows.append([f, a, b, _dt_out(lambda: OPFN[f](x, y))])
        return {"rows": rows}
    if k == "fn_dtypes":
        # result dtype of non-element-wise functions over several shapes of one operand dtype (placeholder and data-holding)
        CALLS = {"sum": lambda x: ndx.sum(x), "prod": lambda x: ndx.prod(x), "mean": lambda x: ndx.mean(x), "var": lambda x: ndx.var(x),
                 "std": lambda x: ndx.std(x), "min": lambda x: ndx.min(x), "max": lambda x: ndx.max(x), "all": lambda x: ndx.all(x),
                 "any": lambda x: ndx.any(x), "cumulative_sum": lambda x: ndx.cumulative_sum(ndx.reshape(x, [-1])), "argmax": lambda x: ndx.argmax(x),
                 "argmin": lambda x: ndx.argmin(x), "sort": lambda x: ndx.sort(ndx.reshape(x, [-1])), "argsort": lambda x: ndx.argsort(ndx.reshape(x, [-1])),
                 "reshape": lambda x: ndx.reshape(x, [-1]), "flip": lambda x: ndx.flip(x), "expand_dims": lambda x: ndx.expand_dims(x, 0),
                 "clip": lambda x: ndx.clip(x, min=0, max=1), "where_self": lambda x: ndx.where(x == x, x, x), "copy": lambda x: x.copy(),
                 "sum_axis_last": lambda x: ndx.sum(x, axis=-1) if x.ndim else ndx.sum(x, axis=None), "sum_keepdims": lambda x: ndx.sum(x, keepdims=True),
                 "mean_axis0": lambda x: ndx.mean(x, axis=0) if x.ndim else ndx.mean(x), "max_keepdims": lambda x: ndx.max(x, keepdims=True)}
        rows = []
        for f in case["funcs"]:
            for d in case["dtypes"]:
                outs = []
                for shp in case["shapes"]:
                    for eager in (False, True):
                        if eager and list(shp) not in ([], [2, 3]):
                            outs.append("!skipped")
                            continue

                        def mk():
                            if not eager:
                                return ndx.array(shape=tuple(shp), dtype=nd.dt(d))
                            n = int(np.prod(shp)) if shp else 1
                            base = nd.np_dtype(d)
                            v = (np.array(["a", "b", "c", "d", "e", "f"])[:n] if d.endswith("utf8") else (np.arange(n) % 2).astype(base)).reshape(shp)
                            if nd.is_nullable(d):
                                v = np.ma.masked_array(v, mask=(np.arange(n) % 3 == 1).reshape(shp))
                            return ndx.asarray(v)
                        outs.append(_dt_out(lambda: CALLS[f](mk())))
                rows.append([f, d, outs])
        return {"rows": rows}
    if k == "can_cast":
        rows = []
        for a, b in case["pairs"]:
            def go():
                return ndx.can_cast(nd.dt(a), nd.dt(b))
            try:
                r = go()
                rows.append([a, b, bool(r)])
            except BaseException as e:  # noqa
                rows.append([a, b, "!" + nd.exc_family(e)])
        return {"rows": rows}
    raise ValueError(k)
