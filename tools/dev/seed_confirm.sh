#!/bin/bash
# usage: seed_confirm.sh <ID>   — independent confirmation of a seeded change prepared in /tmp/wt/<ID>
# (1) patch.diff is exactly the working-tree change; (2) demo fails with it; (3) demo passes without it;
# (4) the unedited test suite passes with it.  Writes /verif/seeded/<ID>/{patch.diff,demo_<ID>.py,meta.json,confirm.log}
id=$1; base=${WT:-/tmp/wt}; wt=$base/$id; out=/verif/seeded/$id${SUF:-}
[ -f $wt/patch.diff ] || { echo "$id: no patch.diff"; exit 2; }
mkdir -p $out; log=$out/confirm.log; : > $log
cd $wt
git diff -- ndonnx > $base/$id.cur.diff
if ! cmp -s $base/$id.cur.diff patch.diff; then echo "patch.diff differs from working-tree diff; using working-tree diff" >> $log; cp $base/$id.cur.diff patch.diff; fi
[ -n "$(git status --short -- tests)" ] && { echo "$id: tests edited!" | tee -a $log; exit 2; }
PYTHONHASHSEED=0 timeout 900 /venv/bin/python demo_$id.py > $base/$id.demo_with.out 2>&1; rc_with=$?
git apply -R patch.diff || { echo "$id: cannot reverse patch" | tee -a $log; exit 2; }
PYTHONHASHSEED=0 timeout 900 /venv/bin/python demo_$id.py > $base/$id.demo_without.out 2>&1; rc_without=$?
git apply patch.diff
echo "demo with change: rc=$rc_with; last lines:" >> $log; tail -5 $base/$id.demo_with.out >> $log
echo "demo without change: rc=$rc_without; last lines:" >> $log; tail -3 $base/$id.demo_without.out >> $log
timeout 3000 /venv/bin/python -m pytest -q -p no:cacheprovider --timeout=900 -x > $base/$id.tests.out 2>&1; rc_tests=$?
echo "test suite with change: rc=$rc_tests: $(tail -1 $base/$id.tests.out)" >> $log
cp patch.diff demo_$id.py meta.json $out/
ok=no; [ $rc_with -ne 0 ] && [ $rc_without -eq 0 ] && [ $rc_tests -eq 0 ] && ok=yes
echo "confirmed=$ok" >> $log
echo "$id confirmed=$ok (demo with=$rc_with without=$rc_without tests=$rc_tests)"
