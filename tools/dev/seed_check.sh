#!/bin/bash
# usage: seed_check.sh <SEED_DIR_NAME> <CHECK_ID>...   e.g. seed_check.sh C03_r2 C03
# applies /verif/seeded/<SEED_DIR_NAME>/patch.diff to a private clone of /repo and runs the checks against it (VERIF_REPO)
seed=$1; shift
wt=/tmp/sc_$seed; rm -rf $wt; git clone -q /repo $wt && git -C $wt apply /verif/seeded/$seed/patch.diff || { echo "$seed: patch does not apply"; exit 2; }
cd /verif
for id in "$@"; do
  s=$(date +%s)
  VERIF_REPO=$wt VERIF_SEED=${VERIF_SEED:-0} ./check $id --tier quick > /verif/seeded/$seed/check_$id.out 2>/dev/null; rc=$?
  e=$(date +%s)
  echo "seed=$seed check=$id rc=$rc $((e-s))s: $(grep '^VIOLATION' /verif/seeded/$seed/check_$id.out | head -2 | tr '\n' ';')"
  rp=$(grep -m1 '^VIOLATION' /verif/seeded/$seed/check_$id.out | sed 's/.*replay=\([^ ]*\).*/\1/')
  [ -n "$rp" ] && [ -f "$rp" ] && cp "$rp" /verif/seeded/$seed/replay_$id.json
done
rm -rf $wt
