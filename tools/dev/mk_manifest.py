"""Developer tool: write /verif/MANIFEST.json from the per-property registry below."""
import json, pathlib
V = pathlib.Path('/verif')
BASE = "cd /repo && /venv/bin/python -m pytest -ra -q -p no:cacheprovider --timeout=900 --continue-on-collection-errors"
TB = ("Trusted: Coq 8.16.1 kernel + vm_compute; the Python translators/enumerators under /verif/tools (fail-closed); "
      "ONNX operator semantics in coq/Ndx/ElemSem.v + coq/Onnx as a description of onnxruntime 1.30 (validated by the correspondence runs); "
      "NumPy as the executable stand-in of the spec in the failing-input search. Axioms: none declared; see evidence.assumptions_printed.")
P = {
 "C03": dict(
   text="Proof. Theorems (Coq, closed under the global context): n-ary promotion is independent of argument order and multiplicity for lists of any length, commutative, associative under the property's guard on all 24^3 triples (finite type, vm_compute lifted by forallb_forall) with a witness that the guard is tight, nullable iff some operand nullable, Python scalars keep the dtype within kind, strings isolated inside promote(). Tie, re-checked every run: ndonnx.result_type enumerated on all 24+576+13824 ordered tuples (+ sampled longer) and compared to the model inside Coq; the function x dtype table of every element-wise function/operator (all 576 pairs, Python scalars in both orders) is regenerated from traced graphs and the dtype-law theorem is re-proved on the regenerated table.",
   note=TB + " Known findings: 4 classes (known_findings.json).",
   technique="Coq theorems on a rule-based promotion model + exhaustive in-Coq tie (vm_compute) + theorem re-proved on table regenerated from traced ONNX graphs",
   ref="DESIGN.md §5 C03"),
}
P["C17"] = dict(
   text="Proof. The domain law (outside_domain f args -> the call raises a TypeError-family exception) is a decidable predicate in Coq over table rows; the table (every element-wise function and operator x every operand tuple: 24x24 dtype pairs, Python scalars in both orders, reflected operators) is regenerated from /repo by tracing on every run and the theorem `forall r in table, not in a named baseline class -> law r` is re-proved on the regenerated table by vm_compute + forallb_forall. The same theorem is proved on the committed model table, with a _refuted lemma for the baseline classes. Thorough adds the eager (data-holding) pass.",
   note=TB + " The reading of 'not defined for' is coq/Ndx/ElemLaws.v outside_domain. Known findings: 4 classes.",
   technique="Coq theorem re-proved by reflection on a table regenerated from /repo (trace-time outcome of every function x dtype tuple)",
   ref="DESIGN.md §5 C17")
P["C02"] = dict(
   text="Proof, partial. Coq theorems (closed, all operand values, all 8 integer dtypes unless excluded by name): add/subtract/multiply/negative wrap modulo 2^bits although routed through int64 (2^bits | 2^64), comparisons exact for every integer dtype but uint64, floor/ceil/round/trunc/positive are the identity on integers; `_refuted` lemmas with witnesses for uint64-through-int64, remainder's sign, int64 right shift, floor_divide through floating point. Tie 1 (T-graph, every run): each element-wise function is traced on placeholders for every dtype (ranks 0/1/3), the ONNX graph is translated node for node into a Gallina term and Coq checks it equals the model table Ndx/ElemTable.v; definedness inside the standard's domain is re-proved on the regenerated table. Tie 2 (in-Coq correspondence, every run): implementation results on boundary-stratified operands are compared inside Coq with `eval` of the row's graph under the operator semantics Ndx/ElemSem.v (SpecFloat for IEEE + - * / sqrt floor ceil round casts). Partial: the accuracy of onnxruntime's transcendental kernels is only sampled against NumPy (4 ulp).",
   note=TB + " Not proved: transcendental kernel accuracy; closed-form theorems for bitwise/shift/pow/sign (covered by the in-Coq correspondence). 11 known-finding classes.",
   technique="Coq theorems over a term model of the traced ONNX graphs (T-graph translation checked in Coq) + in-Coq evaluation of the model against implementation outputs",
   ref="DESIGN.md §5 C02")
P["C04"] = dict(
   text="Proof, partial. Coq: a decision procedure rule_holds checks, for a mask expression, every combination of operand mask bits and of the values of its data-dependent sub-expressions (atoms); theorem rule_holds_sound (all valuations) and theorem mask_rule link it to the evaluator: whenever the graph evaluates, the output element is null iff some nullable operand element is null, for every data, mask and payload - so the mask cannot depend on a payload. It is re-run on EVERY row of the element-wise table regenerated from /repo on each run (values expressions must not read a mask). Correspondence: every case on nullable data is executed twice with different payloads under the same nulls; outputs are compared with the NumPy statement of the masking rule, with the same ndonnx operation on the plain values, and with each other (payload independence), eager and traced. Partial: reductions, sorting, matmul, where and layout functions on nullable input have no theorem yet (payload-pair correspondence only).",
   note=TB + " 5 known-finding classes (sort/matmul leak payloads, mean counts nulls, integer division by a null payload of 0, logical shortcuts drop nulls, predicates on nullable ints).",
   technique="Coq decision procedure with soundness proof, re-run on the table regenerated from traced ONNX graphs + payload-pair correspondence",
   ref="DESIGN.md §5 C04")
P["C10"] = dict(
   text="Proof, partial. Coq theorems (closed): axes_resolve - for every rank and every valid axis argument (None, any integer incl. negative, tuples, the empty tuple) the axes ndonnx hands to ONNX Reduce* (with noop_with_empty_axes) denote exactly the axes NumPy reduces, hence ndx_reduce = np_reduce for every tensor; keepdims shape laws; an empty reduction yields the neutral element. Ties, every run: (T-src) the axis prologue and the reduce call of sum/prod/min/max are translated from today's source by an ast translator into Gallina and the theorem is re-proved on the translation; the dispatch table of _funcs.py and of the Array methods/operators is extracted and Coq proves every public function fetches its own operations-block entry and forwards every keyword under its own name (argmin->argmax or keepdims=False literals break this theorem); (in-Coq correspondence) results of sum/prod/min/max on random int64 tensors (ranks 0-4, extents incl. 0, all axis forms, keepdims) equal the executable model. Partial: values of mean/var/std/cumulative_sum/argmax/argmin/all/any and accumulator dtypes are compared with NumPy only.",
   note=TB + " 3 known-finding classes (prod float64 refused - pinned by the repo's own tests, std float64 via float32, uint64 min/max via int64). 4 fixes committed (argmin dispatch, method keepdims, negative axes on empty input, argmax/argmin axis=None dtypes, all/any).",
   technique="Coq theorems on an executable tensor model + ast translation of the reduction prologue and dispatch table re-proved each run + in-Coq correspondence",
   ref="DESIGN.md §5 C10")
P["C08"] = dict(
   text="Proof, partial. Coq theorem slice_1d (closed under the global context): for every extent n < 2^62 and every slice inside the standard's bounds (start/stop given or omitted, any step sign, INT64 sentinels) the Slice ndonnx emits - onnxruntime's clamping semantics written out - selects exactly Python's slice.indices sequence; a witness shows the guard is needed. Tie 1 (T-src, every run): ndonnx/_index.py and _CoreArray._normalise_index are translated by a fail-closed ast translator into Gallina over a universal Python value type; Coq proves (generic script) that the translation equals the typed model for every index entry, and the 1-D theorem is re-stated on the translation (C08_slice_as_written), so an expression-level edit of the normaliser lands in a proof obligation. Tie 2 (in-Coq correspondence, every run): x[index] on token tensors equals the executable model of the lowering (one Slice, Gathers in reverse order, Unsqueeze; ellipsis expansion, rank check) for ALL 1-D cases with extents 0-4 and ~1500 random tuples over {int, slice, Ellipsis, None} of ranks 0-3 incl. malformed ones (IndexError/TypeError); on the same cases Coq checks model = NumPy's left-to-right semantics. Partial: the n-D statement for all tuples is tested in Coq, not yet proved; masks and integer index arrays are compared with NumPy only.",
   note=TB + " Known findings: onnxruntime's Gather on strings (runtime bug), masks of lower rank over zero extents.",
   technique="Coq proof of the 1-D slice law + ast translation of the index normaliser proved equal to the model each run + in-Coq correspondence of the n-D lowering",
   ref="DESIGN.md §5 C08")
P["C11"] = dict(
   text="Proof, partial. Coq theorems (closed): roll - for every extent > 0 and every shift of any sign and magnitude, the index vector ndonnx gathers with (range + (len - shift)) mod len under ONNX Mod semantics is NumPy's (i - shift) mod len, every index is in range, shifts are periodic; flip - the emitted [::-1] Slice reverses an axis of any extent (through slice_1d); naturality - select/drop/unsqueeze/transpose/expand/squeeze commute with every element-wise map, i.e. they are pure data movement, identical for every dtype and for the values/null fields of struct dtypes; refutations for roll on extent 0 and reshape targets containing 0. Tie (in-Coq correspondence, every run): 13 layout functions with random parameters on int64 token tensors (ranks 0-4, extents incl. 0) are compared inside Coq with the executable model of the lowering (Transpose/Unsqueeze/Squeeze/Slice/Gather/Reshape/Expand/Concat/Trilu). NumPy sweep over 16 functions x 8 dtypes (incl. string and nullable: masks must move with values), eager and traced with symbolic dims. Partial: closed-form equality with NumPy is proved for roll and flip only; the other functions rest on model==implementation (Coq-checked per run) and implementation==NumPy (sampled).",
   note=TB + " 6 known-finding classes (matrix_transpose/T/mT on bool and string, stack/concat on nullable, roll and reshape with zero extents, tril/triu on bool/unsigned, onnxruntime string Gather).",
   technique="Coq theorems on an executable tensor model (index arithmetic, naturality) + in-Coq correspondence of the lowering",
   ref="DESIGN.md §5 C11")
NOT_YET = {}
props = [json.loads(l) for l in open(V/'properties.jsonl')]
checks, na = [], []
for p in props:
    i = p['id']
    if i in P:
        m = P[i]
        checks.append({
          "property_id": i, "quick_cmd": f"./check {i} --tier quick", "thorough_cmd": f"./check {i} --tier thorough",
          "evidence_file": f"/verif/evidence/{i}.json", "replay_cmd_template": f"./check {i} --replay {{path}}",
          "engine": "coq-proof+tie", "level_claimed": {"category": "proof", "text": m['text'], "design_ref": m['ref']},
          "level_note": m['note'], "technique": m['technique']})
    else:
        na.append({"property_id": i, "reason": NOT_YET.get(i, "check not built yet in this round (planned, see DESIGN.md §9); not claimed until it runs clean")})
man = {
 "version": 1,
 "setup_cmd": "cd /verif/coq && coq_makefile -f _CoqProject -o Makefile && timeout 3000 make -j16",
 "hooks": {"guard": "NDONNX_VERIF", "enable": "NDONNX_VERIF=1 in the environment of implementation workers (no hook is currently needed; nothing in /repo reads it)",
           "baseline_off_cmd": BASE, "source_commits": [], "add_only": True},
 "engines": [{"name": "coq-proof+tie", "path": "/verif/check", "serves_properties": [c['property_id'] for c in checks],
              "kind_free_text": "Coq 8.16.1 development under /verif/coq (hand-written executable model + theorems) tied to /repo on every run by translators (ast / ONNX graph -> Gallina) and in-Coq correspondence (vm_compute over generated case files)"}],
 "checks": checks,
 "not_applicable": na,
 "notes": "Exit codes of ./check: 0 held (KNOWN-FINDING lines allowed), 1 VIOLATION, 2 machinery failure (never on the unchanged tree). known findings: /verif/known_findings.json.",
}
(V/'MANIFEST.json').write_text(json.dumps(man, indent=1))
print(len(checks), "claimed;", len(na), "not claimed")
