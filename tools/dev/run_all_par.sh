#!/bin/bash
# run every claimed check (quick) on the current tree, 3 at a time; print id, exit code, wall time
cd /verif
ids=$(python3 -c "import json; print(' '.join(c['property_id'] for c in json.load(open('MANIFEST.json'))['checks']))")
one() { id=$1; s=$(date +%s); VERIF_SEED=${VERIF_SEED:-0} ./check $id --tier ${TIER:-quick} > /tmp/check_$id.out 2>/tmp/check_$id.err; rc=$?; e=$(date +%s)
  echo "$id rc=$rc $((e-s))s viol=$(grep -c '^VIOLATION' /tmp/check_$id.out) known=$(grep -c '^KNOWN' /tmp/check_$id.out)"; }
export -f one
echo ${@:-$ids} | tr ' ' '\n' | xargs -P ${PAR:-3} -I{} bash -c 'one {}'
python3-vt - <<'PY'
import json,jsonschema,glob
sch=json.load(open('/root/.vp/EVIDENCE.schema.json'))
for f in sorted(glob.glob('/verif/evidence/*.json')):
    e=json.load(open(f))
    try: jsonschema.validate(e,sch)
    except Exception as ex: print(f,'INVALID',str(ex)[:100]); continue
    c=e['coverage']
    if c['obligations']!=c['discharged']: print(f,'discharged',c['discharged'],'of',c['obligations'])
PY
