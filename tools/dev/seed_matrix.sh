#!/bin/bash
# For every kept seeded change: apply it to a private clone of /repo and run the property's own check plus the related
# ones against that clone (VERIF_REPO); write seeded/matrix.tsv (seed, check, exit code, seconds, first VIOLATION line).
V="$(cd "$(dirname "$0")/../.." && pwd)"
cd "$V"
declare -A REL=( [C01]="C01 C06 C07 C15 C16" [C02]="C02 C01 C03 C17 C04" [C03]="C03 C02 C17" [C04]="C04 C10 C02" [C05]="C05 C01 C19"
 [C06]="C06 C04 C01 C15" [C07]="C07 C09 C01" [C08]="C08 C09 C06 C01" [C09]="C09 C07 C01" [C10]="C10 C04 C06 C15" [C11]="C11 C06 C15 C01"
 [C12]="C12 C01 C15" [C13]="C13 C03 C15" [C14]="C14 C09 C03" [C15]="C15 C09 C11" [C16]="C16 C19 C01" [C17]="C17 C10 C03" [C18]="C18 C05"
 [C19]="C19 C16 C07" [C20]="C20 C15" )
out=$V/seeded/${MATRIX:-matrix.tsv}; : > $out
one() { seed=$1; id=$2; wt=$3; s=$(date +%s)
  VERIF_REPO=$wt VERIF_SEED=0 ./check $id --tier quick > $wt.$id.out 2>/dev/null; rc=$?; e=$(date +%s)
  printf "%s\t%s\t%s\t%s\t%s\n" $seed $id $rc $((e-s)) "$(grep -m1 '^VIOLATION' $wt.$id.out | sed 's/replay=[^ ]*//')" >> $V/seeded/${MATRIX:-matrix.tsv}; }
export -f one; export V
for seed in ${@:-C01 C02 C03 C04 C05 C06 C07 C08 C09 C10 C11 C12 C13 C14 C15 C16 C17 C18 C19 C20}; do
  wt=/tmp/mx_$seed; rm -rf $wt; git clone -q /repo $wt && git -C $wt apply $V/seeded/$seed/patch.diff || { echo -e "$seed\t-\tpatch-does-not-apply" >> $out; continue; }
  # seeds one after the other; the (distinct) checks of one seed in parallel
  for id in ${REL[${seed%%_*}]}; do
    one $seed $id $wt &
    while [ $(jobs -r | wc -l) -ge ${PAR:-3} ]; do sleep 2; done
  done
  wait
  rm -rf $wt $wt.*.out
done
wait
sort -o $out $out
