#!/usr/bin/env python3
"""Write one prompt per property for a round of seeded changes: /tmp/<wt>/prompt_<ID>.txt and a scratch worktree
/tmp/<wt>/<ID> of /repo.  The prompt contains the property's text and one line per change already tried for it
(from /verif/seeded/<ID>*/meta.json) — nothing else from /verif.
usage: seed_prompts.py <wtdir> [ID ...]"""
import glob
import json
import os
import subprocess
import sys

wt = sys.argv[1]
ids = sys.argv[2:]
props = {json.loads(l)["id"]: json.loads(l) for l in open("/verif/properties.jsonl")}
os.makedirs(wt, exist_ok=True)
for pid in ids or sorted(props):
    p = props[pid]
    tried = []
    for m in sorted(glob.glob(f"/verif/seeded/{pid}*/meta.json")):
        s = json.load(open(m))["summary"].replace("\n", " ")
        tried.append("- " + s[:330] + ("…" if len(s) > 330 else ""))
    d = f"{wt}/{pid}"
    if not os.path.isdir(d):
        subprocess.run(["git", "-C", "/repo", "worktree", "add", "--detach", d, "HEAD"], check=True, capture_output=True)
    text = f"""You are helping to evaluate a verification tool for the Python library ndonnx (an Array-API array library that
traces operations into ONNX graphs via spox, with eager constant propagation through onnxruntime and nullable / struct
dtypes).  Your scratch copy of the repository is the git worktree {d} — work ONLY there (never read or touch /repo or
/verif).  Run Python as `cd {d} && PYTHONPATH={d} /venv/bin/python ...` (onnxruntime is noisy on stderr).

PROPERTY {pid}: {p['title']}
{p['statement']}

TASK.  Make ONE realistic change to the library's source (under {d}/ndonnx; never edit tests/) that BREAKS this property
while the library still imports and the existing, unedited test suite still passes
(`cd {d} && /venv/bin/python -m pytest -q -p no:cacheprovider --timeout=900` — about 2-6 minutes; it must end with
1011 passed, 1 xpassed).  The change should look like something a maintainer could plausibly commit (a refactoring, an
optimisation, a "simplification", a shortcut, a cache, a reordering) — not an obviously malicious edit — and it must need
something SPECIFIC to manifest: a multi-step sequence of operations, an unusual input (a particular dtype / rank /
extent / value), a particular mix of placeholder and data-holding inputs, a particular history in the process, or two
cooperating sites that each look fine alone.  Ordinary use must NOT expose it at once.

The following changes have ALREADY been tried for this property; choose a DIFFERENT site and a DIFFERENT mechanism:
{chr(10).join(tried) if tried else '- (none)'}

DELIVERABLES, all inside {d}:
1. the source change itself, left applied in the worktree;
2. `patch.diff` = output of `git diff -- ndonnx`;
3. `demo_{pid}.py`: a small self-contained program that exercises the property through the public API, prints PASS and
   exits 0 on the unchanged library, and prints FAIL with the observations and exits 1 with your change applied
   (check both: `git apply -R patch.diff`, run, `git apply patch.diff`, run);
4. `meta.json` with keys "property" ("{pid}"), "summary" (what was changed, where, and why it breaks the property),
   "needs" (exactly what is needed for the violation to manifest) and "ran" (the commands you ran and what they printed,
   including the final line of the test-suite run with the change applied).
Finish by replying with a three-line summary.  Do not ask questions; decide yourself.
"""
    open(f"{wt}/prompt_{pid}.txt", "w").write(text)
    print(pid, len(tried), "earlier changes listed")
