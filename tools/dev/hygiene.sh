#!/bin/bash
# text-level hygiene of the Coq development + independent re-check of the property files
cd /verif/coq
echo "== forbidden constructs (should print nothing):"
grep -rn --include=*.v -E '\b(Admitted|admit|Axiom|Parameter|Conjecture|Hypothesis)\b|Unset Guard|bypass_check|type-in-type|Admit Obligations' . ../tools/templates | grep -v '^\./.*(\*' | grep -v 'Variable' || true
echo "== Variables outside sections are not used; Section Variables:"
grep -rn --include=*.v -E '^\s*Variables? ' . | head -20
if [ "$1" = "coqchk" ]; then
  echo "== coqchk -o (independent checker; axioms of every loaded library are listed)"
  timeout 3000 coqchk -o -Q . ND ND.Props.C01 ND.Props.C02 ND.Props.C03 ND.Props.C04 ND.Props.C05 ND.Props.C06 ND.Props.C08 ND.Props.C09 ND.Props.C10 ND.Props.C11 ND.Props.C12 ND.Props.C13 ND.Props.C14 ND.Props.C15 ND.Props.C18 ND.Props.C19 ND.Props.C20 2>&1 | tail -40
fi
