#!/bin/bash
# usage: seed_run.sh <SEED_ID> <CHECK_ID>...  — apply /verif/seeded/<SEED_ID>/patch.diff to /repo, run the named checks, undo.
seed=$1; shift
[ -n "$(git -C /repo status --short --untracked-files=no)" ] && { echo "/repo not clean"; exit 2; }
git -C /repo apply /verif/seeded/$seed/patch.diff || exit 2
trap 'git -C /repo checkout -- .' EXIT
cd /verif
for id in "$@"; do
  s=$(date +%s)
  VERIF_SEED=${VERIF_SEED:-0} ./check $id --tier ${TIER:-quick} > /verif/seeded/$seed/check_$id.out 2>/tmp/seed_$seed.$id.err; rc=$?
  e=$(date +%s)
  echo "seed=$seed check=$id rc=$rc $((e-s))s: $(grep '^VIOLATION' /verif/seeded/$seed/check_$id.out | head -3 | tr '\n' ';')"
  # keep one replay for the record
  rp=$(grep -m1 '^VIOLATION' /verif/seeded/$seed/check_$id.out | sed 's/.*replay=\([^ ]*\).*/\1/')
  [ -n "$rp" ] && [ -f "$rp" ] && cp "$rp" /verif/seeded/$seed/replay_$id.json
done
