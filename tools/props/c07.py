"""C07 — constant folding is complete and every reported value is sound."""
from __future__ import annotations

import copy
import random

from props import c01
from vlib import core, family, ops, programs

LEVEL = "proof"


def perturb(rnd, spec):
    t = copy.deepcopy(spec)
    b = ops.base(t["dtype"])
    n = len(t["data"])
    if b == "bool":
        t["data"] = [not v for v in t["data"]]
    elif b in ops.FLOATS:
        t["data"] = [ops.fhex(float(rnd.randint(-9, 9)) + 0.5) for _ in range(n)]
    elif b == "utf8":
        t["data"] = ["s:p%d" % i for i in range(n)]
    else:
        lo, hi = ops.IINFO[b]
        t["data"] = [rnd.randint(max(lo, -9), min(hi, 9)) for _ in range(n)]
    if "mask" in t:
        t["mask"] = [rnd.random() < 0.5 for _ in range(n)]
    return t


def run(ctx):
    rnd = random.Random(ctx.seed)
    ctx.trusted += ["coq/Machine/Machine.v (object layer) tied by the T-src census and the correspondence; kernels abstract"]
    ctx.static_build()
    c01.census_tie(ctx)
    n = 300 if ctx.tier == "quick" else 3000
    cases = []
    for i in range(n):
        c = programs.gen_program(rnd, f"F-{i}")
        subs = c["lazy_subsets"][:3]
        for s in subs:
            s["feeds"] = [{k: c["inputs"][k] for k in s["names"]}] + [{k: perturb(rnd, c["inputs"][k]) for k in s["names"]} for _ in range(2)]
        c["lazy_subsets"] = subs + [{"names": []}]
        cases.append(c)
    # in-place updates mixing data-holding and placeholder operands (named in the property)
    for i in range(80 if ctx.tier == "quick" else 600):
        d = rnd.choice(["int64", "float64", "int32", "nint64", "nfloat64"])
        sh = ops.rand_shape(rnd, 2, 0.05, (1, 2, 3), min_rank=1)
        a, b = ops.tensor(rnd, d, sh, "small"), ops.tensor(rnd, d, sh if rnd.random() < 0.6 else sh[1:], "small")
        form = rnd.choice(["u = a.copy(); a[0] = b[0] if b.ndim == a.ndim else b; out = [u, a]", "t = a.copy(); u = t.copy(); t[...] = b; out = [u + 0, u, t]",
                           "u = ndx.asarray(a, copy=True); a[-1] = b[-1] if b.ndim == a.ndim else b; out = [u, a, u * 1]",
                           "t = a.copy(); t += b; out = t", "t = a.copy(); t *= b; out = t", "t = a.copy(); t[...] = b; out = t",
                           "t = a.copy(); t[0] = b[0] if b.ndim == t.ndim else b; out = t", "t = a.copy(); u = t; t -= b; out = u",
                           "t = a.copy(); t += b; out = t + 1"])
        if ops.nullable(d) and rnd.random() < 0.6:
            # the update goes through a field alias, after the parent's value / rank has been read once
            form = rnd.choice(["t = a.copy(); n_ = t.ndim; t.values[...] = b.values; out = t",
                               "t = a.copy(); n_ = t.ndim; t.null[...] = b.null; out = t",
                               "t = a.copy(); n_ = t.ndim; v_ = t.values; v_ += b.values; out = t",
                               "t = a.copy(); n_ = t.ndim; m_ = t.null; m_ |= b.null; out = t + 1"])
        subs = [{"names": ["b"]}, {"names": ["a"]}, {"names": ["a", "b"]}]
        orc_ = form.replace("ndx.asarray(a, copy=True)", "a.copy()") if form.startswith(("u = a.copy(); a[0]", "t = a.copy(); u = t.copy()", "u = ndx.asarray(a, copy=True)")) else None
        c = {"id": f"FI-{i}", "inputs": {"a": a, "b": b}, "impl": form, "oracle": orc_, "tol": [0, 0],
             "meta": {"func": "inplace-mixed", "dtype": d, "dclass": family.dclass(d)}, "lazy_subsets": subs}
        for s_ in subs:
            s_["feeds"] = [{k: c["inputs"][k] for k in s_["names"]}] + [{k: perturb(rnd, c["inputs"][k]) for k in s_["names"]} for _ in range(2)]
        c["lazy_subsets"] = subs + [{"names": []}]
        cases.append(c)
    # completeness over single library calls (multi-output primitives included): all inputs hold data =>
    # the result reports a value and exports as constants only
    from vlib import families
    fam = (families.sorting_cases(rnd, 90 * (1 if ctx.tier == "quick" else 8), prefix="FS", max_len=9)
           + families.reduction_cases(rnd, 40 * (1 if ctx.tier == "quick" else 8), prefix="FR")
           + families.layout_cases(rnd, 40 * (1 if ctx.tier == "quick" else 8), prefix="FL")
           + families.getitem_cases(rnd, 30 * (1 if ctx.tier == "quick" else 8), prefix="FG"))
    fam = [c for c in fam if ".shape" not in c["impl"] and "to_numpy" not in c["impl"] and c["inputs"]]
    for c in fam:
        c["oracle"] = None
        c["lazy_subsets"] = [{"names": []}]
    cases += fam
    # Python-equal scalar constants of different sign / type: each is reported AND exported as written
    for i in range(24 if ctx.tier == "quick" else 200):
        d = rnd.choice(["float64", "float32"])
        x = ops.tensor(rnd, d, [rnd.choice([1, 2, 3])], "small")
        z1, z2 = rnd.choice([("0.0", "-0.0"), ("-0.0", "0.0")])
        form = rnd.choice([f"p_ = ndx.asarray(np.{d}({z1})); q_ = ndx.asarray(np.{d}({z2})); out = [q_, x * q_, p_]",
                           f"p_ = ndx.asarray(np.{d}({z1})) * 1; q_ = ndx.asarray(np.{d}({z2})); out = [q_.copy(), q_ + q_, p_]",
                           f"p_ = x * np.{d}({z1}); out = [x * np.{d}({z2}), ndx.asarray(np.{d}({z2})), p_]"])
        c = {"id": f"FZ-{i}", "inputs": {"x": x}, "impl": form, "oracle": None, "tol": [0, 0], "strict_zero": True,
             "meta": {"func": "signed-zero-constants", "dtype": d, "dclass": "float"}, "lazy_subsets": [{"names": []}, {"names": ["x"], "feeds": [{"x": x}]}]}
        cases.append(c)
    res = core.run_cases("harness.h_ops", cases, workers=14, per_case_timeout=180)
    folded = sound = 0
    for c in cases:
        r = res.get(c["id"]) or {}
        ctx.count(c["id"], nontrivial=True)
        if "handler_error" in r:
            ctx.broken_machinery.append(str(r)[:300])
            continue
        eg = r.get("eager")
        if not eg or "ok" not in eg:
            continue        # the program does not evaluate on data: nothing to fold
        orc = r.get("oracle")
        if c.get("oracle") and orc and "ok" in orc:
            why = ops.cmp_arrays(orc["ok"], eg["ok"], c["tol"][0], c["tol"][1])
            if why:
                ctx.finding(family.attrs_of(c, "value-" + why, "eager"), f"a copy taken before an item assignment reports the assigned data ({why}): {c['impl'][:120]}", family.replay_of(c, r, "eager"))
        for sub, tr in zip(c["lazy_subsets"], r.get("traced", [])):
            if "meta" not in tr:
                continue
            metas = family.flatten_meta(tr["meta"])
            if not sub["names"]:
                # completeness: every input holds data => value present, only Constant/Identity nodes
                extra = [o for o in tr.get("ops", []) if o not in ("Constant", "Identity")]
                if extra or not all(m and m["has_value"] for m in metas):
                    ctx.finding(family.attrs_of(c, "not-folded", "traced"), f"all inputs hold data but the result reports no value or the graph has compute nodes {extra}: {c['impl'][:120]}", family.replay_of(c, r, "all-eager"))
                else:
                    folded += 1
                # ... and the constants wired to the outputs are the reported values
                for run_ in tr.get("runs", []):
                    if "ok" in run_:
                        for m, v in zip(metas, family.flatten_val(run_["ok"])):
                            why = m and m.get("has_value") and ops.cmp_arrays(m["value"], v, c["tol"][0], c["tol"][1], strict_zero=c.get("strict_zero", False))
                            if why:
                                ctx.finding(family.attrs_of(c, "folded-value-differs", "traced"), f"all inputs hold data: the reported value differs from what the exported constants produce ({why}): {c['impl'][:120]}", family.replay_of(c, r, "traced"))
                continue
            # soundness: a reported value must be what the model produces for EVERY assignment
            for run_ in tr.get("runs", []):
                if "ok" not in run_:
                    continue
                vals_ = family.flatten_val(run_["ok"])
                if len(vals_) != len(metas):
                    continue
                for m, v in zip(metas, vals_):
                    if not m or not m.get("has_value"):
                        continue
                    if True:
                        why = ops.cmp_arrays(m["value"], v, c["tol"][0], c["tol"][1], strict_zero=c.get("strict_zero", False))
                        if why:
                            ctx.finding(family.attrs_of(c, "unsound-value", "traced"), f"an array reports a value although its exported model produces something else for another placeholder assignment ({why}): {c['impl'][:120]}", family.replay_of(c, r, "traced:" + ",".join(sub["names"])))
                        else:
                            sound += 1
    ctx.coverage["folded_programs"] = folded
    ctx.coverage["sound_value_checks"] = sound
    ctx.sample({"program": cases[0]["impl"], "lazy_subsets": [s["names"] for s in cases[0]["lazy_subsets"]]})
    f = ctx.work / "C07_static.v"
    f.write_text((core.COQ / "Props" / "C01.v").read_text())
    ctx.compile("Props/C01.v: C07_reported_values_are_sound (every program, every placeholder subset, with or without onnxruntime), C07_constant_folding_is_complete", f, kind="theorem")
    ctx.coverage.update({"rule": "random programs (as C01) with inputs partitioned into data-holding and placeholder: (a) all inputs data-holding => value present and graph nodes within {Constant, Identity}; (b) for each traced result that reports a value, the built model is run on the original and on two perturbed placeholder assignments and must return the reported value. Distinct by canonical (program, inputs)."})


def replay(ctx, path):
    run(ctx)
