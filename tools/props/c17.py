"""C17 — unsupported dtype combinations fail loudly (TypeError family) instead of being coerced."""
from __future__ import annotations

import inspect
import itertools

from vlib import core, coqcorr, elem, family, ops

LEVEL = "proof"


def run(ctx):
    ctx.trusted += ["tools/translate/gen_elem.py + tools/harness/h_graph.py (trace-time outcome of every function x operand tuple)",
                    "coq/Ndx/ElemLaws.v outside_domain: the reading of 'not defined for' (numeric functions on strings or booleans, logical functions on numbers, bitwise on floats, strings mixed with non-strings)"]
    ctx.static_build()
    specs, out, unsup = elem.gen_table(ctx)
    ok, viol, known = elem.law_on_generated(ctx, "C17_outside_domain_raises_TypeError", "c17_patterns", "c17_row_ok", "domain law", "c17")
    elem.report_rows(ctx, specs, out, viol, "C17 domain law (a call outside the function's domain must raise a TypeError)")
    elem.known_classes(ctx, known)
    n_out = 0
    for s in specs:
        ctx.count(("row", s[0], tuple(s[1]), s[2]), nontrivial=True)
    for s in specs[::3500]:
        ctx.sample({"row": list(s[:3]), "observed": elem.short(out[(s[0], tuple(s[1]), s[2])])})
    # eager pass (thorough): same outcome class on data-holding arrays
    if ctx.tier == "thorough":
        eager_pass(ctx, specs, out)
    nonelementwise(ctx)
    scalar_identity_sweep(ctx)
    f = ctx.work / "C17_static.v"
    f.write_text((core.COQ / "Props" / "C17.v").read_text())
    ctx.compile("Props/C17.v: meaning of the domain predicate + the law on the committed model table", f, kind="theorem")
    ctx.coverage.update({
        "rule": "exhaustive over the finite table: every element-wise function and operator x every operand tuple (24x24 dtype pairs, Python scalars both orders, reflected operators) traced on placeholders; thorough adds data-holding arrays. Distinct by (function, operand tuple, how).",
        "exhaustive": True, "traces_validated_against_impl": len(specs)})


def scalar_identity_sweep(ctx):
    """Strings mixed with non-strings through Python scalars of EVERY small value (identity elements included: 0, 1, 0.0,
    1.0, True, False, '' — the values an 'x + 0 is x' shortcut would look for), both operand orders, operators and
    functions, data-holding and placeholder arrays: always a TypeError."""
    ops_ = [("+", "add"), ("-", "subtract"), ("*", "multiply"), ("/", "divide"), ("**", "pow"), ("<", "less"), ("&", "bitwise_and"), ("|", "bitwise_or")]
    nonstr = ["0", "1", "0.0", "1.0", "True", "False", "-1", "2"]
    strs = ["''", "'a'", "'0'"]
    cases = []
    for sym, fn in ops_:
        for arr, scalars in (("utf8", nonstr), ("nutf8", nonstr), ("int64", strs), ("float64", strs), ("bool", strs), ("nint64", strs)):
            if arr in ("bool",) and fn in ("divide", "pow", "subtract"):
                continue
            for sc in scalars:
                for form in (f"x {sym} {sc}", f"{sc} {sym} x", f"ndx.{fn}(x, {sc})", f"ndx.{fn}({sc}, x)"):
                    if arr.endswith("utf8"):
                        data = {"dtype": arr, "shape": [2], "data": ["s:p", "s:q"]}
                    elif arr == "bool":
                        data = {"dtype": arr, "shape": [2], "data": [True, False]}
                    elif arr == "float64":
                        data = {"dtype": arr, "shape": [2], "data": [ops.fhex(1.5), ops.fhex(2.0)]}
                    else:
                        data = {"dtype": arr, "shape": [2], "data": [1, 2]}
                    if arr.startswith("n"):
                        data["mask"] = [False, True]
                    cases.append({"id": f"si-{len(cases)}", "inputs": {"x": data}, "impl": f"out = {form}", "oracle": None, "eager": True,
                                  "lazy_subsets": [{"names": ["x"]}], "meta": {"func": fn, "dtype": arr, "dclass": family.dclass(arr), "scalar": sc, "form": form}})
    res = core.run_cases("harness.h_ops", cases, workers=14, per_case_timeout=120)
    for c in cases:
        r = res.get(c["id"]) or {}
        ctx.count(("si", c["impl"], c["meta"]["dtype"]), nontrivial=True)
        outs = [("eager", r.get("eager") or {})] + [("traced", t) for t in r.get("traced", [])]
        for mode, o in outs:
            fam = o.get("raise")
            if fam is None and ("ok" in o or "meta" in o):
                ctx.finding({"law": "string-scalar-mix", "kind": "returns", "func": c["meta"]["func"], "dtype": c["meta"]["dtype"], "scalar": c["meta"]["scalar"], "mode": mode},
                            f"`{c['meta']['form']}` with x of dtype {c['meta']['dtype']} ({mode}): returns {str(o.get('ok') or o.get('meta'))[:100]} instead of raising TypeError", {"case": c, "outcome": o})
            elif fam is not None and fam != "TE":
                ctx.finding({"law": "string-scalar-mix", "kind": "wrong-exception", "func": c["meta"]["func"], "dtype": c["meta"]["dtype"], "scalar": c["meta"]["scalar"], "mode": mode, "raised": fam},
                            f"`{c['meta']['form']}` with x of dtype {c['meta']['dtype']} ({mode}): raises {o.get('cls')} (not a TypeError)", {"case": c, "outcome": o})


ARR = ["AUtf8", "ANUtf8", "ABool", "ANBool", "AInt", "AFloat", "ANInt", "AStruct"]
PYS = ["PInt", "PFloat", "PBool", "PStr"]
ARR_MORE = ["AUInt8", "AUInt32", "AInt8", "AFloat32", "ANUInt8", "ANFloat"]      # narrow / unsigned / nullable numeric operands (one-operand functions)
NUMERIC1 = ["sum", "prod", "mean", "var", "std", "cumulative_sum", "min", "max", "sort", "argsort", "argmax", "argmin"]
TAKES_DTYPE = ["sum", "prod", "cumulative_sum", "var", "std", "mean"]     # filtered against the real signatures at run time


def func_calls():
    calls = []
    for f in NUMERIC1:
        for a in ARR + ARR_MORE:
            for kw in [None, "AFloat", "AInt", "AUtf8", "ANUtf8"]:
                if kw is not None and f not in TAKES_DTYPE:
                    continue
                calls.append({"f": f, "args": [a], "kw": kw})
    for f in ("searchsorted", "matmul"):
        for a, b in itertools.product(ARR, ARR):
            calls.append({"f": f, "args": [a, b], "kw": None})
    for x in ARR:
        for b in ARR + PYS:
            calls.append({"f": "clip", "args": [x, b], "kw": None})
        calls.append({"f": "clip", "args": [x, "PInt", "PInt"], "kw": None})
    for c in ["ABool", "ANBool", "AInt", "AFloat", "AUtf8", "ANInt"]:
        for x, y in itertools.product(["AUtf8", "ANUtf8", "ABool", "AInt", "AFloat", "ANInt", "PInt", "PStr", "PFloat"], repeat=2):
            if x.startswith("P") and y.startswith("P") and c in ("ABool",):
                continue
            calls.append({"f": "where", "args": [c, x, y], "kw": None})
    for f in ("concat", "stack"):
        for a, b in itertools.product(["AUtf8", "ANUtf8", "ABool", "AInt", "AFloat", "ANInt"], repeat=2):
            calls.append({"f": f, "args": [a, b], "kw": None})
    for a in ["ANUtf8", "ANInt", "ANBool"]:
        for v in PYS + ["AInt", "AUtf8"]:
            calls.append({"f": "fill_null", "args": [a, v], "kw": None})
    out = []
    for c in calls:
        for lazy in (True, False):
            if not lazy and "AStruct" in c["args"]:
                continue          # the user struct dtype of the harness has no NumPy constructor
            out.append(dict(c, lazy=lazy))
    return out


def nonelementwise(ctx):
    """Every non-element-wise public function with a restricted domain x operand kinds (strings, booleans, numbers,
    nullable, user struct, Python scalars) x dtype= x lazy/eager: rows regenerated from the implementation, the domain
    law (Ndx/FuncDomain.v) proved on them inside Coq."""
    calls = func_calls()
    by = {}
    for c in calls:
        by.setdefault(c["f"], []).append(c)
    cases = [{"id": f"fd-{f}", "calls": cs} for f, cs in by.items()]
    res = core.run_cases("harness.h_funcs17", cases, workers=14, per_case_timeout=600)
    rows, lines = [], []
    for cs in cases:
        r = res.get(cs["id"]) or {}
        if "outs" not in r:
            ctx.finding({"func": cs["id"][3:], "kind": "crash", "mode": "any"}, f"{cs['id']}: worker outcome {str(r)[:200]}", {"case": cs, "outcome": r})
            continue
        for c, o in zip(cs["calls"], r["outs"]):
            if c.get("kw") is not None and o.startswith("T:TypeError") and "unexpected keyword" in o:
                continue          # the function has no dtype= parameter: not a call of the public API
            oc = "OOk" if o.startswith("ok:") else "OTypeError" if o.startswith("T:") else "OOther"
            kw = "None" if c.get("kw") is None else f"(Some {c['kw']})"
            lines.append(f'  {{| fname := "{c["f"]}"; fargs := [{"; ".join(c["args"])}]; fkw := {kw}; flazy := {"true" if c["lazy"] else "false"}; fout := {oc} |}}')
            rows.append((c, o))
            ctx.count(("frow", c["f"], tuple(c["args"]), c.get("kw"), c["lazy"]), nontrivial=True)
            ctx.evaluations += 1
    header = ("From Coq Require Import List Bool String.\nFrom ND Require Import Ndx.FuncDomain.\nImport ListNotations.\nOpen Scope string_scope.\n"
              "Definition bad_idx (ok : frow -> bool) (l : list frow) (i : nat) := bad_rows l i.\n")

    def on_bad(i):
        c, o = rows[i]
        attrs = {"func": c["f"], "args": "/".join(c["args"]), "dtype_kw": c.get("kw") or "none", "mode": "lazy" if c["lazy"] else "eager",
                 "kind": "returns" if o.startswith("ok:") else "wrong-exception", "law": "function-domain"}
        call_s = f"ndonnx.{c['f']}({', '.join(c['args'])}{', dtype=' + c['kw'] if c.get('kw') else ''}) [{'placeholder' if c['lazy'] else 'data-holding'} operands]"
        return ctx.finding(attrs, f"{call_s}: outside the function's domain but {'returns ' + o[3:] if o.startswith('ok:') else 'raises ' + o[2:]} instead of a TypeError",
                           {"call": c, "observed": o, "how_to_replay": "tools/harness/h_funcs17.py handle({'calls': [call]})"})
    coqcorr.run(ctx, "FuncRows.v", f"T-exh + law (in Coq): every non-element-wise function row regenerated from /repo ({len(lines)} calls) satisfies the domain law `outside -> TypeError` (Ndx/FuncDomain.v)",
                header, "frow", lines, "row_ok", on_bad)
    ctx.coverage["function_rows"] = len(lines)
    if rows:
        ctx.sample({"function_row": rows[0][0], "observed": rows[0][1]})


def eager_pass(ctx, specs, out):
    from harness_consts import ALL
    by = {}
    for f, a, h, _ in specs:
        if h == "func" and len(a) == 2 and all(x in ALL for x in a):
            by.setdefault(f, []).append(list(a))
    cases = [{"id": f"e-{f}", "kind": "binary", "func": f, "pairs": ps, "eager": True} for f, ps in by.items()]
    res = core.run_cases("harness.h_dtypes", cases, workers=14, per_case_timeout=900)
    for c in cases:
        r = res.get(c["id"], {})
        if "rows" not in r:
            ctx.notes.append(f"eager pass {c['id']}: {r}")
            continue
        for f, a, b, o in r["rows"]:
            lazy = out[(f, (a, b), "func")]
            lz = "raise:" + lazy["raise"] if "raise" in lazy else "ok"
            eg = "raise:" + o[1:].split("|")[0] if o.startswith("!") else "ok"
            ctx.count(("eager", f, a, b))
            if lz != eg and not (lz.startswith("raise") and eg.startswith("raise")):
                ctx.finding({"law": "eager-vs-lazy outcome", "func": f, "args": [a, b]},
                            f"{f}({a},{b}): lazy {lz}, eager {eg}", replay={"function": f, "operands": [a, b], "lazy": lz, "eager": eg})


def replay(ctx, path):
    run(ctx)
