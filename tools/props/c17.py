"""C17 — unsupported dtype combinations fail loudly (TypeError family) instead of being coerced."""
from __future__ import annotations

from vlib import core, elem

LEVEL = "proof"


def run(ctx):
    ctx.trusted += ["tools/translate/gen_elem.py + tools/harness/h_graph.py (trace-time outcome of every function x operand tuple)",
                    "coq/Ndx/ElemLaws.v outside_domain: the reading of 'not defined for' (numeric functions on strings or booleans, logical functions on numbers, bitwise on floats, strings mixed with non-strings)"]
    ctx.static_build()
    specs, out, unsup = elem.gen_table(ctx)
    ok, viol, known = elem.law_on_generated(ctx, "C17_outside_domain_raises_TypeError", "c17_patterns", "c17_row_ok", "domain law", "c17")
    elem.report_rows(ctx, specs, out, viol, "C17 domain law (a call outside the function's domain must raise a TypeError)")
    elem.known_classes(ctx, known)
    n_out = 0
    for s in specs:
        ctx.count(("row", s[0], tuple(s[1]), s[2]), nontrivial=True)
    for s in specs[::3500]:
        ctx.sample({"row": list(s[:3]), "observed": elem.short(out[(s[0], tuple(s[1]), s[2])])})
    # eager pass (thorough): same outcome class on data-holding arrays
    if ctx.tier == "thorough":
        eager_pass(ctx, specs, out)
    f = ctx.work / "C17_static.v"
    f.write_text((core.COQ / "Props" / "C17.v").read_text())
    ctx.compile("Props/C17.v: meaning of the domain predicate + the law on the committed model table", f, kind="theorem")
    ctx.coverage.update({
        "rule": "exhaustive over the finite table: every element-wise function and operator x every operand tuple (24x24 dtype pairs, Python scalars both orders, reflected operators) traced on placeholders; thorough adds data-holding arrays. Distinct by (function, operand tuple, how).",
        "exhaustive": True, "traces_validated_against_impl": len(specs)})


def eager_pass(ctx, specs, out):
    from harness_consts import ALL
    by = {}
    for f, a, h, _ in specs:
        if h == "func" and len(a) == 2 and all(x in ALL for x in a):
            by.setdefault(f, []).append(list(a))
    cases = [{"id": f"e-{f}", "kind": "binary", "func": f, "pairs": ps, "eager": True} for f, ps in by.items()]
    res = core.run_cases("harness.h_dtypes", cases, workers=14, per_case_timeout=900)
    for c in cases:
        r = res.get(c["id"], {})
        if "rows" not in r:
            ctx.notes.append(f"eager pass {c['id']}: {r}")
            continue
        for f, a, b, o in r["rows"]:
            lazy = out[(f, (a, b), "func")]
            lz = "raise:" + lazy["raise"] if "raise" in lazy else "ok"
            eg = "raise:" + o[1:].split("|")[0] if o.startswith("!") else "ok"
            ctx.count(("eager", f, a, b))
            if lz != eg and not (lz.startswith("raise") and eg.startswith("raise")):
                ctx.finding({"law": "eager-vs-lazy outcome", "func": f, "args": [a, b]},
                            f"{f}({a},{b}): lazy {lz}, eager {eg}", replay={"function": f, "operands": [a, b], "lazy": lz, "eager": eg})


def replay(ctx, path):
    run(ctx)
