"""C12 — sorting, searching and set functions satisfy their defining invariants."""
from __future__ import annotations

import random
import re

from vlib import core, families, family, ops

LEVEL = "proof"


def zl(l):
    return "[" + "; ".join(f"({v})%Z" for v in l) + "]"


def corr(ctx, rnd, n):
    cases = []
    def add(kind, impl, ins, extra):
        cases.append({"id": f"sc-{len(cases)}", "inputs": ins, "impl": impl, "oracle": None, "eager": True, "lazy_subsets": [],
                      "meta": {"func": kind, "dtype": "int64", "dclass": "int"}, "kind": kind, "extra": extra})
    while len(cases) < n:
        k = rnd.choice(["sort", "argsort", "unique", "search", "nonzero"])
        ln = rnd.choice([1, 2, 3, 5, 8, 13, 21, 40])
        vals = [rnd.randint(-4, 4) if rnd.random() < 0.7 else rnd.choice([-2**63, 2**63 - 1, 0, 10**12]) for _ in range(ln)]
        x = {"dtype": "int64", "shape": [ln], "data": vals}
        if k in ("sort", "argsort"):
            d = rnd.random() < 0.5
            add(k, f"out = ndx.{k}(x, descending={d})", {"x": x}, {"desc": d})
        elif k == "unique":
            add(k, "r_ = ndx.unique_all(x); out = [r_.values, r_.indices, r_.inverse_indices, r_.counts]", {"x": x}, {})
        elif k == "search":
            x1 = {"dtype": "int64", "shape": [ln], "data": sorted(vals)}
            m = rnd.choice([1, 2, 4, 7])
            x2 = {"dtype": "int64", "shape": [m], "data": [rnd.randint(-6, 6) for _ in range(m)]}
            side = rnd.choice(["left", "right"])
            add(k, f"out = ndx.searchsorted(x1, x2, side='{side}')", {"x1": x1, "x2": x2}, {"right": side == "right"})
            cases[-1]["meta"].update({"func": "searchsorted", "side": side, "x2_rank": 1})
        else:
            sh = ops.rand_shape(rnd, 3, 0.0, (1, 2, 3), min_rank=1)
            xx = {"dtype": "int64", "shape": sh, "data": [rnd.choice([0, 0, 1, -3, 7]) for _ in range(ops.prod(sh))]}
            add(k, "out = list(ndx.nonzero(x))", {"x": xx}, {})
    res = core.run_cases("harness.h_ops", cases, workers=14, per_case_timeout=120)
    lines, kept = [], []
    for c in cases:
        r = res.get(c["id"]) or {}
        e = r.get("eager")
        if not e or "ok" not in e:
            ctx.finding(family.attrs_of(c, "raises", "eager"), f"{c['impl']} on {c['inputs']}: {str(e)[:200]}", family.replay_of(c, r, "eager"))
            continue
        o = e["ok"]
        b = lambda v: "true" if v else "false"
        try:
            if c["kind"] == "sort":
                lines.append(f"  SSort {b(c['extra']['desc'])} {zl(c['inputs']['x']['data'])} {zl(o['data'])}")
            elif c["kind"] == "argsort":
                lines.append(f"  SArgsort {b(c['extra']['desc'])} {zl(c['inputs']['x']['data'])} {zl(o['data'])}")
            elif c["kind"] == "unique":
                t = o["tuple"]
                lines.append(f"  SUnique {zl(c['inputs']['x']['data'])} {zl(t[0]['data'])} {zl(t[1]['data'])} {zl(t[2]['data'])} {zl(t[3]['data'])}")
            elif c["kind"] == "search":
                lines.append(f"  SSearch {b(c['extra']['right'])} {zl(c['inputs']['x1']['data'])} {zl(c['inputs']['x2']['data'])} {zl(o['data'])}")
            else:
                t = o["tuple"]
                lines.append("  SNonzero [%s] %s [%s]" % ("; ".join(map(str, c["inputs"]["x"]["shape"])), zl(c["inputs"]["x"]["data"]), "; ".join(zl(a["data"]) for a in t)))
        except (KeyError, TypeError):
            ctx.finding(family.attrs_of(c, "arity", "eager"), f"{c['impl']}: unexpected result structure {str(o)[:200]}", family.replay_of(c, r, "eager"))
            continue
        kept.append((c, r))
        ctx.count(("sc", c["impl"], str(c["inputs"])), nontrivial=True)
    from vlib import coqcorr
    header = ("From Coq Require Import List ZArith String Bool Arith.\nFrom ND Require Import Ndx.Sort Ndx.SortCorr Ndx.ReduceCorr.\nImport ListNotations.\n")

    def on_bad(i):
        c, r = kept[i]
        return ctx.finding(family.attrs_of(c, "model-mismatch", "eager"), f"{c['impl']} on {str(c['inputs'])[:160]}: {str(r['eager']['ok'])[:200]} differs from the model/specification", family.replay_of(c, r, "eager"))
    coqcorr.run(ctx, "CorrSort.v", f"T-io (in Coq): sort/argsort (TopK model), unique_all (Unique model), searchsorted (== counting specification), nonzero (row-major coordinates) on int64 data incl. INT64 extremes, {len(kept)} cases",
                header, "sobs", lines, "sobs_ok", on_bad)
    if kept:
        ctx.sample({"impl": kept[0][0]["impl"], "inputs": kept[0][0]["inputs"], "observed": kept[0][1]["eager"]["ok"]})


def run(ctx):
    rnd = random.Random(ctx.seed)
    ctx.trusted += ["coq/Ndx/Sort.v: TopK(k=len, sorted) as insertion sort on (value, index) pairs under the lexicographic order, Unique(sorted) — validated by the in-Coq correspondence"]
    ctx.not_discharged += ["searchsorted: the implementation's unique/inverse/cumulative-count algorithm is compared (in Coq) with the counting specification on every generated case; no general proof",
                           "unique_all on the implementation's own algorithm (Unique node + first-occurrence search): compared with the model on every generated case; the invariants (values, first occurrences, inverse rebuilds, counts are multiplicities and add up) are theorems about the model",
                           "where with three-way broadcasting: NumPy correspondence only"]
    ctx.static_build()
    corr(ctx, rnd, 500 if ctx.tier == "quick" else 5000)
    n = 500 if ctx.tier == "quick" else 5000
    cases = families.sorting_cases(rnd, n, prefix="S", max_len=40 if ctx.tier == "quick" else 300)
    if ctx.tier == "thorough":
        # beyond 8- and 16-bit index ranges
        big = {"dtype": "int32", "shape": [70001], "data": [(i * 7919) % 1009 - 500 for i in range(70001)]}
        for f_, orc in (("sort", "out = np.sort(x, kind='stable')"), ("argsort", "out = np.argsort(x, kind='stable')")):
            cases.append(families.mkcase(f"S-big-{f_}", {"x": big}, f"out = ndx.{f_}(x)", orc, {"func": f_, "dtype": "int32", "dclass": "int", "big": True}, rnd))
    # the same call repeated on one array object after an in-place update
    cases += families.call_update_call(rnd, [c for c in cases if not c["meta"].get("big")], 80 if ctx.tier == "quick" else 600)
    for c in cases:
        c["lazy_subsets"] = c["lazy_subsets"][:1] if rnd.random() < 0.4 else []
    family.evaluate(ctx, cases, want=("oracle", "traced", "static"), per_case_timeout=300)
    ctx.sample({"impl": cases[2]["impl"], "inputs": {k: v["shape"] for k, v in cases[2]["inputs"].items()}, "dtype": cases[2]["meta"]["dtype"]})
    f = ctx.work / "C12_static.v"
    f.write_text((core.COQ / "Props" / "C12.v").read_text())
    ctx.compile("Props/C12.v: sort is an ordered permutation, argsort is a permutation of 0..n-1 that applied to the input gives sort, ties keep their original order (ascending and descending) - for inputs of any length; unique_all: values strictly ascending and exactly the input's elements, indices = first occurrences, inverse rebuilds the input, counts positive; searchsorted's counting specification is NumPy's insertion point (left and right) for every sorted x1", f, kind="theorem")
    ctx.coverage.update({"rule": "in-Coq correspondence on int64 1-D data (lengths 1-40, duplicates, INT64 extremes): sort/argsort both directions, unique_all (4 outputs), searchsorted both sides vs the counting specification, nonzero on ranks 1-3; NumPy sweep: 10 numeric dtypes, ranks 1-3, every axis, descending, duplicates, lengths to 40 (quick) / 300 and 70001 (thorough), unique_*, searchsorted with sorter, nonzero, where with 3-way broadcasting; eager and traced. Distinct by canonical case."})


def replay(ctx, path):
    run(ctx)
