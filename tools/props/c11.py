"""C11 — shape-manipulation functions are pure data movement for every dtype."""
from __future__ import annotations

import random
import re

from vlib import core, families, family, ops

LEVEL = "proof"


def z(n):
    return f"({n})%Z"


def zl(l):
    return "[" + "; ".join(z(v) for v in l) + "]"


def nl(l):
    return "[" + "; ".join(str(v) for v in l) + "]"


def gen_case(rnd):
    """Returns (coq_op, shapes, python impl source over x0, x1, ...)"""
    op = rnd.choice(["permute", "matrixT", "expand", "squeeze", "flip", "roll", "reshape", "broadcast", "take", "concat", "stack", "tril", "triu"])
    sh = ops.rand_shape(rnd, 4, zero_p=0.15)
    r = len(sh)
    if op == "permute":
        p = list(range(r)); rnd.shuffle(p)
        return f"LPermute {nl(p)}", [sh], f"out = ndx.permute_dims(x0, {p})"
    if op == "matrixT":
        if r < 2:
            return None
        return "LMatrixT", [sh], "out = ndx.matrix_transpose(x0)"
    if op == "expand":
        a = rnd.randint(-(r + 1), r)
        return f"LExpand {z(a)}", [sh], f"out = ndx.expand_dims(x0, axis={a})"
    if op == "squeeze":
        sh = [rnd.choice([1, 1, 2, 3, 0]) for _ in range(rnd.randint(1, 4))]
        ones = [k for k, s in enumerate(sh) if s == 1]
        if not ones:
            return None
        pick = [p - len(sh) if rnd.random() < 0.4 else p for p in rnd.sample(ones, rnd.randint(1, len(ones)))]
        return f"LSqueeze {zl(pick)}", [sh], f"out = ndx.squeeze(x0, {tuple(pick)!r})"
    if op == "flip":
        if r == 0 or rnd.random() < 0.25:
            return "LFlip None", [sh], "out = ndx.flip(x0)"
        ax = rnd.sample(range(r), rnd.randint(1, r))
        ax = [a - r if rnd.random() < 0.4 else a for a in ax]
        return f"LFlip (Some {zl(ax)})", [sh], f"out = ndx.flip(x0, axis={tuple(ax)!r})"
    if op == "roll":
        if r == 0 or rnd.random() < 0.25:
            s = rnd.choice([0, 1, -1, 3, -7, 100])
            return f"LRoll {zl([s])} None", [sh], f"out = ndx.roll(x0, {s})"
        k = rnd.randint(1, r)
        ax = [a - r if rnd.random() < 0.3 else a for a in rnd.sample(range(r), k)]
        ss = [rnd.choice([0, 1, -1, 2, -3, 5, 17, -23, 10**6]) for _ in range(k)]
        if k == 1 and rnd.random() < 0.5:
            return f"LRoll {zl(ss)} (Some {zl(ax)})", [sh], f"out = ndx.roll(x0, {ss[0]}, axis={ax[0]})"
        return f"LRoll {zl(ss)} (Some {zl(ax)})", [sh], f"out = ndx.roll(x0, {tuple(ss)!r}, axis={tuple(ax)!r})"
    if op == "reshape":
        n = ops.prod(sh)
        cands = [[n], [-1], [1, -1], [-1, 1]] + [[a, n // a] for a in (1, 2, 3, 4, 6) if n and n % a == 0] + [[2, -1]] if n else [[0], [-1], [0, 3], [2, 0, 1]]
        if r == 0:
            cands = [[], [1], [1, 1], [-1]]
        tgt = rnd.choice(cands)
        if r == 1 and tgt == [-1]:
            pass
        return f"LReshape {zl(tgt)}", [sh], f"out = ndx.reshape(x0, {tgt})"
    if op == "broadcast":
        src = [1 if rnd.random() < 0.4 else s for s in sh][rnd.randint(0, len(sh)):]
        return f"LBroadcast {nl(sh)}", [src], f"out = ndx.broadcast_to(x0, {sh})"
    if op == "take":
        if r == 0:
            return None
        a = rnd.randint(-r, r - 1)
        n = sh[a]
        idx = [rnd.randint(-n, n - 1) for _ in range(rnd.randint(0, 4))] if n else []
        return f"LTake {zl(idx)} {z(a)}", [sh], f"out = ndx.take(x0, ndx.asarray(np.array({idx}, dtype=np.int64)), axis={a})"
    if op in ("concat", "stack"):
        k = rnd.randint(1, 3)
        if op == "concat":
            if r == 0:
                return None
            if rnd.random() < 0.15:
                shapes = [ops.rand_shape(rnd, 2, 0.1) for _ in range(k)]
                return "LConcat None", shapes, f"out = ndx.concat([{', '.join(f'x{j}' for j in range(k))}], axis=None)"
            a = rnd.randint(-r, r - 1)
            shapes = []
            for _ in range(k):
                s2 = list(sh); s2[a] = rnd.choice([0, 1, 2, 3]); shapes.append(s2)
            return f"LConcat (Some {z(a)})", shapes, f"out = ndx.concat([{', '.join(f'x{j}' for j in range(k))}], axis={a})"
        a = rnd.randint(-(r + 1), r)
        return f"LStack {z(a)}", [list(sh)] * k, f"out = ndx.stack([{', '.join(f'x{j}' for j in range(k))}], axis={a})"
    if op in ("tril", "triu"):
        if r < 2:
            return None
        k = rnd.randint(-3, 3)
        return f"L{op.capitalize()} {z(k)}", [sh], f"out = ndx.{op}(x0, k={k})"


def in_coq_corr(ctx, rnd, n):
    cases = []
    while len(cases) < n:
        g = gen_case(rnd)
        if g is None:
            continue
        cop, shapes, impl = g
        ins = {f"x{j}": {"dtype": "int64", "shape": s, "data": [1000 * j + v for v in range(ops.prod(s))]} for j, s in enumerate(shapes)}
        cases.append({"id": f"lc-{len(cases)}", "inputs": ins, "impl": impl, "oracle": None, "eager": True, "lazy_subsets": [],
                      "meta": {"func": impl.split("ndx.")[1].split("(")[0], "dtype": "int64", "dclass": "int"}, "cop": cop, "shapes": shapes})
    res = core.run_cases("harness.h_ops", cases, workers=14, per_case_timeout=120)
    lines, kept = [], []
    for c in cases:
        r = res.get(c["id"]) or {}
        e = r.get("eager")
        if e is None:
            ctx.finding(family.attrs_of(c, "crash", "eager"), f"{c['impl']}: {r}", family.replay_of(c, r, "eager"))
            continue
        if "ok" in e and "data" in e["ok"]:
            out = "GOk %s %s" % (nl(e["ok"]["shape"]), zl(e["ok"]["data"]))
        else:
            out = "GOtherExn"
        lines.append("  {| l_op := %s; l_shapes := [%s]; l_out := %s |}" % (c["cop"], "; ".join(nl(s) for s in c["shapes"]), out))
        kept.append((c, r))
        ctx.count(("lc", c["impl"], str(c["shapes"])), nontrivial=True)
    src = ("From Coq Require Import List ZArith String.\nFrom ND Require Import Base.Tensor Ndx.GetItem Ndx.Layout Ndx.ReduceCorr Ndx.GetItemCorr Ndx.LayoutCorr.\nImport ListNotations.\nLocal Open Scope nat_scope.\n"
           "Definition cases : list lcase := [\n" + ";\n".join(lines) + "\n].\n"
           'Eval vm_compute in ("BAD"%string, bad_idx lcase_ok cases 0).\n'
           "Example corr_layout : forallb lcase_ok cases = true.\nProof. vm_compute. reflexivity. Qed.\n")
    f = ctx.work / "CorrLayout.v"
    f.write_text(src)
    ok, out = ctx.compile(f"T-io (in Coq): 13 layout functions on int64 token tensors == executable model of the lowering (Transpose/Unsqueeze/Squeeze/Slice/Gather/Reshape/Expand/Concat/Trilu), {len(kept)} cases", f, kind="tie", timeout=900)
    if not ok:
        flat = re.sub(r"\s+", " ", out)
        m = re.search(r'\("BAD"(?:%string)?, \[(.*?)\]\)', flat)
        for i in (re.findall(r"\d+", m.group(1)) if m else [])[:12]:
            c, r = kept[int(i)]
            attrs = family.attrs_of(c, "model-mismatch", "eager")
            ctx.finding(attrs, f"{c['impl']} on shapes {c['shapes']}: implementation {str(r.get('eager'))[:160]} differs from the model", family.replay_of(c, r, "eager"))
    if kept:
        ctx.sample({"impl": kept[0][0]["impl"], "shapes": kept[0][0]["shapes"], "observed": kept[0][1].get("eager")})
    return ok


def run(ctx):
    rnd = random.Random(ctx.seed)
    ctx.trusted += ["coq/Ndx/Layout.v + GetItem.v re-indexing operators as the semantics of ONNX Transpose/Unsqueeze/Squeeze/Slice/Gather/Reshape/Expand/Concat/Trilu (validated by the in-Coq correspondence on every run)"]
    ctx.not_discharged += ["closed-form equality with NumPy for squeeze and the inferred (-1) extent of reshape: the executable model is compared with the implementation in Coq and the implementation with NumPy; theorems exist for roll (any rank), flip (via slice_1d), concat, stack, permute_dims, take, expand_dims, tril/triu, reshape (data and element count preserved), broadcast_to (expand_element + the broadcasting rule) and naturality"]
    ctx.static_build()
    try:
        from translate import gen_src
        (ctx.work / "GenFlipForm.v").write_text(gen_src.emit_flip_form(gen_src.flip_form()))
        ctx.compile("T-src: GenFlipForm.v (UniformShapeOperations.flip as a form: rank-0 shortcut, which axis arguments are normalised, the slice of member axes; every other statement must read as transcribed) compiles", ctx.work / "GenFlipForm.v")
        ft = ctx.work / "TieFlipForm.v"
        ft.write_text((core.VERIF / "tools/templates/TieFlipForm.v").read_text())
        ctx.compile("C11_flip_nd_as_written: flip as read off today's source reverses exactly the requested axes of every tensor of every rank (None, scalar and list axis arguments, negative entries)", ft, kind="theorem")
        ctx.translator_inputs["ndonnx/_core/_shapeimpl.py"] = core.sha256_file(core.REPO / "ndonnx/_core/_shapeimpl.py")
    except gen_src.Untranslatable as e:
        ctx.obligation("T-src: UniformShapeOperations.flip inside the translator's whitelist", False, str(e), "tie")
    in_coq_corr(ctx, rnd, 900 if ctx.tier == "quick" else 8000)
    n = 600 if ctx.tier == "quick" else 6000
    cases = families.layout_cases(rnd, n, prefix="L")
    cases += families.call_update_call(rnd, cases, 60 if ctx.tier == "quick" else 400)
    family.evaluate(ctx, cases, want=("oracle", "traced", "static"))
    ctx.sample({"impl": cases[7]["impl"], "inputs": {k: v["shape"] for k, v in cases[7]["inputs"].items()}, "dtype": cases[7]["meta"]["dtype"]})
    f = ctx.work / "C11_static.v"
    f.write_text((core.COQ / "Props" / "C11.v").read_text())
    ctx.compile("Props/C11.v: roll index vector = NumPy's for every extent and shift; flip reverses (through slice_1d) and, n-D, C11_flip_nd: for every tensor of every rank the lowering of flip returns the input with every flipped coordinate i replaced by n-1-i (on top of C08_getitem_nd); every re-indexing operator is natural in the element type (dtype- and field-independent)", f, kind="theorem")
    ctx.coverage.update({
        "rule": "in-Coq correspondence: 13 layout functions x random parameters (axes incl. negative, tuples, shifts up to 10^6, -1 in reshape) on int64 token tensors ranks 0-4 extents {0,1,2,3,4}; NumPy sweep: 16 functions x 8 dtypes (int, float, bool, string, nullable int/float/string) with index-token data, masks moved alongside values, eager and traced with symbolic dims. Distinct by (call, shapes, dtype).",
        "distribution": {"oracle_cases": len(cases)}})


def replay(ctx, path):
    run(ctx)
