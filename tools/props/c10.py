"""C10 — reductions and statistics honour axis, keepdims, dtype and empty inputs."""
from __future__ import annotations

import random
import re

from translate import gen_src
from vlib import core, families, family, ops

LEVEL = "proof"

TIE_REDUCE = """From Coq Require Import List ZArith String Bool.
From ND Require Import Base.Tensor Ndx.Reduce Ndx.ReduceFacts.
From G Require Import GenReduce.
Import ListNotations.
(* what the source text of sum/prod/min/max says now == the model *)
@TIES@
(* hence, for the functions as written today: *)
@THMS@
Print Assumptions C10_sum_axes_as_written.
"""


def tie_reduce_src():
    ties, thms = [], []
    for f, op in (("sum", "reduce_sum"), ("prod", "reduce_prod"), ("min", "reduce_min"), ("max", "reduce_max")):
        ties.append(f"Lemma tie_axes_{f} : forall ndim axis, gen_axes_{f} ndim axis = ndx_axes ndim axis.\nProof. intros ndim axis; destruct axis; reflexivity. Qed.\n"
                    f"Lemma tie_noop_{f} : forall axis, gen_noop_{f} axis = ndx_noop axis.\nProof. intros axis; destruct axis; reflexivity. Qed.\n"
                    f"Lemma tie_keep_{f} : forall b, gen_keep_{f} b = b.\nProof. intros b; reflexivity. Qed.\n"
                    f'Lemma tie_op_{f} : gen_op_{f} = "{op}"%string.\nProof. reflexivity. Qed.\n')
        thms.append(f"Theorem C10_{f}_axes_as_written : forall rank axis, axis_valid rank axis ->\n"
                    f"  onnx_axes rank (gen_axes_{f} (Z.of_nat rank) axis) (gen_noop_{f} axis) = np_axes rank axis.\n"
                    f"Proof. intros rank axis H. rewrite tie_axes_{f}, tie_noop_{f}. now apply axes_resolve. Qed.\n")
    return TIE_REDUCE.replace("@TIES@", "\n".join(ties)).replace("@THMS@", "\n".join(thms))


TIE_ALLANY = """From Coq Require Import List ZArith Bool.
From ND Require Import Base.Tensor Ndx.Reduce Ndx.ReduceFacts Ndx.ReduceMore Ndx.ReduceMoreFacts.
From G Require Import GenAllAny.
(* what the source text of all / any says now (inner step, reducer, outer comparison) == the model's forms *)
Lemma tie_num_all : gen_num_all = all_form. Proof. reflexivity. Qed.
Lemma tie_num_any : gen_num_any = any_form. Proof. reflexivity. Qed.
Lemma tie_bool_all : gen_bool_all = all_form. Proof. reflexivity. Qed.
Lemma tie_bool_any : gen_bool_any = any_form. Proof. reflexivity. Qed.
(* hence, for the functions as written today, every tensor / rank / extent (0 included) / valid axis form: *)
Theorem C10_all_as_written : forall (t : tensor Z) axis keep, axis_valid (length (shape t)) axis ->
  interp_num gen_num_all t axis keep = np_all t axis keep.
Proof. intros. rewrite tie_num_all, interp_all_form. now apply ndx_all_is_np_all. Qed.
Theorem C10_any_as_written : forall (t : tensor Z) axis keep, axis_valid (length (shape t)) axis ->
  interp_num gen_num_any t axis keep = np_any t axis keep.
Proof. intros. rewrite tie_num_any, interp_any_form. now apply ndx_any_is_np_any. Qed.
Theorem C10_all_bool_as_written : forall (t : tensor bool) axis keep, axis_valid (length (shape t)) axis ->
  interp_bool gen_bool_all t axis keep = np_reduce andb true t axis keep true.
Proof. intros. rewrite tie_bool_all. now apply interp_bool_all. Qed.
Theorem C10_any_bool_as_written : forall (t : tensor bool) axis keep, axis_valid (length (shape t)) axis ->
  interp_bool gen_bool_any t axis keep = np_reduce orb false t axis keep false.
Proof. intros. rewrite tie_bool_any. now apply interp_bool_any. Qed.
Print Assumptions C10_all_as_written.
Print Assumptions C10_any_bool_as_written.
"""


def more_cases(rnd, n):
    """all / any / argmax / argmin / cumulative_sum on int64 tensors for the in-Coq correspondence."""
    cases = []
    fns = ["all", "any", "argmax", "argmin", "cumulative_sum"]
    while len(cases) < n:
        f = fns[len(cases) % 5]
        sh = ops.rand_shape(rnd, 4, zero_p=0.2 if f in ("all", "any") else 0.08, extents=(1, 2, 3))
        r = len(sh)
        keep = rnd.random() < 0.5
        vals = [0, 0, 1, -1, 2, 3] if f in ("all", "any") else list(range(-3, 4))
        data = [rnd.choice(vals) for _ in range(ops.prod(sh))]
        x = {"dtype": "int64", "shape": sh, "data": data}
        meta = {"func": f, "keep": keep, "dtype": "int64", "dclass": "int"}
        if f in ("all", "any"):
            ax = families.rand_axis(rnd, r)
            impl = f"out = ndx.{f}(x, axis={ax!r}, keepdims={keep})"
        elif f in ("argmax", "argmin"):
            ax = None if (r == 0 or rnd.random() < 0.3) else rnd.randint(-r, r - 1)
            red = sh if ax is None else [sh[ax]]
            if any(e == 0 for e in red):
                continue            # NumPy: "attempt to get argmax of an empty sequence"
            impl = f"out = ndx.{f}(x, axis={ax!r}, keepdims={keep})"
        else:
            if r == 0:
                continue            # CumSum needs rank >= 1
            ax = None if (r == 1 and rnd.random() < 0.4) else rnd.randint(-r, r - 1)
            keep = rnd.random() < 0.5          # include_initial
            meta["keep"] = keep
            impl = f"out = ndx.cumulative_sum(x, axis={ax!r}, include_initial={keep})"
        meta["axis"] = ax
        cases.append({"id": f"mc-{len(cases)}", "inputs": {"x": x}, "impl": impl, "oracle": None, "eager": True, "lazy_subsets": [], "meta": meta})
    return cases


def in_coq_more(ctx, rnd, n):
    cases = more_cases(rnd, n)
    res = core.run_cases("harness.h_ops", cases, workers=14, per_case_timeout=120)
    lines, kept = [], []
    z = lambda v: f"({int(v)})%Z"
    for c in cases:
        r = res.get(c["id"]) or {}
        e = r.get("eager")
        m = c["meta"]
        if not e or "ok" not in e or "data" not in e["ok"]:
            ctx.finding(family.attrs_of(c, "raises", "eager"), f"{c['impl']} on int64 {c['inputs']['x']['shape']}: {str(e)[:200]}", family.replay_of(c, r, "eager"))
            continue
        o = e["ok"]
        fn = {"all": "MAll", "any": "MAny", "argmax": "MArgmax", "argmin": "MArgmin"}.get(m["func"]) or f"(MCumsum {'true' if m['keep'] else 'false'})"
        ax = m["axis"]
        axspec = coq_axis(ax) if m["func"] in ("all", "any") else "AxNone"
        ax1 = "None" if (ax is None or m["func"] in ("all", "any")) else f"(Some {z(ax)})"
        lines.append("  {| mc_fn := %s; mc_shape := [%s]; mc_data := [%s]; mc_axis := %s; mc_axis1 := %s; mc_keep := %s; mc_oshape := [%s]; mc_odata := [%s] |}" % (
            fn, "; ".join(map(str, c["inputs"]["x"]["shape"])), "; ".join(z(v) for v in c["inputs"]["x"]["data"]), axspec, ax1,
            "true" if m["keep"] else "false", "; ".join(map(str, o["shape"])), "; ".join(z(v) for v in o["data"])))
        kept.append((c, r))
        ctx.count(("mc", c["impl"], tuple(c["inputs"]["x"]["shape"]), tuple(c["inputs"]["x"]["data"])), nontrivial=True)
    src = ("From Coq Require Import List ZArith String.\nFrom ND Require Import Base.Tensor Ndx.Reduce Ndx.ReduceCorr Ndx.ReduceMore Ndx.ReduceMoreCorr.\nImport ListNotations.\n"
           "Definition cases : list mcase := [\n" + ";\n".join(lines) + "\n].\n"
           'Eval vm_compute in ("BAD"%string, bad_idx mcase_ok cases 0).\n'
           "Example corr_more : forallb mcase_ok cases = true.\nProof. vm_compute. reflexivity. Qed.\n")
    f = ctx.work / "CorrReduceMore.v"
    f.write_text(src)
    ok, out = ctx.compile(f"T-io (in Coq): ndx.all/any/argmax/argmin/cumulative_sum on int64 tensors == model (counting trick over ReduceSum, ArgMax/ArgMin first occurrence incl. the axis=None path, CumSum + include_initial), {len(kept)} cases", f, kind="tie")
    if not ok:
        flat = re.sub(r"\s+", " ", out)
        mm = re.search(r'\("BAD"(?:%string)?, \[(.*?)\]\)', flat)
        for i in (re.findall(r"\d+", mm.group(1)) if mm else [])[:10]:
            c, r = kept[int(i)]
            ctx.finding(family.attrs_of(c, "model-mismatch", "eager"), f"{c['impl']} on shape {c['inputs']['x']['shape']} data {c['inputs']['x']['data'][:12]}: result {r['eager']['ok']['shape']} {r['eager']['ok']['data'][:8]} differs from the model (= NumPy by theorem)",
                        family.replay_of(c, r, "eager"))
    return ok


def coq_axis(ax):
    z = lambda n: f"({n})%Z"
    if ax is None:
        return "AxNone"
    if isinstance(ax, int):
        return f"(AxInt {z(ax)})"
    return "(AxTuple [" + "; ".join(z(a) for a in ax) + "])"


def corr_cases(rnd, n):
    cases = []
    fns = ["sum", "prod", "min", "max"]
    while len(cases) < n:
        f = fns[len(cases) % 4]
        sh = ops.rand_shape(rnd, 4, zero_p=0.2, extents=(1, 2, 3))
        r = len(sh)
        ax = families.rand_axis(rnd, r)
        if f in ("min", "max") and ops.prod(sh) == 0:
            continue
        keep = rnd.random() < 0.5
        data = [rnd.randint(-4, 4) for _ in range(ops.prod(sh))]
        x = {"dtype": "int64", "shape": sh, "data": data}
        cases.append({"id": f"rc-{len(cases)}", "inputs": {"x": x}, "impl": f"out = ndx.{f}(x, axis={ax!r}, keepdims={keep})", "oracle": None,
                      "eager": True, "lazy_subsets": [], "meta": {"func": f, "axis": ax, "keep": keep, "dtype": "int64", "dclass": "int"}})
    return cases


def in_coq_corr(ctx, rnd, n):
    cases = corr_cases(rnd, n)
    res = core.run_cases("harness.h_ops", cases, workers=14, per_case_timeout=120)
    lines, kept = [], []
    FN = {"sum": "RSum", "prod": "RProd", "min": "RMin", "max": "RMax"}
    for c in cases:
        r = res.get(c["id"]) or {}
        e = r.get("eager")
        if not e or "ok" not in e or "data" not in e["ok"]:
            ctx.finding(family.attrs_of(c, "raises", "eager"), f"{c['meta']['func']} on int64 {c['inputs']['x']['shape']} axis={c['meta']['axis']}: {e}", family.replay_of(c, r, "eager"))
            continue
        o = e["ok"]
        m = c["meta"]
        z = lambda v: f"({v})%Z"
        lines.append("  {| rc_fn := %s; rc_shape := [%s]; rc_data := [%s]; rc_axis := %s; rc_keep := %s; rc_oshape := [%s]; rc_odata := [%s] |}" % (
            FN[m["func"]], "; ".join(map(str, c["inputs"]["x"]["shape"])), "; ".join(z(v) for v in c["inputs"]["x"]["data"]),
            coq_axis(m["axis"]), "true" if m["keep"] else "false", "; ".join(map(str, o["shape"])), "; ".join(z(v) for v in o["data"])))
        kept.append((c, r))
        ctx.count(("rc", c["impl"], tuple(c["inputs"]["x"]["shape"]), tuple(c["inputs"]["x"]["data"])), nontrivial=True)
    src = ("From Coq Require Import List ZArith String.\nFrom ND Require Import Base.Tensor Ndx.Reduce Ndx.ReduceCorr.\nImport ListNotations.\n"
           "Definition cases : list rcase := [\n" + ";\n".join(lines) + "\n].\n"
           'Eval vm_compute in ("BAD"%string, bad_idx rcase_ok cases 0).\n'
           "Example corr_reduce : forallb rcase_ok cases = true.\nProof. vm_compute. reflexivity. Qed.\n")
    f = ctx.work / "CorrReduce.v"
    f.write_text(src)
    ok, out = ctx.compile(f"T-io (in Coq): ndx.sum/prod/min/max on int64 tensors == model ndx_reduce (ONNX Reduce* semantics + prologue), {len(kept)} cases", f, kind="tie")
    if not ok:
        flat = re.sub(r"\s+", " ", out)
        m = re.search(r'\("BAD"(?:%string)?, \[(.*?)\]\)', flat)
        for i in (re.findall(r"\d+", m.group(1)) if m else [])[:10]:
            c, r = kept[int(i)]
            # model == NumPy by theorem, so a disagreement is a failing input of the property
            ctx.finding(family.attrs_of(c, "model-mismatch", "eager"), f"{c['impl']} on shape {c['inputs']['x']['shape']}: result {r['eager']['ok']['shape']} {r['eager']['ok']['data'][:8]} differs from the model (= NumPy by C10_reduction_equals_numpy)",
                        family.replay_of(c, r, "eager"))
    if kept:
        ctx.sample({"impl": kept[0][0]["impl"], "x": kept[0][0]["inputs"]["x"], "observed": kept[0][1]["eager"]["ok"]})
    return ok


def run(ctx):
    rnd = random.Random(ctx.seed)
    ctx.trusted += ["tools/translate/gen_src.py (ast -> Gallina, fail-closed): dispatch table of _funcs.py/_array.py, axis prologue of sum/prod/min/max",
                    "coq/Ndx/Reduce.v `reduce` as the semantics of ONNX Reduce{Sum,Prod,Min,Max} (validated in Coq against implementation outputs on every run)"]
    ctx.not_discharged += ["mean/var/std values: correspondence with NumPy only (their plumbing is in the dispatch tie); argmax/argmin/cumulative_sum: theorems on the modelled ONNX nodes + in-Coq correspondence, no T-src of their bodies",
                           "accumulator dtypes: checked by the correspondence (oracle dtype) only"]
    ctx.static_build()
    # ---- T-src -------------------------------------------------------------------------------
    try:
        rows, mrows = gen_src.dispatch_table()
        (ctx.work / "GenDispatch.v").write_text(gen_src.emit_dispatch(rows, mrows))
        pro = gen_src.reduce_prologue()
        (ctx.work / "GenReduce.v").write_text(gen_src.emit_reduce(pro))
        (ctx.work / "GenAllAny.v").write_text(gen_src.emit_allany(gen_src.allany_forms()))
        tsrc_ok = True
    except gen_src.Untranslatable as e:
        tsrc_ok = False
        ctx.obligation("T-src: source of _funcs.py/_array.py/_numericimpl.py is inside the translator's whitelist", False, str(e), "tie")
        ctx.notes.append("T-src refused: " + str(e))
    for f in ("ndonnx/_funcs.py", "ndonnx/_array.py", "ndonnx/_core/_numericimpl.py"):
        ctx.translator_inputs[f] = core.sha256_file(core.REPO / f)
    hot = []
    if tsrc_ok:
        ok1, _ = ctx.compile("T-src: GenDispatch.v compiles", ctx.work / "GenDispatch.v")
        ok2, _ = ctx.compile("T-src: GenReduce.v compiles", ctx.work / "GenReduce.v")
        f = ctx.work / "TieReduce.v"
        f.write_text(tie_reduce_src())
        ctx.compile("C10_{sum,prod,min,max}_axes_as_written: the prologue translated from today's source resolves axes as NumPy does (all ranks, all valid axis forms)", f, kind="theorem")
        ok3, _ = ctx.compile("T-src: GenAllAny.v compiles", ctx.work / "GenAllAny.v")
        fa = ctx.work / "TieAllAny.v"
        fa.write_text(TIE_ALLANY)
        oka, _ = ctx.compile("C10_{all,any}[_bool]_as_written: the (inner step, reducer, outer comparison) extracted from today's source of all/any in _numericimpl.py and _boolimpl.py is NumPy's all/any on every tensor (empty reductions included)", fa, kind="theorem")
        if not oka:
            hot += ["all", "any"]
        d = ctx.work / "TieDispatch.v"
        d.write_text("From Coq Require Import List String Bool.\nFrom ND Require Import Ndx.Dispatch.\nFrom G Require Import GenDispatch.\nImport ListNotations.\n"
                     'Eval vm_compute in ("BADF"%string, map d_public (filter (fun r => negb (drow_ok r)) dispatch)).\n'
                     'Eval vm_compute in ("BADM"%string, map d_public (filter (fun r => negb (mrow_ok r)) methods)).\n'
                     "Theorem C10_dispatch_forwards_faithfully : forallb drow_ok dispatch = true /\\ forallb mrow_ok methods = true.\n"
                     "Proof. split; vm_compute; reflexivity. Qed.\n")
        okd, out = ctx.compile("C10_dispatch_forwards_faithfully: every public function fetches its own operations-block entry and forwards each keyword (axis, keepdims, dtype, correction, ...) under its own name; methods and operators forward to the right function with operands in the right order", d, kind="theorem")
        if not okd:
            flat = re.sub(r"\s+", " ", out)
            for tag in ("BADF", "BADM"):
                m = re.search(r'\("%s"(?:%%string)?, \[(.*?)\]\)' % tag, flat)
                if m:
                    hot += re.findall(r'"([^"]+)"', m.group(1))
            ctx.notes.append("dispatch rows violating the law: " + ", ".join(hot))
    # ---- in-Coq correspondence -----------------------------------------------------------------
    in_coq_corr(ctx, rnd, 240 if ctx.tier == "quick" else 1500)
    in_coq_more(ctx, rnd, 300 if ctx.tier == "quick" else 2000)
    # ---- oracle sweep --------------------------------------------------------------------------
    n = 700 if ctx.tier == "quick" else 6000
    cases = families.reduction_cases(rnd, n, prefix="R")
    if hot:
        hf = [h for h in hot if h in families.RED] or [h.strip("_") for h in hot if h.strip("_") in families.RED]
        if hf:
            cases += families.reduction_cases(rnd, 300, prefix="RH", funcs=hf)
    cases += families.call_update_call(rnd, cases, 60 if ctx.tier == "quick" else 500)
    cases += families.flag_flip_first(rnd, cases, 120 if ctx.tier == "quick" else 800)
    for c in cases:
        c["lazy_subsets"] = c["lazy_subsets"][:1] if rnd.random() < 0.4 else []
    family.evaluate(ctx, cases, want=("oracle", "traced", "static"))
    ctx.sample({"impl": cases[3]["impl"], "x": cases[3]["inputs"]["x"]})
    f = ctx.work / "C10_static.v"
    f.write_text((core.COQ / "Props" / "C10.v").read_text())
    ctx.compile("Props/C10.v: axes_resolve, reduction == NumPy reduction, keepdims shape laws, empty reduction = neutral element", f, kind="theorem")
    ctx.coverage.update({
        "rule": "T-src: every public function / Array method row of the dispatch table; prologue of sum/prod/min/max translated from source; in-Coq correspondence: random int64 tensors ranks 0-4 extents {0,1,2,3} x axis forms (None, +-int, tuples incl. ()) x keepdims; oracle sweep: 12 reductions x dtypes x ranks 0-4 x extents incl. 0 x axis forms x keepdims x correction x include_initial x method forms, eager and traced with symbolic dims. Distinct by canonical case; non-trivial = rank >= 1 or >= 2 elements.",
        "distribution": {"oracle_cases": len(cases)}})


def replay(ctx, path):
    run(ctx)
