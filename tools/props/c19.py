"""C19 — spox interop, eager_propagate and user-defined dtypes obey the same laws."""
from __future__ import annotations

import json
import random

from props import c01
from vlib import core, ops

LEVEL = "proof"

SPOX_PROGRAMS = [
    ("v = op.add(x.spox_var(), x.spox_var()); y = ndx.from_spox_var(v); out = y * 2", "out = (x + x) * 2"),
    ("y = ndx.abs(x); v = op.neg(y.spox_var()); out = ndx.from_spox_var(v) + x", "out = -np.abs(x) + x"),
    ("v = op.mul(x.spox_var(), op.const(np.array(3, dtype=x.dtype.to_numpy_dtype()))); out = ndx.sum(ndx.from_spox_var(v), axis=0, keepdims=True) if x.ndim else ndx.from_spox_var(v)", "out = np.sum(x * 3, axis=0, keepdims=True, dtype=x.dtype) if x.ndim else x * 3"),
    ("out = ndx.from_spox_var(x.spox_var())", "out = x"),
    ("y = x[...]; out = ndx.from_spox_var(op.identity(y.spox_var()))", "out = x"),
]
STRUCT_PROGRAMS = [
    ("out = x[...]", "out = x[...]"), ("out = ndx.reshape(x, [-1])", "out = np.reshape(x, [-1])"), ("out = ndx.flip(x)", "out = np.flip(x)"),
    ("out = ndx.permute_dims(x, list(range(x.ndim))[::-1])", "out = np.transpose(x)"), ("out = ndx.expand_dims(x, 0)", "out = np.expand_dims(x, 0)"),
    ("out = ndx.roll(x, 1, axis=0)", "out = np.roll(x, 1, axis=0)"), ("out = ndx.take(x, ndx.asarray(np.array([0, -1])), axis=0)", "out = np.take(x, [0, -1], axis=0)"),
    ("out = ndx.broadcast_to(x, nda.shape(x))", "out = x"), ("out = ndx.squeeze(ndx.expand_dims(x, 0), 0)", "out = x"), ("out = x.copy()", "out = x.copy()"),
    ("out = x[::-1, ...]", "out = x[::-1, ...]"), ("out = x[0:1, ...]", "out = x[0:1, ...]"), ("y = x.copy(); y[0, ...] = x[-1, ...]; out = y", "y = x.copy(); y[0, ...] = x[-1, ...]; out = y"),
    ("out = ndx.concat([r[None] for r in x]) if False else ndx.reshape(x, [-1])", "out = np.reshape(x, [-1])"),
    ("y = x.copy(); ndx.reshape(y, [-1], copy=False); out = ndx.Array._from_fields(y.dtype, lo=y.lo + 0, hi=y.hi)", "out = np.reshape(x, [-1])"),
    ("y = x.copy(); y._set(ndx.flip(y)); out = ndx.Array._from_fields(y.dtype, lo=y.lo, hi=y.hi + 0)", "out = np.flip(x)"),
    # the value / metadata is read, then a field is updated in place through the field object, then the array is used again
    ("y = x.copy(); r_ = (y.to_numpy(), y.ndim, repr(y)); y.lo[0, ...] = 100; out = y", "y = x.copy(); y0 = y.reshape(-1); y[0, ...] = np.frompyfunc(lambda t: (100, t[1]), 1, 1)(y[0, ...]) if y[0, ...].ndim else (100, y[0, ...].item()[1]); out = y"),
    ("y = x.copy(); r_ = y.to_numpy(); y.lo[...] = 7; out = ndx.flip(y)", "y = np.frompyfunc(lambda t: (7, t[1]), 1, 1)(x.copy()); out = np.flip(y)"),
]


def run(ctx):
    rnd = random.Random(ctx.seed)
    ctx.trusted += ["coq/Machine/Machine.v; tools/harness/h_interop.py (a user function wrapped by eager_propagate with nested list/tuple/dict/slice arguments; the user struct dtype `Pair` with a nested nullable field)"]
    ctx.not_discharged += ["struct dtypes through the generic layout functions: naturality theorems (Ndx/LayoutFacts.v operators, Ndx/LayoutNatural.v public functions: each commutes with every field projection, outcome included) + correspondence; no separate theorem about _transmute's recursion"]
    ctx.static_build()
    c01.census_tie(ctx)
    scale = 1 if ctx.tier == "quick" else 10
    cases = []
    for i in range(100 * scale):
        d = rnd.choice(["int64", "float64", "int32", "float32"])
        sh = ops.rand_shape(rnd, 2, 0.1)
        x = ops.tensor(rnd, d, sh, "small")
        prog, orc = rnd.choice(SPOX_PROGRAMS)
        cases.append({"id": f"X-{i}", "kind": "spox", "x": x, "sig": rnd.choice([sh, ops.symbolic_sig(rnd, sh)]), "program": prog, "oracle": orc})
    for i in range(50 * scale):
        d = rnd.choice(["int64", "float64"])
        sh = ops.rand_shape(rnd, 2, 0.1)
        vals = {n: ops.tensor(rnd, d, sh, "small") for n in ("x0", "x1", "a", "b", "s", "t")}
        names = ["x0", "x1", "a", "b"]
        sc, op_ = rnd.random() < 0.5, rnd.random() < 0.5
        used = names + (["s"] if sc else []) + (["t"] if op_ else [])
        lazy_sets = [[], [rnd.choice(used)], rnd.sample(used, rnd.randint(1, len(used)))]
        cases.append({"id": f"E-{i}", "kind": "propagate", "values": vals, "scale": sc, "opts": op_, "lazy_sets": lazy_sets})
    for i in range(30 * scale):
        d = rnd.choice(["int64", "float64", "int32"])
        sh = ops.rand_shape(rnd, 2, 0.1)
        vals = {"acc": ops.tensor(rnd, d, sh, "small"), "step": ops.tensor(rnd, d, sh, "small")}
        cases.append({"id": f"E2-{i}", "kind": "propagate2", "values": vals, "lazy_sets": [[], ["step"], ["acc"], ["acc", "step"]]})
    for i in range(20 * scale):
        d = rnd.choice(["int64", "float64", "int32"])
        sh = ops.rand_shape(rnd, 2, 0.1)
        vals = {"a": ops.tensor(rnd, d, sh, "small"), "b": ops.tensor(rnd, d, sh, "small")}
        cases.append({"id": f"E3-{i}", "kind": "propagate3", "values": vals, "lazy_sets": [[], ["a"], ["a", "b"]]})
    for i in range(12 * scale):
        sh = [rnd.choice([1, 2, 3])]
        vals = {"a": ops.tensor(rnd, "int64", sh, "small"), "b": {"dtype": "float64", "shape": sh, "data": [ops.fhex(rnd.choice([1.5, 200.0, -3.0, 7.25])) for _ in range(sh[0])]}}
        cases.append({"id": f"E4-{i}", "kind": "propagate4", "values": vals, "lazy_sets": [[], ["a"], ["a", "b"]]})
    for i in range(60 * scale):
        r = rnd.randint(1, 2)
        sh = [rnd.choice([1, 2, 3]) for _ in range(r)]
        n = ops.prod(sh)
        x = {"shape": sh, "data": [[rnd.randint(-9, 9), None if rnd.random() < 0.3 else float(rnd.randint(0, 9))] for _ in range(n)]}
        prog, orc = rnd.choice(STRUCT_PROGRAMS)
        cases.append({"id": f"U-{i}", "kind": "struct", "x": x, "sig": rnd.choice([sh, ["N"] + sh[1:]]), "program": prog, "oracle": orc})
    res = core.run_cases("harness.h_interop", cases, workers=14, per_case_timeout=180)
    for c in cases:
        r = res.get(c["id"]) or {}
        ctx.count(c["id"], nontrivial=True)
        if "ok" not in r:
            ctx.finding({"func": c["kind"], "kind": "raises", "program": str(c.get("program"))[:40]}, f"{c['kind']} case `{c.get('program', 'user_fn')}`: {str(r)[:220]}", {"case": c, "outcome": r})
            continue
        o = r["ok"]
        if c["kind"] == "spox":
            for mode in ("eager", "lazy"):
                m = o[mode]
                if ops.cmp_arrays(o["oracle"], m["out"], 1e-6, 1e-9, check_dtype=False) or ops.cmp_arrays(m["out"], m["rt"]):
                    ctx.finding({"func": "spox", "kind": "value", "mode": mode, "program": c["program"][:40]}, f"mixed spox/ndonnx graph `{c['program']}` ({mode}): exported result {str(m['out'])[:100]} / round-tripped {str(m['rt'])[:60]} differ from the composition {str(o['oracle'])[:100]}", {"case": c, "outcome": o})
                if m["rt_dtype"] != m["dtype"] or m["rt_value_retained"]:
                    ctx.finding({"func": "spox", "kind": "roundtrip-meta", "mode": mode}, f"from_spox_var(spox_var(a)): dtype {m['rt_dtype']} vs {m['dtype']}, value retained: {m['rt_value_retained']}", {"case": c, "outcome": o})
        elif c["kind"] == "propagate":
            for key, rr in o.items():
                if key == "oracle":
                    continue
                lazy = [] if key == "-" else key.split(",")
                for j in range(2):
                    if ops.cmp_arrays(o["oracle"][j], rr["model"][j], 1e-9, 1e-12):
                        ctx.finding({"func": "eager_propagate", "kind": "value", "lazy": key}, f"wrapped user function, placeholders {key}: traced model output {j} differs from the expected composition", {"case": c, "outcome": rr, "oracle": o["oracle"]})
                    v = rr["values"][j]
                    if not lazy and (v is None or ops.cmp_arrays(o["oracle"][j], v, 1e-9, 1e-12)):
                        ctx.finding({"func": "eager_propagate", "kind": "eager-value", "lazy": key}, f"wrapped user function with data-holding nested arguments: output {j} reports {str(v)[:80]}", {"case": c, "outcome": rr, "oracle": o["oracle"]})
                    if lazy and v is not None:
                        ctx.finding({"func": "eager_propagate", "kind": "lazy-has-value", "lazy": key}, f"wrapped user function with placeholder arguments {key}: output {j} reports a value", {"case": c, "outcome": rr})
                if not rr["inputs_still_lazy"]:
                    ctx.finding({"func": "eager_propagate", "kind": "placeholder-gained-value", "lazy": key}, f"a placeholder argument of the wrapped function gained a value", {"case": c, "outcome": rr})
        elif c["kind"] == "propagate4":
            for key, rr in o.items():
                if key == "oracle":
                    continue
                lazy = [] if key == "-" else key.split(",")
                for j, nm in enumerate(["struct output assembled in non-declaration order", "plain output after it"]):
                    if json.dumps(o["oracle"][j], sort_keys=True) != json.dumps(rr["model"][j], sort_keys=True) and (j == 0 or ops.cmp_arrays(o["oracle"][j], rr["model"][j], 1e-9, 1e-12)):
                        ctx.finding({"func": "eager_propagate", "kind": "value", "lazy": key, "fn": "user_fn4"}, f"wrapped user function, placeholders {key}: exported {nm} differs from the expected composition", {"case": c, "outcome": rr, "oracle": o["oracle"]})
                    v = rr["values"][j]
                    if not lazy and (v is None or (json.dumps(o["oracle"][j], sort_keys=True) != json.dumps(v, sort_keys=True) and (j == 0 or ops.cmp_arrays(o["oracle"][j], v, 1e-9, 1e-12)))):
                        ctx.finding({"func": "eager_propagate", "kind": "eager-value", "lazy": key, "fn": "user_fn4"}, f"wrapped user function, data-holding arguments: {nm} reports {str(v)[:100]}", {"case": c, "outcome": rr, "oracle": o["oracle"]})
                    if lazy and v is not None and j == 0:
                        ctx.finding({"func": "eager_propagate", "kind": "lazy-has-value", "lazy": key, "fn": "user_fn4"}, f"wrapped user function with placeholder arguments {key}: {nm} reports a value", {"case": c, "outcome": rr})
        elif c["kind"] == "propagate3":
            for key, rr in o.items():
                if key == "oracle":
                    continue
                lazy = [] if key == "-" else key.split(",")
                for j in range(4):
                    if ops.cmp_arrays(o["oracle"][j], rr["model"][j], 1e-9, 1e-12):
                        ctx.finding({"func": "eager_propagate", "kind": "value", "lazy": key, "fn": "user_fn3"}, f"wrapped user function returning one array twice, placeholders {key}: exported output {j} differs from the expected composition", {"case": c, "outcome": rr, "oracle": o["oracle"]})
                    v = rr["values"][j]
                    if not lazy and (v is None or ops.cmp_arrays(o["oracle"][j], v, 1e-9, 1e-12)):
                        ctx.finding({"func": "eager_propagate", "kind": "eager-value", "lazy": key, "fn": "user_fn3"}, f"wrapped user function returning one array twice, data-holding arguments: output {j} reports {str(v)[:80]}", {"case": c, "outcome": rr, "oracle": o["oracle"]})
                    if lazy and v is not None:
                        ctx.finding({"func": "eager_propagate", "kind": "lazy-has-value", "lazy": key, "fn": "user_fn3"}, f"wrapped user function with placeholder arguments {key}: output {j} reports a value", {"case": c, "outcome": rr})
        elif c["kind"] == "propagate2":
            names = ["library-only output", "directly applied operator", "mixed output", "argument updated in place"]
            for key, rr in o.items():
                if key == "oracle":
                    continue
                lazy = [] if key == "-" else key.split(",")
                for j in range(4):
                    if ops.cmp_arrays(o["oracle"][j], rr["model"][j], 1e-9, 1e-12):
                        ctx.finding({"func": "eager_propagate", "kind": "value", "lazy": key, "fn": "user_fn2"}, f"wrapped Array-level user function (in-place update, 3 outputs), placeholders {key}: exported {names[j]} differs from the expected composition", {"case": c, "outcome": rr, "oracle": o["oracle"]})
                    v = rr["values"][j] if j < 3 else rr["acc_after"]
                    if not lazy and (v is None or ops.cmp_arrays(o["oracle"][j], v, 1e-9, 1e-12)):
                        ctx.finding({"func": "eager_propagate", "kind": "eager-value", "lazy": key, "fn": "user_fn2"}, f"wrapped Array-level user function with data-holding arguments: {names[j]} reports {str(v)[:80]}", {"case": c, "outcome": rr, "oracle": o["oracle"]})
                    if j < 3 and "acc" in lazy and v is not None:
                        ctx.finding({"func": "eager_propagate", "kind": "lazy-has-value", "lazy": key, "fn": "user_fn2"}, f"wrapped Array-level user function with placeholder arguments {key}: {names[j]} reports a value", {"case": c, "outcome": rr})
        else:
            if not o["dtype_kept"] or o["fields"] != ["lo", "hi"]:
                ctx.finding({"func": "struct", "kind": "layout", "program": c["program"][:40]}, f"user struct dtype through `{c['program']}`: dtype kept {o['dtype_kept']}, fields {o['fields']}", {"case": c, "outcome": o})
            if o["roundtrip"] != {"shape": c["x"]["shape"], "data": [[a, b] for a, b in c["x"]["data"]]}:
                ctx.finding({"func": "struct", "kind": "roundtrip"}, f"to_numpy(asarray(v)) != v for the user struct dtype", {"case": c, "outcome": o})
            for which in ("out", "traced"):
                if o[which] != o["oracle"]:
                    ctx.finding({"func": "struct", "kind": "value-" + which, "program": c["program"][:40]}, f"user struct dtype through `{c['program']}` ({which}): {str(o[which])[:120]} != {str(o['oracle'])[:120]}", {"case": c, "outcome": o})
    ctx.sample({"spox_program": cases[0]["program"], "x": cases[0]["x"]["shape"]})
    ctx.sample({"struct_program": cases[-1]["program"], "x": cases[-1]["x"]})
    f = ctx.work / "C19_static.v"
    f.write_text((core.COQ / "Props" / "C19.v").read_text())
    ctx.compile("Props/C19.v: spox round trip denotes the same graph value and retains no build-time value; a wrapped function evaluates eagerly iff every array leaf of its (arbitrarily nested) arguments holds data", f, kind="theorem")
    ctx.coverage.update({"rule": "programs interleaving ndonnx calls with spox operators applied directly (5 shapes of program x 4 dtypes x ranks 0-2, static and symbolic), each evaluated eagerly, traced, and round-tripped through spox_var/from_spox_var; a user function wrapped by eager_propagate taking a dict of list/tuple, a keyword array and a slice carrying an array, 2 outputs, with all / one / several arguments as placeholders; a user struct dtype (int64 + nested nullable float64 field) through 14 generic layout/indexing/assignment programs, eager and traced with the documented parse/assemble helpers. Distinct by case."})


def replay(ctx, path):
    run(ctx)
