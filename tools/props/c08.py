"""C08 — indexing reads select exactly the elements NumPy selects."""
from __future__ import annotations

import random
import re

from translate import gen_src
from vlib import core, families, family, ops

LEVEL = "proof"


def z(n):
    return f"({n})%Z"


def coq_item(it):
    k = it[0]
    if k == "int":
        return f"IInt {z(it[1])}"
    if k == "slice":
        o = lambda v: "None" if v is None else f"(Some {z(v)})"
        return f"ISlice {o(it[1])} {o(it[2])} {o(it[3])}"
    if k == "none":
        return "INone"
    if k == "ellipsis":
        return "IEllipsis"
    return "IOther"


def py_item(it):
    k = it[0]
    if k == "int":
        return str(it[1])
    if k == "slice":
        return f"slice({it[1]}, {it[2]}, {it[3]})"
    if k == "none":
        return "None"
    if k == "ellipsis":
        return "..."
    return "1.5"


def rand_items(rnd, sh, malformed=False, p_int=0.35):
    r = len(sh)
    items = []
    n_ell = 1 if rnd.random() < 0.3 else 0
    covered = list(range(r))
    skip = rnd.randint(0, r) if n_ell else 0
    ell_at = rnd.randint(0, r - skip) if n_ell else -1
    ax = 0
    pos = 0
    while ax < r:
        if n_ell and pos == ell_at:
            items.append(("ellipsis",))
            ax += skip
            n_ell = 0
            continue
        n = sh[ax]
        if rnd.random() < p_int and n > 0:
            items.append(("int", rnd.randint(-n, n - 1)))
        else:
            a, b, c = rnd.choice(families.slice_alphabet(n))
            items.append(("slice", a, b, c))
        ax += 1
        pos += 1
    if n_ell:
        items.append(("ellipsis",))
    for _ in range(rnd.choice([0, 0, 0, 1, 2])):
        items.insert(rnd.randint(0, len(items)), ("none",))
    if malformed:
        m = rnd.choice(["few", "many", "type", "two-ellipsis", "oob"])
        items = [i for i in items if i[0] != "ellipsis"] if m in ("few", "many") else items
        if m == "few" and len([i for i in items if i[0] != "none"]) > 0:
            items = items[:-1] if items[-1][0] != "none" else items[:-2]
        elif m == "many":
            items.append(("int", 0))
        elif m == "type":
            items.insert(rnd.randint(0, len(items)), ("other",))
        elif m == "two-ellipsis":
            items = [("ellipsis",), ("ellipsis",)]
        elif m == "oob":
            axs = [k for k, i in enumerate(items) if i[0] == "int"]
            if not axs:
                return None
            k = axs[0]
            items[k] = ("int", 7)
    return items


def corr_cases(rnd, n_random, exhaustive_1d=True):
    cases = []
    def add(sh, items):
        tup = "(" + ", ".join(py_item(i) for i in items) + ("," if len(items) == 1 else "") + ")"
        x = {"dtype": "int64", "shape": sh, "data": list(range(ops.prod(sh)))}
        cases.append({"id": f"gc-{len(cases)}", "inputs": {"x": x}, "impl": f"out = x[{tup}]", "oracle": f"out = x[{tup}]",
                      "eager": True, "lazy_subsets": [], "meta": {"func": "getitem", "form": "basic", "dtype": "int64", "dclass": "int"},
                      "items": items})
    if exhaustive_1d:
        for n in range(0, 5):
            for (a, b, c) in families.slice_alphabet(n):
                add([n], [("slice", a, b, c)])
            for k in range(-n, n):
                add([n], [("int", k)])
    while len(cases) < n_random + (1462 if exhaustive_1d else 0):
        sh = [rnd.choice([0, 1, 2, 3, 4]) for _ in range(rnd.randint(0, 3))]
        items = rand_items(rnd, sh, malformed=rnd.random() < 0.12)
        if items is None:
            continue
        add(sh, items)
    # ranks 4-5 with MANY integer entries separated by slices / an ellipsis (the lowering groups integer axes)
    for _ in range(max(60, n_random // 4)):
        sh = [rnd.choice([1, 2, 2, 3]) for _ in range(rnd.randint(4, 5))]
        items = rand_items(rnd, sh, p_int=0.7)
        if items is not None:
            add(sh, items)
    return cases


def in_coq_corr(ctx, rnd, n_random):
    cases = corr_cases(rnd, n_random)
    res = core.run_cases("harness.h_ops", cases, workers=14, per_case_timeout=120)
    lines, kept = [], []
    for c in cases:
        r = res.get(c["id"]) or {}
        e = r.get("eager")
        if e is None:
            ctx.finding(family.attrs_of(c, "crash", "eager"), f"{c['impl']}: {r}", family.replay_of(c, r, "eager"))
            continue
        if "ok" in e and "data" in e["ok"]:
            out = "GOk [%s] [%s]" % ("; ".join(map(str, e["ok"]["shape"])), "; ".join(z(v) for v in e["ok"]["data"]))
        elif "raise" in e:
            out = {"IE": "GIndexError", "TE": "GTypeError"}.get(e["raise"], "GRuntime" if "ONNXRuntime" in e.get("msg", "") or e["raise"].startswith("Other:Fail") or e["raise"].startswith("Other:InvalidArgument") else "GOtherExn")
        else:
            out = "GOtherExn"
        lines.append("  {| g_shape := [%s]; g_index := [%s]; g_out := %s |}" % ("; ".join(map(str, c["inputs"]["x"]["shape"])), "; ".join(coq_item(i) for i in c["items"]), out))
        kept.append((c, r))
        ctx.count(("gc", c["impl"], tuple(c["inputs"]["x"]["shape"])), nontrivial=True)
    # shard: vm_compute on thousands of tab-based tensors is fast enough in one file
    src = ("From Coq Require Import List ZArith String.\nFrom ND Require Import Base.Tensor Ndx.Index Ndx.GetItem Ndx.ReduceCorr Ndx.GetItemCorr.\nImport ListNotations.\nLocal Open Scope nat_scope.\n"
           "Definition cases : list gcase := [\n" + ";\n".join(lines) + "\n].\n"
           'Eval vm_compute in ("BAD"%string, bad_idx gcase_ok cases 0).\n'
           'Eval vm_compute in ("SPECBAD"%string, bad_idx gcase_spec_ok cases 0).\n'
           "Example corr_getitem : forallb gcase_ok cases = true.\nProof. vm_compute. reflexivity. Qed.\n"
           "Example model_is_numpy_on_cases : forallb gcase_spec_ok cases = true.\nProof. vm_compute. reflexivity. Qed.\n")
    f = ctx.work / "CorrGetItem.v"
    f.write_text(src)
    ok, out = ctx.compile(f"T-io (in Coq): x[index] == model ndx_getitem_user (normalise + Slice/Gather/Unsqueeze lowering) on {len(kept)} cases: exhaustive 1-D (extents 0-4, every in-bounds slice/int) + random ranks 0-3 incl. malformed; and model == NumPy spec on the same cases", f, kind="tie", timeout=900)
    if not ok:
        flat = re.sub(r"\s+", " ", out)
        for tag, what in (("BAD", "differs from the model of the lowering"), ("SPECBAD", "model differs from NumPy's left-to-right semantics")):
            m = re.search(r'\("%s"(?:%%string)?, \[(.*?)\]\)' % tag, flat)
            for i in (re.findall(r"\d+", m.group(1)) if m else [])[:8]:
                c, r = kept[int(i)]
                orc, eg = r.get("oracle"), r.get("eager")
                # is it a property violation? compare with NumPy directly
                bad = True
                if orc and eg and "ok" in orc and "ok" in eg:
                    bad = ops.cmp_arrays(orc["ok"], eg["ok"]) is not None
                elif orc and eg and "raise" in orc and "raise" in eg:
                    bad = eg["raise"] not in ("IE", "TE")
                if bad:
                    ctx.finding(family.attrs_of(c, "model-mismatch", "eager"), f"{c['impl']} on shape {c['inputs']['x']['shape']}: {what}; implementation: {str(eg)[:120]}; NumPy: {str(orc)[:120]}", family.replay_of(c, r, "eager"))
    if kept:
        ctx.sample({"impl": kept[-1][0]["impl"], "shape": kept[-1][0]["inputs"]["x"]["shape"], "observed": kept[-1][1].get("eager")})
    return ok


def in_coq_mask(ctx, rnd, n):
    """x[mask] with boolean mask arrays of rank 0..rank(x) on int64 data against Ndx/MaskIndex.v (lowering) and, on the
    same cases, lowering == NumPy (which is also a theorem)."""
    cases = []
    for i in range(n):
        r = rnd.randint(1, 3)
        sh = [rnd.choice([0, 1, 2, 3]) if rnd.random() < 0.25 else rnd.choice([1, 2, 3]) for _ in range(r)]
        k = rnd.randint(0, r)
        x = {"dtype": "int64", "shape": sh, "data": list(range(ops.prod(sh)))}
        m = {"dtype": "bool", "shape": sh[:k], "data": [rnd.random() < 0.5 for _ in range(ops.prod(sh[:k]))]}
        cases.append({"id": f"gm-{i}", "inputs": {"x": x, "m": m}, "impl": "out = x[m]", "oracle": "out = x[m]", "eager": True, "lazy_subsets": [],
                      "meta": {"func": "getitem", "form": "mask", "dtype": "int64", "dclass": "int", "mask_rank": k}})
    res = core.run_cases("harness.h_ops", cases, workers=14, per_case_timeout=120)
    lines, kept = [], []
    for c in cases:
        r = res.get(c["id"]) or {}
        e = r.get("eager") or {}
        if "ok" in e and "data" in e["ok"]:
            out = "Some ([%s], [%s])" % ("; ".join(map(str, e["ok"]["shape"])), "; ".join(z(v) for v in e["ok"]["data"]))
        elif "raise" in e:
            out = "None"
        else:
            ctx.finding(family.attrs_of(c, "crash", "eager"), f"x[mask] shape {c['inputs']['x']['shape']} mask {c['inputs']['m']['shape']}: {str(r)[:160]}", family.replay_of(c, r, "eager"))
            continue
        x, m = c["inputs"]["x"], c["inputs"]["m"]
        lines.append("  {| mk_shape := [%s]; mk_data := [%s]; mk_mshape := [%s]; mk_mdata := [%s]; mk_out := %s |}" % (
            "; ".join(map(str, x["shape"])), "; ".join(z(v) for v in x["data"]), "; ".join(map(str, m["shape"])),
            "; ".join("true" if b else "false" for b in m["data"]), out))
        kept.append((c, r))
        ctx.count(("gm", tuple(x["shape"]), tuple(m["shape"]), tuple(m["data"])), nontrivial=True)
    src = ("From Coq Require Import List ZArith String Bool.\nFrom ND Require Import Base.Tensor Ndx.GetItem Ndx.ReduceCorr Ndx.MaskIndex.\nImport ListNotations.\nLocal Open Scope nat_scope.\n"
           "Definition cases : list mkcase := [\n" + ";\n".join(lines) + "\n].\n"
           'Eval vm_compute in ("BAD"%string, bad_idx mkcase_ok cases 0).\n'
           "Example corr_mask : forallb mkcase_ok cases = true.\nProof. vm_compute. reflexivity. Qed.\n"
           "Example mask_model_is_numpy_on_cases : forallb mkcase_spec_ok cases = true.\nProof. vm_compute. reflexivity. Qed.\n")
    f = ctx.work / "CorrMask.v"
    f.write_text(src)
    ok, out = ctx.compile(f"T-io (in Coq): x[mask] == model ndx_getitem_mask (Reshape / Compress lowering of getitem_null) on {len(kept)} cases (ranks 1-3, mask ranks 0..rank, zero extents), and the model == NumPy on the same cases", f, kind="tie")
    if not ok:
        flat = re.sub(r"\s+", " ", out)
        mm = re.search(r'\("BAD"(?:%string)?, \[(.*?)\]\)', flat)
        for i in (re.findall(r"\d+", mm.group(1)) if mm else [])[:8]:
            c, r = kept[int(i)]
            orc, eg = r.get("oracle") or {}, r.get("eager") or {}
            bad = True
            if "ok" in orc and "ok" in eg:
                bad = ops.cmp_arrays(orc["ok"], eg["ok"]) is not None
            if bad:
                ctx.finding(family.attrs_of(c, "model-mismatch", "eager"), f"x[mask] on shape {c['inputs']['x']['shape']} with mask {c['inputs']['m']}: implementation {str(eg)[:140]}; NumPy {str(orc)[:140]}", family.replay_of(c, r, "eager"))
    return ok


def run(ctx):
    rnd = random.Random(ctx.seed)
    ctx.trusted += ["tools/translate/gen_src.py index_functions (ast -> Gallina over a universal Python value type, fail-closed)",
                    "coq/Ndx/Slice1D.v onnx_bounds/onnx_slice as the semantics of onnxruntime's Slice on one axis (validated: exhaustive 1-D correspondence on every run)",
                    "coq/Ndx/GetItem.v t_select/t_drop/t_unsqueeze as the semantics of ONNX Slice/Gather/Unsqueeze (validated by the in-Coq correspondence)"]
    ctx.not_discharged += ["integer index arrays: correspondence with NumPy only (a single Gather); boolean masks: theorem C08_mask_indexing_is_numpy + in-Coq correspondence, no T-src of getitem_null",
                           "NumPy's error behaviour (out-of-range integer, too many indices): correspondence only; the theorem is about the tuples NumPy accepts"]
    ctx.static_build()
    try:
        (ctx.work / "GenIndex.v").write_text(gen_src.index_functions())
        ok1, _ = ctx.compile("T-src: GenIndex.v (Gallina generated from ndonnx/_index.py + _corearray._normalise_index) compiles", ctx.work / "GenIndex.v")
        f = ctx.work / "TieIndex.v"
        f.write_text((core.VERIF / "tools/templates/TieIndex.v").read_text())
        ctx.compile("C08_slice_as_written + tie lemmas: the normaliser as written today equals the typed model for every index entry; ellipsis expansion and rank check expressions; composed 1-D theorem", f, kind="theorem")
    except gen_src.Untranslatable as e:
        ctx.obligation("T-src: _index.py / _corearray.py inside the translator's whitelist", False, str(e), "tie")
    try:
        (ctx.work / "GenGetItemForm.v").write_text(gen_src.emit_getitem_form(gen_src.getitem_form()))
        ctx.compile("T-src: GenGetItemForm.v (the tuple-of-scalars path of _opset_extensions.getitem as a form: numbering bases, Gather order, new-axis counting; every other statement must read as transcribed) compiles", ctx.work / "GenGetItemForm.v")
        f = ctx.work / "TieGetItemForm.v"
        f.write_text((core.VERIF / "tools/templates/TieGetItemForm.v").read_text())
        ctx.compile("C08_getitem_nd_as_written: the lowering read off today's source of getitem returns NumPy's result for every tensor, rank and valid tuple of integers / slices / None", f, kind="theorem")
    except gen_src.Untranslatable as e:
        ctx.obligation("T-src: _opset_extensions.getitem inside the translator's whitelist", False, str(e), "tie")
    for f in ("ndonnx/_index.py", "ndonnx/_corearray.py", "ndonnx/_opset_extensions.py"):
        ctx.translator_inputs[f] = core.sha256_file(core.REPO / f)
    in_coq_corr(ctx, rnd, 1500 if ctx.tier == "quick" else 12000)
    in_coq_mask(ctx, rnd, 300 if ctx.tier == "quick" else 3000)
    n = 500 if ctx.tier == "quick" else 5000
    cases = families.getitem_cases(rnd, n, prefix="G")
    family.evaluate(ctx, cases, want=("oracle", "traced", "static"))
    ctx.sample({"impl": cases[5]["impl"], "inputs": {k: v["shape"] for k, v in cases[5]["inputs"].items()}, "dtype": cases[5]["meta"]["dtype"]})
    f = ctx.work / "C08_static.v"
    f.write_text((core.COQ / "Props" / "C08.v").read_text())
    ctx.compile("Props/C08.v: slice_1d for every extent < 2^62 and every admissible slice (guard needed); C08_getitem_nd: for every tensor, rank and basic index tuple the whole lowering (normalise, Slice pass, reversed Gathers with range checks, Unsqueeze) equals NumPy's left-to-right semantics; selected positions always in range", f, kind="theorem")
    ctx.coverage.update({
        "rule": "in-Coq correspondence: ALL 1-D cases for extents 0-4 (every in-bounds slice with step in {None,+-1,+-2,+-3}, every in-range int) + random index tuples over {int, slice, Ellipsis, None} for ranks 0-3, extents 0-4, 12% malformed (too few/many entries, unsupported type, two ellipses, out-of-range int); NumPy sweep: 8 dtypes incl. nullable/string, masks of rank <= ndim, integer index arrays, eager and traced with symbolic dims. Distinct by (index expression, shape, dtype).",
        "exhaustive": False})


def replay(ctx, path):
    run(ctx)
