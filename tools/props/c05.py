"""C05 — every exported artifact is a valid, loadable model with the documented interface."""
from __future__ import annotations

import random

from harness_consts import ALL
from translate import gen_src
from vlib import core, ops

LEVEL = "proof"

PROGRAMS = [  # (program over inputs a, b; outputs: list of (public name, variable))
    ("r = a", [("out", "r")]),
    ("r = a; s = b", [("first", "r"), ("second", "s")]),
    ("r = a[...]", [("y", "r"), ("y_again", "r")]),           # one array under several names
    ("r = ndx.reshape(a, [-1])", [("flat", "r")]),
    ("r = ndx.asarray(np.array([1, 2, 3]))", [("const", "r")]),  # constant-only model
    ("r = a; k = ndx.asarray(np.array(['x', 'y']))", [("passthrough", "r"), ("k", "k")]),
    ("r = ndx.expand_dims(a, 0)", [("e", "r")]),
    ("r = ndx.flip(a)", [("f", "r")]),
]


NUMS = [x for x in ALL if x.lstrip("n") not in ("utf8", "bool")]
# results assembled by library functions (struct results are rebuilt field by field inside them): (program, outputs, dtypes of a)
LIB_PROGRAMS = [
    ("c = a > 0; r = ndx.where(c, a, a + 1)", [("w", "r")], NUMS),
    ("r = ndx.where(a > 0, a, 0)", [("w", "r"), ("src", "a")], NUMS),
    ("r = a + 1; s = a * a", [("p", "r"), ("q", "s")], NUMS),
    ("r = ndx.additional.make_nullable(a, a > 0)", [("mn", "r")], [x for x in NUMS if not x.startswith("n")]),
    ("r = ndx.concat([ndx.reshape(a, [-1]), ndx.reshape(a, [-1])])", [("cc", "r")], [x for x in ALL if not x.startswith("n")]),
    ("r = ndx.sum(a)", [("total", "r")], [x for x in NUMS if x not in ("uint64", "nuint64")]),
    ("r = a[...]; r[...] = a", [("assigned", "r")], ALL),
    ("r = ndx.astype(a, ndx.nfloat64)", [("cast", "r")], NUMS),
    ("r = ndx.where(a == a, a, a)", [("w2", "r")], [x for x in ALL if x.startswith("n")]),
    ("r = ndx.logical_and(a > 0, a < 5)", [("m", "r")], NUMS),
    ("z = ndx.reshape(a, [-1])[0]; r = z.copy(); r[ndx.asarray(np.array(True))] = z", [("scalar_assigned", "r")], ALL, 1),
    # indexing with new axes next to stepped / bounded slices (declared dims must survive the checker's shape inference)
    ("r = a[None, 1:, ...]", [("g1", "r")], ALL, 1), ("r = a[..., None, ::2]", [("g2", "r")], ALL, 1), ("r = a[None, ::-1, ...]", [("g3", "r")], ALL, 1),
    ("r = a[0:1, None, ...]", [("g4", "r")], ALL, 1), ("r = a[None, :, 1:]", [("g5", "r")], ALL, 2), ("r = a[None, None, 1:3, ...]", [("g6", "r")], ALL, 1),
    ("r = a[-1, None, :2]", [("g7", "r")], ALL, 2),
    ("r = ndx.additional.fill_null(a, a.values) if hasattr(a, 'null') and a.null is not None else a + 0", [("filled", "r")], [x for x in NUMS if x.startswith("n")]),
]


def gen_case(rnd, i):
    if i % 3 == 2:
        prog, outs, dts, *mr = rnd.choice(LIB_PROGRAMS)
        d = rnd.choice(dts)
        r = rnd.randint(mr[0] if mr else 0, 2)
        sig = [rnd.choice([rnd.randint(1, 4), rnd.randint(2, 4), "N", None]) for _ in range(r)]
        conc = [s_ if isinstance(s_, int) else rnd.choice([1, 2, 3]) for s_ in sig]
        return {"id": f"B-{i}", "inputs": {"a": {"dtype": d, "sig": sig}}, "input_order": ["a"], "program": prog, "outputs": outs,
                "values": {"a": ops.tensor(rnd, d, conc, "small")}, "meta": {"dtype": d, "sig": sig}}
    d = rnd.choice(ALL + ["pair", "pair"])
    d2 = rnd.choice(ALL)
    r = rnd.randint(0, 3)
    sig = [rnd.choice([rnd.randint(1, 3), "N", "M", None, 0] if rnd.random() < 0.3 else [rnd.randint(1, 3), "N", "M", None]) for _ in range(r)]   # 0: a declared static extent of zero
    conc = [s if isinstance(s, int) else rnd.choice([0, 1, 2, 3]) for s in sig]
    sym = {}
    for k, s in enumerate(sig):
        if isinstance(s, str):
            conc[k] = sym.setdefault(s, conc[k])
    sig2 = [rnd.choice([2, "K"])]
    prog, outs = rnd.choice(PROGRAMS)
    inputs = {"a": {"dtype": d, "sig": sig}, "b": {"dtype": d2, "sig": sig2}}
    order = rnd.choice([["a", "b"], ["b", "a"], ["a"]]) if "b" in prog or rnd.random() < 0.5 else ["a"]
    if " b" in prog or "= b" in prog:
        order = rnd.choice([["a", "b"], ["b", "a"]])
    if "a" not in prog.replace("asarray", "").replace("np.array", "") and rnd.random() < 0.5:
        pass
    values = {}
    if d == "pair":
        n = ops.prod(conc)
        values["a"] = {"dtype": "pair", "shape": conc, "data": [[rnd.randint(-5, 5), None if rnd.random() < 0.3 else float(rnd.randint(0, 9))] for _ in range(n)]}
    else:
        values["a"] = ops.tensor(rnd, d, conc, "small")
    values["b"] = ops.tensor(rnd, d2, [2], "small")
    if d == "pair" and ("flip" in prog or "expand_dims" in prog or "reshape" in prog or "a[" in prog) and r == 0:
        prog, outs = "r = a", [("out", "r")]
    return {"id": f"B-{i}", "inputs": inputs, "input_order": order, "program": prog, "outputs": outs, "values": values,
            "meta": {"dtype": d, "sig": sig}}


def run(ctx):
    rnd = random.Random(ctx.seed)
    ctx.trusted += ["tools/translate/gen_src.py build_tables() (ast extraction of _build._v1_dtypes and of the dtype singletons)",
                    "tools/harness/h_build.py (interface checks on the ModelProto)"]
    ctx.not_discharged += ["'passes onnx.checker.check_model(full_check=True) and loads in onnxruntime' is a fact about spox/onnx/onnxruntime on the emitted protobuf: executed on every generated model, not proved"]
    ctx.assumes += ["requested names are pairwise distinct after flattening (an input `x` of nullable dtype and a separate `x_null` collide and are rejected by spox/ndonnx)"]
    ctx.static_build()
    try:
        (ctx.work / "GenBuild.v").write_text(gen_src.build_tables())
        ctx.compile("T-src: GenBuild.v (version-1 schema table and dtype class names extracted from _build.py / aliases.py) compiles", ctx.work / "GenBuild.v")
        t = ctx.work / "TieBuild.v"
        t.write_text("From Coq Require Import List String Bool.\nFrom ND Require Import Base.Dtype Base.DtypeFacts Ndx.Build.\nFrom G Require Import GenBuild.\nImport ListNotations.\n"
                     "(* every built-in dtype: its class name is the schema name of the model, and the version-1 table maps it back *)\n"
                     "Theorem C05_schema_round_trip_as_written :\n"
                     "  forallb (fun d => match find (fun p => dtype_eqb (fst p) d) class_names with\n"
                     "                    | Some (_, n) => String.eqb n (schema_name d) && match v1_lookup v1_dtypes n with Some d' => dtype_eqb d d' | None => false end\n"
                     "                    | None => false end) all_builtin = true.\n"
                     "Proof. vm_compute. reflexivity. Qed.\n"
                     "Theorem C05_no_stray_schema_entries : forallb (fun p => String.eqb (fst p) (schema_name (snd p))) v1_dtypes = true.\nProof. vm_compute. reflexivity. Qed.\n")
        ctx.compile("C05_schema_round_trip_as_written: for each of the 24 built-in dtypes the class name written into the schema is mapped back to the same dtype by the version-1 table as it reads today", t, kind="theorem")
        (ctx.work / "GenBuildJoins.v").write_text(gen_src.emit_build_joins(gen_src.build_joins()))
        ctx.compile("T-src: GenBuildJoins.v (how _flatten and _assemble_outputs.helper form and use tensor names, extracted from _build.py) compiles", ctx.work / "GenBuildJoins.v")
        t2 = ctx.work / "TieBuildRT.v"
        t2.write_text("From Coq Require Import List String Bool.\nFrom ND Require Import Base.Dtype Ndx.Build Ndx.BuildRT.\nFrom G Require Import GenBuildJoins.\nImport ListNotations.\nOpen Scope string_scope.\n"
                      "(* what _build.py says today == the model: both recursions extend the ACCUMULATED path with \"_\" and the field name, and read / write the table under that path *)\n"
                      "Lemma tie_joins : gen_flatten_acc = true /\\ gen_flatten_leaf_by_path = true /\\ gen_assemble_leaf_by_path = true /\\ gen_sep = \"_\".\nProof. repeat split; reflexivity. Qed.\n"
                      "Lemma tie_assemble : gen_assemble_acc = true.\nProof. reflexivity. Qed.\n"
                      "Theorem C05_schema_round_trip_of_values_as_written : forall (V : Type) d n (v : vtree V) top, shaped V v d = true -> NoDup (map fst (names n d)) ->\n"
                      "  assemble V gen_assemble_acc top n d (flatten V n d v) = Some v.\nProof. intros. rewrite tie_assemble. now apply schema_round_trip. Qed.\n"
                      "Print Assumptions C05_schema_round_trip_of_values_as_written.\n")
        ctx.compile("C05_schema_round_trip_of_values_as_written: with the name-joining of _flatten / _assemble_outputs.helper as written today, reassembling what was flattened returns the value, for arbitrarily nested struct dtypes with pairwise distinct flattened names", t2, kind="theorem")
    except gen_src.Untranslatable as e:
        ctx.obligation("T-src: _build.py tables inside the translator's whitelist", False, str(e), "tie")
    for f in ("ndonnx/_build.py", "ndonnx/_data_types/aliases.py"):
        ctx.translator_inputs[f] = core.sha256_file(core.REPO / f)
    n = 300 if ctx.tier == "quick" else 3000
    cases = [gen_case(rnd, i) for i in range(n)]
    res = core.run_cases("harness.h_build", cases, workers=14, per_case_timeout=120)
    for c in cases:
        r = res.get(c["id"]) or {}
        ctx.count((c["program"], str(c["inputs"]), str(c["input_order"])), nontrivial=True)
        attrs = {"func": "build", "dtype": c["meta"]["dtype"], "program": c["program"][:30]}
        if "ok" not in r:
            attrs["kind"] = "build-raises"
            ctx.finding(attrs, f"build of `{c['program']}` with inputs {c['inputs']} (order {c['input_order']}): {str(r)[:200]}", {"case": c, "outcome": r})
            continue
        for pb in r["ok"]["problems"][:3]:
            a = dict(attrs)
            a["kind"] = pb.split(":")[0][:30]
            ctx.finding(a, f"build of `{c['program']}` with inputs {c['inputs']}: {pb}", {"case": c, "problem": pb})
    ctx.sample({"program": cases[0]["program"], "inputs": cases[0]["inputs"], "input_order": cases[0]["input_order"], "outputs": cases[0]["outputs"]})
    f = ctx.work / "C05_static.v"
    f.write_text((core.COQ / "Props" / "C05.v").read_text())
    ctx.compile("Props/C05.v: exposed tensors == names derived from the dtype for arbitrarily nested struct dtypes (order and element types); built-in interface; schema names injective", f, kind="theorem")
    ctx.coverage.update({"rule": "traced programs (pass-through, two outputs, one array under two names, reshape, constant-only, mixed constant+input, expand_dims, flip) x input dtypes (24 built-in + a user struct dtype with a nested nullable field) x signatures (static / symbolic shared names / unknown, ranks 0-3) x input orders incl. unused inputs: onnx.checker full_check, onnxruntime load, graph.input/output names, order, element types and declared dims, version-1 schema (names, order, type_name maps back to the dtype), round trip of values through _deconstruct_inputs / _assemble_outputs against eager evaluation. Distinct by (program, inputs, order)."})


def replay(ctx, path):
    run(ctx)
