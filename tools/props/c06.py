"""C06 — a model traced with symbolic dimensions is correct for every concrete size."""
from __future__ import annotations

import random

from vlib import core, family, ops

LEVEL = "proof"
FREE = [0, 1, 2, 3, 5, 8]
DT = ["int64", "float64", "int32", "float32", "nint64", "bool", "uint8"]


def templates(rnd):
    """(impl, {input: [symbols]}, dtype map, constraints) — parameters valid for every extent."""
    r = rnd.randint(1, 3)
    syms = [f"S{k}" for k in range(r)]
    d = rnd.choice(DT)
    num = ops.base(d) not in ("bool",)
    k = rnd.choice(["ew2", "ew2", "ew2mixed", "ew2mixed", "bcast", "bcast", "reduce", "reduce", "layout", "getitem", "sort", "cumsum", "where", "program", "unique", "matmul", "concat", "allany", "roll", "take_lazyidx", "mknull", "mknull", "ewconst", "ewconst", "reshape2", "inplace_rank", "inplace_rank"])
    bc = {}   # symbol -> symbol it may broadcast against (fed 1 or equal)
    if k == "ew2":
        f = rnd.choice(["add", "subtract", "multiply", "maximum" if False else "less", "equal", "logical_and" if d == "bool" else "add"])
        ys = [s + "b" for s in syms][rnd.randint(0, r - 1):]
        for s in ys:
            bc[s] = s[:-1]
        return f"out = ndx.{f}(x, y)", {"x": syms, "y": ys}, {"x": d, "y": d}, bc
    if k == "ew2" and False:
        pass
    if k == "bcast":
        ys = [s + "b" for s in syms][rnd.randint(0, r - 1):]
        for s in ys:
            bc[s] = s[:-1]
        impl = rnd.choice(["out = ndx.broadcast_arrays(x, y)", "out = ndx.broadcast_arrays(y, x)", "out = ndx.broadcast_to(y, nda.shape(x))",
                           "u_, v_ = ndx.broadcast_arrays(x, y); out = ndx.stack([u_, v_])"])
        return impl, {"x": syms, "y": ys}, {"x": d, "y": d}, bc
    if k == "reshape2":
        # a reshape that keeps the rank: (a, b) -> (-1, 2) / (2, -1) / (b, a); the run-time extents decide the result shape
        tgt = rnd.choice(["[-1, 2]", "[2, -1]", "[-1, 1]", "[1, -1]"])
        return f"out = ndx.reshape(x, {tgt})", {"x": ["R0", "R1"]}, {"x": d}, {"R0": ("oneof", [2, 4]), "R1": ("oneof", [1, 2, 3]), "nonempty": True}
    if k == "inplace_rank":
        # the rank of ONE lazy array object is read, then the object is re-pointed in place at a value of another rank
        # (reshape(copy=False) / _set), then a negative axis is normalised against it: nothing about the old rank may stick
        after = ["ndx.flip(y_, axis=-1)", "ndx.expand_dims(y_, axis=-1)", "ndx.roll(y_, 1, axis=-1)", "ndx.flip(y_, axis=-2)"]
        if not d.startswith("n"):
            after += ["ndx.concat([y_, y_], axis=-1)"]
        if num and not d.startswith("n"):
            after += ["ndx.sum(y_, axis=-1)", "ndx.cumulative_sum(y_, axis=-1)", "ndx.max(y_, axis=-1, keepdims=True)"]
        read = rnd.choice(["n0_ = y_.ndim", "n0_ = len(y_.shape)", "r0_ = ndx.flip(y_, axis=-1)", "r0_ = ndx.expand_dims(y_, axis=-1)"])
        if rnd.random() < 0.6:
            a = rnd.choice([a_ for a_ in after if "axis=-2" not in a_] + ["ndx.flip(y_, axis=-2)"])
            return f"y_ = x.copy(); {read}; y_ = ndx.reshape(y_, [-1, 2], copy=False); out = {a}", {"x": ["R0"]}, {"x": d}, {"R0": ("oneof", [2, 4, 6]), "nonempty": True}
        a = rnd.choice([a_ for a_ in after if "axis=-2" not in a_])
        return f"y_ = x.copy(); {read}; y_ = ndx.reshape(y_, [-1], copy=False); out = {a}", {"x": ["R0", "R1"]}, {"x": d}, {"R0": ("oneof", [1, 2, 3]), "R1": ("oneof", [1, 2]), "nonempty": True}
    if k == "ewconst":
        # a UNIFORM data-holding constant with several elements (all 1 / all 0 / all True / all False) against a placeholder
        # whose run-time extent is 1 or the constant's: the result always has the broadcast shape
        kk = rnd.choice([2, 3])
        if d.startswith("n"):
            return None
        npd = ops.base(d)
        if npd == "bool":
            f, v = rnd.choice([("logical_and", "True"), ("logical_or", "False"), ("logical_and", "False"), ("logical_xor", "False")])
        elif npd == "utf8":
            return None
        else:
            f, v = rnd.choice([("multiply", "1"), ("add", "0"), ("multiply", "0"), ("subtract", "0"), ("maximum" if False else "multiply", "1")])
        const = f"ndx.asarray(np.full([{kk}], {v}, dtype=np.{npd}))"
        args = rnd.choice([f"x, {const}", f"{const}, x"])
        lead = syms[:-1]
        return f"out = ndx.{f}({args})", {"x": lead + ["C0"]}, {"x": d}, {"C0": ("oneof", [1, kk])}
    if k == "mknull":
        # a mask (or nullable condition) of run-time extent 1 against values of any extent: one flag per element
        if not num or d.startswith("n"):
            return None
        ys = [s + "b" for s in syms][rnd.randint(0, r - 1):]
        for s in ys:
            bc[s] = s[:-1]
        impl = rnd.choice(["out = nda.make_nullable(x, y)", "r_ = nda.make_nullable(x, y); out = r_ + 1",
                           "c_ = nda.make_nullable(y, y); out = ndx.where(c_, x, x + 1)", "r_ = nda.make_nullable(x, y); out = nda.fill_null(r_, 7)"])
        return impl, {"x": syms, "y": ys}, {"x": d, "y": "bool"}, bc
    if k == "ew2mixed":
        # one nullable and one non-nullable operand; either may be the one that is broadcast up
        if not num or d.startswith("n"):
            return None
        f = rnd.choice(["add", "subtract", "multiply", "less", "equal"])
        ys = [s + "b" for s in syms][rnd.randint(0, r - 1):]
        for s in ys:
            bc[s] = s[:-1]
        dx, dy = rnd.choice([(d, "n" + d), ("n" + d, d)])
        args = rnd.choice(["x, y", "y, x"])
        return f"out = ndx.{f}({args})", {"x": syms, "y": ys}, {"x": dx, "y": dy}, bc
    if k == "reduce":
        if not num:
            return None
        f = rnd.choice(["sum", "prod", "max", "min", "mean"] if ops.base(d) in ops.FLOATS else ["sum", "prod", "max", "min"])
        ax = rnd.choice([None, rnd.randint(-r, r - 1), tuple(rnd.sample(range(r), rnd.randint(1, r)))])
        keep = rnd.random() < 0.5
        nonempty = f in ("max", "min", "mean")
        return f"out = ndx.{f}(x, axis={ax!r}, keepdims={keep})", {"x": syms}, {"x": d}, {"nonempty": nonempty}
    if k == "allany":
        f = rnd.choice(["all", "any"])
        ax = rnd.choice([None, rnd.randint(-r, r - 1)])
        return f"out = ndx.{f}(x, axis={ax!r}, keepdims={rnd.random() < 0.5})", {"x": syms}, {"x": d}, {}
    if k == "layout":
        perm = list(range(r)); rnd.shuffle(perm)
        impl = rnd.choice([f"out = ndx.permute_dims(x, {perm})", f"out = ndx.flip(x, axis={rnd.randint(-r, r - 1)})", "out = ndx.reshape(x, [-1])",
                           f"out = ndx.expand_dims(x, axis={rnd.randint(-r - 1, r)})", "out = ndx.broadcast_to(x, nda.shape(x))",
                           "out = ndx.stack([x, x], axis=0)", "out = x.copy(); out = out[..., None]"])
        return impl, {"x": syms}, {"x": d}, {}
    if k == "roll":
        return f"out = ndx.roll(x, {rnd.choice([1, -2, 7])}, axis={rnd.randint(-r, r - 1)})", {"x": syms}, {"x": d}, {"roll": True}
    if k == "getitem":
        items = []
        for _ in range(r):
            c = rnd.choice([None, 1, -1, 2, -2])
            a = rnd.choice([None, 0, 1, -1, -2]) if c is None or c > 0 else rnd.choice([None, -1, -2])
            b = rnd.choice([None, -1, 1, 2]) if c is None or c > 0 else rnd.choice([None])
            items.append(f"slice({a}, {b}, {c})")
        if rnd.random() < 0.3:
            items.insert(rnd.randint(0, len(items)), "None")
        return f"out = x[({', '.join(items)},)]", {"x": syms}, {"x": d}, {"slice_bounds": True}
    if k == "sort":
        if not num:
            return None
        f = rnd.choice(["sort", "argsort"])
        return f"out = ndx.{f}(x, axis={rnd.randint(-r, r - 1)}, descending={rnd.random() < 0.5})", {"x": syms}, {"x": d}, {"sort": True}
    if k == "cumsum":
        if not num or d.startswith("n"):
            return None
        return f"out = ndx.cumulative_sum(x, axis={rnd.randint(-r, r - 1)}, include_initial={rnd.random() < 0.4})", {"x": syms}, {"x": d}, {}
    if k == "where":
        ys = [s + "b" for s in syms]
        for s in ys:
            bc[s] = s[:-1]
        return "out = ndx.where(c, x, y)", {"c": syms, "x": syms, "y": ys}, {"c": "bool", "x": d, "y": d}, bc
    if k == "program":
        if not num:
            return None
        return "t = x * 2 + 1; u = ndx.sum(t, axis=-1, keepdims=True); out = ndx.where(t > u, t, u - t)", {"x": syms}, {"x": d}, {}
    if k == "unique":
        if not num or d.startswith("n"):
            return None
        return "r_ = ndx.unique_all(x); out = [r_.values, r_.indices, r_.inverse_indices, r_.counts]", {"x": syms}, {"x": d}, {"unique": True}
    if k == "matmul":
        if not num or r != 2 or d.startswith("n"):
            return None
        return "out = ndx.matmul(x, y)", {"x": ["A", "K"], "y": ["K", "B"]}, {"x": d, "y": d}, {}
    if k == "concat":
        if d.startswith("n"):
            return None
        ys = list(syms); ys[0] = "T0"
        return "out = ndx.concat([x, y], axis=0)", {"x": syms, "y": ys}, {"x": d, "y": d}, {}
    if k == "take_lazyidx":
        return "out = ndx.take(x, i, axis=0)", {"x": syms, "i": ["I0"]}, {"x": d, "i": "int64"}, {"take": True}
    return None


def instantiate(rnd, sigs, dts, cons, assign=None):
    env = dict(assign or {})
    def val(s):
        if s not in env:
            if s in cons and isinstance(cons[s], tuple) and cons[s][0] == "oneof":
                env[s] = rnd.choice(cons[s][1])
            elif s in cons and isinstance(cons[s], str):      # broadcast partner
                base = val(cons[s])
                env[s] = rnd.choice([base, 1]) if base != 0 or True else base
                if env[s] != base and base == 0:
                    env[s] = rnd.choice([0, 1])
            else:
                env[s] = rnd.choice(FREE)
        return env[s]
    shapes = {k: [val(s) for s in v] for k, v in sigs.items()}
    if cons.get("nonempty") and any(0 in sh for sh in shapes.values()):
        return None
    if cons.get("sort") and any(0 in sh for sh in shapes.values()):
        pass        # zero-size sort crashes the interpreter: that IS a C06 finding, keep it
    ins = {}
    for k, sh in shapes.items():
        if k == "i" and cons.get("take"):
            n0 = shapes["x"][0]
            if n0 == 0:
                ins[k] = {"dtype": "int64", "shape": [0], "data": []}
                shapes[k] = [0]
            else:
                ins[k] = {"dtype": "int64", "shape": sh, "data": [rnd.randint(-n0, n0 - 1) for _ in range(ops.prod(sh))]}
        else:
            ins[k] = ops.tensor(rnd, dts[k], sh, "small")
    return ins


def run(ctx):
    rnd = random.Random(ctx.seed)
    ctx.trusted += ["size-generic theorems of C08 (slice_1d: every extent < 2^62), C10 (axes_resolve / reduce: every rank and tensor), C11 (roll: every extent > 0, flip: every extent), C12 (sort: every length) — the graph is fixed by the signature, the theorems quantify over the extents"]
    ctx.not_discharged += ["that ONNX shape inference / spox never bake an observed extent into the graph is not modelled: sampled by running one build per signature on many shapes"]
    ctx.static_build()
    n_sig = 120 if ctx.tier == "quick" else 1500
    n_feed = 6 if ctx.tier == "quick" else 12
    cases = []
    tries = 0
    while len(cases) < n_sig and tries < n_sig * 20:
        tries += 1
        t = templates(rnd)
        if t is None:
            continue
        impl, sigs, dts, cons = t
        main = instantiate(rnd, sigs, dts, cons)
        if main is None:
            continue
        feeds = []
        for _ in range(n_feed * 3):
            fi = instantiate(rnd, sigs, dts, cons)
            if fi is not None:
                feeds.append(fi)
            if len(feeds) >= n_feed:
                break
        # the placeholder signature: symbolic names as written (shared symbols are shared), or None
        unknown = rnd.random() < 0.3
        sig = {k: [None if unknown and rnd.random() < 0.5 else s for s in v] for k, v in sigs.items()}
        c = {"id": f"Z-{len(cases)}", "inputs": main, "impl": impl, "oracle": None, "eager": True, "tol": [1e-5, 1e-6] if any(ops.base(d) in ops.FLOATS for d in dts.values()) else [0, 0],
             "meta": {"func": impl.split("ndx.")[1].split("(")[0] if "ndx." in impl else "getitem", "dtype": dts["x"], "dclass": family.dclass(dts["x"]), "template": impl[:60]},
             "lazy_subsets": [{"names": list(main), "sigs": sig, "feeds": feeds}], "eager_per_feed": True}
        cases.append(c)
    res = core.run_cases("harness.h_ops", cases, workers=14, per_case_timeout=300)
    nrun = 0
    for c in cases:
        r = res.get(c["id"])
        ctx.count(c["id"], nontrivial=True)
        if r is None or "crash" in r or "timeout" in r:
            a = family.attrs_of(c, "crash", "any")
            ctx.finding(a, f"{c['impl']}: interpreter crash/timeout while tracing or running ({r})", family.replay_of(c, r, "any"))
            continue
        if "handler_error" in r:
            ctx.broken_machinery.append(str(r)[:300])
            continue
        tr = (r.get("traced") or [None])[0]
        if tr is None:
            continue
        if "meta" not in tr:
            eg = r.get("eager")
            if eg and "ok" in eg:
                ctx.finding(family.attrs_of(c, "trace-raise", "traced"), f"{c['impl']}: evaluates on data but does not trace with signature {c['lazy_subsets'][0]['sigs']}: {tr.get('msg', '')[:120]}", family.replay_of(c, r, "traced"))
            continue
        for fs, ro in zip(c["lazy_subsets"][0]["feeds"], tr.get("runs", [])):
            run_, ref = ro.get("run"), ro.get("ref")
            if not ref or "ok" not in ref:
                continue        # the computation itself is not defined on this input
            nrun += 1
            shapes = {k: v["shape"] for k, v in fs.items()}
            cc = dict(c); cc["inputs"] = fs
            if not run_ or "ok" not in run_:
                ctx.finding(family.attrs_of(cc, "run-raise", "traced"), f"{c['impl']}: the model built for {c['lazy_subsets'][0]['sigs']} fails on shapes {shapes}: {str(run_)[:140]}", {"case": c["impl"], "sig": c["lazy_subsets"][0]["sigs"], "feed": fs, "model_run": run_, "eager": ref})
                continue
            why = ops.cmp_arrays(ref["ok"], run_["ok"], c["tol"][0], c["tol"][1])
            if why:
                ctx.finding(family.attrs_of(cc, "traced-" + why, "traced"), f"{c['impl']}: the model built for {c['lazy_subsets'][0]['sigs']} differs from eager evaluation on shapes {shapes} ({why})", {"case": c["impl"], "sig": c["lazy_subsets"][0]["sigs"], "feed": fs, "model_run": run_, "eager": ref})
    ctx.coverage["model_runs_compared"] = nrun
    ctx.sample({"impl": cases[0]["impl"], "sig": cases[0]["lazy_subsets"][0]["sigs"], "shapes_fed": [{k: v["shape"] for k, v in f.items()} for f in cases[0]["lazy_subsets"][0]["feeds"]]})
    f = ctx.work / "C06_static.v"
    f.write_text((core.COQ / "Props" / "C06.v").read_text())
    ctx.compile("Props/C06.v: the size-generic theorems (one graph, all extents) for slicing, reductions, roll, flip, sort", f, kind="theorem")
    ctx.coverage.update({"rule": "one build per placeholder signature (symbolic names shared between inputs where the computation needs it, or unknown dims), reused across 6 (quick) / 12 (thorough) concrete shape assignments drawn from {0,1,2,3,5,8} per free extent incl. extents that trigger broadcasting (a symbolic dim fed 1 against n); each run compared with eager evaluation of the same computation on that input. Templates: element-wise pairs, reductions, all/any, layout, roll, slicing, sort/argsort, cumulative_sum, where, unique_all, matmul, concat, take with a lazy index vector, a 3-operation program. Distinct by (template, signature)."})


def replay(ctx, path):
    run(ctx)
