"""C09 — writes update only their target: assignment semantics and no hidden aliasing."""
from __future__ import annotations

import random

from props import c08
from vlib import coqcorr, core, families, family, ops

LEVEL = "proof"

UNARY_FUNCS = ["abs", "negative", "positive", "square", "sign", "floor", "ceil", "round", "trunc", "isfinite", "isnan", "sqrt", "exp",
               "bitwise_invert", "logical_not"]
LAYOUT = ["ndx.reshape(a, [-1])", "ndx.reshape(a, [-1], copy=True)", "ndx.flip(a)", "ndx.roll(a, 1)", "ndx.expand_dims(a, 0)", "ndx.permute_dims(a, list(range(a.ndim))[::-1])",
          "ndx.broadcast_to(a, nda.shape(a))", "ndx.squeeze(ndx.expand_dims(a, 0), 0)", "a[...]", "a[::1]", "ndx.asarray(a, copy=True)", "a.copy()",
          "nda.shape(a)", "nda.shape(a) + 0", "ndx.astype(a, a.dtype)", "ndx.astype(a, ndx.float64)", "ndx.astype(a, ndx.nfloat64)", "ndx.astype(a, ndx.nint64)", "ndx.concat([a, a])", "ndx.stack([a, a])", "ndx.take(a, ndx.asarray(np.array([0])), axis=0)",
          "ndx.where(a == a, a, a)", "ndx.sort(a)", "ndx.cumulative_sum(a, axis=0)", "ndx.sum(a, axis=0, keepdims=True)", "ndx.max(a, axis=0, keepdims=True)",
          "ndx.broadcast_arrays(a, a)[0]", "ndx.unique_values(a)", "ndx.clip(a, min=0, max=2)", "ndx.tril(ndx.reshape(a, [1, -1]))", "a + 0", "a * 1", "ndx.add(a, a)",
          "ndx.logical_and(a > 0, True)", "ndx.logical_or(a > 0, False)",
          # identity shortcuts applied to the argument itself (boolean arrays): the result must still be a new value
          "ndx.logical_and(a, True)", "ndx.logical_and(True, a)", "ndx.logical_or(a, False)", "ndx.logical_or(False, a)", "a & True", "False | a",
          "ndx.logical_and(a, ndx.asarray(np.array([True])))", "ndx.logical_or(ndx.asarray(np.array(False)), a)", "ndx.logical_xor(a, False)",
          "ndx.where(ndx.asarray(np.array(True)), a, a)", "ndx.where(ndx.asarray(np.array([False])), a, a)", "ndx.full_like(a, 1)", "ndx.zeros_like(a)", "ndx.matrix_transpose(ndx.reshape(a, [1, -1]))"]


def alias_cases(rnd):
    cases = []
    exprs = [f"ndx.{f}(a)" for f in UNARY_FUNCS] + LAYOUT
    for e in exprs:
        for d in ("int64", "float64", "bool", "nint32"):
            bool_only = any(t in e for t in ("logical_and(a,", "logical_and(True", "logical_or(a,", "logical_or(False", "a & True", "False | a", "logical_or(ndx.asarray", "logical_xor(a"))
            if bool_only and d != "bool":
                continue
            if d == "bool" and not bool_only and not any(t in e for t in ("logical_not", "bitwise_invert", "reshape", "flip", "expand", "a[", "copy", "concat", "stack", "permute", "where", "broadcast", "astype(a, a.dtype)", "take", "squeeze")):
                continue
            if d != "bool" and any(t in e for t in ("logical_not",)):
                continue
            if d in ("float64",) and "bitwise" in e:
                continue
            if d.startswith("n") and any(t in e for t in ("concat", "stack", "unique", "sort", "cumulative", "tril", "matrix_transpose", "clip")):
                continue
            a = ops.tensor(rnd, d, [3], "small", mask="random")
            wr = {"bool": "True", "float64": "7.5"}.get(ops.base(d), "7")
            for direction in ("mutate-result", "mutate-argument", "mutate-sibling"):
                if direction == "mutate-result":
                    impl = f"a0 = a.copy(); b = {e}; b[...] = {wr}; out = [a, a0]"
                elif direction == "mutate-argument":
                    impl = f"b = {e}; b0 = b.copy(); a[...] = {wr}; out = [b, b0]"
                else:
                    # two results of the same call on the same argument are independent arrays
                    wr2 = "1" if "nda.shape" in e else wr
                    impl = f"b = {e}; c_ = {e}; c0 = c_.copy(); b[...] = {wr2}; out = [c_, c0]"
                cases.append({"id": f"A-{len(cases)}", "inputs": {"a": a}, "impl": impl, "oracle": None, "eager": True, "lazy_subsets": [],
                              "meta": {"func": e.split("(")[0].replace("ndx.", ""), "expr": e, "dtype": d, "dclass": family.dclass(d), "direction": direction}})
    return cases


def history_cases(rnd, n, steps):
    cases = []
    for i in range(n):
        d = rnd.choice(["int64", "float64", "int32", "nint64"])
        pool = [ops.tensor(rnd, d, [rnd.choice([2, 3]), 2] if rnd.random() < 0.5 else [4], "small") for _ in range(4)]
        st = []
        for _ in range(steps):
            a, b = rnd.randrange(4), rnd.randrange(4)
            c = rnd.random()
            if c < 0.2:
                f = rnd.choice(["abs", "negative", "square", "floor", "positive"])
                npf = {"floor": "np.floor", "abs": "np.abs", "negative": "np.negative", "square": "np.square", "positive": "np.positive"}[f]
                st.append({"impl": f"p[{a}] = ndx.{f}(p[{b}])", "shadow": f"q[{a}] = lay(lambda x: {npf}(x), q[{b}]) if False else mk({npf}(data(q[{b}])), mask(q[{b}])) if isinstance(q[{b}], np.ma.MaskedArray) else {npf}(q[{b}])"})
            elif c < 0.3:
                st.append({"impl": f"p[{a}] = p[{b}].copy()", "shadow": f"q[{a}] = q[{b}].copy()"})
            elif c < 0.55:
                idx = rnd.choice(["(0, ...)", "(-1, ...)", "...", "(slice(None, None, 2), ...)", "(slice(1, None, None), ...)", "(..., 0)"])
                v = rnd.randint(-9, 9)
                st.append({"impl": f"p[{a}][{idx}] = {v}", "shadow": f"q[{a}][{idx}] = {v}"})
            elif c < 0.7:
                op = rnd.choice(["+=", "-=", "*="])
                v = rnd.randint(1, 3)
                st.append({"impl": f"p[{a}] {op} {v}", "shadow": f"q[{a}] = q[{a}] {op[0]} {v}"})
            elif c < 0.8:
                st.append({"impl": f"p[{a}] = ndx.reshape(p[{b}], [-1])", "shadow": f"q[{a}] = lay(lambda x: np.reshape(x, [-1]).copy(), q[{b}])"})
            elif c < 0.86:
                st.append({"impl": f"p[{a}] = ndx.astype(p[{b}], p[{b}].dtype)", "shadow": f"q[{a}] = q[{b}].copy()"})
            elif c < 0.9:
                # two casts of one source with a write to the first result in between
                c2 = rnd.randrange(4)
                t_ = "float32" if d != "float32" else "float64"
                nt = ("ndx.n" if ops.nullable(d) else "ndx.") + t_
                v = rnd.randint(-9, 9)
                st.append({"impl": f"p[{a}] = ndx.astype(p[{b}], {nt}); p[{a}][...] = {v}; p[{c2}] = ndx.astype(p[{b}], {nt})" if a != b else f"p[{c2}] = ndx.astype(p[{b}], {nt})",
                           "shadow": (f"s_ = q[{b}].astype(np.{t_}); q[{a}] = s_.copy(); q[{a}][...] = {v}; q[{c2}] = s_.copy()" if a != b else f"q[{c2}] = q[{b}].astype(np.{t_})")})
            else:
                st.append({"impl": f"p[{a}] = ndx.flip(p[{b}])", "shadow": f"q[{a}] = lay(lambda x: np.flip(x).copy(), q[{b}])"})
        cases.append({"id": f"H-{i}", "pool": pool, "steps": st, "dtype": d})
    return cases


def in_coq_setitem(ctx, rnd, n):
    cases = []
    while len(cases) < n:
        sh = [rnd.choice([0, 1, 2, 3, 4]) for _ in range(rnd.randint(0, 3))]
        items = c08.rand_items(rnd, sh)
        if items is None:
            continue
        v = rnd.randint(-50, -1)
        tup = "(" + ", ".join(c08.py_item(i) for i in items) + ("," if len(items) == 1 else "") + ")"
        x = {"dtype": "int64", "shape": sh, "data": list(range(ops.prod(sh)))}
        cases.append({"id": f"wc-{len(cases)}", "inputs": {"x": x}, "impl": f"y = x.copy(); y[{tup}] = {v}; out = [y, x]", "oracle": None, "eager": True, "lazy_subsets": [],
                      "meta": {"func": "setitem", "form": "basic-scalar", "dtype": "int64", "dclass": "int", "rank0": not sh}, "items": items, "v": v})
    res = core.run_cases("harness.h_ops", cases, workers=14, per_case_timeout=120)
    lines, kept = [], []
    for c in cases:
        r = res.get(c["id"]) or {}
        e = r.get("eager")
        if e is None:
            continue
        if "ok" in e and "tuple" in e["ok"]:
            y, x = e["ok"]["tuple"]
            if x["data"] != c["inputs"]["x"]["data"]:
                ctx.finding(family.attrs_of(c, "argument-modified", "eager"), f"{c['impl']}: the assignment to the copy changed the original array", family.replay_of(c, r, "eager"))
            out = "GOk [%s] [%s]" % ("; ".join(map(str, y["shape"])), "; ".join(f"({v})%Z" for v in y["data"]))
        elif "raise" in e:
            out = {"IE": "GIndexError", "TE": "GTypeError"}.get(e["raise"], "GRuntime")
        else:
            out = "GOtherExn"
        lines.append("  {| w_shape := [%s]; w_index := [%s]; w_value := (%d)%%Z; w_out := %s |}" % ("; ".join(map(str, c["inputs"]["x"]["shape"])), "; ".join(c08.coq_item(i) for i in c["items"]), c["v"], out))
        kept.append((c, r))
        ctx.count(("wc", c["impl"], str(c["inputs"]["x"]["shape"])), nontrivial=True)
    header = "From Coq Require Import List ZArith String Bool Arith.\nFrom ND Require Import Base.Tensor Ndx.Index Ndx.GetItem Ndx.SetItem Ndx.SetItemCorr Ndx.ReduceCorr Ndx.GetItemCorr.\nImport ListNotations.\nLocal Open Scope nat_scope.\n"

    def on_bad(i):
        c, r = kept[i]
        return ctx.finding(family.attrs_of(c, "model-mismatch", "eager"), f"{c['impl']} on shape {c['inputs']['x']['shape']}: {str(r.get('eager'))[:200]} differs from the ScatterND model (selected elements := v, all others unchanged)", family.replay_of(c, r, "eager"))
    coqcorr.run(ctx, "CorrSetItem.v", f"T-io (in Coq): x[index] = scalar for random basic index tuples (ranks 0-3, extents 0-4) == model scatter over the selected index grid, {len(kept)} cases",
                header, "wcase", lines, "wcase_ok", on_bad)
    if kept:
        ctx.sample({"impl": kept[0][0]["impl"], "shape": kept[0][0]["inputs"]["x"]["shape"], "observed": kept[0][1].get("eager")})


def run(ctx):
    rnd = random.Random(ctx.seed)
    ctx.trusted += ["coq/Ndx/SetItem.v `scatter` as the semantics of ONNX ScatterND over getitem(ndindex(shape), index) (validated by the in-Coq correspondence)",
                    "coq/Machine/Machine.v heap model for aliasing (tied by the census and by the alias table / histories)"]
    ctx.assumes += ["documented exceptions modelled as aliasing on purpose: asarray(x) without copy=True, astype(copy=False), reshape(copy=False), .values/.null",
                    "`a op= v` equals `a = a op v` (the property's wording)"]
    ctx.static_build()
    in_coq_setitem(ctx, rnd, 500 if ctx.tier == "quick" else 5000)
    # NumPy sweep over assignment forms
    cases = families.setitem_cases(rnd, 500 if ctx.tier == "quick" else 5000)
    family.evaluate(ctx, cases, want=("oracle",))
    # writes that mix data-holding targets with placeholder values / indices: the written array and everything
    # derived from it afterwards must see the write (exported model run == eager evaluation)
    mixed = families.mixed_write_cases(rnd, 60 if ctx.tier == "quick" else 600)
    family.evaluate(ctx, mixed, want=("traced",))
    # augmented operators == out-of-place form, also when the other operand promotes the result to another dtype
    aug = []
    for i in range(40 if ctx.tier == "quick" else 400):
        d = rnd.choice(["int64", "int32", "uint8", "float32", "nint64", "int16"])
        sh = [rnd.choice([1, 2, 3])]
        a = ops.tensor(rnd, d, sh, "small")
        other = rnd.choice(["0.5", "2", "ndx.asarray(np.array([1.5], dtype=np.float64))", "ndx.asarray(np.array([3], dtype=np.int64))", "ndx.asarray(np.array([2], dtype=np.int16))", "1.0"])
        sym = rnd.choice(["+", "-", "*"])
        impl = f"t = a.copy(); t {sym}= {other}; out = [t, a {sym} {other}, a]"
        aug.append({"id": f"AU-{i}", "inputs": {"a": a}, "impl": impl, "oracle": None, "eager": True, "lazy_subsets": [{"names": ["a"]}],
                    "meta": {"func": "augmented", "dtype": d, "dclass": family.dclass(d), "other": other, "op": sym}})
    ares = core.run_cases("harness.h_ops", aug, workers=14, per_case_timeout=120)
    for c in aug:
        r = ares.get(c["id"]) or {}
        ctx.count(("aug", c["impl"], c["meta"]["dtype"]), nontrivial=True)
        outs = [("eager", (r.get("eager") or {}).get("ok"))] + [("traced", run_.get("ok")) for t in r.get("traced", []) for run_ in t.get("runs", [])]
        for mode, o in outs:
            if not o or "tuple" not in o:
                continue
            t_, e_, _a = o["tuple"]
            why = ops.cmp_arrays(t_, e_)
            if why:
                ctx.finding({"func": "augmented", "kind": "differs-from-out-of-place", "dtype": c["meta"]["dtype"], "why": why, "mode": mode},
                            f"`t {c['meta']['op']}= {c['meta']['other']}` on {c['meta']['dtype']} ({mode}): {str(t_)[:90]} but `a {c['meta']['op']} {c['meta']['other']}` is {str(e_)[:90]} ({why})", family.replay_of(c, r, mode))
    # alias table
    ac = alias_cases(rnd)
    res = core.run_cases("harness.h_ops", ac, workers=14, per_case_timeout=120)
    n_alias = 0
    for c in ac:
        r = res.get(c["id"]) or {}
        e = r.get("eager")
        ctx.count(("alias", c["impl"], c["meta"]["dtype"]), nontrivial=True)
        if not e or "ok" not in e:
            continue            # the function is not defined for this dtype (other properties)
        n_alias += 1
        x, x0 = e["ok"]["tuple"]
        if ops.cmp_arrays(x, x0, erase_masked=False) is not None:
            what = {"mutate-result": "modifying the result changed the argument", "mutate-argument": "modifying the argument changed a result obtained earlier",
                    "mutate-sibling": "modifying one result changed another result of the same call"}[c["meta"]["direction"]]
            ctx.finding({"func": c["meta"]["func"], "expr": c["meta"]["expr"], "dtype": c["meta"]["dtype"], "dclass": c["meta"]["dclass"], "kind": "alias", "direction": c["meta"]["direction"]},
                        f"b = {c['meta']['expr']}: {what} ({c['meta']['dtype']})", family.replay_of(c, r, "eager"))
    ctx.coverage["alias_table_rows"] = n_alias
    # histories
    hc = history_cases(rnd, 120 if ctx.tier == "quick" else 1500, 20 if ctx.tier == "quick" else 40)
    hres = core.run_cases("harness.h_hist", hc, workers=14, per_case_timeout=600)
    for c in hc:
        r = hres.get(c["id"]) or {}
        ctx.count(c["id"], nontrivial=True)
        if "log" not in r:
            ctx.finding({"func": "history", "kind": "crash", "dtype": c["dtype"]}, f"history worker outcome {str(r)[:200]}", {"history": c, "outcome": r})
            continue
        for entry in r["log"]:
            if entry.get("diverged"):
                ctx.finding({"func": "history", "kind": "raises", "dtype": c["dtype"], "step_impl": entry["impl"].split("=")[0][:20]},
                            f"history step {entry['step']} `{entry['impl']}`: ndonnx {entry['ri']}, NumPy model {entry['rs']}", {"pool": c["pool"], "steps": c["steps"][:entry["step"] + 1], "log": entry})
                break
            bad = None
            for j, (ea, eb) in enumerate(entry.get("pool", [])):
                if ops.cmp_arrays(eb, ea, 1e-9, 1e-12, check_dtype=False):
                    bad = j
                    break
            if bad is not None:
                ctx.finding({"func": "history", "kind": "value", "dtype": c["dtype"]},
                            f"after step {entry['step']} `{entry['impl']}` array p[{bad}] differs from the NumPy model with independent copies", {"pool": c["pool"], "steps": c["steps"][:entry["step"] + 1], "observed": entry["pool"][bad]})
                break
    ctx.sample({"history": [s["impl"] for s in hc[0]["steps"][:8]], "pool_shapes": [t["shape"] for t in hc[0]["pool"]]})
    ctx.sample({"alias_row": ac[5]["impl"]})
    f = ctx.work / "C09_static.v"
    f.write_text((core.COQ / "Props" / "C09.v").read_text())
    ctx.compile("Props/C09.v: assignment frame/target/shape on the ScatterND model; C09_setitem_nd: for every tensor, rank and basic index tuple x[index] = v writes exactly the elements NumPy addresses (k-th addressed element := k-th update, addressed positions pairwise distinct) and nothing else; heap frame through whole programs (no instruction but an in-place update of l changes l)", f, kind="theorem")
    ctx.coverage.update({"rule": "in-Coq correspondence of x[index] = scalar on token tensors; NumPy sweep over scalar/array/mask assignment and augmented operators for 7 dtypes; alias table: ~45 public functions/expressions x 4 dtype classes x {mutate result, mutate argument}; random histories (4-array pool, 20/40 steps: f(a), copy, indexed assignment, op=, reshape, astype, flip) against a NumPy model with independent copies, every array compared after every step. Distinct by canonical case / history."})


def replay(ctx, path):
    run(ctx)
