"""C04 — nulls propagate by the masking rule and null payloads never leak."""
from __future__ import annotations

import copy
import random

from vlib import core, elem, families, family, ops

LEVEL = "proof"
NDT = ["nint8", "nint32", "nint64", "nuint8", "nuint64", "nfloat32", "nfloat64", "nbool", "nutf8"]


def payload_variant(case, which, rnd):
    """Same values and masks, different payload under the nulls."""
    c = copy.deepcopy(case)
    c["id"] = case["id"] + f"-p{which}"
    for t in c["inputs"].values():
        if "mask" not in t:
            continue
        b = ops.base(t["dtype"])
        if b == "bool":
            p = [False, True, True][which]
        elif b == "utf8":
            p = ["s:", "s:zz", "s:payload"][which]
        elif b in ops.FLOATS:
            # the second variant is finite, NaN or infinite: a payload must not leak through 0 * payload either
            alt = random.Random(case["id"]).choice([ops.fhex(7.5), "nan", ops.fhex(float("inf")), ops.fhex(float("-inf")), ops.fhex(ops.f32(-1e30))])
            p = [ops.fhex(0.0), alt, ops.fhex(ops.f32(-1e30))][which]
        else:
            lo, hi = ops.IINFO[b]
            p = [0, 7, hi][which]
        t["data"] = [p if m else d for d, m in zip(t["data"], t["mask"])]
    return c


def other_cases(rnd, n, prefix="N"):
    """where / fill_null / make_nullable / isin / astype / getitem on nullable data."""
    out = []
    kinds = ["where", "where_nullcond", "fill_null", "make_nullable", "isin", "astype", "getitem", "mean", "sort", "matmul", "minmax", "clip", "fill_inplace"]
    i = 0
    while len(out) < n:
        k = kinds[i % len(kinds)]
        i += 1
        d = rnd.choice(NDT)
        b = ops.base(d)
        sh = ops.rand_shape(rnd, 2, 0.1, (1, 2, 3, 4), min_rank=1)
        x = ops.tensor(rnd, d, sh, "small")
        meta = {"func": k, "dtype": d, "dclass": family.dclass(d)}
        cid = f"{prefix}-{len(out)}-{k}"
        if k == "where":
            y = ops.tensor(rnd, d, sh, "small")
            c = ops.tensor(rnd, "bool", sh)
            out.append(families.mkcase(cid, {"c": c, "x": x, "y": y}, "out = ndx.where(c, x, y)",
                                       "out = mk(np.where(c, data(x), data(y)), np.where(c, mask(x), mask(y)))", meta, rnd))
        elif k == "where_nullcond":
            y = ops.tensor(rnd, d, sh, "small")
            c = ops.tensor(rnd, "nbool", sh)
            # sometimes x == y everywhere (the shortcut path)
            if rnd.random() < 0.4:
                y = copy.deepcopy(x)
            out.append(families.mkcase(cid, {"c": c, "x": x, "y": y}, "out = ndx.where(c, x, y)",
                                       "out = mk(np.where(data(c), data(x), data(y)), mask(c) | np.where(data(c), mask(x), mask(y)))", meta, rnd))
        elif k == "fill_null":
            fill = {"bool": "True", "utf8": "'f'"}.get(b, "3")
            out.append(families.mkcase(cid, {"x": x}, f"out = nda.fill_null(x, {fill})",
                                       f"out = np.where(mask(x), np.asarray({fill}, dtype=data(x).dtype), data(x))", meta, rnd))
        elif k == "fill_inplace":
            # the usual in-place idiom: overwrite the nulls of a computed result through its own null field
            if b in ("bool", "utf8"):
                continue
            expr, nexpr = rnd.choice([("x + 1", "data(x) + 1"), ("x * 2", "data(x) * 2"), ("ndx.abs(x)", "np.abs(data(x))"), ("x - x", "data(x) - data(x)"),
                                      ("ndx.where(x == x, x, x)", "data(x)"), ("x.copy()", "data(x)")])
            form = rnd.choice(["y = {e}; y[y.null] = 3; out = y", "y = {e}; m_ = y.null; y[m_] = 3; out = [y, y + 0]"])
            orc = f"v_ = ({nexpr}).astype(data(x).dtype); r_ = mk(np.where(mask(x), np.asarray(3, dtype=v_.dtype), v_), np.zeros(v_.shape, dtype=bool)); out = r_" + ("" if "out = y" in form and "[y," not in form else "; out = [r_, r_]")
            out.append(families.mkcase(cid, {"x": x}, form.format(e=expr), orc, meta, rnd, check_dtype=False, erase_masked=False))
        elif k == "make_nullable":
            v = ops.tensor(rnd, b, sh, "small")
            msh = [1 if rnd.random() < 0.4 else s for s in sh][rnd.randint(0, len(sh)):]
            m = ops.tensor(rnd, "bool", msh)
            out.append(families.mkcase(cid, {"v": v, "m": m}, "out = nda.make_nullable(v, m)", "out = mk(v, m)", meta, rnd))
        elif k == "isin":
            if b in ("bool",) or b in ops.FLOATS:
                continue
            items = ["'a'", "'xyz'"] if b == "utf8" else ["1", "3", "-2" if not b.startswith("u") else "5"]
            out.append(families.mkcase(cid, {"x": x}, f"out = nda.isin(x, [{', '.join(items)}])",
                                       f"out = np.isin(data(x), [{', '.join(items)}]) & ~mask(x)", meta, rnd))
        elif k == "astype":
            tgt = rnd.choice([t for t in NDT if (ops.base(t) == "utf8") == (b == "utf8")])
            if b in ops.FLOATS and ops.base(tgt) in ops.INTS:
                continue
            npd = "np.str_" if ops.base(tgt) == "utf8" else "np." + ops.base(tgt)
            meta["dst"] = tgt
            if b in ops.INTS and ops.base(tgt) in ops.INTS:
                lo, hi = ops.IINFO[ops.base(tgt)]
                x["data"] = [max(lo, min(hi, v)) if not isinstance(v, bool) else v for v in x["data"]]
            out.append(families.mkcase(cid, {"x": x}, f"out = x.astype(ndx.{tgt})", f"out = mk(data(x).astype({npd}), mask(x))", meta, rnd))
        elif k == "getitem":
            src = families.idx_src(families.rand_index(rnd, sh))
            out.append(families.mkcase(cid, {"x": x}, f"out = x[{src}]", f"out = lay(lambda a_: a_[{src}], x)", meta, rnd))
        elif k == "mean":
            if b not in ops.FLOATS:
                continue
            if not any(not m for m in x["mask"]):
                continue
            out.append(families.mkcase(cid, {"x": x}, "out = ndx.mean(x)", "out = np.ma.masked_array(data(x), mask=mask(x)).mean()", meta, rnd, (1e-5, 1e-6), check_dtype=False))
        elif k == "sort":
            if b in ("bool", "utf8") or len(sh) != 1:
                continue
            out.append(families.mkcase(cid, {"x": x}, "out = ndx.sort(x)", None, meta, rnd))
        elif k == "matmul":
            if b in ("bool", "utf8"):
                continue
            a = ops.tensor(rnd, d, [2, 3], "small")
            bb = ops.tensor(rnd, d, [3, 2], "small")
            out.append(families.mkcase(cid, {"x": a, "y": bb}, "out = ndx.matmul(x, y)", None, meta, rnd))
        elif k == "minmax":
            if b in ("bool", "utf8"):
                continue
            if not any(not m for m in x["mask"]):
                continue
            f = rnd.choice(["min", "max"])
            meta["func"] = f
            out.append(families.mkcase(cid, {"x": x}, f"out = ndx.{f}(x)", f"out = np.ma.masked_array(data(x), mask=mask(x)).{f}()", meta, rnd, check_dtype=False))
        elif k == "clip":
            if b in ("bool", "utf8"):
                continue
            out.append(families.mkcase(cid, {"x": x}, "out = ndx.clip(x, min=-1, max=2)", "out = mk(np.clip(data(x), -1, 2), mask(x))", meta, rnd))
    return out


def run(ctx):
    rnd = random.Random(ctx.seed)
    ctx.trusted += ["tools/translate/gen_elem.py + tools/harness/h_graph.py (ONNX graph -> fexpr)",
                    "coq/Ndx/ElemSem.v (element-wise operator semantics; point-wise: an output element depends on the operand elements at the same broadcast position only)"]
    ctx.not_discharged += ["masking rule of sorting, matmul, where, mean/var/std on nullable input: correspondence runs with payload pairs only (sum/prod/min/max/all/any: theorem, tied to the source by T-src; indexing and the one-operand layout functions: naturality theorems of the model's operators)"]
    ctx.static_build()
    specs, out, unsup = elem.gen_table(ctx)
    src = ("From Coq Require Import List Bool String.\nFrom ND Require Import Base.Dtype Ndx.ElemSyntax Ndx.ElemLaws Ndx.MaskRule.\nFrom G Require Import GenElem.\n"
           "Import ListNotations.\n"
           'Eval vm_compute in ("VIOL"%string, indices_where (fun r => negb (c04_row_ok r)) GenElem.table 0).\n'
           "Theorem C04_every_regenerated_row_obeys_the_mask_rule : forallb c04_row_ok GenElem.table = true.\n"
           "Proof. vm_compute. reflexivity. Qed.\n")
    f = ctx.work / "C04_gen.v"
    f.write_text(src)
    ok, o = ctx.compile("C04_every_regenerated_row_obeys_the_mask_rule: decision procedure (all mask bits x all values of data-dependent sub-expressions) on every row regenerated from /repo", f, kind="theorem")
    if not ok:
        import re
        flat = re.sub(r"\s+", " ", o)
        m = re.search(r'\("VIOL"(?:%string)?, \[(.*?)\]\)', flat)
        viol = [int(x) for x in re.findall(r"\d+", m.group(1))] if m else []
        elem.report_rows(ctx, specs, out, viol, "C04 mask rule (output null iff some nullable operand null, for all data and payloads)")
    f = ctx.work / "C04_static.v"
    f.write_text((core.COQ / "Props" / "C04.v").read_text())
    ctx.compile("Props/C04.v: soundness of the decision procedure w.r.t. the evaluator; the rule on the model table", f, kind="theorem")

    # ---- T-src: the null fill of every reduction, as the source reads now -----------------------------------
    from translate import gen_src
    try:
        (ctx.work / "GenNullFill.v").write_text(gen_src.emit_null_fills(gen_src.null_fills()))
        okg, _ = ctx.compile("T-src: GenNullFill.v (the statement `x = where(x.null, FILL, x.values)` of sum/prod/min/max/all/any extracted from _numericimpl.py) compiles", ctx.work / "GenNullFill.v")
        t = ctx.work / "TieNullFill.v"
        t.write_text((core.VERIF / "tools/templates/TieNullFill.v").read_text())
        ctx.compile("C04_*_skips_nulls_as_written: the fills extracted from the source equal the model's (sum 0, prod 1, min type-max, max type-min, all True, any False); with them every reduction of a nullable array equals the reduction over the non-null values, for all values, masks and payloads", t, kind="theorem")
    except gen_src.Untranslatable as e:
        ctx.obligation("T-src: null handling of the reductions inside the translator's whitelist (`x = ndx.where(x.null, FILL, x.values)` under an isinstance guard, no other read of x.null / x.values)", False, str(e), "tie")
    ctx.translator_inputs["ndonnx/_core/_numericimpl.py"] = core.sha256_file(core.REPO / "ndonnx/_core/_numericimpl.py")

    # ---- payload pairs (T-io) -----------------------------------------------------------------
    scale = 1 if ctx.tier == "quick" else 8
    base = (families.elementwise_cases(rnd, 260 * scale, prefix="NE", nullable_p=1.0, styles=("small", "boundary"))
            + families.reduction_cases(rnd, 140 * scale, prefix="NR", nullable_p=1.0, funcs=["sum", "prod", "all", "any"], max_rank=3)
            + families.layout_cases(rnd, 120 * scale, prefix="NL", dtypes=NDT, max_rank=3)
            + other_cases(rnd, 240 * scale))
    dyn = []
    for i in range(40 * scale):
        # the mask / nullable condition has run-time extent 1 where the values have extent n, and no extent is known
        # at trace time: the result must still carry one null flag per element
        d = rnd.choice(["int64", "float64", "int32"])
        r = rnd.randint(1, 2)
        vs = [rnd.choice([2, 3, 4]) for _ in range(r)]
        ms = [1 if rnd.random() < 0.6 else n_ for n_ in vs]
        v = ops.tensor(rnd, d, vs, "small")
        m = ops.tensor(rnd, "bool", ms)
        form, orc = rnd.choice([("out = nda.make_nullable(v, m)", "out = mk(v, np.broadcast_to(m, v.shape))"),
                                ("r_ = nda.make_nullable(v, m); out = r_ + 1", "out = mk(v + 1, np.broadcast_to(m, v.shape))"),
                                ("c_ = nda.make_nullable(m, m); out = ndx.where(c_, v, v + 1)", "out = mk(np.where(np.broadcast_to(m, v.shape), v, v + 1), np.broadcast_to(m, v.shape))")])
        c = families.mkcase(f"ND-{i}", {"v": v, "m": m}, form, orc, {"func": "make_nullable-dynamic", "dtype": "n" + d, "dclass": family.dclass("n" + d)}, rnd)
        c["lazy_subsets"] = [{"names": ["v", "m"], "sigs": {"v": [None] * r, "m": [None] * r}}]
        c["keep_lazy"] = True
        dyn.append(c)
    base += dyn
    cases = []
    for c in base:
        if not c.get("keep_lazy"):
            c["lazy_subsets"] = c["lazy_subsets"][:1] if rnd.random() < 0.35 else []
        if c["id"].startswith(("NE", "NL")):
            c["plain"] = True
        for w in (0, 1):
            cases.append(payload_variant(c, w, rnd))
    res = core.run_cases("harness.h_ops", cases, workers=14, per_case_timeout=120)
    SKIP_PAYLOAD = {"tril", "triu"}     # documented: act on the plain values of nullable input
    for c in cases:
        r = res.get(c["id"])
        ctx.count(c["id"], nontrivial=any(ops.prod(t["shape"]) >= 1 for t in c["inputs"].values()))
        if r is None or "crash" in r or "timeout" in r:
            a = family.attrs_of(c, "crash", "any")
            ctx.finding(a, f"{c['meta']['func']}: interpreter crash/timeout on nullable input ({r})", family.replay_of(c, r, "any"))
            continue
        if "handler_error" in r:
            ctx.broken_machinery.append(f"handler error {c['id']}: {r}")
            continue
        orc, eg = r.get("oracle"), r.get("eager")
        ref = eg["ok"] if eg and "ok" in eg else None
        # mask rule and non-null values against the NumPy statement of the rule (values: loose
        # tolerance, accuracy is C02's business; dtype and unsupported operations are C03/C11's)
        pl = r.get("plain")
        if pl and "ok" in pl and ref is not None and "mask" in ref and "data" in pl["ok"] and len(pl["ok"]["data"]) == len(ref["data"]):
            # non-null outputs == the same ndonnx operation on the plain values (exact)
            for dv, pv, m in zip(ref["data"], pl["ok"]["data"], ref["mask"]):
                if not m and dv != pv and not ops.vals_close(dv, pv, ref["dtype"], 1e-6, 0.0):
                    ctx.finding(family.attrs_of(c, "value-vs-plain", "eager"), f"{c['meta']['func']} on {c['meta']['dtype']}: a non-null output differs from the operation on the plain values", family.replay_of(c, r, "eager"))
                    break
        if orc and "ok" in orc and ref is not None and c["meta"]["func"] not in SKIP_PAYLOAD:
            why = ops.cmp_arrays(orc["ok"], ref, 1e-3, 1e-6, check_dtype=False)
            if why == "value" and pl and "ok" in pl:
                why = None      # values are judged against the plain operation above
            if why in ("mask", "shape", "arity") or (why == "value" and not ops.is_float_d(c["meta"]["dtype"])):
                ctx.finding(family.attrs_of(c, why, "eager"), f"{c['meta']['func']} on {c['meta']['dtype']}: {why} differs from the masking rule", family.replay_of(c, r, "eager"))
            elif why == "value":
                ctx.finding(family.attrs_of(c, "value", "eager"), f"{c['meta']['func']} on {c['meta']['dtype']}: non-null value differs from the plain operation (beyond 1e-3)", family.replay_of(c, r, "eager"))
        for sub, tr in zip(c.get("lazy_subsets", []), r.get("traced", [])):
            for run_ in tr.get("runs", []) if isinstance(tr, dict) else []:
                if ref is not None and "ok" in run_:
                    why = ops.cmp_arrays(ref, run_["ok"], 1e-5, 1e-7)
                    if why:
                        ctx.finding(family.attrs_of(c, "traced-" + why, "traced"), f"{c['meta']['func']} on {c['meta']['dtype']}: exported model differs from eager ({why})", family.replay_of(c, r, "traced"))
                elif ref is not None and "raise" in run_:
                    ctx.finding(family.attrs_of(c, "run-raise", "traced"), f"{c['meta']['func']} on {c['meta']['dtype']}: evaluates eagerly but the exported model fails at run time ({str(run_.get('msg'))[:140]})", family.replay_of(c, r, "traced"))
    # payload independence: variant 0 vs variant 1, masked payloads of the OUTPUT erased
    for c in base:
        if c["meta"]["func"] in SKIP_PAYLOAD:
            continue
        r0, r1 = res.get(c["id"] + "-p0"), res.get(c["id"] + "-p1")
        if not r0 or not r1:
            continue
        e0, e1 = r0.get("eager"), r1.get("eager")
        if not e0 or not e1:
            continue
        k0, k1 = ops.outcome_kind(e0), ops.outcome_kind(e1)
        attrs = dict(c["meta"])
        attrs.update({"mode": "eager", "zero_extent": ops.has_zero(c)})
        rep = {"case_payload_0": payload_variant(c, 0, rnd), "case_payload_1": payload_variant(c, 1, rnd), "outcome_0": e0, "outcome_1": e1}
        if k0 != k1:
            attrs["kind"] = "payload-changes-outcome"
            ctx.finding(attrs, f"{c['meta']['func']}: the payload under a null decides whether the call succeeds ({k0} vs {k1})", rep)
        elif k0 == "ok":
            why = ops.cmp_arrays(e0["ok"], e1["ok"], c["tol"][0], c["tol"][1])
            if why:
                attrs["kind"] = "payload-leak"
                ctx.finding(attrs, f"{c['meta']['func']} on {c['meta']['dtype']}: non-null output or mask depends on the payload under a null ({why})", rep)
    # every array owns its mask: a null written into one array never shows up in another array that was (or is
    # later) made nullable from plain data of the same shape
    fresh = []
    for i in range(30 * scale):
        d = rnd.choice(["int64", "float64", "int32"])
        sh = [rnd.choice([2, 3, 4])] + ([rnd.choice([1, 2])] if rnd.random() < 0.3 else [])
        v, w = ops.tensor(rnd, d, sh, "small"), ops.tensor(rnd, d, sh, "small")
        z = ", ".join("0" for _ in sh)
        nd_ = "n" + d
        write = rnd.choice([f"a_.null[{z}] = True", f"a_[{z}] = ndx.asarray(np.ma.masked_array(np.zeros((), dtype=np.{d}), mask=True))"])
        form = rnd.choice([f"a_ = ndx.astype(v, ndx.{nd_}); {write}; out = [ndx.astype(w, ndx.{nd_}), a_]",
                           f"b0_ = ndx.astype(w, ndx.{nd_}); a_ = ndx.astype(v, ndx.{nd_}); {write}; out = [b0_, ndx.astype(w, ndx.{nd_}) + 1, a_]",
                           f"a_ = ndx.astype(v, ndx.{nd_}); {write}; out = [w + ndx.asarray(np.ma.masked_array(np.zeros({sh!r}, dtype=np.{d}), mask=False)), ndx.astype(w, ndx.{nd_}) * 2, a_]"])
        mk_a = f"mk(v, np.arange(v.size).reshape(v.shape) == 0)"
        if rnd.random() < 0.35:
            # a nullable array cast to ANOTHER nullable dtype owns its mask too: clearing the null in the cast result
            # (an item assignment of a plain value) must not un-null the source, and the other way round
            od, onp = ("nfloat32", "float32") if d == "float64" else ("nfloat64", "float64")
            if rnd.random() < 0.5:
                form = f"a_ = ndx.astype(v, ndx.{nd_}); a_.null[{z}] = True; b_ = ndx.astype(a_, ndx.{od}); b_[{z}] = 5; out = [a_ + 0, b_]"
                orc = f"u_ = v.astype(np.{onp}); u_[{z}] = 5; out = [{mk_a}, mk(u_, np.zeros(v.shape, bool))]"
            else:
                form = f"a_ = ndx.astype(v, ndx.{nd_}); b_ = ndx.astype(a_, ndx.{od}); b_.null[{z}] = True; out = [a_ + 0, b_]"
                orc = f"out = [mk(v, np.zeros(v.shape, bool)), mk(v.astype(np.{onp}), np.arange(v.size).reshape(v.shape) == 0)]"
            c = families.mkcase(f"NF-{i}", {"v": v}, form, orc, {"func": "mask-ownership-cast", "dtype": nd_, "dclass": family.dclass(nd_)}, rnd, (1e-6, 1e-6), symbolic=False, check_dtype=False)
            c["lazy_subsets"] = []
            fresh.append(c)
            continue
        if form.startswith("b0_"):
            orc = f"out = [mk(w, np.zeros(w.shape, bool)), mk(w + 1, np.zeros(w.shape, bool)), {mk_a}]"
        elif "* 2" in form:
            orc = f"out = [mk(w, np.zeros(w.shape, bool)), mk(w * 2, np.zeros(w.shape, bool)), {mk_a}]"
        else:
            orc = f"out = [mk(w, np.zeros(w.shape, bool)), {mk_a}]"
        c = families.mkcase(f"NF-{i}", {"v": v, "w": w}, form, orc, {"func": "mask-ownership", "dtype": nd_, "dclass": family.dclass(nd_)}, rnd, (1e-12, 1e-12), symbolic=False)
        c["lazy_subsets"] = [{"names": ["w"]}] if rnd.random() < 0.5 else []
        fresh.append(c)
    family.evaluate(ctx, fresh, want=("oracle", "traced"))
    ctx.sample({"impl": base[0]["impl"], "inputs": base[0]["inputs"]})
    ctx.sample({"impl": base[-1]["impl"], "inputs": base[-1]["inputs"]})
    ctx.coverage.update({
        "rule": "every element-wise row of the regenerated table through the decision procedure (exhaustive over mask bits and atom values); payload pairs: each generated case on nullable data is run twice with different payloads under the same nulls (0 / 7 / extreme), eager and partly traced, outputs compared with NumPy (mask rule, non-null values) and with each other (payload independence). Non-trivial: at least one element.",
        "distribution": {"payload_pair_cases": len(base), "rows": len(specs)},
        "traces_validated_against_impl": len(specs)})


def replay(ctx, path):
    run(ctx)
