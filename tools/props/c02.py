"""C02 — element-wise functions and operators return the values the Array API specifies."""
from __future__ import annotations

import random
import re

from harness_consts import CORE
from vlib import core, elem, families, family, ops

LEVEL = "proof"
COQC = {"bool": "CBool", "int8": "CI8", "int16": "CI16", "int32": "CI32", "int64": "CI64", "uint8": "CU8",
        "uint16": "CU16", "uint32": "CU32", "uint64": "CU64", "float32": "CF32", "float64": "CF64"}
# functions whose graphs use no transcendental kernel on these dtypes
EXACT_UN = ["abs", "negative", "positive", "square", "sign", "floor", "ceil", "round", "trunc", "isfinite", "isinf",
            "isnan", "sqrt"]
EXACT_BIN = ["add", "subtract", "multiply", "divide", "floor_divide", "remainder", "equal", "not_equal", "less",
             "less_equal", "greater", "greater_equal"]
INT_ONLY_UN = ["bitwise_invert"]
INT_ONLY_BIN = ["bitwise_and", "bitwise_or", "bitwise_xor", "bitwise_left_shift", "bitwise_right_shift", "pow"]
BOOL_UN, BOOL_BIN = ["logical_not", "bitwise_invert"], ["logical_and", "logical_or", "logical_xor", "equal", "not_equal",
                                                          "bitwise_and", "bitwise_or", "bitwise_xor"]


def obs_cases(rnd, per_row):
    cases = []
    def add(fn, d, arity):
        vals = []
        for _ in range(per_row):
            t = ops.tensor(rnd, d, [arity], rnd.choice(["small", "boundary", "wide"]))
            vals.append(t["data"])
        xs = [{"dtype": d, "shape": [len(vals)], "data": [v[j] for v in vals]} for j in range(arity)]
        xs = families.fix_operands(rnd, fn, d, xs)
        if fn == "pow":
            xs[0]["data"] = [max(-9, min(9, v)) for v in xs[0]["data"]]
        if fn == "sqrt":
            pass
        operands = [[x["data"][i] for x in xs] for i in range(len(vals))]
        cases.append({"id": f"o-{fn}-{d}-{len(cases)}", "fn": fn, "dtypes": [d] * arity, "operands": operands})
    for d in ops.INTS:
        for fn in EXACT_UN[:-1] + INT_ONLY_UN:
            add(fn, d, 1)
        for fn in EXACT_BIN + INT_ONLY_BIN:
            if fn == "pow" and d in ("int8", "int16"):
                continue
            add(fn, d, 2)
    for d in ops.FLOATS:
        for fn in EXACT_UN:
            add(fn, d, 1)
        for fn in EXACT_BIN:
            if fn in ("remainder",):
                continue
            add(fn, d, 2)
    for fn in BOOL_UN:
        add(fn, "bool", 1)
    for fn in BOOL_BIN:
        add(fn, "bool", 2)
    return cases


def in_coq_correspondence(ctx, rnd, table_module, per_row):
    cases = obs_cases(rnd, per_row)
    res = core.run_cases("harness.h_elemobs", cases, workers=14, per_case_timeout=300)
    lines, kept = [], []
    for c in cases:
        r = res.get(c["id"])
        if not r or "outs" not in r:
            ctx.finding({"func": c["fn"], "dtype": c["dtypes"][0], "kind": "crash", "mode": "eager", "zero_extent": False},
                        f"{c['fn']} on {c['dtypes']}: worker outcome {r}", {"case": c, "outcome": r})
            continue
        args = "; ".join(f"AArr (DCore {COQC[d]})" for d in c["dtypes"])
        obs = "; ".join("([" + "; ".join(f"({COQC[d]}, {e})" for d, e in zip(c["dtypes"], ins)) + f"], {out})" for ins, out in zip(r["ins"], r["outs"]))
        lines.append(f'  ("{c["fn"]}", [{args}], [{obs}])')
        kept.append((c, r))
        ctx.evaluations += len(r["outs"])
    src = ("From Coq Require Import List ZArith String.\nFrom ND Require Import Base.Dtype Ndx.ElemSyntax Ndx.ElemSem Ndx.ElemCorr.\n"
           f"{table_module}\nImport ListNotations.\nOpen Scope string_scope.\nOpen Scope Z_scope.\n"
           "Definition cases : list case := [\n" + ";\n".join(lines) + "\n].\n"
           'Eval vm_compute in ("DECIDED", count_decided table cases).\n'
           'Eval vm_compute in ("BAD", bad_cases table cases 0).\n'
           "Example corr_elementwise : forallb (case_ok table) cases = true.\nProof. vm_compute. reflexivity. Qed.\n")
    f = ctx.work / "CorrElem.v"
    f.write_text(src)
    ok, out = ctx.compile("T-io (in Coq): implementation results == eval of the table row's graph under Ndx/ElemSem, every integer/bool/float row without a transcendental kernel", f, kind="tie")
    flat = re.sub(r"\s+", " ", out)
    m = re.search(r'\("DECIDED"(?:%string)?, (\d+)', flat)
    ctx.coverage["in_coq_observations_decided_by_model"] = int(m.group(1)) if m else 0
    bad = re.search(r'\("BAD"(?:%string)?, \[(.*)\]\)', flat)
    n_bad = 0
    if bad and bad.group(1).strip():
        for ci, js in re.findall(r"\((\d+)(?:%nat)?, \[([^\]]*)\]\)", bad.group(1)):
            c, r = kept[int(ci)]
            for j in re.findall(r"\d+", js)[:3]:
                j = int(j)
                n_bad += 1
                attrs = {"func": c["fn"], "dtype": c["dtypes"][0], "dclass": family.dclass(c["dtypes"][0]), "kind": "model-mismatch",
                         "mode": "eager", "zero_extent": False}
                ctx.finding(attrs, f"{c['fn']}({', '.join(c['dtypes'])}) on operands {c['operands'][j]} returns {r['outs'][j]}: differs from the model of the graph",
                            {"function": c["fn"], "dtypes": c["dtypes"], "operands": c["operands"][j], "observed": r["outs"][j],
                             "how_to_replay": "ndonnx.<function>(asarray(operands...)).to_numpy()"})
    for c, r in kept[:: max(1, len(kept) // 3)]:
        ctx.sample({"function": c["fn"], "dtypes": c["dtypes"], "operands": c["operands"][0], "observed": r["outs"][0]})
    return ok, n_bad


def run(ctx):
    rnd = random.Random(ctx.seed)
    ctx.trusted += ["tools/translate/gen_elem.py + tools/harness/h_graph.py (ONNX graph -> fexpr, fail-closed)",
                    "coq/Ndx/ElemSem.v as a description of onnxruntime's element-wise kernels on one element (validated on every run by the in-Coq correspondence); transcendental kernels are NOT modelled (oracle `tr`)",
                    "NumPy (float64/longdouble) as search oracle for transcendental functions, 4 ulp in the operand's precision"]
    ctx.assumes += ["domain = Array API 2023.12 category of each function; integer division/remainder by zero, shifts >= bit width, negative integer exponents, INT_MIN negation are outside it"]
    ctx.not_discharged += ["few-ulp accuracy of onnxruntime's transcendental kernels (sampled against NumPy, not proved)",
                           "integer shifts, pow, floor_divide, remainder, maximum/minimum: covered by the in-Coq correspondence (and the refutations) only; closed-form theorems exist for add/subtract/multiply/negative/square/abs/sign/bitwise_*/comparisons"]
    ctx.static_build()
    specs, out, unsup = elem.gen_table(ctx)
    # T-graph tie: regenerated table == committed model table
    tie = ("From Coq Require Import List Bool.\nFrom ND Require Import Ndx.ElemSyntax Ndx.ElemLaws Ndx.ElemTable.\nFrom G Require Import GenElem.\n"
           "Definition differs := indices_where (fun p => negb (row_eqb (fst p) (snd p))) (combine GenElem.table ElemTable.table) 0.\n"
           'Eval vm_compute in ("DIFF", differs, Nat.eqb (length GenElem.table) (length ElemTable.table)).\n'
           "Example tie_graphs : list_eqb row_eqb GenElem.table ElemTable.table = true.\nProof. vm_compute. reflexivity. Qed.\n")
    f = ctx.work / "TieGraphs.v"
    f.write_text(tie.replace('("DIFF"', 'let s := "DIFF"%string in (s'))
    f.write_text("From Coq Require Import String.\n" + tie.replace('("DIFF"', '("DIFF"%string'))
    ok_tie, o = ctx.compile("T-graph: graphs traced from /repo == model table Ndx/ElemTable.v (every function x dtype row, ranks 0/1/3)", f, kind="tie")
    changed = []
    if not ok_tie:
        flat = re.sub(r"\s+", " ", o)
        m = re.search(r'\("DIFF"(?:%string)?, \[(.*?)\]', flat)
        changed = [specs[int(i)] for i in re.findall(r"\d+", m.group(1))] if m else []
        ctx.notes.append("rows whose graph differs from the model: " + ", ".join(f"{s[0]}{tuple(s[1])}" for s in changed[:12]))
    okl, viol, known = elem.law_on_generated(ctx, "C02_calls_inside_the_domain_succeed", "c02d_patterns", "c02_row_defined", "definedness", "c02")
    elem.report_rows(ctx, specs, out, viol, "C02 definedness (a call inside the function's Array-API domain must not raise)")
    elem.known_classes(ctx, known)
    f = ctx.work / "C02_static.v"
    f.write_text((core.COQ / "Props" / "C02.v").read_text())
    ctx.compile("Props/C02.v: integer semantics theorems over all operand values (add, subtract, multiply, negative, square, abs, sign, bitwise_*, comparisons, rounding) + refutations (uint64 via int64, remainder sign, int64 right shift, floor_divide via float)", f, kind="theorem")
    # in-Coq correspondence against the regenerated table
    per_row = 12 if ctx.tier == "quick" else 60
    okc, nbad = in_coq_correspondence(ctx, rnd, "From G Require Import GenElem.", per_row)
    # oracle comparison (search + validation of everything the model cannot express)
    n = 700 if ctx.tier == "quick" else 6000
    funcs = None
    if changed:
        hot = sorted({s[0] for s in changed})
        extra = families.elementwise_cases(rnd, 400, prefix="H", funcs=[h for h in hot if h in families.FLOAT_UN + families.NUM_UN + families.PRED_UN + families.NUM_BIN + families.CMP_BIN + families.FLOAT_BIN + families.BIT_BIN + families.SHIFT_BIN + families.LOGIC_BIN + ["bitwise_invert", "logical_not"]] or None)
    else:
        extra = []
    cases = families.elementwise_cases(rnd, n, prefix="E") + extra
    for c in cases:
        c["lazy_subsets"] = c["lazy_subsets"][:1] if rnd.random() < 0.3 else []
    # constant one-element operands against operands of any rank (data-holding and placeholder): folding shortcuts
    cases += families.constant_operand_cases(rnd, 150 if ctx.tier == "quick" else 1500, prefix="K")
    if changed:
        cases += families.constant_operand_cases(rnd, 300, prefix="HK", funcs=sorted({s[0] for s in changed}))
    # Python scalar operands (values, signed zeros, sequences of Python-equal scalars)
    cases += families.scalar_operand_cases(rnd, 200 if ctx.tier == "quick" else 2000)
    cases += families.pow_special_cases(rnd, 120 if ctx.tier == "quick" else 1200)
    cases += families.special_value_cases(rnd, 120 if ctx.tier == "quick" else 1200)
    # operands of different dtypes (the library casts before the kernel), and the same call repeated on one array
    # object after an in-place update (nothing may be remembered on the object)
    md = families.mixed_dtype_cases(rnd, 80 if ctx.tier == "quick" else 800)
    cases += md + families.call_update_call(rnd, md + cases[:300], 80 if ctx.tier == "quick" else 600)
    family.evaluate(ctx, cases, want=("oracle", "traced"))
    ctx.sample({"case": cases[0]["impl"], "inputs": {k: v["shape"] for k, v in cases[0]["inputs"].items()}, "dtype": cases[0]["meta"]["dtype"]})
    ctx.coverage.update({
        "rule": "T-graph: every element-wise function x dtype row (1018 traced graphs + operator/scalar/mixed rows) compared term by term with the model table inside Coq; in-Coq correspondence: per exact (non-transcendental) row, operand tuples drawn small/boundary/wide, result compared with eval of the row's graph; NumPy-oracle sweep over all functions, broadcasting pairs, ranks 0-3, extents incl. 0, special values. Distinct by canonical case; non-trivial = at least one element.",
        "traces_validated_against_impl": len(specs),
        "distribution": {"oracle_cases": len(cases), "rows": len(specs)},
    })


def replay(ctx, path):
    run(ctx)
