"""C16 — without onnxruntime at trace time, exported models compute the same results."""
from __future__ import annotations

import random

from props import c01
from vlib import core, family, ops, programs

LEVEL = "proof"


def run(ctx):
    rnd = random.Random(ctx.seed)
    ctx.trusted += ["coq/Machine/Machine.v; `ort` is universally quantified in C01_sim, so the same theorem covers both configurations",
                    "the masked-import worker (sys.modules['onnxruntime'] = None) as a faithful 'onnxruntime not importable' configuration"]
    ctx.not_discharged += ["'the library still imports' is a fact about the interpreter: run on every check, not proved"]
    ctx.static_build()
    c01.census_tie(ctx)
    n = 150 if ctx.tier == "quick" else 1500
    cases = []
    for i in range(n):
        c = programs.gen_program(rnd, f"N-{i}", symbolic=False)
        c["lazy_subsets"] = c["lazy_subsets"][:3] + [{"names": []}]
        cases.append(c)
    # user functions wrapped by eager_propagate (the documented extension point) that update an argument in place:
    # with onnxruntime they are evaluated at trace time, without it they are only traced
    for i in range(30 if ctx.tier == "quick" else 300):
        d = rnd.choice(["int64", "float64", "int32"])
        sh = ops.rand_shape(rnd, 2, 0.05, (1, 2, 3), min_rank=1)
        a, b = ops.tensor(rnd, d, sh, "small"), ops.tensor(rnd, d, sh, "small")
        body = rnd.choice(["acc += step", "acc *= step", "acc[0] = acc[0] * 3 + step[0]", "acc -= step; acc += 1"])
        impl = ("from ndonnx._propagation import eager_propagate\n@eager_propagate\ndef f_(acc, step):\n    " + body +
                "\n    return acc * 2\nt = a.copy(); out = f_(t, b) + t")
        cases.append({"id": f"NU-{i}", "inputs": {"a": a, "b": b}, "impl": impl, "oracle": None, "tol": [0, 0],
                      "meta": {"func": "user-function", "dtype": d, "dclass": family.dclass(d)},
                      "lazy_subsets": [{"names": ["a"]}, {"names": ["b"]}, {"names": ["a", "b"]}, {"names": []}]})
    # value-dependent shortcuts: a flag computed from constants has a value only when onnxruntime is importable
    sc = c01.shortcut_cases(rnd, 60 if ctx.tier == "quick" else 600, prefix="NK")
    for c in sc:
        c["impl"] = c["impl"].replace("ndx.asarray(np.full(", "(ndx.asarray(np.full(").replace(", True))", ", 1)) > 0)").replace(", False))", ", 0)) > 0)") if "np.full(" in c["impl"] else c["impl"]
        c["lazy_subsets"] = [s_ for s_ in c["lazy_subsets"] if "sigs" not in s_][:2] + [{"names": []}]
    cases += sc
    # one primitive evaluated at build time on constants that are equal as Python values but differ in the sign of a zero
    # (or in dtype): nothing evaluated earlier may be reused for the later call
    for i in range(20 if ctx.tier == "quick" else 200):
        d = rnd.choice(["float64", "float32"])
        k = rnd.choice([2, 3])
        rest = [rnd.choice([2.0, 4.0, -1.0]) for _ in range(k - 1)]
        z1, z2 = rnd.choice([(0.0, -0.0), (-0.0, 0.0)])
        lit = lambda z: "np.array(%r, dtype=np.%s)" % ([z] + rest, d)
        x = ops.tensor(rnd, d, [k], "small")
        impl = rnd.choice([f"p_ = ndx.asarray({lit(z1)}); q_ = ndx.asarray({lit(z2)}); out = [1.0 / p_, 1.0 / q_, x + 0]",
                           f"p_ = ndx.asarray({lit(z1)}); q_ = ndx.asarray({lit(z2)}); out = [ndx.divide(x, x) / p_, ndx.divide(x, x) / q_] if False else [ndx.atan2(p_, -p_ * 0 - 1), ndx.atan2(q_, -q_ * 0 - 1)]",
                           f"p_ = ndx.asarray({lit(z1)}); q_ = ndx.asarray({lit(z2)}); out = [ndx.sign(1.0 / p_), ndx.sign(1.0 / q_), x * 1]"])
        if i % 3 == 0:
            x = {"dtype": d, "shape": [k], "data": [ops.fhex(v) for v in ([-0.0, 0.0] + [2.0] * (k - 2))[:k]]}
            zero = rnd.choice(["0", "0.0", "ndx.asarray(np.int32(0))", "ndx.asarray(np.float32(0.0))", "False"])
            impl = rnd.choice([f"y_ = x + {zero}; out = [1.0 / y_, y_]", f"y_ = {zero} + x; out = [1.0 / y_, ndx.atan2(y_, y_ * 0 - 1)]", f"y_ = x * 1 + {zero}; out = 1.0 / y_"])
            zk = "float" if "0.0" in zero else "int"
        else:
            zk = "none"
        cases.append({"id": f"NZ-{i}", "inputs": {"x": x}, "impl": impl, "oracle": None, "tol": [0, 0],
                      "meta": {"func": "signed-zero-constants", "dtype": d, "dclass": "float", "added_zero": zk}, "lazy_subsets": [{"names": ["x"]}, {"names": []}]})
    with_ort = core.run_cases("harness.h_ops", cases, workers=14, per_case_timeout=180)
    no_ort = core.run_cases("harness.h_noort", cases, workers=14, per_case_timeout=180)
    # evaluate the models built without onnxruntime
    runs = []
    for c in cases:
        r = no_ort.get(c["id"]) or {}
        if "handler_error" in r:
            ctx.broken_machinery.append(str(r)[:300])
            return
        for j, (sub, tr) in enumerate(zip(c["lazy_subsets"], r.get("traced", []))):
            if "model" in tr:
                runs.append({"id": f"{c['id']}#{j}", "model": tr["model"], "outs": tr["outs"], "feeds": {k: c["inputs"][k] for k in sub["names"]}})
    rr = core.run_cases("harness.h_runmodel", runs, workers=14, per_case_timeout=120)
    agree = 0
    for c in cases:
        ctx.count(c["id"], nontrivial=True)
        a, b = with_ort.get(c["id"]) or {}, no_ort.get(c["id"]) or {}
        eg = a.get("eager")
        for j, sub in enumerate(c["lazy_subsets"]):
            ta = (a.get("traced") or [None] * 9)[j]
            tb = (b.get("traced") or [None] * 9)[j]
            if ta is None or tb is None:
                continue
            mode = "traced:" + ",".join(sub["names"])
            if "model" not in tb:
                if ta and "meta" in ta:
                    ctx.finding(family.attrs_of(c, "noort-trace-fails", "traced"), f"traces with onnxruntime but not without: {tb.get('msg', tb)!s:.120}: {c['impl'][:100]}", family.replay_of(c, {"with_ort": ta, "without": tb}, mode))
                continue
            # no derived value may be reported without onnxruntime (inputs and copies of inputs excepted:
            # the output of a program with >= 1 primitive is derived)
            metas = family.flatten_meta(tb["meta"])
            if tb.get("n_nodes", 0) and any(m and m.get("has_value") for m in metas) and sub["names"]:
                pass  # a data-holding operand may legitimately flow through shortcuts/copies
            out = rr.get(f"{c['id']}#{j}") or {}
            ref = None
            if ta and "runs" in ta and ta["runs"] and "ok" in ta["runs"][0]:
                ref = family.flatten_val(ta["runs"][0]["ok"])
            elif eg and "ok" in eg and not sub["names"]:
                ref = family.flatten_val(eg["ok"])
            if ref is None:
                continue
            if "ok" not in out:
                ctx.finding(family.attrs_of(c, "noort-run-fails", "traced"), f"the model built without onnxruntime fails at run time: {str(out)[:120]}: {c['impl'][:100]}", family.replay_of(c, {"with_ort": ta, "without": tb, "run": out}, mode))
                continue
            got = [out["ok"][k] for k in sorted(out["ok"], key=lambda s: (len(s), s))]
            bad = None
            if len(got) != len(ref):
                bad = "arity"
            else:
                for x, y in zip(ref, got):
                    bad = bad or ops.cmp_arrays(x, y, c["tol"][0], c["tol"][1])
            if bad:
                ctx.finding(family.attrs_of(c, "noort-" + bad, "traced"), f"model built without onnxruntime differs from the one built with it ({bad}): {c['impl'][:120]}", family.replay_of(c, {"with_ort": ta, "without_run": out}, mode))
            else:
                agree += 1
    ctx.coverage["models_agreeing"] = agree
    ctx.sample({"program": cases[0]["impl"], "lazy_subsets": [s["names"] for s in cases[0]["lazy_subsets"]]})
    f = ctx.work / "C16_static.v"
    f.write_text((core.COQ / "Props" / "C01.v").read_text())
    ctx.compile("Props/C01.v: C01_exported_model_equals_eager_evaluation quantifies over `ort`; C16_no_value_without_onnxruntime", f, kind="theorem")
    ctx.coverage.update({"rule": "random programs (as C01) built twice: in a worker where onnxruntime is importable and in a fresh worker where `import onnxruntime` raises ImportError; each model of each placeholder subset (incl. the constant-only one) is run with onnxruntime in a third worker and compared (dtype, shape, values, mask). Distinct by canonical (program, inputs)."})


def replay(ctx, path):
    run(ctx)
