"""C18 — export is deterministic, history-independent and free of side effects."""
from __future__ import annotations

import random

from props import c01
from vlib import core, ops, programs

LEVEL = "proof"

HISTORY = [
    "t_ = ndx.array(shape=('Q', 2), dtype=ndx.float32); u_ = ndx.sin(t_) + 1; ndx.build({'t': t_}, {'u': u_})",
    "ndx.asarray(np.arange(6).reshape(2, 3)).sum()",
    "ndx.sort(ndx.asarray(np.array([3, 1, 2])))",
    "ndx.add(ndx.asarray(np.array(['a'])), ndx.asarray(np.array([1])))",          # fails: TypeError
    "ndx.reshape(ndx.asarray(np.arange(4)), [3])",                                   # fails at run time
    "w_ = ndx.array(shape=(None,), dtype=ndx.nint64); ndx.build({'w': w_}, {'o': ndx.where(w_ > 0, w_, -w_)})",
    "x_ = ndx.asarray(np.array([1.0, 2.0])); x_ += 1; x_[0] = 5",
    "ndx.unique_all(ndx.asarray(np.array([1, 1, 2])))",
    "[ndx.array(shape=('N',), dtype=ndx.utf8) + 'x' for _ in range(3)]",
    "ndx.matmul(ndx.asarray(np.eye(2)), ndx.asarray(np.eye(2)))",
    "ndx.pi + ndx.e",
    "b_ = ndx.asarray(np.zeros(3, dtype=np.float32)); b_[0] = ndx.pi; b_[1] = ndx.e; b_[2] = ndx.inf",     # library constants as update values
    "i_ = ndx.asarray(np.zeros(2, dtype=np.int64)); v_ = ndx.asarray(np.array([1.5, 2.5])); i_[...] = v_",
    # scalar constants that compare equal in Python but are different values / dtypes
    "ndx.asarray(np.float64(0.0)) + ndx.asarray(np.float32(0.0)); ndx.asarray(0.0) * 2",
    "ndx.asarray(np.float64(-0.0)) + ndx.asarray(np.float32(-0.0)); ndx.asarray(-0.0) * 2",
    "ndx.asarray(1) + ndx.asarray(True) + ndx.asarray(1.0); ndx.asarray(np.int32(1)) * ndx.asarray(np.uint8(1))",
]


def run(ctx):
    rnd = random.Random(ctx.seed)
    ctx.trusted += ["coq/Machine/Machine.v (heap frame); tools/harness/h_det.py canonicaliser (values renamed in order of first use from the outputs)"]
    ctx.not_discharged += ["process-global state of spox/onnx (naming counters, caches) is outside any model of ndonnx: compared across processes and histories, not proved"]
    ctx.static_build()
    c01.census_tie(ctx)
    n = 28 if ctx.tier == "quick" else 280
    progs = []
    for i in range(n):
        c = programs.gen_program(rnd, f"D-{i}", symbolic=False)
        names = list(c["inputs"])
        lazy = [k for k in names if rnd.random() < 0.7] or names[:1]
        inputs = {k: {"dtype": c["inputs"][k]["dtype"], "sig": rnd.choice([c["inputs"][k]["shape"], ops.symbolic_sig(rnd, c["inputs"][k]["shape"])])} for k in lazy}
        consts = {k: c["inputs"][k] for k in names if k not in lazy}
        progs.append({"program": c["impl"], "inputs": inputs, "constants": consts})
    # library functions keyed by Python collections (items / mappings given as lists, dicts): the exported attributes
    # must not depend on the interpreter's per-process hash seed
    KEYED = ["out = nda.isin(s, ['foo', 'bar', 'baz', 'qux', 'quux', 'corge'])", "out = nda.isin(s, ['b', 'a'])",
             "out = nda.static_map(s, {'a': 1, 'bb': 2, 'ccc': 3, 'd': 4}, default=0)", "out = nda.isin(a, [3, 1, 2, 7])",
             "out = nda.static_map(a, {1: 'x', 2: 'y', 5: 'z'}, default='?')", "out = nda.isin(s, ['x']) | nda.isin(s, ['y', 'z', 'w'])",
             "out = nda.static_map(s, {'k%d' % i: float(i) for i in range(12)}, default=-1.0)"]
    progs.append({"program": "out = a * ndx.pi + ndx.e", "inputs": {"a": {"dtype": "float64", "sig": ["N"]}}, "constants": {}})
    # Python-equal scalar constants (signed zeros, 1 / True / 1.0) must be exported as written
    for body in ("out = a * ndx.asarray(np.float64(-0.0))", "out = a * ndx.asarray(np.float64(0.0))", "out = [a * -0.0, a + ndx.asarray(-0.0)]",
                 "out = [a * 0.0, ndx.asarray(np.float64(0.0)) - a]", "out = ndx.where(a > 0, ndx.asarray(np.float64(-0.0)), ndx.asarray(np.float64(0.0))) + a",
                 "out = a + ndx.asarray(np.float64(1.0)) * ndx.asarray(True)"):
        progs.append({"program": body, "inputs": {"a": {"dtype": "float64", "sig": ["N"]}}, "constants": {}})
    # reading a value (repr / to_numpy / ndim / shape) before an in-place update must not change what is exported later
    read_pairs = []
    for body, dt in [("k[0] = 10; out = ndx.where(m, k, k2)", "nint64"), ("k[-1] = 7; out = ndx.where(m, k, k2) + k", "nint64"),
                     ("k[0] = 2.5; out = [ndx.where(m, k, k2), k * 2]", "nfloat64"), ("k.null[1] = True; out = ndx.where(m, k, k2)", "nint64"),
                     ("k[0] = 10; out = ndx.where(m, k, k2)", "int64"), ("k += 1; out = ndx.where(m, k, k2)", "nint64")]:
        base_t = ops.tensor(rnd, dt, [3], "small")
        consts = {"k": base_t, "k2": base_t}
        inp = {"m": {"dtype": "bool", "sig": [3]}}
        ia = len(progs)
        progs.append({"program": body, "inputs": inp, "constants": consts})
        progs.append({"program": "r_ = (repr(k), k.to_numpy(), k.ndim, k.shape, str(k2)); " + body, "inputs": inp, "constants": consts})
        read_pairs.append((ia, ia + 1))
    for body, extra in [("out = x + 1", "m_ = x[ndx.asarray(np.array([True, False, True]))]; "), ("y_ = x * 2; out = y_", "m_ = x[x[:, 0] > 0]; "),
                        ("out = ndx.sum(x, axis=0)", "m_ = x[ndx.asarray(np.array([True, True, False]))]; n_ = x[0, ...]; ")]:
        inp = {"x": {"dtype": "float64", "sig": [3, 2]}}
        ia = len(progs)
        progs.append({"program": body, "inputs": inp, "constants": {}})
        progs.append({"program": extra + body, "inputs": inp, "constants": {}})
        read_pairs.append((ia, ia + 1))
    for kp in KEYED:
        progs.append({"program": kp, "inputs": {"s": {"dtype": "utf8", "sig": ["N"]}, "a": {"dtype": "int64", "sig": ["N"]}}, "constants": {}})
    n = len(progs)
    # baseline: every program first in the life of a fresh process
    base, other = {}, {}
    for k in range(0, n, 14):
        batch = [dict(p, id=f"base-{k + j}", history=[]) for j, p in enumerate(progs[k:k + 14])]
        r = core.run_cases("harness.h_det", batch, workers=14, per_case_timeout=120, extra_env={"PYTHONHASHSEED": "1"})
        base.update(r)
        # the same, in fresh processes with other hash seeds
        for hs in ("2", "3"):
            r2 = core.run_cases("harness.h_det", batch, workers=14, per_case_timeout=120, extra_env={"PYTHONHASHSEED": hs})
            for kk, vv in r2.items():
                other.setdefault(kk, []).append((hs, vv))
    # after histories (and after one another, inside long-lived workers)
    hist_cases = []
    reps = 5 if ctx.tier == "quick" else 20
    for i, p in enumerate(progs):
        for j in range(reps):
            h = [rnd.choice(HISTORY) for _ in range(rnd.randint(1, 6))]
            hist_cases.append(dict(p, id=f"hist-{i}-{j}", history=h, prog_index=i))
    rnd.shuffle(hist_cases)
    hres = core.run_cases("harness.h_det", hist_cases, workers=8, per_case_timeout=180, extra_env={"PYTHONHASHSEED": "4"})
    raw_same = raw_diff = 0
    for i, p in enumerate(progs):
        b = base.get(f"base-{i}") or {}
        ctx.count(("prog", p["program"], str(p["inputs"])), nontrivial=True)
        if "ok" not in b:
            continue        # the program does not trace: nothing to export
        bo = b["ok"]
        attrs = {"func": "build", "program": p["program"][:40]}
        for flag, what in (("raw_repeat_equal", "repeated exports of the same arrays differ (raw bytes)"), ("canon_repeat_equal", "repeated exports of the same arrays differ"),
                           ("consts_unchanged", "library constants pi/e/inf/nan changed"), ("pool_unchanged", "reading/exporting changed a data-holding array")):
            if not bo[flag]:
                ctx.finding(dict(attrs, kind=flag), f"`{p['program'][:100]}`: {what}", {"program": p, "outcome": bo})
        for hs, r2 in other.get(f"base-{i}", []):
            if "ok" in r2 and r2["ok"]["canon"] != bo["canon"]:
                ctx.finding(dict(attrs, kind="process-dependent"), f"`{p['program'][:100]}`: the export differs between two fresh processes (PYTHONHASHSEED=1 vs {hs}): canonical graphs differ", {"program": p, "hash_seeds": ["1", hs]})
        for c in hist_cases:
            if c["prog_index"] != i:
                continue
            r = hres.get(c["id"]) or {}
            ctx.count(c["id"], nontrivial=True)
            if "ok" not in r:
                ctx.finding(dict(attrs, kind="history-breaks-trace"), f"`{p['program'][:100]}` traces in a fresh process but not after history {c['history']}: {str(r)[:160]}", {"program": p, "history": c["history"], "outcome": r})
                continue
            o = r["ok"]
            if o["canon"] != bo["canon"]:
                ctx.finding(dict(attrs, kind="history-dependent"), f"`{p['program'][:100]}`: export after history {c['history'][:3]} differs from the export in a fresh process (canonical graph)", {"program": p, "history": c["history"], "fresh": bo, "after": o})
            for flag in ("canon_repeat_equal", "consts_unchanged", "pool_unchanged"):
                if not o[flag]:
                    ctx.finding(dict(attrs, kind=flag), f"`{p['program'][:100]}` after history: {flag} is false", {"program": p, "history": c["history"], "outcome": o})
            if o["raw"] == bo["raw"]:
                raw_same += 1
            else:
                raw_diff += 1
    for ia, ib in read_pairs:
        a_, b_ = base.get(f"base-{ia}") or {}, base.get(f"base-{ib}") or {}
        if "ok" in a_ and "ok" in b_ and a_["ok"]["canon"] != b_["ok"]["canon"]:
            ctx.finding({"func": "build", "kind": "read-dependent", "program": progs[ia]["program"][:40]},
                        f"`{progs[ia]['program']}`: reading the array's value / metadata before the update changes the exported model", {"without_read": progs[ia], "with_read": progs[ib]})
        elif ("ok" in a_) != ("ok" in b_):
            ctx.finding({"func": "build", "kind": "read-dependent", "program": progs[ia]["program"][:40]},
                        f"`{progs[ia]['program']}`: traces only {'without' if 'ok' in a_ else 'with'} a preceding read of the array", {"without_read": progs[ia], "with_read": progs[ib], "outcomes": [str(a_)[:200], str(b_)[:200]]})
    ctx.coverage["raw_bytes_identical"] = raw_same
    ctx.coverage["raw_bytes_differ_but_canonical_equal"] = raw_diff
    ctx.sample({"program": progs[0]["program"], "inputs": progs[0]["inputs"], "history_example": hist_cases[0]["history"]})
    f = ctx.work / "C18_static.v"
    f.write_text((core.COQ / "Props" / "C18.v").read_text())
    ctx.compile("Props/C18.v: after any program that does not update the exported arrays in place, their export (graph variables) and values are identical", f, kind="theorem")
    ctx.coverage.update({"rule": "random programs (as C01) exported (a) as the first action of a fresh process and (b) 5/20 times after random prefixes of unrelated activity (tracing, eager evaluation, builds, failing calls, in-place updates, use of the constants) inside long-lived workers that also ran other cases; canonicalised graphs compared (raw-byte equality is counted); each export repeated three times interleaved with to_numpy/repr/shape reads; pi/e/inf/nan and all data-holding operands compared before/after. Distinct by (program, signature) and history."})


def replay(ctx, path):
    run(ctx)
