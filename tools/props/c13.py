"""C13 — creation functions and NumPy conversion round-trip exactly."""
from __future__ import annotations

import random

from vlib import coqcorr, core, families, family, ops

LEVEL = "proof"


def z(n):
    return f"({n})%Z"


def corr(ctx, rnd, n):
    cases = []
    while len(cases) < n:
        k = rnd.choice(["arange", "arange", "eye", "full"])
        cid = f"cc-{len(cases)}"
        meta = {"func": k, "dtype": "int64", "dclass": "int"}
        if k == "arange":
            a, b, s = rnd.randint(-9, 9), rnd.randint(-9, 14), rnd.choice([1, 2, 3, -1, -2, 5, -7])
            form = rnd.choice(["stop", "startstop", "full"])
            if form == "stop":
                b0 = abs(b) if rnd.random() < 0.7 else -abs(b)
                impl, coq = f"out = ndx.arange({b0})", f"CArange {z(b0)} None {z(1)}"
            elif form == "startstop":
                impl, coq = f"out = ndx.arange({a}, {b})", f"CArange {z(a)} (Some {z(b)}) {z(1)}"
            else:
                impl, coq = f"out = ndx.arange({a}, {b}, {s})", f"CArange {z(a)} (Some {z(b)}) {z(s)}"
        elif k == "eye":
            nr, nc, kk = rnd.choice([0, 1, 2, 3, 5]), rnd.choice([None, 0, 1, 2, 4]), rnd.randint(-3, 3)
            impl = f"out = ndx.eye({nr}, {nc}, k={kk}, dtype=ndx.int64)"
            coq = f"CEye {nr} {nr if nc is None else nc} {z(kk)}"
        else:
            sh = ops.rand_shape(rnd, 3, 0.2)
            v = rnd.randint(-5, 5)
            impl = rnd.choice([f"out = ndx.full({tuple(sh)!r}, {v})", f"out = ndx.full(ndx.asarray(np.array({sh}, dtype=np.int64)), {v})"]) if v != 0 or rnd.random() < 0.5 else f"out = ndx.zeros({tuple(sh)!r}, dtype=ndx.int64)"
            coq = "CFull [%s] %s" % ("; ".join(map(str, sh)), z(v))
        cases.append({"id": cid, "inputs": {}, "impl": impl, "oracle": None, "eager": True, "lazy_subsets": [], "meta": meta, "coq": coq, "k": k})
    res = core.run_cases("harness.h_ops", cases, workers=14, per_case_timeout=120)
    lines, kept = [], []
    for c in cases:
        r = res.get(c["id"]) or {}
        e = r.get("eager")
        if not e or "ok" not in e or "data" not in e["ok"]:
            ctx.finding(family.attrs_of(c, "raises", "eager"), f"{c['impl']}: {str(e)[:200]}", family.replay_of(c, r, "eager"))
            continue
        o = e["ok"]
        zl = "[" + "; ".join(z(v) for v in o["data"]) + "]"
        if c["k"] == "arange":
            lines.append(f"  {c['coq']} {zl}")
        else:
            lines.append("  %s [%s] %s" % (c["coq"], "; ".join(map(str, o["shape"])), zl))
        kept.append((c, r))
        ctx.count(("cc", c["impl"]), nontrivial=True)
    header = "From Coq Require Import List ZArith String Bool Arith.\nFrom ND Require Import Base.Tensor Ndx.Create Ndx.CreateCorr Ndx.ReduceCorr.\nImport ListNotations.\nLocal Open Scope nat_scope.\n"

    def on_bad(i):
        c, r = kept[i]
        return ctx.finding(family.attrs_of(c, "model-mismatch", "eager"), f"{c['impl']}: {str(r['eager']['ok'])[:200]} differs from the model (Range / EyeLike / Expand)", family.replay_of(c, r, "eager"))
    coqcorr.run(ctx, "CorrCreate.v", f"T-io (in Coq): integer arange (all argument forms, both step signs), eye (rectangular, k offsets), full/zeros (tuple and array shapes) == model, {len(kept)} cases",
                header, "cobs", lines, "cobs_ok", on_bad)
    if kept:
        ctx.sample({"impl": kept[0][0]["impl"], "observed": kept[0][1]["eager"]["ok"]})


def run(ctx):
    rnd = random.Random(ctx.seed)
    ctx.trusted += ["coq/Ndx/Create.v: ONNX Range / EyeLike / Expand as executable definitions (validated by the in-Coq correspondence)"]
    ctx.not_discharged += ["asarray/to_numpy round trip, masks of any broadcastable shape, *_like functions, linspace (delegates to NumPy), float arange: correspondence with NumPy only"]
    ctx.static_build()
    corr(ctx, rnd, 300 if ctx.tier == "quick" else 3000)
    n = 700 if ctx.tier == "quick" else 6000
    cases = families.creation_cases(rnd, n)
    family.evaluate(ctx, cases, want=("oracle", "traced", "static"))
    ctx.sample({"impl": cases[1]["impl"]})
    ctx.sample({"impl": cases[12]["impl"], "inputs": {k: (v["dtype"], v["shape"]) for k, v in cases[12]["inputs"].items()}})
    f = ctx.work / "C13_static.v"
    f.write_text((core.COQ / "Props" / "C13.v").read_text())
    ctx.compile("Props/C13.v: integer arange (both step signs: exactly the values on the near side of stop), eye, full", f, kind="theorem")
    ctx.coverage.update({"rule": "in-Coq correspondence: integer arange with 1/2/3 arguments and steps of both signs, eye with rectangular shapes and offsets, full/zeros with tuple and array-valued shapes; NumPy sweep: asarray round trip for 12 dtypes x ranks 0-4 x extents incl. 0 (values incl. boundaries, exact bit patterns), masked input with nomask/scalar/broadcastable/full masks, zeros/ones/full/empty/eye/arange/linspace/*_like with int/tuple/list shapes, dtype defaults, nullable and string dtypes, shapes and fills given as arrays or placeholders (traced and run). Distinct by canonical case."})


def replay(ctx, path):
    run(ctx)
