"""C14 — casts convert values like NumPy, keep the mask, and never drop nulls silently."""
from __future__ import annotations

import random
import re

from harness_consts import ALL, CORE
from props.c03 import cd
from vlib import core, families, family, ops

LEVEL = "proof"
COQC = {"bool": "CBool", "int8": "CI8", "int16": "CI16", "int32": "CI32", "int64": "CI64", "uint8": "CU8",
        "uint16": "CU16", "uint32": "CU32", "uint64": "CU64", "float32": "CF32", "float64": "CF64", "utf8": "CStr"}


def text_corr(ctx, rnd):
    """integers <-> decimal text: the implementation's astype(int -> utf8) and astype(utf8 -> int) against
    Ndx/TextCast.v print_int / parse_int (for which parse (print z) = z is a theorem), inside Coq."""
    cases = []
    k = 12 if ctx.tier == "quick" else 80
    for d in ops.INTS:
        lo, hi = ops.IINFO[d]
        vals = [lo, hi, 0, 1, hi - 1, hi // 2 + 1] + ([-1, lo + 1] if lo < 0 else []) + [rnd.randint(lo, hi) for _ in range(k)]
        x = {"dtype": d, "shape": [len(vals)], "data": vals}
        cases.append({"id": f"tx-{d}", "inputs": {"x": x}, "impl": "out = ndx.astype(x, ndx.utf8)", "oracle": None, "eager": True, "lazy_subsets": [{"names": ["x"]}],
                      "meta": {"func": "astype", "src": d, "dst": "utf8", "dtype": d, "dclass": family.dclass(d)}})
        sx = {"dtype": "utf8", "shape": [len(vals)], "data": ["s:" + str(v) for v in vals]}
        cases.append({"id": f"tp-{d}", "inputs": {"x": sx}, "impl": f"out = ndx.astype(x, ndx.{d})", "oracle": None, "eager": True, "lazy_subsets": [{"names": ["x"]}],
                      "meta": {"func": "astype", "src": "utf8", "dst": d, "dtype": "utf8", "dclass": "str"}})
    res = core.run_cases("harness.h_ops", cases, workers=14, per_case_timeout=120)
    pl, rl, kept = [], [], []
    for c in cases:
        r = res.get(c["id"]) or {}
        outs = []
        e = r.get("eager") or {}
        if "ok" in e and "data" in e["ok"]:
            outs.append(("eager", e["ok"]["data"]))
        for t in r.get("traced", []):
            for run_ in t.get("runs", []):
                if "ok" in run_ and "data" in run_["ok"]:
                    outs.append(("traced", run_["ok"]["data"]))
        if not outs:
            ctx.finding(family.attrs_of(c, "raises", "eager"), f"{c['impl']} on {c['meta']['src']} boundary values: {str(e)[:160]}", family.replay_of(c, r, "eager"))
            continue
        for mode, data in outs:
            for vin, vout in zip(c["inputs"]["x"]["data"], data):
                if c["id"].startswith("tx-"):
                    pl.append(f'  (({vin})%Z, "{str(vout)[2:]}"%string)')
                    kept.append((c, r, mode, vin, vout))
                else:
                    rl.append(f'  ("{vin[2:]}"%string, ({int(vout)})%Z)')
                ctx.count(("text", c["id"], mode, vin), nontrivial=True)
    src = ("From Coq Require Import List ZArith String Bool.\nFrom ND Require Import Ndx.TextCast Ndx.ReduceCorr.\nImport ListNotations.\n"
           "Definition printed : list (Z * string) := [\n" + ";\n".join(pl) + "\n].\n"
           "Definition parsed : list (string * Z) := [\n" + ";\n".join(rl) + "\n].\n"
           "Definition p_ok (p : Z * string) : bool := String.eqb (print_int (fst p)) (snd p).\n"
           "Definition r_ok (p : string * Z) : bool := match parse_int (fst p) with Some z => Z.eqb z (snd p) | None => false end.\n"
           'Eval vm_compute in ("BAD"%string, bad_idx p_ok printed 0, bad_idx r_ok parsed 0).\n'
           "Example text_correspondence : forallb p_ok printed = true /\\ forallb r_ok parsed = true.\nProof. split; vm_compute; reflexivity. Qed.\n")
    f = ctx.work / "CorrText.v"
    f.write_text(src)
    ok, out = ctx.compile(f"T-io (in Coq): astype(int -> utf8) == print_int and astype(utf8 -> int) == parse_int on type extremes and random values of all 8 integer dtypes, eager and exported ({len(pl)} + {len(rl)} observations)", f, kind="tie")
    if not ok:
        flat = re.sub(r"\s+", " ", out)
        m = re.search(r'\("BAD"(?:%string)?, \[(.*?)\], \[(.*?)\]\)', flat)
        for i in (re.findall(r"\d+", m.group(1)) if m else [])[:6]:
            c, r, mode, vin, vout = kept[int(i)]
            ctx.finding(family.attrs_of(c, "text-mismatch", mode), f"astype({c['meta']['src']} -> utf8) of {vin} gives {vout!r} ({mode}); the decimal text is {vin}", family.replay_of(c, r, mode))
    return ok


def run(ctx):
    rnd = random.Random(ctx.seed)
    ctx.trusted += ["coq/Ndx/ElemSem.v cast_to as the semantics of onnxruntime's Cast on one element (validated by the in-Coq value correspondence)",
                    "tools/harness/h_cast.py (enumerator)"]
    ctx.assumes += ["the property's explicit list is the law for values: float->int truncation (in range), int->float nearest, bool zero/non-zero, integer<->decimal text; float/bool->text and text->float/bool are observed and reported as out_of_scope_observations"]
    ctx.static_build()
    pairs = [[a, b] for a in ALL for b in ALL]
    cases = [{"id": f"m-{i}", "kind": "matrix", "pairs": pairs[i::14]} for i in range(14)]
    cases.append({"id": "cc", "kind": "can_cast", "pairs": [[a, b] for a in CORE for b in CORE]})
    cases.append({"id": "ccn", "kind": "can_cast", "pairs": [["nint8", "int8"], ["int8", "nint8"], ["nbool", "nfloat32"]]})
    # exact value observations for core -> core numeric casts
    vcases = []
    num = [c for c in CORE if c != "utf8"]
    for a in num:
        for b in num:
            vals = []
            for _ in range(10 if ctx.tier == "quick" else 60):
                if a in ops.FLOATS and b in ops.INTS:
                    lo, hi = ops.IINFO[b]
                    v = rnd.choice([0.0, 1.0, 2.5, 3.99, -0.5 if lo < 0 else 0.5, -2.5 if lo < 0 else 2.5, 100.75, float(min(hi, 2**24)), float(max(lo, -(2**24)))])
                    vals.append(ops.fhex(ops.f32(v) if a == "float32" else v))
                elif a in ops.INTS:
                    lo, hi = ops.IINFO[a]
                    vals.append(rnd.choice([lo, hi, 0, 1, hi // 3, min(hi, 16777217), min(hi, 2**53 + 1), rnd.randint(lo, hi)]))
                elif a == "bool":
                    vals.append(rnd.random() < 0.5)
                else:
                    vals.append(ops.rand_value(rnd, a, rnd.choice(["small", "boundary", "wide"])))
            vcases.append({"id": f"v-{a}-{b}", "kind": "values", "src": a, "dst": b, "values": vals})
    res = core.run_cases("harness.h_cast", cases + vcases, workers=14, per_case_timeout=300)
    rows = []
    for c in cases[:14]:
        r = res.get(c["id"]) or {}
        if "rows" not in r:
            ctx.broken_machinery.append(f"cast matrix enumeration failed: {r}")
            return
        rows += r["rows"]
    lines = []
    for a, b, eager, o, extra in rows:
        ob = ("CErrTE" if o[1:].startswith("TE") else "CErrOther") if o.startswith("!") else f"COk {cd(o)}"
        lines.append(f"  ({cd(a)}, {cd(b)}, {ob})")
        ctx.count(("cast", a, b, eager), nontrivial=True)
        # mask / shape / independence on data-holding arrays
        if eager and not o.startswith("!"):
            if extra.get("shape") != [2]:
                ctx.finding({"func": "astype", "src": a, "dst": b, "kind": "shape"}, f"astype({a}->{b}) changed the shape: {extra}", {"src": a, "dst": b, "observed": extra})
            want = [False, True] if (a.startswith("n") and a[1:] in CORE) else [False, False]
            if (b.startswith("n") and b[1:] in CORE) and extra.get("mask") != want:
                ctx.finding({"func": "astype", "src": a, "dst": b, "kind": "mask"}, f"astype({a}->{b}): mask {extra.get('mask')} expected {want}", {"src": a, "dst": b, "observed": extra})
            if a == b and extra.get("same_object"):
                ctx.finding({"func": "astype", "src": a, "dst": b, "kind": "alias"}, f"astype to the same dtype returned the same object (copy=True is the default)", {"src": a})
    cc = (res.get("cc") or {}).get("rows", [])
    cl = [f"  ({COQC[a]}, {COQC[b]}, {'true' if o is True else 'false'})" for a, b, o in cc if isinstance(o, bool)]
    vl, vkept = [], []
    for c in vcases:
        r = res.get(c["id"]) or {}
        if "outs" not in r:
            continue
        for x, o in zip(r["ins"], r["outs"]):
            vl.append(f"  ({COQC[c['src']]}, {x}, {COQC[c['dst']]}, {o})")
            vkept.append((c, x, o))
        ctx.evaluations += len(r["outs"])
    src = ("From Coq Require Import List Bool ZArith String.\nFrom ND Require Import Base.Dtype Ndx.ElemSyntax Ndx.ElemSem Ndx.ElemCorr Ndx.Cast Ndx.CastCorr Ndx.ReduceCorr.\nImport ListNotations.\nOpen Scope Z_scope.\n"
           "Definition matrix : list (dtype * dtype * cobs) := [\n" + ";\n".join(lines) + "\n].\n"
           "Definition cancast : list (core * core * bool) := [\n" + ";\n".join(cl) + "\n].\n"
           "Definition values : list vobs := [\n" + ";\n".join(vl) + "\n].\n"
           'Eval vm_compute in ("BADM"%string, bad_idx (fun p => match p with (a, b, o) => cobs_ok a b o end) matrix 0).\n'
           'Eval vm_compute in ("BADC"%string, bad_idx (fun p => match p with (a, b, o) => cancast_ok a b o end) cancast 0).\n'
           'Eval vm_compute in ("BADV"%string, bad_idx vobs_ok values 0).\n'
           'Eval vm_compute in ("DECIDED"%string, List.length (filter vobs_decided values)).\n'
           "Example tie_cast_matrix : forallb (fun p => match p with (a, b, o) => cobs_ok a b o end) matrix = true.\nProof. vm_compute. reflexivity. Qed.\n"
           "Example tie_can_cast : forallb (fun p => match p with (a, b, o) => cancast_ok a b o end) cancast = true.\nProof. vm_compute. reflexivity. Qed.\n"
           "Example corr_cast_values : forallb vobs_ok values = true.\nProof. vm_compute. reflexivity. Qed.\n")
    f = ctx.work / "TieCast.v"
    f.write_text(src)
    ok, out = ctx.compile("T-exh: astype outcome for all 576 ordered dtype pairs (eager and lazy) == model; can_cast on all 144 core pairs == safe-casting rule; in-Coq value correspondence for every numeric core->core pair", f, kind="tie")
    flat = re.sub(r"\s+", " ", out)
    m = re.search(r'\("DECIDED"(?:%string)?, (\d+)', flat)
    ctx.coverage["cast_values_decided_by_model"] = int(m.group(1)) if m else 0
    if not ok:
        for tag in ("BADM", "BADC", "BADV"):
            m = re.search(r'\("%s"(?:%%string)?, \[(.*?)\]\)' % tag, flat)
            for i in (re.findall(r"\d+", m.group(1)) if m else [])[:10]:
                i = int(i)
                if tag == "BADM":
                    a, b, eager, o, extra = rows[i]
                    ctx.finding({"func": "astype", "src": a, "dst": b, "kind": "outcome", "mode": "eager" if eager else "lazy"},
                                f"astype({a} -> {b}) {'eager' if eager else 'lazy'}: observed {o}, law: {'raise a cast error' if a.startswith('n') and not b.startswith('n') else 'returns ' + b}",
                                {"call": f"ndonnx.astype(<{a} array>, ndonnx.{b})", "observed": o, "extra": extra})
                elif tag == "BADC":
                    a, b, o = [r for r in cc if isinstance(r[2], bool)][i]
                    ctx.finding({"func": "can_cast", "src": a, "dst": b, "kind": "value"}, f"can_cast({a},{b}) = {o} differs from NumPy's safe table", {"call": f"ndonnx.can_cast(ndonnx.{a}, ndonnx.{b})", "observed": o})
                else:
                    c, x, o = vkept[i]
                    ctx.finding({"func": "astype", "src": c["src"], "dst": c["dst"], "kind": "value", "dclass": family.dclass(c["src"])},
                                f"astype({c['src']} -> {c['dst']}) of {x} gives {o}: differs from the cast model (= NumPy for in-range values)", {"src": c["src"], "dst": c["dst"], "value": x, "observed": o})
    # nullable can_cast must refuse (no NumPy counterpart): observation only
    for a, b, o in (res.get("ccn") or {}).get("rows", []):
        ctx.out_of_scope.append({"can_cast": [a, b], "observed": o})
    text_corr(ctx, rnd)
    # NumPy sweep incl. strings, nullable, traced
    n = 400 if ctx.tier == "quick" else 3000
    cs = families.cast_cases(rnd, n)
    cs += families.call_update_call(rnd, cs, 60 if ctx.tier == "quick" else 400)
    family.evaluate(ctx, cs, want=("oracle", "traced"))
    ctx.sample({"pair": rows[100][:2], "eager": rows[100][2], "observed": rows[100][3]})
    ctx.sample({"impl": cs[0]["impl"], "x": cs[0]["inputs"]["x"]})
    f = ctx.work / "C14_static.v"
    f.write_text((core.COQ / "Props" / "C14.v").read_text())
    ctx.compile("Props/C14.v: a cast is refused iff it would discard nulls; result dtype and mask law; int->int, float->int truncation, bool<->numeric; can_cast is a preorder", f, kind="theorem")
    ctx.coverage.update({"rule": "exhaustive: all 576 ordered dtype pairs, eager and lazy (outcome, mask, shape, independence); all 144 core pairs of can_cast; value observations for all 121 numeric core->core pairs on boundary values compared in Coq; NumPy sweep incl. text<->integer, nullable sources/targets, traced. Distinct by (pair, mode) / canonical case.",
                         "exhaustive": True})


def replay(ctx, path):
    run(ctx)
