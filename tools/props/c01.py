"""C01 — an exported ONNX model computes exactly what eager evaluation computes."""
from __future__ import annotations

import random

from translate import gen_src
from vlib import core, families, family, ops, programs

LEVEL = "proof"


def census_tie(ctx):
    try:
        s, p = gen_src.census()
    except Exception as e:  # noqa
        ctx.obligation("T-src census: ndonnx/ parses", False, str(e), "tie")
        return False
    (ctx.work / "GenSites.v").write_text(gen_src.emit_census(s, p))
    ctx.compile("T-src: GenSites.v compiles", ctx.work / "GenSites.v")
    t = ctx.work / "TieSites.v"
    t.write_text("From Coq Require Import List String Bool.\nFrom ND Require Import Ndx.ElemSyntax Machine.Sites.\nFrom G Require Import GenSites.\nImport ListNotations.\n"
                 "Definition extra (a b : list string) := filter (fun x => negb (existsb (String.eqb x) b)) a.\n"
                 'Eval vm_compute in ("NEW"%string, extra sites expected_sites, extra primitives expected_primitives).\n'
                 'Eval vm_compute in ("GONE"%string, extra expected_sites sites, extra expected_primitives primitives).\n'
                 "Example tie_sites : list_eqb String.eqb sites expected_sites = true /\\ list_eqb String.eqb primitives expected_primitives = true.\n"
                 "Proof. split; vm_compute; reflexivity. Qed.\n")
    ok, out = ctx.compile("T-src census: every read of an eager value / static shape / ORT flag in ndonnx/ is one of the sites the machine models; every primitive of _opset_extensions is wrapped by @eager_propagate and builds from .var only", t, kind="tie")
    if not ok:
        import re
        flat = re.sub(r"\s+", " ", out)
        ctx.notes.append("census differs: " + " ".join(re.findall(r'\("(?:NEW|GONE)".*?\)\)?', flat))[:1500])
    return ok


def program_cases(ctx, rnd, n, max_subsets=8, prefix="P"):
    cases = []
    for i in range(n):
        c = programs.gen_program(rnd, f"{prefix}-{i}")
        c["lazy_subsets"] = c["lazy_subsets"][:max_subsets]
        cases.append(c)
    return cases


def long_narrow_cases(rnd, n, prefix="PLN"):
    """Reductions / statistics of int8 .. uint16 data over more elements than the dtype can count, traced with unknown and
    with static extents: any count or index computed in the element type shows as eager != exported."""
    out = []
    for i in range(n):
        d = rnd.choice(["int8", "uint8", "int16", "nint8"])
        k = rnd.choice([130, 200, 260, 300]) if "8" in d else rnd.choice([33000, 40000])
        x = {"dtype": d, "shape": [k], "data": [rnd.randint(-3, 3) if not d.startswith("u") else rnd.randint(0, 5) for _ in range(k)]}
        if d.startswith("n"):
            x["mask"] = [False] * k
        f = rnd.choice(["ndx.mean(x)", "ndx.sum(x)", "ndx.mean(x, axis=0, keepdims=True)", "ndx.var(ndx.astype(x, ndx.float64))", "ndx.argmax(x)", "ndx.cumulative_sum(x)[-1]", "ndx.mean(ndx.reshape(x, [2, -1]), axis=1)"])
        c = families.mkcase(f"{prefix}-{i}", {"x": x}, f"out = {f}", None, {"func": "long-narrow-reduction", "dtype": d, "dclass": family.dclass(d)}, rnd, symbolic=False)
        c["lazy_subsets"] = [{"names": ["x"], "sigs": {"x": [None]}}, {"names": ["x"], "sigs": {"x": ["N"]}}, {"names": ["x"]}]
        out.append(c)
    return out


def payload_cases(rnd, n, prefix="PV"):
    """Programs that read the fields of a nullable array directly: whatever is stored under a null is part of the
    input (the exported model receives it as x_values), so eager evaluation must see the same payload."""
    out = []
    for i in range(n):
        d = rnd.choice(["nfloat64", "nfloat32", "nint64"])
        sh = [rnd.choice([2, 3, 4])]
        x = ops.tensor(rnd, d, sh, "small", payload=None)
        x["mask"] = [True] + [rnd.random() < 0.4 for _ in range(sh[0] - 1)]
        form = rnd.choice(["out = x.values * 2", "out = ndx.isfinite(x.values)", "out = [x.values + 1, x.null]", "out = ndx.where(x.null, x.values, x.values + 1)"])
        out.append(families.mkcase(f"{prefix}-{i}", {"x": x}, form, None, {"func": "fields", "dtype": d, "dclass": family.dclass(d)}, rnd, symbolic=False))
    return out


def function_cases(rnd, scale):
    cs = (families.elementwise_cases(rnd, 120 * scale, prefix="PE", nullable_p=0.2)
          + families.reduction_cases(rnd, 100 * scale, prefix="PR", nullable_p=0.1)
          + families.layout_cases(rnd, 100 * scale, prefix="PL")
          + families.getitem_cases(rnd, 100 * scale, prefix="PG")
          + families.sorting_cases(rnd, 60 * scale, prefix="PS", max_len=12)
          + [c for c in families.sorting_cases(rnd, 90 * scale, prefix="PSN", max_len=8, dtypes=["nfloat64", "nfloat32", "nint64"]) if c["meta"]["func"] in ("sort", "argsort")]
          + payload_cases(rnd, 30 * scale)
          + long_narrow_cases(rnd, 16 * scale)
          + families.setitem_cases(rnd, 60 * scale, prefix="PW")
          + families.creation_cases(rnd, 60 * scale, prefix="PC"))
    # programs that read shapes / values in Python are not traceable by construction
    cs = [c for c in cs if ".shape" not in c["impl"] and "to_numpy" not in c["impl"]]
    for c in cs:
        c["oracle"] = None          # the reference is eager evaluation itself
        if not c.get("lazy_subsets") and c["inputs"]:
            c["lazy_subsets"] = [{"names": list(c["inputs"])}]
    return cs


def shortcut_cases(rnd, n, prefix="PK"):
    """Value-dependent shortcuts (where with a constant condition or equal branches, logical_and/or with a constant
    operand) against placeholders whose extents are only known at run time and differ: the exported graph must still
    broadcast.  Shapes: equal rank, every axis (1, k), (k, 1) or (k, k)."""
    out = []
    for i in range(n):
        d = rnd.choice(["int64", "float64", "int32", "nint64", "bool"])
        r = rnd.randint(1, 2)
        sa, sb = [], []
        for _ in range(r):
            k = rnd.choice([2, 3])
            e = rnd.choice([(1, k), (k, 1), (k, k), (1, 1)])
            sa.append(e[0])
            sb.append(e[1])
        a, b = ops.tensor(rnd, d, sa, "small"), ops.tensor(rnd, d, sb, "small")
        cshape = rnd.choice(["()", "(1,)", "(1, 1)"][: r + 1]) if rnd.random() < 0.7 else rnd.choice(["(1,)", "(1, 1)", "(1, 1, 1)"])
        const = f"ndx.asarray(np.full({cshape}, {rnd.choice(['True', 'False'])}))"
        x, y = rnd.choice([("a", "b"), ("b", "a")])
        form = rnd.random()
        if d == "bool" or form < 0.25:
            cond = "a" if d == "bool" else "(a > 1)"
            f = rnd.choice(["logical_and", "logical_or"])
            args = f"{cond}, {const}" if rnd.random() < 0.5 else f"{const}, {cond}"
            impl = f"m_ = ndx.{f}({args}); out = ndx.where(m_, {x}, {y})"
        elif form < 0.85:
            impl = f"out = ndx.where({const}, {x}, {y})" + rnd.choice(["", " * 2", " + b"])
        else:
            impl = f"out = ndx.where(({x} > 1), a, a)"
        sig = lambda sh, tag: [None if rnd.random() < 0.7 else f"D{j}{tag}" for j in range(len(sh))]
        subs = [{"names": ["a", "b"], "sigs": {"a": sig(sa, "a"), "b": sig(sb, "b")}}, {"names": ["a", "b"]},
                {"names": [rnd.choice(["a", "b"])]}]
        inputs = {"a": a, "b": b}
        if rnd.random() < 0.3:
            # the one-element flag is itself an input: a constant in some partitions, a placeholder in others; the
            # result of the (possibly short-cut) operation is then updated in place and the other operand is used again
            fv = rnd.choice([True, False])
            inputs["f"] = {"dtype": "bool", "shape": rnd.choice([[], [1]]), "data": [fv]}
            fn = "logical_and" if fv else "logical_or"
            cnd = "a" if d == "bool" else "(a > 1)"
            args = rnd.choice(["f, c_", "c_, f"])
            impl = f"c_ = {cnd}; m_ = ndx.{fn}({args}); m_[...] = {not fv}; out = [m_, ndx.where(c_, {x}, {y})]"
            subs = [{"names": ["f"]}, {"names": ["f", "a", "b"]}, {"names": ["a", "b"]}, {"names": ["a"]}]
        if d != "bool" and rnd.random() < 0.2:
            # where() with a one-element condition DERIVED from an input flag (it has a value only when the flag is a
            # constant and onnxruntime evaluates it), operands of one static shape; the result is then updated in
            # place (or an operand is) and everything is used again: no aliasing may appear in any partition
            fv = rnd.choice([True, False])
            sh_ = [rnd.choice([2, 3])] * rnd.randint(1, 2)
            inputs = {"a": ops.tensor(rnd, d, sh_, "small"), "b": ops.tensor(rnd, d, sh_, "small"),
                      "f": {"dtype": "bool", "shape": rnd.choice([[], [1]]), "data": [fv]}}
            z = ", ".join("0" for _ in sh_)
            g = rnd.choice(["(ndx.astype(f, ndx.int64) > 0)", "ndx.logical_not(ndx.logical_not(f))", "f"])
            impl = rnd.choice([f"g_ = {g}; r_ = ndx.where(g_, a, b); r_[{z}] = 9; out = [r_, a + 0, b + 0]",
                               f"g_ = {g}; u_ = a.copy(); v_ = b.copy(); r_ = ndx.where(g_, u_, v_); u_[{z}] = 9; v_[{z}] = 8; out = [r_, u_, v_]",
                               f"g_ = {g}; r_ = ndx.where(g_, a, b); r_ += 1; out = [r_ * 2, ndx.where(g_, a, b)]"])
            subs = [{"names": ["a", "b"]}, {"names": ["f", "a", "b"]}, {"names": ["a"]}, {"names": ["b"]}]
        out.append({"id": f"{prefix}-{i}", "inputs": inputs, "impl": impl, "oracle": None, "tol": [0, 0],
                    "meta": {"func": "shortcut", "dtype": d, "dclass": family.dclass(d)}, "lazy_subsets": subs})
    return out


def run(ctx):
    rnd = random.Random(ctx.seed)
    ctx.trusted += ["coq/Machine/Machine.v as a description of _corearray.py/_propagation.py (tied by the T-src census of value-dependent sites and by the correspondence)",
                    "`sem` = onnxruntime evaluating one node in isolation equals evaluating it inside a larger graph (graph optimiser) — not modelled, sampled by the correspondence",
                    "tools/translate/gen_src.py census()"]
    ctx.assumes += ["neutrality of shortcuts is a hypothesis of C01_sim (Forall neutral p); for logical_and / logical_or it is proved at tensor level (C01_logical_and/or_shortcut_is_neutral, Machine/Shortcuts.v)",
                    "the where() x==y shortcut with a lazy condition is NOT neutral (known finding C01-where-eq-shortcut-lazy-condition)"]
    ctx.static_build()
    census_tie(ctx)
    for f in ("ndonnx/_propagation.py", "ndonnx/_corearray.py", "ndonnx/_array.py", "ndonnx/_opset_extensions.py"):
        ctx.translator_inputs[f] = core.sha256_file(core.REPO / f)
    scale = 1 if ctx.tier == "quick" else 10
    cases = program_cases(ctx, rnd, 300 * scale) + function_cases(rnd, scale) + shortcut_cases(rnd, 120 * scale) + families.mixed_write_cases(rnd, 60 * scale, prefix="PM")
    # witness of the known finding (kept so that the KNOWN-FINDING line is backed by a replay)
    wit = {"id": "W-where-eq-lazy-cond", "inputs": {"c": {"dtype": "bool", "shape": [3], "data": [True, False, True]}},
           "impl": "out = ndx.where(c, ndx.asarray(np.array([1.5])), ndx.asarray(np.array([1.5])))", "oracle": None, "tol": [0, 0],
           "meta": {"func": "where", "dtype": "float64", "dclass": "float", "site": "where-eq-shortcut-lazy-condition"},
           "lazy_subsets": [{"names": ["c"], "sigs": {"c": ["N"]}}]}
    cases.append(wit)
    family.evaluate(ctx, cases, want=("traced",))
    ctx.sample({"program": cases[0]["impl"], "inputs": {k: (v["dtype"], v["shape"]) for k, v in cases[0]["inputs"].items()}, "lazy_subsets": [s["names"] for s in cases[0]["lazy_subsets"]]})
    ctx.sample({"program": cases[1]["impl"], "inputs": {k: (v["dtype"], v["shape"]) for k, v in cases[1]["inputs"].items()}})
    f = ctx.work / "C01_static.v"
    f.write_text((core.COQ / "Props" / "C01.v").read_text())
    ctx.compile("Props/C01.v: C01_exported_model_equals_eager_evaluation (simulation, all programs, all placeholder subsets, with or without onnxruntime), C07 soundness/completeness, C16 no value without onnxruntime", f, kind="theorem")
    ctx.coverage.update({
        "rule": "random programs (1-5 operations over operators, element-wise functions, reductions, where, flip, expand_dims, astype, indexing, broadcast_to, in-place +=, concat, logical shortcuts) on broadcasting pairs, 6 numeric dtypes + nullable, extents incl. 0, run eagerly and traced for every non-empty subset of the <=3 inputs as placeholders (symbolic or static signatures); plus single-function cases of every family traced with all inputs lazy. Compared: dtype, shape, values, mask. Distinct by canonical (program, inputs).",
        "distribution": {"programs": 300 * scale, "function_cases": len(cases) - 300 * scale}})


def replay(ctx, path):
    run(ctx)
