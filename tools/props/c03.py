"""C03 — result dtypes follow the promotion lattice; nullability opt-in and closed."""
from __future__ import annotations

import itertools

from harness_consts import ALL
from vlib import core, coqcorr, elem

LEVEL = "proof"
COQ = {"bool": "CBool", "int8": "CI8", "int16": "CI16", "int32": "CI32", "int64": "CI64", "uint8": "CU8",
       "uint16": "CU16", "uint32": "CU32", "uint64": "CU64", "float32": "CF32", "float64": "CF64", "utf8": "CStr"}


def cd(n):
    if n.startswith("struct"):
        return "DStruct"
    return f"(DNull {COQ[n[1:]]})" if n.startswith("n") and n[1:] in COQ else f"(DCore {COQ[n]})"


def cout(o):
    if o.startswith("!"):
        fam = o[1:].split("|")[0]
        return {"TE": "RaiseTE", "VE": "RaiseVE"}.get(fam, "RaiseOther")
    if o.startswith("?"):
        return "RaiseOther"
    return f"(Ok {cd(o)})"


def run(ctx):
    ctx.trusted += ["tools/translate/gen_elem.py + tools/harness/h_graph.py (ONNX graph -> fexpr emitter, fail-closed)",
                    "tools/harness/h_dtypes.py (result_type / can_cast enumerators)",
                    "numpy.result_type as the meaning of 'NumPy's rules' (model np_result_type is by rule; the tie compares ndonnx, not NumPy, with it)"]
    ctx.assumes += ["the 24 built-in dtypes are the whole dtype universe of the law (user struct dtypes: result_type refuses them — row DStruct)"]
    ctx.static_build()

    # ---- T-exh: ndx.result_type on every 1-, 2-, 3-tuple (ordered) of the 24 dtypes ----------
    tuples = [[a] for a in ALL] + [[a, b] for a in ALL for b in ALL]
    triples = [[a, b, c] for a in ALL for b in ALL for c in ALL]
    cases = [{"id": "rt-12", "kind": "result_type", "a": "", "tuples": tuples}]
    for a in ALL:
        cases.append({"id": f"rt-3-{a}", "kind": "result_type", "a": a, "tuples": [t for t in triples if t[0] == a]})
    quads = []
    import random
    rnd = random.Random(ctx.seed)
    nq = 400 if ctx.tier == "quick" else 6000
    for _ in range(nq):
        quads.append([rnd.choice(ALL) for _ in range(rnd.choice([4, 5, 6]))])
    cases.append({"id": "rt-n", "kind": "result_type", "a": "", "tuples": quads})
    cases.append({"id": "rt-arr", "kind": "result_type_arrays", "tuples": [[a, b] for a in ALL for b in ALL]})
    res = core.run_cases("harness.h_dtypes", cases, workers=14, per_case_timeout=300)
    rows = []
    for c in cases:
        r = res.get(c["id"], {})
        if "rows" not in r:
            ctx.broken_machinery.append(f"result_type enumeration failed: {c['id']}: {r}")
            return
        rows += r["rows"]
    lines = []
    for names, o in rows:
        lines.append(f"  ([{'; '.join(cd(n) for n in names)}], {cout(o)})")
        ctx.count(("rt", tuple(names)), nontrivial=len(names) >= 2)
    ctx.sample({"result_type": rows[700][0], "observed": rows[700][1]})
    ctx.sample({"result_type": rows[5000][0], "observed": rows[5000][1]})
    src = ("From Coq Require Import List Bool String.\nFrom ND Require Import Base.Dtype Base.DtypeFacts.\nImport ListNotations.\nOpen Scope string_scope.\n"
           "Definition rt_table : list (list dtype * outcome dtype) := [\n" + ";\n".join(lines) + "\n].\n"
           "Fixpoint idx_where {A} (f : A -> bool) (l : list A) (i : nat) : list nat :=\n"
           "  match l with [] => [] | x :: r => if f x then i :: idx_where f r (S i) else idx_where f r (S i) end.\n"
           "Definition agrees (p : list dtype * outcome dtype) := oeqb (result_type (fst p)) (snd p).\n"
           'Eval vm_compute in ("DIFF", idx_where (fun p => negb (agrees p)) rt_table 0).\n'
           "Example tie_result_type : forallb agrees rt_table = true.\nProof. vm_compute. reflexivity. Qed.\n")
    f = ctx.work / "TieResultType.v"
    f.write_text(src)
    ok, out = ctx.compile("T-exh: ndonnx.result_type == model result_type on all 24 + 576 + 13824 ordered tuples, sampled longer tuples, arrays as arguments", f, kind="tie")
    if not ok:
        import re
        flat = re.sub(r"\s+", " ", out)
        m = re.search(r'\("DIFF"(?:%string)?, \[(.*?)\]\)', flat)
        idx = [int(x) for x in re.findall(r"\d+", m.group(1))] if m else []
        search_result_type(ctx, rows, idx)

    # ---- T-graph + theorem on the regenerated table -----------------------------------------
    specs, out, unsup = elem.gen_table(ctx)
    for (k, msg) in unsup[:5]:
        ctx.notes.append(f"untranslatable graph {k}: {msg}")
    okl, viol, known = elem.law_on_generated(ctx, "C03_every_traced_row_obeys_the_dtype_law", "c03_patterns", "c03_row_ok",
                                            "dtype law", "c03")
    elem.report_rows(ctx, specs, out, viol, "C03 dtype law (promotion / boolean result / nullable iff operand nullable)")
    elem.known_classes(ctx, known)
    for s in specs:
        ctx.count(("row", s[0], tuple(s[1]), s[2]), nontrivial=True)
    ctx.sample({"row": list(specs[900][:3]), "observed": elem.short(out[(specs[900][0], tuple(specs[900][1]), specs[900][2])])})

    numpy_scalars(ctx)
    concat_promotion(ctx)
    where_operand_identity(ctx)
    shape_independence(ctx)
    # static theorems
    f = ctx.work / "C03_static.v"
    f.write_text((core.COQ / "Props" / "C03.v").read_text())
    ctx.compile("Props/C03.v: promotion is order- and multiplicity-independent for lists of any length, commutative, associative under the guard, nullable iff, scalars within kind, strings isolated in promote()", f, kind="theorem")
    # string isolation on the observed table itself (search; the tie above is the obligation)
    for names, o in rows:
        strs = {n.endswith("utf8") for n in names}
        if len(strs) > 1 and not o.startswith("!"):
            ctx.finding({"site": "result_type", "law": "string-isolation", "args": list(names)}, f"result_type{tuple(names)} returns {o}: a string promoted with a non-string",
                        replay={"call": "ndonnx.result_type", "args": list(names), "observed": o})
    ctx.coverage.update({
        "rule": "exhaustive: every ordered 1/2/3-tuple of the 24 built-in dtypes through ndonnx.result_type (+ random 4..6-tuples, + arrays as arguments); every element-wise function x dtype tuple row of the T-graph table (all 576 pairs per binary function, Python scalars both orders, operators). Non-trivial = at least two operands or a function row; distinct by (function, operand tuple).",
        "exhaustive": True,
        "traces_validated_against_impl": len(rows) + len(specs),
    })


NPS = ["np:float64", "np:float32", "np:int64", "np:int32", "np:uint8", "np:bool", "np:utf8", "np:int8", "np:uint64"]
BINARY = ["add", "atan2", "bitwise_and", "bitwise_left_shift", "bitwise_or", "bitwise_right_shift", "bitwise_xor", "divide", "equal",
          "floor_divide", "greater", "greater_equal", "less", "less_equal", "logaddexp", "logical_and", "logical_or", "logical_xor",
          "multiply", "not_equal", "pow", "remainder", "subtract"]


def numpy_scalars(ctx):
    """A NumPy scalar operand behaves as a 0-d array of its dtype: for every binary function x 24 array dtypes x 9 NumPy
    scalar types x both orders (placeholders) the observed result dtype / exception family must be the one of the
    array-array row of the regenerated table (looked up inside Coq)."""
    cases = []
    if ctx.tier == "quick":
        dts = [d for d in ALL if not d.startswith("n")] + ["nint64", "nfloat32", "nutf8", "nbool", "nuint8"]
        nps = ["np:float64", "np:float32", "np:int64", "np:uint8", "np:bool", "np:utf8"]
    else:
        dts, nps = ALL, NPS
    for f in BINARY:
        pairs = [[d, s_] for d in dts for s_ in nps] + [[s_, d] for d in dts for s_ in nps]
        cases.append({"id": f"nps-{f}", "kind": "binary", "func": f, "pairs": pairs})
    res = core.run_cases("harness.h_dtypes", cases, workers=14, per_case_timeout=900)
    rows, lines = [], []

    def ak(n):
        return f"AArr {cd(n[3:])}" if n.startswith("np:") else f"AArr {cd(n)}"

    def obs(o):
        if o.startswith("!"):
            return "OExc " + {"TE": "ETypeError", "VE": "EValueError"}.get(o[1:].split("|")[0], "EOther")
        if o.startswith("?"):
            return "OExc EOther"
        return f"ODt {cd(o)}"
    for c in cases:
        r = res.get(c["id"]) or {}
        if "rows" not in r:
            ctx.broken_machinery.append(f"NumPy-scalar enumeration failed: {c['id']}: {str(r)[:200]}")
            return
        for f, a, b, o in r["rows"]:
            rows.append((f, a, b, o))
            lines.append(f'  ("{f}", {ak(a)}, {ak(b)}, {obs(o)})')
            ctx.count(("nps", f, a, b), nontrivial=True)
            ctx.evaluations += 1
    header = ("From Coq Require Import List Bool String.\nFrom ND Require Import Base.Dtype Ndx.ElemSyntax Ndx.ElemLaws Ndx.ReduceCorr.\nFrom G Require Import GenElem.\n"
              "Import ListNotations.\nOpen Scope string_scope.\n"
              "Inductive obs := ODt (d : dtype) | OExc (e : excfam).\n"
              "Definition obs_eqb (a b : obs) : bool := match a, b with ODt x, ODt y => dtype_eqb x y | OExc x, OExc y => excfam_eqb x y | _, _ => false end.\n"
              "Definition class_of (o : rowout) : option obs := match o with Traced d _ _ | DtypeOnly d => Some (ODt d) | Raises e => Some (OExc e) | Untranslated => None end.\n"
              "Definition nprow := (string * argk * argk * obs)%type.\n"
              "Definition fnames := nodup string_dec (map (fun r : row => r_fn r) table).\n"
              "Definition ftables : list (string * list row) := Eval vm_compute in map (fun f => (f, filter (fun r => String.eqb (r_fn r) f && how_eqb (r_how r) HFunc) table)) " + "[" + "; ".join(f'"{f}"' for f in BINARY) + "].\n"
              "Definition tbl_of (f : string) : list row := match find (fun p => String.eqb (fst p) f) ftables with Some p => snd p | None => [] end.\n"
              "Definition np_ok (r : nprow) : bool := let '(f, a, b, o) := r in\n"
              "  match lookup (tbl_of f) f HFunc [a; b] with Some ro => match class_of ro with Some c => obs_eqb c o | None => false end | None => false end.\n")

    def on_bad(i):
        f, a, b, o = rows[i]
        ref = a[3:] if a.startswith("np:") else a, b[3:] if b.startswith("np:") else b
        attrs = {"site": "numpy-scalar", "func": f, "args": [a, b], "observed": o.split("|")[0], "law": "numpy-scalar-as-0d-array"}
        return ctx.finding(attrs, f"{f}({a}, {b}) gives {o}: differs from the array-array row {f}({ref[0]}, {ref[1]}) — a NumPy scalar must promote like a 0-d array of its dtype",
                           {"call": f"ndonnx.{f}", "operands": [a, b], "observed": o, "how_to_replay": "tools/harness/h_dtypes.py kind=binary (placeholders of shape (2,), NumPy scalar as listed)"})
    coqcorr.run(ctx, "NumpyScalars.v", f"T-exh (in Coq): NumPy scalar operands promote like 0-d arrays of their dtype — {len(lines)} calls (23 binary functions x {len(dts)} dtypes x {len(nps)} NumPy scalar types x 2 orders; thorough: all 24 x 9) against the array-array rows of the regenerated table",
                header, "nprow", lines, "np_ok", on_bad, timeout=1200)
    ctx.coverage["numpy_scalar_calls"] = len(lines)


FN_SHAPES = [[], [1], [0], [3], [2, 3], [1, 1]]
FN_FUNCS = ["sum", "prod", "mean", "var", "std", "min", "max", "all", "any", "cumulative_sum", "argmax", "argmin", "sort", "argsort", "reshape", "flip",
            "expand_dims", "clip", "where_self", "copy", "sum_axis_last", "sum_keepdims", "mean_axis0", "max_keepdims"]


def concat_promotion(ctx):
    """Joining functions promote like every other function, whatever the extents: concat / stack of two operands of any
    two dtypes give the same result dtype (or the same TypeError) when either operand is statically empty."""
    from vlib import family, ops
    dts = ["int8", "int32", "uint8", "float32", "float64", "bool", "utf8", "nint32", "int64"]
    cases = []
    for a in dts:
        for b in dts:
            for sa, sb in (([3], [3]), ([0], [3]), ([3], [0]), ([0], [0])):
                mk = lambda d, sh: {"dtype": d, "shape": sh, "data": (["s:a"] * sh[0] if "utf8" in d else [True] * sh[0] if d == "bool" else [ops.fhex(1.0)] * sh[0] if "float" in d else [1] * sh[0]),
                                    **({"mask": [False] * sh[0]} if d.startswith("n") else {})}
                cases.append({"id": f"cp-{a}-{b}-{sa[0]}{sb[0]}", "inputs": {"x": mk(a, sa), "y": mk(b, sb)}, "impl": "out = ndx.concat([x, y])", "oracle": None, "eager": True,
                              "lazy_subsets": [{"names": ["x", "y"]}], "meta": {"func": "concat", "dtype": a, "dtype2": b, "dclass": family.dclass(a), "shapes": f"{sa}{sb}"}})
    res = core.run_cases("harness.h_ops", cases, workers=14, per_case_timeout=120)
    table = {}
    for c in cases:
        r = res.get(c["id"]) or {}
        for mode, o in (("eager", r.get("eager") or {}), ("traced", (r.get("traced") or [{}])[0])):
            if "raise" in o:
                out = "!" + o["raise"]
            elif "ok" in o:
                out = o["ok"].get("dtype")
            elif "meta" in o:
                m_ = o["meta"]
                out = m_.get("dtype") if isinstance(m_, dict) else None
            else:
                out = None
            table.setdefault((c["meta"]["dtype"], c["meta"]["dtype2"]), {})[(c["meta"]["shapes"], mode)] = out
        ctx.count(("cp", c["id"]), nontrivial=True)
    for (a, b), obs in table.items():
        seen = {v for v in obs.values() if v is not None}
        # onnxruntime errors on particular extents are other properties' business; dtypes / TypeErrors must agree
        seen_n = {v for v in seen if not v.startswith("!Other")}
        if len(seen_n) > 1:
            ctx.finding({"site": "function-dtype", "func": "concat", "dtype": a, "dtype2": b, "law": "dtype-independent-of-shape"},
                        f"concat([{a}, {b}]): the outcome depends on the extents of the operands: {sorted(seen_n)}", {"dtypes": [a, b], "outcome_by_shapes_and_mode": {str(k): v for k, v in obs.items()}})


def where_operand_identity(ctx):
    """The result dtype of `where` is a function of the three operand dtypes only: passing the very same array object for
    both branches, a copy of it, or an equal-valued second array gives one dtype (nullable whenever the condition is),
    for placeholders and data-holding arrays alike."""
    from vlib import family, ops
    cases = []
    forms = {"same": "out = ndx.where(c, x, x)", "copy": "out = ndx.where(c, x, x.copy())", "two": "out = ndx.where(c, x, y)", "same+0": "z_ = x; out = ndx.where(c, z_, x)"}
    for cd_ in ("bool", "nbool"):
        for d in ("int32", "int64", "float64", "utf8", "bool", "nint64", "uint8"):
            for sh in ([3], [2, 2], []):
                n = ops.prod(sh)
                mk = lambda dd: {"dtype": dd, "shape": sh, "data": (["s:a"] * n if "utf8" in dd else [True] * n if "bool" in dd else [ops.fhex(1.0)] * n if "float" in dd else [1] * n),
                                 **({"mask": [k % 2 == 0 for k in range(n)]} if dd.startswith("n") else {})}
                for fk, impl in forms.items():
                    cases.append({"id": f"wi-{cd_}-{d}-{len(sh)}{n}-{fk}", "inputs": {"c": mk(cd_), "x": mk(d), "y": mk(d)}, "impl": impl, "oracle": None, "eager": True,
                                  "lazy_subsets": [{"names": ["c", "x", "y"]}, {"names": ["c"]}], "meta": {"func": "where", "dtype": d, "dtype2": cd_, "dclass": family.dclass(d), "form": fk, "shape": str(sh)}})
    res = core.run_cases("harness.h_ops", cases, workers=14, per_case_timeout=120)
    table = {}
    for c in cases:
        r = res.get(c["id"]) or {}
        tr = r.get("traced") or []
        for mode, o in [("eager", r.get("eager") or {})] + [(f"traced{k}", t or {}) for k, t in enumerate(tr)]:
            out = None
            if "raise" in o:
                out = "!" + o["raise"]
            elif "ok" in o:
                out = o["ok"].get("dtype")
            elif "meta" in o and isinstance(o["meta"], dict):
                out = o["meta"].get("dtype")
            table.setdefault((c["meta"]["dtype2"], c["meta"]["dtype"]), {})[(c["meta"]["form"], c["meta"]["shape"], mode)] = out
        ctx.count(("wi", c["id"]), nontrivial=True)
        ctx.evaluations += 1
    for (cd_, d), obs in table.items():
        seen = {v for v in obs.values() if v is not None and not v.startswith("!Other")}
        if len(seen) > 1:
            ctx.finding({"site": "function-dtype", "func": "where", "dtype": d, "dtype2": cd_, "law": "dtype-independent-of-operand-identity"},
                        f"where({cd_} condition, {d}, {d}): the result dtype depends on whether the branches are the same object / on the shape / on the kind of array: {sorted(seen)}",
                        {"dtypes": [cd_, d, d], "outcome_by_form_shape_mode": {str(k): v for k, v in obs.items()}})


def shape_independence(ctx):
    """'The dtype of every result is a function of the operand dtypes only ... forall shapes': non-element-wise
    functions x 24 dtypes x 6 shapes (ranks 0-2, extents 0/1/3) x {placeholder, data-holding}: whenever the call returns,
    the result dtype is the same for every shape and for both kinds of array (compared inside Coq)."""
    cases = [{"id": f"fnd-{f}", "kind": "fn_dtypes", "funcs": [f], "dtypes": ALL, "shapes": FN_SHAPES} for f in FN_FUNCS]
    res = core.run_cases("harness.h_dtypes", cases, workers=14, per_case_timeout=900)
    rows, lines = [], []
    for c in cases:
        r = res.get(c["id"]) or {}
        if "rows" not in r:
            ctx.broken_machinery.append(f"function dtype enumeration failed: {c['id']}: {str(r)[:200]}")
            return
        for f, d, outs in r["rows"]:
            rows.append((f, d, outs))
            obs = "; ".join("None" if o.startswith(("!", "?")) else f"Some {cd(o)}" for o in outs)
            lines.append(f'  ("{f}", {cd(d)}, [{obs}])')
            ctx.count(("fnd", f, d), nontrivial=True)
            ctx.evaluations += len(outs)
    header = ("From Coq Require Import List Bool String.\nFrom ND Require Import Base.Dtype Base.DtypeFacts Ndx.ReduceCorr.\nImport ListNotations.\nOpen Scope string_scope.\n"
              "Definition fnrow := (string * dtype * list (option dtype))%type.\n"
              "Fixpoint somes (l : list (option dtype)) : list dtype := match l with [] => [] | Some d :: r => d :: somes r | None :: r => somes r end.\n"
              "Definition all_equal (l : list dtype) : bool := match l with [] => true | d :: r => forallb (dtype_eqb d) r end.\n"
              "Definition fn_ok (r : fnrow) : bool := let '(_, _, outs) := r in all_equal (somes outs).\n")

    def on_bad(i):
        f, d, outs = rows[i]
        seen = sorted({o for o in outs if not o.startswith(("!", "?"))})
        labels = [f"{'x'.join(map(str, s_)) or 'scalar'}/{m}" for s_ in FN_SHAPES for m in ("lazy", "eager")]
        detail = {lab: o.split("|")[0] for lab, o in zip(labels, outs)}
        return ctx.finding({"site": "function-dtype", "func": f, "dtype": d, "law": "dtype-independent-of-shape"},
                           f"{f} on {d}: the result dtype depends on the shape / on holding data: {seen}", {"function": f, "dtype": d, "result_dtype_by_shape": detail})
    coqcorr.run(ctx, "ShapeIndep.v", f"T-exh (in Coq): result dtype of {len(FN_FUNCS)} non-element-wise calls is the same for every shape (ranks 0-2, extents 0/1/3) and for placeholder / data-holding operands — {len(lines)} (function, dtype) rows",
                header, "fnrow", lines, "fn_ok", on_bad)
    ctx.coverage["function_dtype_rows"] = len(lines)


def search_result_type(ctx, rows, idx):
    """The tie broke: look for an input on which the *property* fails (commutativity, guarded
    associativity, nullable-iff, string isolation), using the observed table itself."""
    tab = {tuple(n): o for n, o in rows}
    found = False
    for i in idx[:200]:
        names, o = rows[i]
        names = list(names)
        perm_out = {tab.get(tuple(p)) for p in itertools.permutations(names) if tuple(p) in tab}
        if len(perm_out) > 1:
            found |= ctx.finding({"site": "result_type", "law": "commutativity", "args": names},
                                 f"result_type{tuple(names)} depends on argument order: {sorted(map(str, perm_out))}",
                                 replay={"call": "ndonnx.result_type", "args": names, "observed": o})
            continue
        if not o.startswith("!"):
            nullable = o.startswith("n") and o[1:] in COQ
            if nullable != any(n.startswith("n") and n[1:] in COQ for n in names):
                found |= ctx.finding({"site": "result_type", "law": "nullable-iff", "args": names},
                                     f"result_type{tuple(names)} = {o}: nullability is not 'iff some operand nullable'",
                                     replay={"call": "ndonnx.result_type", "args": names, "observed": o})
                continue
        # any other disagreement with NumPy's table is a violation of 'promote by the table'
        found |= ctx.finding({"site": "result_type", "law": "numpy-table", "args": names},
                             f"result_type{tuple(names)} = {o} differs from the promotion table",
                             replay={"call": "ndonnx.result_type", "args": names, "observed": o})
    return found


def replay(ctx, path):
    run(ctx)
