"""C15 — static metadata of lazy arrays and of the model never contradicts run time."""
from __future__ import annotations

import random

from props import c06
from vlib import core, families, family, ops

LEVEL = "proof"


def run(ctx):
    rnd = random.Random(ctx.seed)
    ctx.trusted += ["coq/Ndx/GetItem.v, Layout.v: rank/shape laws of the re-indexing operators (the hand-written annotations of getitem / getitem_null / reshape_like claim ranks only)"]
    ctx.not_discharged += ["every other static shape/dtype comes from ONNX shape inference through spox (external code): compared with execution on several admissible sizes, not proved"]
    ctx.static_build()
    scale = 1 if ctx.tier == "quick" else 8
    cases = (families.elementwise_cases(rnd, 100 * scale, prefix="ME", nullable_p=0.2)
             + families.reduction_cases(rnd, 120 * scale, prefix="MR", nullable_p=0.1)
             + families.layout_cases(rnd, 140 * scale, prefix="ML")
             + families.getitem_cases(rnd, 140 * scale, prefix="MG")
             + families.sorting_cases(rnd, 80 * scale, prefix="MS", max_len=9)
             + families.creation_cases(rnd, 60 * scale, prefix="MC")
             + families.cast_cases(rnd, 60 * scale, prefix="MK"))
    cases = [c for c in cases if c["inputs"] and ".shape" not in c["impl"] and "to_numpy" not in c["impl"]]
    for c in cases:
        c["oracle"] = None
        shapes = {k: v["shape"] for k, v in c["inputs"].items()}
        # three signatures: fully static, symbolic/unknown mix, all unknown
        if "s" in c["inputs"] and c["inputs"]["s"]["dtype"] == "int64" and len(shapes["s"]) == 1:
            # a shape vector must have a static length (it fixes the rank of the result)
            c["lazy_subsets"] = [{"names": list(c["inputs"])}]
            continue
        c["lazy_subsets"] = [{"names": list(c["inputs"])},
                             {"names": list(c["inputs"]), "sigs": {k: ops.symbolic_sig(rnd, sh) for k, sh in shapes.items()}},
                             {"names": list(c["inputs"]), "sigs": {k: [None] * len(sh) for k, sh in shapes.items()}}]
    # additional.shape(e) at run time == run-time shape
    for i in range(60 * scale):
        d = rnd.choice(["int64", "float32", "nint32", "utf8", "bool"])
        sh = ops.rand_shape(rnd, 4, 0.2)
        x = ops.tensor(rnd, d, sh, "token")
        impl = rnd.choice(["out = nda.shape(x)", "out = nda.shape(x[..., None])", "out = nda.shape(ndx.reshape(x, [-1]))", "out = nda.shape(ndx.expand_dims(x, 0))"])
        orc = impl.replace("nda.shape(", "np.array(np.shape(").replace("ndx.reshape(x, [-1])", "np.reshape(data(x), [-1])").replace("ndx.expand_dims(x, 0)", "np.expand_dims(data(x), 0)").replace("x[..., None]", "data(x)[..., None]")
        orc = orc + ", dtype=np.int64)" if False else orc.replace("out = np.array(np.shape(", "out = np.array(np.shape(") 
        orc = orc.rstrip() 
        orc = orc[:-1] + "), dtype=np.int64)"
        cases.append(families.mkcase(f"MSH-{i}", {"x": x}, impl, orc, {"func": "additional.shape", "dtype": d, "dclass": family.dclass(d)}, rnd))
    # in-place updates that change rank / shape / dtype of an existing array whose metadata has been read before
    for i in range(50 * scale):
        d = rnd.choice(["int64", "float32", "nint32", "float64"])
        r = rnd.randint(1, 3)
        sh = [rnd.choice([1, 2, 3]) for _ in range(r)]
        x = ops.tensor(rnd, d, sh, "small")
        y = ops.tensor(rnd, d, [2] + sh, "small")
        impl = rnd.choice(["e = x.copy(); n_ = (e.ndim, e.shape, e.dtype); r_ = ndx.reshape(e, [-1], copy=False); out = e",
                           "e = x.copy(); n_ = (e.ndim, e.shape, e.dtype); r_ = ndx.reshape(e, [1, -1, 1], copy=False); out = e",
                           "e = x.copy(); n_ = (e.ndim, e.shape, e.dtype); e += y; out = e",
                           "e = x.copy(); n_ = (e.ndim, e.shape, e.dtype); e *= y; out = [e, e + 1]",
                           "e = x.copy(); n_ = (e.ndim, e.shape, e.dtype); r_ = ndx.astype(e, ndx.float64, copy=False); out = e",
                           "e = x[...]; n_ = e.ndim; e = e[..., None]; m_ = e.ndim; e += 1; out = e"])
        c = families.mkcase(f"MIP-{i}", {"x": x, "y": y}, impl, None, {"func": "inplace-metadata", "dtype": d, "dclass": family.dclass(d)}, rnd)
        c["lazy_subsets"] = [{"names": ["x", "y"]}, {"names": ["x", "y"], "sigs": {"x": [None] * r, "y": [None] * (r + 1)}}, {"names": ["x"]}]
        cases.append(c)
    # a data-holding plain array combined with a NULLABLE placeholder whose static shape has an extent 1 that is broadcast up:
    # both fields of the result have the broadcast shape (statically and at run time)
    for i in range(30 * scale):
        d = rnd.choice(["int64", "float64", "int32"])
        full = [rnd.choice([2, 3]), rnd.choice([2, 3])]
        ysh = [1 if (j == k_) else e for j, e in enumerate(full)] if (k_ := rnd.randint(0, 1)) is not None else full
        x = ops.tensor(rnd, d, full, "small")
        y = ops.tensor(rnd, "n" + d, ysh, "small")
        f_ = rnd.choice(["x + y", "y * x", "ndx.less(x, y)", "ndx.where(y > 0, x, y)", "ndx.subtract(y, x)"])
        c = families.mkcase(f"MCN-{i}", {"x": x, "y": y}, f"out = {f_}", None, {"func": "const-with-nullable-placeholder", "dtype": "n" + d, "dclass": family.dclass("n" + d)}, rnd)
        c["lazy_subsets"] = [{"names": ["y"]}, {"names": ["y"], "sigs": {"y": [None if e == 1 else e for e in ysh]}}, {"names": ["x", "y"]}]
        cases.append(c)
    # the shape-as-array result is an ordinary array: writing into it must not change what x reports afterwards
    for i in range(24 * scale):
        d = rnd.choice(["int64", "float32", "nint32"])
        r = rnd.randint(1, 3)
        sh = [rnd.choice([2, 3, 4]) for _ in range(r)]
        x = ops.tensor(rnd, d, sh, "small")
        impl = rnd.choice(["s_ = nda.shape(x); s_[0] = 1; out = [nda.shape(x), ndx.zeros_like(x), x + 0]",
                           "s_ = nda.shape(x); s_[-1] = 7; out = [nda.shape(x), ndx.roll(x, 1, axis=0)]",
                           "e = x.copy(); s_ = nda.shape(e); s_[0] = 1; t_ = nda.shape(e); out = [t_, e, ndx.ones_like(e)]"])
        c = families.mkcase(f"MSW-{i}", {"x": x}, impl, None, {"func": "shape-array-write", "dtype": d, "dclass": family.dclass(d)}, rnd)
        c["lazy_subsets"] = [{"names": ["x"]}, {"names": ["x"], "sigs": {"x": [None] * r}}, {"names": []}]
        cases.append(c)
    # slices with bounds far outside the axis and any step sign: whatever such an index selects, the static
    # shape / declared dims must be what the model produces (values are not judged here)
    for i in range(80 * scale):
        d = rnd.choice(["int64", "float32", "nint32"])
        r = rnd.randint(1, 2)
        sh = [rnd.choice([1, 2, 3, 5]) for _ in range(r)]
        x = ops.tensor(rnd, d, sh, "small")
        items = []
        for n_ in sh:
            st = rnd.choice([None, 1, 2, -1, -2, -3])
            big = [None, 0, 1, -1, n_, -n_, n_ + 1, -n_ - 1, -n_ - 2, 100, -100]
            items.append(f"slice({rnd.choice(big)}, {rnd.choice(big)}, {st})" if rnd.random() < 0.85 else str(rnd.randint(-n_, n_ - 1)))
        if rnd.random() < 0.25:
            items.insert(rnd.randint(0, len(items)), "None")
        c = families.mkcase(f"MOOB-{i}", {"x": x}, f"out = x[({', '.join(items)},)]", None, {"func": "getitem-wide-bounds", "dtype": d, "dclass": family.dclass(d)}, rnd)
        c["lazy_subsets"] = [{"names": ["x"]}, {"names": ["x"], "sigs": {"x": [None] * r}}]
        c["static_only"] = True
        cases.append(c)
    family.evaluate(ctx, cases, want=("static", "oracle", "traced"))
    ctx.sample({"impl": cases[0]["impl"], "signatures": [s.get("sigs", "static") for s in cases[0]["lazy_subsets"]]})
    ctx.sample({"impl": cases[-1]["impl"], "inputs": {k: v["shape"] for k, v in cases[-1]["inputs"].items()}})
    f = ctx.work / "C15_static.v"
    f.write_text((core.COQ / "Props" / "C15.v").read_text())
    ctx.compile("Props/C15.v: rank laws of the annotated operators (Slice keeps the rank, scalar Gather drops one axis, Unsqueeze adds |axes|), so the all-None annotations ndonnx writes by hand have the run-time rank", f, kind="theorem")
    ctx.coverage.update({"rule": "every function family (element-wise, reductions, layout, indexing, sorting/sets, creation, casts) traced under three placeholder signatures (static, symbolic/unknown mix, all unknown): the dtype/ndim/shape reported by the lazy array and the element type and dims declared by graph.output are compared with the arrays onnxruntime returns; additional.shape(e) is compared with the run-time shape. Distinct by (call, inputs, signature)."})


def replay(ctx, path):
    run(ctx)
