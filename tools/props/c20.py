"""C20 — scalar conversion, truthiness, len and iteration match NumPy or refuse."""
from __future__ import annotations

import random

from harness_consts import ALL
from translate import gen_src
from vlib import core, ops

LEVEL = "proof"


def arrays(rnd, tier):
    specs = []
    extents = [0, 1, 2, 3, 4]
    shapes = [[]] + [[a] for a in extents] + [[a, b] for a in extents for b in (0, 1, 2)] + [[a, b, 2] for a in (0, 1, 2) for b in (0, 1)] 
    for d in ALL:
        for sh in shapes:
            for style in (["small"] if tier == "quick" else ["small", "boundary"]):
                t = ops.tensor(rnd, d, sh, style, mask="none" if rnd.random() < 0.5 else "random")
                if ops.base(d) in ops.FLOATS:
                    t["data"] = [v if v not in ("nan", "inf", "-inf") else ops.fhex(2.0) for v in t["data"]]
                specs.append({"kind": "eager", "tensor": t})
        for sig in ([], [3], ["N"], [None], [0], [2, "N"], ["N", 2], [None, None], [1, 1, 1]):
            specs.append({"kind": "lazy", "dtype": d, "sig": sig})
        # placeholders DERIVED by indexing: the leading extent is static exactly when NumPy can tell it from the declared shape
        if d in ("int64", "float32", "utf8", "nint32", "bool"):
            for sig, expr in (([5], "x[None, 1:3][0, ...]"), ([5], "x[1:4]"), ([5], "x[::2]"), ([5, 2], "x[None, 0:2, :][0, ...]"), ([4, 3], "x[:, None, 1:][:, 0, ...]"),
                              ([6], "x[None, None, ::3][0, 0, ...]"), ([5, 2], "x[1:, ::-1]"), ([3, 4], "x[None, ..., 1:3][0, ...]")):
                specs.append({"kind": "lazy", "dtype": d, "sig": sig, "expr": expr})
    return specs


def same(a, b):
    """NumPy outcome vs ndonnx outcome for a data-holding array: same value, or both raise."""
    if "raise" in a and "raise" in b:
        return True
    if "val" in a and "val" in b:
        return a["val"] == b["val"]
    return False


def run(ctx):
    rnd = random.Random(ctx.seed)
    ctx.trusted += ["tools/translate/gen_src.py protocols() (ast -> Gallina decision functions, fail-closed)",
                    "coq/Ndx/Proto.v np_* as NumPy 2.x's behaviour (0-d only for int()/float(), single element for bool()); checked against NumPy itself by the exhaustive enumeration",
                    "tools/harness/h_proto.py"]
    ctx.static_build()
    try:
        (ctx.work / "GenProto.v").write_text(gen_src.protocols())
        ctx.compile("T-src: GenProto.v (Gallina generated from the six protocol methods of ndonnx/_array.py) compiles", ctx.work / "GenProto.v")
        f = ctx.work / "TieProto.v"
        f.write_text((core.VERIF / "tools/templates/TieProto.v").read_text())
        ctx.compile("C20_protocols_as_written / C20_placeholders_refuse_as_written / C20_iteration_terminates_as_written: the decision functions translated from today's source equal the model; for every data-holding array each protocol returns NumPy's value or both raise; placeholders refuse; iteration yields shape[0] items or raises before yielding", f, kind="theorem")
    except gen_src.Untranslatable as e:
        ctx.obligation("T-src: protocol methods inside the translator's whitelist", False, str(e), "tie")
    ctx.translator_inputs["ndonnx/_array.py"] = core.sha256_file(core.REPO / "ndonnx/_array.py")
    specs = arrays(rnd, ctx.tier)
    cases = [{"id": f"p-{i}", "arrays": specs[i::28]} for i in range(28)]
    res = core.run_cases("harness.h_proto", cases, workers=14, per_case_timeout=600)
    n = 0
    for c in cases:
        r = res.get(c["id"]) or {}
        if "rows" not in r:
            ctx.finding({"func": "protocol", "kind": "crash"}, f"protocol worker failed: {r}", {"case": c["arrays"][:2], "outcome": r})
            continue
        for row in r["rows"]:
            spec = row["spec"]
            n += 1
            ctx.count(("proto", str(spec)[:300]), nontrivial=True)
            if spec["kind"] == "eager":
                d, sh = spec["tensor"]["dtype"], spec["tensor"]["shape"]
                masked_scalar = any(spec["tensor"].get("mask", [])) and ops.prod(sh) == 1
                for name in ("bool", "int", "float", "index", "len"):
                    if masked_scalar and name != "len":
                        continue        # converting a null element is not defined by either library
                    if not same(row["np"][name], row["ndx"][name]):
                        ctx.finding({"func": name, "kind": "value", "dtype": d, "ndim": len(sh), "size": ops.prod(sh)},
                                    f"{name}(x) for {d} array of shape {sh}: ndonnx {row['ndx'][name]}, NumPy {row['np'][name]}",
                                    {"protocol": name, "array": spec["tensor"], "ndonnx": row["ndx"][name], "numpy": row["np"][name]})
                air = row.get("after_inplace_reshape")
                if air and "error" not in air:
                    if not same(air["np_len"], air["ndx_len"]):
                        ctx.finding({"func": "len", "kind": "after-inplace-reshape", "dtype": d}, f"len(x) after ndx.reshape(x, [1, -1], copy=False) on {d}{sh}: ndonnx {air['ndx_len']}, NumPy {air['np_len']}",
                                    {"array": spec["tensor"], "history": "len(x); ndx.reshape(x, [1, -1], copy=False); len(x)", "outcome": air})
                    elif "val" in air["np_iter"] and ("val" not in air["ndx_iter"] or len(air["ndx_iter"]["val"]) != len(air["np_iter"]["val"])
                                                      or ("utf8" not in d and air["ndx_iter"]["val"] != air["np_iter"]["val"])):   # string blocks: onnxruntime's Gather (C08-string-gather)
                        ctx.finding({"func": "iter", "kind": "after-inplace-reshape", "dtype": d}, f"iteration after an in-place reshape of {d}{sh}: ndonnx {str(air['ndx_iter'])[:100]}, NumPy {str(air['np_iter'])[:100]}",
                                    {"array": spec["tensor"], "history": "len(x); ndx.reshape(x, [1, -1], copy=False); iter(x)", "outcome": air})
                ni, xi = row["np"]["iter"], row["ndx"]["iter"]
                if "val" in xi:
                    items = row.get("items")
                    if len(xi["val"]) != (sh[0] if sh else -1) or ("val" in ni and len(ni["val"]) != len(xi["val"])):
                        ctx.finding({"func": "iter", "kind": "length", "dtype": d}, f"iteration over shape {sh} yields {len(xi['val'])} items", {"array": spec["tensor"], "ndonnx": xi})
                    elif isinstance(items, list) and items != xi["val"]:
                        ctx.finding({"func": "iter", "kind": "value", "dtype": d}, f"iteration over {d}{sh}: yielded items differ from x[i]", {"array": spec["tensor"], "iter": xi["val"], "items": items})
                elif "val" in ni:
                    ctx.finding({"func": "iter", "kind": "raises", "dtype": d, "ndim": len(sh)}, f"iter(x) for {d}{sh}: ndonnx {xi}, NumPy iterates", {"array": spec["tensor"], "ndonnx": xi})
            else:
                sig = spec["sig"]
                for name in ("bool", "int", "float", "index"):
                    o = row["ndx"][name]
                    if "raise" not in o or o["raise"] not in ("VE", "TE"):
                        ctx.finding({"func": name, "kind": "lazy-not-refused", "dtype": spec["dtype"]}, f"{name}(placeholder {sig}) -> {o}; must raise ValueError/TypeError", {"protocol": name, "placeholder": spec, "ndonnx": o})
                lead = sig[0] if sig else None
                if spec.get("expr"):
                    import numpy as _np
                    lead = int(eval(spec["expr"], {"x": _np.zeros(sig)}).shape[0])
                for name in ("len", "iter"):
                    o = row["ndx"][name]
                    if spec.get("expr"):
                        # a derived placeholder may not know its leading extent (then it refuses); a value it gives must be right
                        if "val" in o:
                            got = o["val"] if name == "len" else len(o["val"])
                            if got != lead:
                                ctx.finding({"func": name, "kind": "lazy-derived-wrong", "dtype": spec["dtype"]}, f"{name}({spec['expr']}) on placeholder {sig}: {got}, the leading extent is {lead}", {"placeholder": spec, "ndonnx": o})
                        elif o.get("raise") not in ("VE", "TE"):
                            ctx.finding({"func": name, "kind": "lazy-not-refused", "dtype": spec["dtype"]}, f"{name}({spec['expr']}) on placeholder {sig} -> {str(o)[:120]}; must return {lead} or raise ValueError/TypeError", {"placeholder": spec, "ndonnx": o})
                        continue
                    if isinstance(lead, int) and sig:
                        okv = ("val" in o) and ((o["val"] == lead) if name == "len" else len(o["val"]) == lead)
                        # iteration over placeholders yields lazy items (encoded as none) — only the count matters
                        if not okv:
                            ctx.finding({"func": name, "kind": "lazy-static", "dtype": spec["dtype"]}, f"{name}(placeholder {sig}) -> {str(o)[:120]}; leading extent {lead} is static", {"placeholder": spec, "ndonnx": o})
                    else:
                        if "raise" not in o or (sig and o["raise"] not in ("VE", "TE")):
                            ctx.finding({"func": name, "kind": "lazy-not-refused", "dtype": spec["dtype"]}, f"{name}(placeholder {sig}) -> {str(o)[:120]}; must raise ValueError/TypeError", {"placeholder": spec, "ndonnx": o})
    ctx.sample({"array": specs[40], "note": "each array goes through bool/int/float/operator.index/len/iter on ndonnx and on NumPy"})
    f = ctx.work / "C20_static.v"
    f.write_text((core.COQ / "Props" / "C20.v").read_text())
    ctx.compile("Props/C20.v: proto_eager / proto_lazy / iter_terminates on the model", f, kind="theorem")
    ctx.coverage.update({"rule": "exhaustive over the finite table: 24 dtypes x shapes {(), (0..4,), (0..4, 0..2), (0..2, 0..1, 2)} data-holding (random values, masks) + 24 dtypes x 9 placeholder signatures (static, symbolic, unknown, rank 0-3); six protocols each, ndonnx vs NumPy on the same value. Distinct by (array spec).",
                         "exhaustive": True, "traces_validated_against_impl": n})


def replay(ctx, path):
    run(ctx)
