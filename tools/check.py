"""Entry point: ./check <ID> [--tier quick|thorough] [--replay FILE]"""
import argparse
import importlib
import os
import sys
import traceback

sys.path.insert(0, os.path.dirname(os.path.abspath(__file__)))
from vlib import core  # noqa: E402


def main():
    ap = argparse.ArgumentParser()
    ap.add_argument("prop")
    ap.add_argument("--tier", default=os.environ.get("VERIF_TIER", "quick"))
    ap.add_argument("--replay", default=None)
    a = ap.parse_args()
    seed = int(os.environ.get("VERIF_SEED", "0") or 0)
    tier = a.tier if a.tier in ("quick", "thorough") else "quick"
    ctx = core.Ctx(a.prop, tier, seed)
    mod = importlib.import_module("props." + a.prop.lower())
    try:
        if a.replay:
            mod.replay(ctx, a.replay)
        else:
            mod.run(ctx)
    except Exception:
        ctx.broken_machinery.append("check crashed:\n" + traceback.format_exc())
    rc = ctx.finish(getattr(mod, "LEVEL", "proof"))
    sys.exit(rc)


if __name__ == "__main__":
    main()
