(* Compiled on every run against the table regenerated from /repo (G.GenElem): the dtype
   law (C03), the domain law (C17) and definedness inside the standard's domain (C02) hold
   for EVERY row of the regenerated table that is not in a named baseline class. *)
From Coq Require Import List Bool String.
From ND Require Import Base.Dtype Ndx.ElemSyntax Ndx.ElemLaws Ndx.Baseline.
From G Require Import GenElem.
Import ListNotations.

Definition guarded (ps : list pattern) (law : row -> bool) (r : row) : bool :=
  law r || negb (is_none (known_class ps r)).

Lemma guarded_sound ps law tbl : forallb (guarded ps law) tbl = true ->
  forall r, In r tbl -> known_class ps r = None -> law r = true.
Proof.
  intros H r Hr Hk. apply (proj1 (forallb_forall _ _) H) in Hr. unfold guarded in Hr.
  rewrite Hk in Hr. simpl in Hr. now rewrite orb_false_r in Hr.
Qed.

@LAW@

Print Assumptions @THM@.
