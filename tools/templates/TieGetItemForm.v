From Coq Require Import List ZArith Bool.
From ND Require Import Base.Tensor Ndx.Index Ndx.GetItem Ndx.GetItemProof Ndx.GetItemForm.
From G Require Import GenGetItemForm.
(* what _opset_extensions.getitem says today == the form the model was transcribed from *)
Lemma tie_getitem_form : gen_getitem_form = expected_form.
Proof. reflexivity. Qed.
(* hence, for the lowering as written today: every tensor, every rank, every valid tuple of integers / slices / None *)
Theorem C08_getitem_nd_as_written : forall (A : Type) (t : tensor A) (index : list item) (d : A) (r : tensor A),
  wf t -> valid index (shape t) -> np_getitem t index d = Some r ->
  interp_getitem_user gen_getitem_form t index d = Done r.
Proof. intros. rewrite tie_getitem_form, interp_expected_user. now apply getitem_nd. Qed.
Print Assumptions C08_getitem_nd_as_written.
