From Coq Require Import List ZArith Bool.
From ND Require Import Base.Tensor Ndx.GetItem Ndx.Layout Ndx.FlipProof Ndx.FlipForm.
From G Require Import GenFlipForm.
(* what UniformShapeOperations.flip says today == the form the model was transcribed from *)
Lemma tie_flip_form : gen_flip_form = expected_fform.
Proof. reflexivity. Qed.
(* hence, for flip as written today: every tensor of rank >= 1, every axis argument (None, a scalar, a list; negative entries) *)
Theorem C11_flip_nd_as_written : forall (A : Type) (t : tensor A) (ax : flip_axis) (d : A),
  wf t -> rank t <> 0%nat -> Forall (fun n => (Z.of_nat n < 4611686018427387904)%Z) (shape t) ->
  let r := rank t in
  let axs := match as_option ax with None => seq 0 r | Some l => map (fun a => Z.to_nat (if (a <? 0)%Z then Z.of_nat r + a else a)%Z) l end in
  let flags := map (fun i => existsb (Nat.eqb i) axs) (seq 0 r) in
  interp_flip gen_flip_form t ax d = Done (tab (shape t) (fun idx => get t (flip_idx flags (shape t) idx) d)).
Proof. intros. rewrite tie_flip_form, interp_flip_expected. now apply ndx_flip_nd. Qed.
Print Assumptions C11_flip_nd_as_written.
