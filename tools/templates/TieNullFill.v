(* Per-run tie for the null fill of the reductions: GenNullFill.v is generated from
   ndonnx/_core/_numericimpl.py as it reads now. *)
From Coq Require Import List ZArith Bool String Lia.
From ND Require Import Ndx.NullReduce.
From G Require Import GenNullFill.
Import ListNotations.
Open Scope string_scope.

Example tie_null_fills : fills_eqb null_fills expected_null_fills = true.
Proof. vm_compute. reflexivity. Qed.

Definition denoteZ (lo hi : Z) (k : fillk) : Z :=
  match k with FInt z => z | FBool b => if b then 1%Z else 0%Z | FTypeMin => lo | FTypeMax => hi end.
Definition denoteB (k : fillk) : bool := match k with FBool b => b | FInt z => negb (Z.eqb z 0) | _ => false end.

Ltac pick H :=
  simpl in H; repeat (destruct H as [H | H]; [inversion H; subst; clear H | ]); try contradiction.

(* as written today: every reduction of a nullable array skips the nulls — the value under a null
   never reaches the result *)
Theorem C04_sum_skips_nulls_as_written : forall fills, In ("sum", fills) null_fills -> forall g k, In (g, k) fills ->
  forall lo hi vals nulls, List.length vals = List.length nulls ->
  fold_right Z.add 0%Z (fill_nulls (denoteZ lo hi k) vals nulls) = fold_right Z.add 0%Z (non_null vals nulls).
Proof. intros fills H. pick H. intros g k Hk. pick Hk. intros. now apply sum_skips_nulls. Qed.

Theorem C04_prod_skips_nulls_as_written : forall fills, In ("prod", fills) null_fills -> forall g k, In (g, k) fills ->
  forall lo hi vals nulls, List.length vals = List.length nulls ->
  fold_right Z.mul 1%Z (fill_nulls (denoteZ lo hi k) vals nulls) = fold_right Z.mul 1%Z (non_null vals nulls).
Proof. intros fills H. pick H. intros g k Hk. pick Hk. intros. now apply prod_skips_nulls. Qed.

Theorem C04_min_skips_nulls_as_written : forall fills, In ("min", fills) null_fills -> forall g k, In (g, k) fills ->
  forall lo hi vals nulls, List.length vals = List.length nulls -> Forall (fun x => x <= hi)%Z vals ->
  fold_right Z.min hi (fill_nulls (denoteZ lo hi k) vals nulls) = fold_right Z.min hi (non_null vals nulls).
Proof. intros fills H. pick H. intros g k Hk. pick Hk; intros; now apply min_skips_nulls. Qed.

Theorem C04_max_skips_nulls_as_written : forall fills, In ("max", fills) null_fills -> forall g k, In (g, k) fills ->
  forall lo hi vals nulls, List.length vals = List.length nulls -> Forall (fun x => lo <= x)%Z vals ->
  fold_right Z.max lo (fill_nulls (denoteZ lo hi k) vals nulls) = fold_right Z.max lo (non_null vals nulls).
Proof. intros fills H. pick H. intros g k Hk. pick Hk; intros; now apply max_skips_nulls. Qed.

Theorem C04_all_skips_nulls_as_written : forall fills, In ("all", fills) null_fills -> forall g k, In (g, k) fills ->
  forall vals nulls, List.length vals = List.length nulls ->
  fold_right andb true (fill_nulls (denoteB k) vals nulls) = fold_right andb true (non_null vals nulls).
Proof. intros fills H. pick H. intros g k Hk. pick Hk. intros. now apply all_skips_nulls. Qed.

Theorem C04_any_skips_nulls_as_written : forall fills, In ("any", fills) null_fills -> forall g k, In (g, k) fills ->
  forall vals nulls, List.length vals = List.length nulls ->
  fold_right orb false (fill_nulls (denoteB k) vals nulls) = fold_right orb false (non_null vals nulls).
Proof. intros fills H. pick H. intros g k Hk. pick Hk. intros. now apply any_skips_nulls. Qed.

(* and, whatever the fill: two arrays that differ only under nulls are indistinguishable to the reduction *)
Theorem C04_reductions_are_payload_independent_as_written : forall f fills, In (f, fills) null_fills -> forall g k, In (g, k) fills ->
  forall lo hi vals vals' nulls, List.length vals = List.length vals' -> agree vals vals' nulls ->
  fill_nulls (denoteZ lo hi k) vals nulls = fill_nulls (denoteZ lo hi k) vals' nulls.
Proof. intros. now apply fill_payload_independent. Qed.
