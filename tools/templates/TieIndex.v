(* Compiled on every run against Gallina generated from ndonnx/_index.py and
   _corearray._normalise_index (G.GenIndex). *)
From Coq Require Import List ZArith Bool Lia.
From ND Require Import Ndx.PyVal Ndx.Slice1D Ndx.Slice1DFacts Ndx.Index.
From G Require Import GenIndex.
Import ListNotations.
Open Scope Z_scope.

Ltac zfacts :=
  repeat match goal with
         | H : (_ =? _) = true |- _ => apply Z.eqb_eq in H
         | H : (_ =? _) = false |- _ => apply Z.eqb_neq in H
         | H : (_ <? _) = true |- _ => apply Z.ltb_lt in H
         | H : (_ <? _) = false |- _ => apply Z.ltb_ge in H
         end.
Ltac crunch :=
  cbn -[Z.gtb Z.ltb Z.eqb Z.geb Z.leb INDEX_MAX INDEX_MIN IMAX IMIN]; rewrite ?Z.gtb_ltb, ?Z.geb_leb;
  repeat match goal with
         | |- context [if ?c then _ else _] =>
             match c with
             | context [if _ then _ else _] => fail 1
             | _ => let E := fresh "E" in destruct c eqn:E; cbn -[Z.gtb Z.ltb Z.eqb Z.geb Z.leb INDEX_MAX INDEX_MIN IMAX IMIN] in *
             end
         end; try reflexivity; try discriminate; zfacts;
  unfold INDEX_MAX, INDEX_MIN, IMAX, IMIN in *; try (exfalso; lia); try reflexivity.

(* the per-item normaliser as written today == the typed model, for every index entry *)
Lemma tie_normalise_item : forall i, gen_normalise_item (enc i) = mapM enc_n (norm_item i).
Proof.
  intros i. destruct i as [z|b|a b c| | |]; try reflexivity.
  unfold gen_normalise_item, norm_item, norm, mapM.
  destruct a as [az|], b as [bz|], c as [cz|]; crunch.
Qed.

Lemma tie_counts_as_some : forall i, gen_counts_as_some (enc i) = Ret (PBool (counts_as_some i)).
Proof. intros i; destruct i as [z|b|a b c| | |]; reflexivity. Qed.
Lemma tie_fill : gen_fill = Ret (enc (ISlice None None None)).
Proof. reflexivity. Qed.
Lemma tie_expansion : forall rank count_some epos,
  gen_prefix_upto rank count_some epos = epos /\ gen_fill_count rank count_some epos = rank - count_some
  /\ gen_suffix_from rank count_some epos = epos + 1.
Proof. intros; repeat split; unfold gen_prefix_upto, gen_fill_count, gen_suffix_from; lia. Qed.
Lemma tie_counts_as_expression : forall n, gen_counts_as_expression (enc_n n) = Ret (PBool (addresses_axis n)).
Proof. intros n; destruct n; reflexivity. Qed.
Lemma tie_rank_check : forall ndim cnt, gen_rank_mismatch ndim cnt = negb (ndim =? cnt) /\ gen_rank_exn = IndexError.
Proof. intros; split; reflexivity. Qed.

(* composed with the hand proof: the property about the code as it reads now *)
Theorem C08_slice_as_written : forall n a b c, 0 <= n < 4611686018427387904 -> in_bounds n a b c ->
  exists q, gen_normalise_item (enc (ISlice a b c)) = Ret (enc_n q) /\
            onnx_slice n (match q with NSlice s e p => Some (s, e, p) | _ => None end) = py_slice n a b c
            /\ (q = NFull \/ exists s e p, q = NSlice s e p).
Proof.
  intros n a b c Hn Hb. rewrite tie_normalise_item. simpl.
  destruct (norm a b c) as [[[s e] p]|] eqn:E.
  - exists (NSlice s e p). repeat split; [|right; eauto]. rewrite <- E. now apply slice_1d.
  - exists NFull. repeat split; [|left; reflexivity]. rewrite <- E. now apply slice_1d.
Qed.
Print Assumptions C08_slice_as_written.
