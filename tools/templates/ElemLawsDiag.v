From Coq Require Import List Bool String.
From ND Require Import Base.Dtype Ndx.ElemSyntax Ndx.ElemLaws Ndx.Baseline.
From G Require Import GenElem.
Import ListNotations.
Open Scope string_scope.
Definition viol (ps : list pattern) (law : row -> bool) :=
  indices_where (fun r => negb (law r) && is_none (known_class ps r)) GenElem.table 0.
Definition seen (ps : list pattern) (law : row -> bool) :=
  nodup string_dec (flat_map (fun r => if law r then [] else
     match known_class ps r with Some c => [c] | None => [] end) GenElem.table).
Eval vm_compute in ("VIOL", viol @PS@ @LAWFN@).
Eval vm_compute in ("KNOWN", seen @PS@ @LAWFN@).
Eval vm_compute in ("ROWS", List.length GenElem.table).
