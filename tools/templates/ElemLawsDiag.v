From Coq Require Import List Bool String Arith.
From ND Require Import Base.Dtype Ndx.ElemSyntax Ndx.ElemLaws Ndx.Baseline.
From G Require Import GenElem.
Import ListNotations.
Open Scope string_scope.
Fixpoint find_idx (r : row) (ps : list pattern) (i : nat) : option nat :=
  match ps with [] => None | p :: q => if pat_match r p then Some i else find_idx r q (S i) end.
(* one pass: (indices of violating rows, pattern indices hit by failing rows) *)
Fixpoint scan (ps : list pattern) (law : row -> bool) (l : list row) (i : nat) (v k : list nat) :=
  match l with
  | [] => (rev v, k)
  | r :: q => if law r then scan ps law q (S i) v k
              else match find_idx r ps 0 with
                   | Some j => scan ps law q (S i) v (if existsb (Nat.eqb j) k then k else j :: k)
                   | None => scan ps law q (S i) (i :: v) k
                   end
  end.
Definition result := scan @PS@ @LAWFN@ GenElem.table 0 [] [].
Definition cls_of (j : nat) := match nth_error @PS@ j with Some (_, _, _, _, c) => c | None => "?" end.
Definition res := Eval vm_compute in result.
Eval vm_compute in ("VIOL", fst res).
Eval vm_compute in ("KNOWN", nodup string_dec (map cls_of (snd res))).
