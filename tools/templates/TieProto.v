(* Compiled on every run against Gallina generated from Array.__float__/__index__/__int__/
   __bool__/__len__/__iter__ (G.GenProto). *)
From Coq Require Import List Bool ZArith Lia.
From ND Require Import Ndx.Proto Ndx.ProtoFacts.
From G Require Import GenProto.
Open Scope Z_scope.
Ltac crunch s := destruct s as [hv sz nd ii ib s0]; cbv [has_value size ndim item_is_int item_is_bool shape0];
  destruct hv, ii, ib, s0; simpl; try destruct (sz =? 1); try destruct (nd =? 0); reflexivity.
Lemma tie_float : forall s, gen_float s = ndx_float s. Proof. intros s; unfold gen_float, ndx_float; crunch s. Qed.
Lemma tie_int : forall s, gen_int s = ndx_int s. Proof. intros s; unfold gen_int, ndx_int; crunch s. Qed.
Lemma tie_bool : forall s, gen_bool s = ndx_bool s. Proof. intros s; unfold gen_bool, ndx_bool; crunch s. Qed.
Lemma tie_index : forall s, gen_index s = ndx_index s. Proof. intros s; unfold gen_index, ndx_index; crunch s. Qed.
Lemma tie_len : forall s, gen_len s = ndx_len s. Proof. intros s; unfold gen_len, ndx_len; crunch s. Qed.
Lemma tie_iter : forall s, gen_iter s = ndx_iter s. Proof. intros s; unfold gen_iter, ndx_iter; crunch s. Qed.

(* the property about the methods as they read today *)
Theorem C20_protocols_as_written : forall s, eager_wf s ->
  observe (gen_float s) s = np_float s /\ observe (gen_int s) s = np_int s /\
  observe (gen_bool s) s = np_bool s /\ observe (gen_index s) s = np_index s /\
  observe (gen_len s) s = np_len s /\ observe (gen_iter s) s = np_iter s.
Proof. intros s H. rewrite tie_float, tie_int, tie_bool, tie_index, tie_len, tie_iter. now apply proto_eager. Qed.
Theorem C20_placeholders_refuse_as_written : forall s, lazy_wf s ->
  gen_float s = PRaiseVE /\ gen_int s = PRaiseVE /\ gen_bool s = PRaiseVE /\ gen_index s = PRaiseVE.
Proof. intros s H. rewrite tie_float, tie_int, tie_bool, tie_index. destruct (proto_lazy s H) as (a & b & c & d & _). auto. Qed.
Theorem C20_iteration_terminates_as_written : forall s,
  match gen_iter s with PIter n => shape0 s = DimInt n | PRaiseVE => True | _ => False end.
Proof. intros s. rewrite tie_iter. apply iter_terminates. Qed.
Print Assumptions C20_protocols_as_written.
