"""Names shared by the driver side (no ndonnx import here)."""
CORE = ["bool", "int8", "int16", "int32", "int64", "uint8", "uint16", "uint32", "uint64",
        "float32", "float64", "utf8"]
NULLABLE = ["n" + c for c in CORE]
ALL = CORE + NULLABLE
REDUCED = ["bool", "int8", "int32", "int64", "uint8", "uint32", "uint64", "float32", "float64", "utf8",
           "nbool", "nint8", "nuint64", "nfloat32", "nutf8"]
SCALAR_NAMES = ["pybool", "pyint", "pyfloat", "pystr"]
UNARY = ["abs", "acos", "acosh", "asin", "asinh", "atan", "atanh", "bitwise_invert", "ceil", "cos",
         "cosh", "exp", "expm1", "floor", "isfinite", "isinf", "isnan", "log", "log1p", "log2",
         "log10", "logical_not", "negative", "positive", "round", "sign", "sin", "sinh", "square",
         "sqrt", "tan", "tanh", "trunc"]
BINARY = ["add", "atan2", "bitwise_and", "bitwise_left_shift", "bitwise_or", "bitwise_right_shift",
          "bitwise_xor", "divide", "equal", "floor_divide", "greater", "greater_equal", "less",
          "less_equal", "logaddexp", "logical_and", "logical_or", "logical_xor", "multiply",
          "not_equal", "pow", "remainder", "subtract"]
OPERATORS = ["add", "subtract", "multiply", "divide", "floor_divide", "remainder", "pow",
             "bitwise_and", "bitwise_or", "bitwise_xor", "bitwise_left_shift", "bitwise_right_shift",
             "less", "less_equal", "greater", "greater_equal", "equal", "not_equal"]
INT_DTYPES = ["int8", "int16", "int32", "int64", "uint8", "uint16", "uint32", "uint64"]
FLOAT_DTYPES = ["float32", "float64"]
