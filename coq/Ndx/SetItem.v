(* Ndx/SetItem.v — x[index] = v as ndonnx lowers it: ScatterND over the index grid selected by
   the same getitem lowering, updates broadcast to the selection. *)
From Coq Require Import List Arith ZArith Bool Lia.
From ND Require Import Base.Tensor Ndx.PyVal Ndx.Slice1D Ndx.Index Ndx.GetItem.
Import ListNotations.
Local Open Scope nat_scope.

(* ndindex(shape): the tensor whose element at idx is idx itself *)
Definition ndindex (sh : list nat) : tensor (list nat) := tab sh (fun idx => idx).

Fixpoint list_nat_eqb (a b : list nat) : bool :=
  match a, b with [], [] => true | x :: a', y :: b' => Nat.eqb x y && list_nat_eqb a' b' | _, _ => false end.

(* position of the first selected slot that addresses `idx` *)
Fixpoint find_pos (idx : list nat) (l : list (list nat)) (p : nat) : option nat :=
  match l with [] => None | x :: r => if list_nat_eqb x idx then Some p else find_pos idx r (S p) end.

(* ScatterND(data, indices = G, updates): out[G[p]] = updates[p]; every other element unchanged.
   `upd p` is the (broadcast) update value for the p-th selected slot, row-major over G. *)
Definition scatter {A} (t : tensor A) (G : list (list nat)) (upd : nat -> A) (d : A) : tensor A :=
  tab (shape t) (fun idx => match find_pos idx G 0 with Some p => upd p | None => get t idx d end).

Definition ndx_setitem {A} (t : tensor A) (index : list item) (upd : nat -> A) (d : A) : res (tensor A) :=
  match ndx_getitem_user (ndindex (shape t)) index [] with
  | Done g => Done (scatter t (data g) upd d)
  | RuntimeError => RuntimeError
  | TraceError e => TraceError e
  end.
