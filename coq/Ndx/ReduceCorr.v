(* Ndx/ReduceCorr.v — in-Coq correspondence for reductions on integer tensors. *)
From Coq Require Import List Arith ZArith Bool.
From ND Require Import Base.Tensor Ndx.Reduce.
Import ListNotations.

Inductive rfn := RSum | RProd | RMin | RMax.

Definition rop (f : rfn) : Z -> Z -> Z :=
  match f with RSum => Z.add | RProd => Z.mul | RMin => Z.min | RMax => Z.max end.
Definition rneutral (f : rfn) : Z :=
  match f with RSum => 0%Z | RProd => 1%Z | RMin => 9223372036854775807%Z | RMax => (-9223372036854775808)%Z end.

Record rcase := { rc_fn : rfn; rc_shape : list nat; rc_data : list Z; rc_axis : axis_spec; rc_keep : bool;
                  rc_oshape : list nat; rc_odata : list Z }.

Fixpoint list_eqb_nat (a b : list nat) : bool :=
  match a, b with [], [] => true | x :: a', y :: b' => Nat.eqb x y && list_eqb_nat a' b' | _, _ => false end.
Fixpoint list_eqb_Z (a b : list Z) : bool :=
  match a, b with [], [] => true | x :: a', y :: b' => Z.eqb x y && list_eqb_Z a' b' | _, _ => false end.

Definition model_reduce (c : rcase) : tensor Z :=
  ndx_reduce (rop (rc_fn c)) (rneutral (rc_fn c)) {| shape := rc_shape c; data := rc_data c |} (rc_axis c) (rc_keep c) 0%Z.

Definition rcase_ok (c : rcase) : bool :=
  let t := model_reduce c in
  list_eqb_nat (shape t) (rc_oshape c) && list_eqb_Z (data t) (rc_odata c).

Fixpoint bad_idx {A} (f : A -> bool) (l : list A) (i : nat) : list nat :=
  match l with [] => [] | x :: r => if f x then bad_idx f r (S i) else i :: bad_idx f r (S i) end.
