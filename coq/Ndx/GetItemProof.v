(* Ndx/GetItemProof.v — the n-D statement for basic indexing.
   A view of t is (shape, index map).  Every re-indexing operator maps views to views, and
   materialising commutes with the operator under a LOCAL side condition (positions in range).
   The three passes of the lowering (Slice on the stepped axes, Gather per integer axis in reverse,
   one Unsqueeze) then become a fold over views, compared axis by axis with NumPy's
   left-to-right semantics. *)
From Coq Require Import List Arith ZArith Bool Lia.
From ND Require Import Base.Tensor Base.TensorFacts Ndx.PyVal Ndx.Slice1D Ndx.Slice1DFacts Ndx.Index Ndx.GetItem.
Import ListNotations.
Local Open Scope nat_scope.
Notation inb := Tensor.in_bounds.

Record view := { vshape : list nat; vmap : list nat -> list nat }.

Definition mat {A} (t : tensor A) (v : view) (d : A) : tensor A :=
  tab (vshape v) (fun idx => get t (vmap v idx) d).

Definition v_id (sh : list nat) : view := {| vshape := sh; vmap := fun i => i |}.
Definition v_select (v : view) (ax : nat) (sel : list nat) : view :=
  {| vshape := replace_nth ax (length sel) (vshape v);
     vmap := fun idx => vmap v (replace_nth ax (nth (nth ax idx 0) sel 0) idx) |}.
Definition v_drop (v : view) (ax c : nat) : view :=
  {| vshape := remove_nth ax (vshape v); vmap := fun idx => vmap v (insert_nth ax c idx) |}.

(* ---- index plumbing ---------------------------------------------------------------------- *)
Lemma inb_length sh idx : inb sh idx -> length idx = length sh.
Proof. revert idx; induction sh as [|x r IH]; intros [|i j] H; simpl in *; try tauto. f_equal. apply IH. tauto. Qed.

Lemma inb_replace sh idx ax n c : inb (replace_nth ax n sh) idx -> (ax < length sh -> c < nth ax sh 0) ->
  inb sh (replace_nth ax c idx).
Proof.
  revert idx ax. induction sh as [|x r IH]; intros idx ax H Hc; simpl in *.
  - destruct idx, ax; simpl in *; tauto.
  - destruct ax as [|ax]; destruct idx as [|i j]; simpl in *; try tauto.
    + destruct H as [_ H]. split; auto. apply Hc. lia.
    + destruct H as [Hi H]. split; auto. apply IH; auto. intros. apply Hc. lia.
Qed.

Lemma inb_nth sh idx ax : inb sh idx -> ax < length sh -> nth ax idx 0 < nth ax sh 0.
Proof.
  revert idx ax. induction sh as [|x r IH]; intros idx ax H Hax; simpl in *; [lia|].
  destruct idx as [|i j]; [tauto|]. destruct H as [Hi Hj]. destruct ax; simpl; auto. apply IH; auto. lia.
Qed.

Lemma nth_replace_same {A} ax (v : A) l d : ax < length l -> nth ax (replace_nth ax v l) d = v.
Proof. revert ax; induction l as [|x r IH]; intros ax H; destruct ax; simpl in *; try lia; auto. apply IH. lia. Qed.
Lemma length_replace {A} ax (v : A) l : length (replace_nth ax v l) = length l.
Proof. revert ax; induction l as [|x r IH]; intros ax; destruct ax; simpl; auto. Qed.

Lemma inb_insert sh idx ax c : inb (remove_nth ax sh) idx -> ax < length sh -> c < nth ax sh 0 ->
  inb sh (insert_nth ax c idx).
Proof.
  revert idx ax. induction sh as [|x r IH]; intros idx ax H Hax Hc; simpl in *; [lia|].
  destruct ax as [|ax]; simpl in *.
  - split; auto.
  - destruct idx as [|i j]; simpl in *; [tauto|]. destruct H as [Hi H]. split; auto. apply IH; auto. lia.
Qed.

(* ---- materialisation commutes with the operators -------------------------------------------- *)
Lemma mat_select {A} (t : tensor A) v ax sel d :
  (ax < length (vshape v) -> Forall (fun c => c < nth ax (vshape v) 0) sel) ->
  t_select (mat t v d) ax sel d = mat t (v_select v ax sel) d.
Proof.
  intros Hsel. unfold t_select, mat, v_select; simpl. apply tab_ext. intros idx Hb.
  rewrite get_tab; [reflexivity|].
  eapply inb_replace; eauto. intros Hax. specialize (Hsel Hax). rewrite Forall_forall in Hsel. apply Hsel. apply nth_In.
  pose proof (inb_nth _ _ ax Hb) as H. rewrite length_replace in H. rewrite nth_replace_same in H; auto.
Qed.

Lemma mat_drop {A} (t : tensor A) v ax c d :
  ax < length (vshape v) -> c < nth ax (vshape v) 0 ->
  t_drop (mat t v d) ax c d = mat t (v_drop v ax c) d.
Proof.
  intros Hax Hc. unfold t_drop, mat, v_drop; simpl. apply tab_ext. intros idx Hb.
  rewrite get_tab; [reflexivity|]. apply inb_insert; auto.
Qed.

(* ---- every position onnxruntime's Slice selects lies inside the axis ------------------------- *)
Section Range.
Local Open Scope Z_scope.
Lemma count_pos s e p j : 0 < p -> 0 <= j < count s e p -> s + j * p < e.
Proof.
  unfold count. intros Hp Hj.
  pose proof (Z.div_mod (s - e) p ltac:(lia)) as D. pose proof (Z.mod_pos_bound (s - e) p Hp) as M.
  set (q := (s - e) / p) in *. set (r := (s - e) mod p) in *. nia.
Qed.
Lemma count_neg s e p j : p < 0 -> 0 <= j < count s e p -> e < s + j * p.
Proof.
  unfold count. intros Hp Hj.
  pose proof (Z.div_mod (s - e) p ltac:(lia)) as D. pose proof (Z.mod_neg_bound (s - e) p Hp) as M.
  set (q := (s - e) / p) in *. set (r := (s - e) mod p) in *. nia.
Qed.
Lemma count_zero s e : count s e 0 = 0.
Proof. unfold count. now rewrite Zdiv_0_r. Qed.

Lemma onnx_bounds_range n s e p : 0 < n ->
  let '(s2, e2) := onnx_bounds n s e p in
  (0 < p -> 0 <= s2 /\ e2 <= n) /\ (p < 0 -> s2 <= n - 1 /\ -1 <= e2).
Proof.
  intros Hn. unfold onnx_bounds, clampO.
  repeat match goal with |- context [if ?c then _ else _] => destruct c eqn:? end; lia.
Qed.

Lemma onnx_slice_range n q : 0 <= n -> Forall (fun x => 0 <= x < n) (onnx_slice n (Some q)).
Proof.
  intros Hn. destruct q as [[s e] p]. unfold onnx_slice.
  pose proof (onnx_bounds_range n s e p) as R. destruct (onnx_bounds n s e p) as [s2 e2].
  destruct (n =? 0) eqn:En; [constructor|]. apply Z.eqb_neq in En. specialize (R ltac:(lia)).
  unfold sel. apply Forall_forall. intros x Hx. apply in_map_iff in Hx. destruct Hx as [i [<- Hi]]. apply in_seq in Hi.
  assert (Hj : 0 <= Z.of_nat i < count s2 e2 p) by lia.
  destruct (Z.lt_trichotomy p 0) as [Hp | [-> | Hp]].
  - pose proof (count_neg _ _ _ _ Hp Hj). destruct R as [_ R]. specialize (R Hp). nia.
  - rewrite count_zero in Hj. lia.
  - pose proof (count_pos _ _ _ _ Hp Hj). destruct R as [R _]. specialize (R Hp). nia.
Qed.
End Range.

Lemma znat_range n q : Forall (fun c => c < n) (znat (onnx_slice (Z.of_nat n) (Some q))).
Proof.
  unfold znat. apply Forall_forall. intros c Hc. apply in_map_iff in Hc. destruct Hc as [x [<- Hx]].
  pose proof (onnx_slice_range (Z.of_nat n) q ltac:(lia)) as R. rewrite Forall_forall in R. specialize (R x Hx). lia.
Qed.

(* ---- the two Slice/Gather passes as one fold over views --------------------------------------- *)
Inductive gop := GSel (ax : nat) (q : Z * Z * Z) | GDrop (ax : nat) (z : Z).
Definition shift (o : gop) : gop := match o with GSel ax q => GSel (S ax) q | GDrop ax z => GDrop (S ax) z end.
Definition resolve (n : nat) (z : Z) : nat := Z.to_nat (if (z <? 0)%Z then z + Z.of_nat n else z)%Z.
Definition in_range (n : nat) (z : Z) : bool := ((- Z.of_nat n <=? z) && (z <? Z.of_nat n))%Z.
Definition sel_of (n : nat) (q : Z * Z * Z) : list nat := znat (onnx_slice (Z.of_nat n) (Some q)).

Definition vstep (v : view) (o : gop) : view :=
  match o with
  | GSel ax q => v_select v ax (sel_of (nth ax (vshape v) 0) q)
  | GDrop ax z => v_drop v ax (resolve (nth ax (vshape v) 0) z)
  end.
Definition vrun (v : view) (ops : list gop) : view := fold_left vstep ops v.

(* shapes only, with Gather's run-time range check *)
Definition sstep (sh : list nat) (o : gop) : option (list nat) :=
  match o with
  | GSel ax q => Some (replace_nth ax (length (sel_of (nth ax sh 0) q)) sh)
  | GDrop ax z => if in_range (nth ax sh 0) z then Some (remove_nth ax sh) else None
  end.
Fixpoint srun (sh : list nat) (ops : list gop) : option (list nat) :=
  match ops with
  | [] => Some sh
  | o :: r => match sstep sh o with Some sh' => srun sh' r | None => None end
  end.

Lemma vshape_vstep v o sh' : sstep (vshape v) o = Some sh' -> vshape (vstep v o) = sh'.
Proof. destruct o as [ax q|ax z]; simpl; [congruence|]. destruct (in_range _ _); congruence. Qed.

Lemma vshape_vrun ops : forall v sh', srun (vshape v) ops = Some sh' -> vshape (vrun v ops) = sh'.
Proof.
  induction ops as [|o r IH]; intros v sh' H; simpl in *; [congruence|].
  destruct (sstep (vshape v) o) as [s1|] eqn:E; [|discriminate]. apply IH. now rewrite (vshape_vstep v o s1 E).
Qed.

Lemma srun_app sh l1 l2 : srun sh (l1 ++ l2) = match srun sh l1 with Some s => srun s l2 | None => None end.
Proof. revert sh; induction l1 as [|o r IH]; intros sh; simpl; auto. destruct (sstep sh o); auto. Qed.

Lemma srun_shift ops : forall n sh, srun (n :: sh) (map shift ops) = option_map (cons n) (srun sh ops).
Proof.
  induction ops as [|o r IH]; intros n sh; simpl; auto.
  destruct o as [ax q|ax z]; simpl.
  - apply IH.
  - destruct (in_range (nth ax sh 0) z); simpl; auto.
Qed.

(* the model's passes are the fold, materialised *)
Definition sel_ops (sl : list (nat * (Z * Z * Z))) : list gop := map (fun p => GSel (fst p) (snd p)) sl.
Definition drop_ops (gs : list (nat * Z)) : list gop := map (fun p => GDrop (fst p) (snd p)) gs.

Lemma model_slices {A} (t : tensor A) d sl : forall v,
  apply_slices (mat t v d) sl d = mat t (vrun v (sel_ops sl)) d.
Proof.
  unfold apply_slices, vrun. induction sl as [|[ax q] r IH]; intros v; simpl; auto.
  rewrite <- IH. f_equal. apply mat_select. intros _. apply znat_range.
Qed.

Lemma in_range_spec n z : in_range n z = true -> resolve n z < n.
Proof. unfold in_range, resolve. intros H. apply andb_true_iff in H. destruct H as [H1 H2]. apply Z.leb_le in H1. apply Z.ltb_lt in H2. destruct (z <? 0)%Z eqn:E; lia. Qed.

Lemma model_gathers {A} (t : tensor A) d gs : forall v,
  apply_gathers (mat t v d) gs d =
  match srun (vshape v) (drop_ops gs) with Some _ => Done (mat t (vrun v (drop_ops gs)) d) | None => RuntimeError end.
Proof.
  induction gs as [|[ax z] r IH]; intros v; simpl; auto.
  fold (in_range (nth ax (vshape v) 0) z). destruct (in_range (nth ax (vshape v) 0) z) eqn:E; auto.
  fold (resolve (nth ax (vshape v) 0) z). pose proof (in_range_spec _ _ E) as Hc.
  rewrite mat_drop; auto.
  - apply IH.
  - destruct (Nat.lt_ge_cases ax (length (vshape v))) as [H|H]; auto. rewrite nth_overflow in Hc by exact H. lia.
Qed.

(* ---- one axis at a time: the tail of a view at a head position ------------------------------- *)
Definition tailv (v : view) (i : nat) : view :=
  {| vshape := tl (vshape v); vmap := fun idx => vmap v (i :: idx) |}.

Lemma vrun_snoc v l o : vrun v (l ++ [o]) = vstep (vrun v l) o.
Proof. unfold vrun. now rewrite fold_left_app. Qed.

Lemma vrun_shift ops : forall v n sh, vshape v = n :: sh ->
  (forall i, vshape (vrun v (map shift ops)) = n :: vshape (vrun (tailv v i) ops)) /\
  (forall i idx, vmap (vrun v (map shift ops)) (i :: idx) = vmap (vrun (tailv v i) ops) idx).
Proof.
  induction ops as [|o l IH] using rev_ind; intros v n sh Hv.
  - simpl. split; intros; [now rewrite Hv | reflexivity].
  - rewrite map_app. simpl map. destruct (IH v n sh Hv) as [IHs IHm]. split.
    + intros i. rewrite !vrun_snoc. specialize (IHs i).
      set (W := vrun v (map shift l)) in *. set (Wi := vrun (tailv v i) l) in *.
      destruct o as [ax q|ax z]; simpl; rewrite IHs; reflexivity.
    + intros i idx. rewrite !vrun_snoc. specialize (IHs i). pose proof (IHm i) as IHi.
      set (W := vrun v (map shift l)) in *. set (Wi := vrun (tailv v i) l) in *.
      destruct o as [ax q|ax z]; simpl; rewrite IHs; simpl; apply IHi.
Qed.

(* ---- the lowering against a left-to-right reading of the normalised index ------------------- *)
Definition item_int (a : nitem) : option Z :=
  match a with NInt z => Some z | NBool b => Some (if b then 1 else 0)%Z | _ => None end.

(* entries that address an axis (no new-axis markers) *)
Fixpoint a_shape (its : list nitem) (sh : list nat) : option (list nat) :=
  match its, sh with
  | [], [] => Some []
  | a :: r, n :: sh' =>
      match a with
      | NInt _ | NBool _ =>
          match item_int a with Some z => if in_range n z then a_shape r sh' else None | None => None end
      | NFull => option_map (cons n) (a_shape r sh')
      | NSlice s e p => option_map (cons (length (sel_of n (s, e, p)))) (a_shape r sh')
      | NNew => None
      end
  | _, _ => None
  end.
Fixpoint a_src (its : list nitem) (sh : list nat) (oidx : list nat) : list nat :=
  match its, sh with
  | a :: r, n :: sh' =>
      match a with
      | NInt _ | NBool _ => match item_int a with Some z => resolve n z :: a_src r sh' oidx | None => [] end
      | NFull => hd 0 oidx :: a_src r sh' (tl oidx)
      | NSlice s e p => nth (hd 0 oidx) (sel_of n (s, e, p)) 0 :: a_src r sh' (tl oidx)
      | NNew => []
      end
  | _, _ => []
  end.

Definition ops_of (its : list nitem) : list gop :=
  sel_ops (axis_slices its) ++ drop_ops (rev (axis_indices its)).

Definition head_sel (a : nitem) : list gop := match a with NSlice s e p => [GSel 0 (s, e, p)] | _ => [] end.
Definition head_drop (a : nitem) : list gop := match item_int a with Some z => [GDrop 0 z] | None => [] end.

Lemma enumerate_S {A} (l : list A) k :
  enumerate_from (S k) l = map (fun p => (S (fst p), snd p)) (enumerate_from k l).
Proof. revert k; induction l as [|x r IH]; intros k; simpl; auto. now rewrite IH. Qed.

Lemma flat_map_map {A B C} (f : B -> list C) (g : A -> B) l : flat_map f (map g l) = flat_map (fun x => f (g x)) l.
Proof. induction l as [|x r IH]; simpl; auto. now rewrite IH. Qed.
Lemma map_flat_map' {A B C} (f : B -> C) (g : A -> list B) l : map f (flat_map g l) = flat_map (fun x => map f (g x)) l.
Proof. induction l as [|x r IH]; simpl; auto. now rewrite map_app, IH. Qed.

Lemma ops_of_cons a r : ops_of (a :: r) = head_sel a ++ map shift (ops_of r) ++ head_drop a.
Proof.
  unfold ops_of, axis_slices, axis_indices. simpl enumerate_from. simpl flat_map.
  rewrite !enumerate_S, !flat_map_map. simpl fst; simpl snd.
  unfold sel_ops, drop_ops. rewrite !map_app, rev_app_distr, map_app, <- !app_assoc.
  assert (E1 : forall l, map (fun p => GSel (fst p) (snd p))
            (flat_map (fun x : nat * nitem => match snd x with NSlice s e st => [(S (fst x), (s, e, st))] | _ => [] end) l) =
          map shift (map (fun p => GSel (fst p) (snd p))
            (flat_map (fun p : nat * nitem => match snd p with NSlice s e st => [(fst p, (s, e, st))] | _ => [] end) l))).
  { intros l. induction l as [|[k x] l IHl]; simpl; auto. rewrite !map_app, IHl. destruct x; simpl; auto. }
  assert (E2 : forall l, map (fun p => GDrop (fst p) (snd p))
            (rev (flat_map (fun x : nat * nitem => match snd x with NInt z => [(S (fst x), z)] | NBool b => [(S (fst x), if b then 1%Z else 0%Z)] | _ => [] end) l)) =
          map shift (map (fun p => GDrop (fst p) (snd p))
            (rev (flat_map (fun p : nat * nitem => match snd p with NInt z => [(fst p, z)] | NBool b => [(fst p, if b then 1%Z else 0%Z)] | _ => [] end) l)))).
  { intros l. induction l as [|[k x] l IHl]; simpl; auto. rewrite !rev_app_distr, !map_app, IHl. destruct x; simpl; auto. }
  rewrite E1, E2. destruct a; simpl; rewrite ?app_nil_r; reflexivity.
Qed.

Lemma vrun_app v l1 l2 : vrun v (l1 ++ l2) = vrun (vrun v l1) l2.
Proof. unfold vrun. now rewrite fold_left_app. Qed.

Lemma inb_cons_inv n sh idx : inb (n :: sh) idx -> exists i j, idx = i :: j /\ i < n /\ inb sh j.
Proof. destruct idx as [|i j]; simpl; [tauto|]. intros [H1 H2]. eauto. Qed.

(* THE pass lemma: Slice on the stepped axes followed by the Gathers in reverse order reads the
   source at the positions the left-to-right reading gives, and Gather's range checks all pass. *)
Lemma passes its : forall v sh o, vshape v = sh -> a_shape its sh = Some o ->
  srun sh (ops_of its) = Some o /\
  forall idx, inb o idx -> vmap (vrun v (ops_of its)) idx = vmap v (a_src its sh idx).
Proof.
  induction its as [|a r IH]; intros v sh o Hv Ho.
  - destruct sh; simpl in Ho; [|discriminate]. injection Ho as <-. split; [reflexivity|].
    intros idx Hi. destruct idx; [reflexivity | simpl in Hi; tauto].
  - destruct sh as [|n sh']; [destruct a; discriminate|]. rewrite ops_of_cons.
    destruct a as [z|b|  |s e p| ]; simpl in Ho; try discriminate.
    + (* integer *)
      destruct (in_range n z) eqn:R; [|discriminate].
      unfold head_sel, head_drop; simpl. split.
      * rewrite srun_app, srun_shift. destruct (IH (tailv v 0) sh' o) as [S1 _]; auto; [simpl; now rewrite Hv|].
        rewrite S1. simpl. now rewrite R.
      * intros idx Hi. rewrite vrun_app. simpl.
        destruct (vrun_shift (ops_of r) v n sh' Hv) as [Vs Vm].
        destruct (IH (tailv v (resolve n z)) sh' o) as [S1 M1]; auto; [simpl; now rewrite Hv|].
        assert (Hs : vshape (vrun (tailv v (resolve n z)) (ops_of r)) = o) by (apply vshape_vrun; simpl; rewrite Hv; exact S1).
        rewrite (Vs (resolve n z)), Hs. simpl. rewrite Vm. now apply M1.
    + (* bool *)
      destruct (in_range n (if b then 1 else 0)%Z) eqn:R; [|discriminate].
      unfold head_sel, head_drop; simpl. split.
      * rewrite srun_app, srun_shift. destruct (IH (tailv v 0) sh' o) as [S1 _]; auto; [simpl; now rewrite Hv|].
        rewrite S1. simpl. now rewrite R.
      * intros idx Hi. rewrite vrun_app. simpl.
        destruct (vrun_shift (ops_of r) v n sh' Hv) as [Vs Vm].
        destruct (IH (tailv v (resolve n (if b then 1 else 0)%Z)) sh' o) as [S1 M1]; auto; [simpl; now rewrite Hv|].
        assert (Hs : vshape (vrun (tailv v (resolve n (if b then 1 else 0)%Z)) (ops_of r)) = o) by (apply vshape_vrun; simpl; rewrite Hv; exact S1).
        rewrite (Vs (resolve n (if b then 1 else 0)%Z)), Hs. simpl. rewrite Vm. now apply M1.
    + (* full slice: no operator on this axis *)
      destruct (a_shape r sh') as [o'|] eqn:Eo; [|discriminate]. simpl in Ho. injection Ho as <-.
      unfold head_sel, head_drop; simpl. rewrite app_nil_r. split.
      * rewrite srun_shift. destruct (IH (tailv v 0) sh' o') as [S1 _]; auto; [simpl; now rewrite Hv|]. now rewrite S1.
      * intros idx Hi. destruct (inb_cons_inv _ _ _ Hi) as [i [j [-> [Hin Hj]]]].
        destruct (vrun_shift (ops_of r) v n sh' Hv) as [_ Vm]. rewrite Vm.
        destruct (IH (tailv v i) sh' o') as [_ M1]; auto; [simpl; now rewrite Hv|]. now rewrite M1.
    + (* stepped slice *)
      destruct (a_shape r sh') as [o'|] eqn:Eo; [|discriminate]. simpl in Ho. injection Ho as <-.
      unfold head_sel, head_drop; simpl. rewrite app_nil_r. split.
      * rewrite srun_shift. destruct (IH (tailv v 0) sh' o') as [S1 _]; auto; [simpl; now rewrite Hv|]. now rewrite S1.
      * intros idx Hi. destruct (inb_cons_inv _ _ _ Hi) as [i [j [-> [Hin Hj]]]].
        set (v1 := vstep v (GSel 0 (s, e, p))).
        assert (Hv1 : vshape v1 = length (sel_of n (s, e, p)) :: sh') by (unfold v1; simpl; rewrite Hv; reflexivity).
        destruct (vrun_shift (ops_of r) v1 _ sh' Hv1) as [_ Vm]. fold v1. rewrite Vm.
        destruct (IH (tailv v1 i) sh' o') as [_ M1]; auto; [change (tl (vshape v1) = sh'); now rewrite Hv1|]. rewrite M1 by exact Hj.
        unfold v1; simpl. rewrite Hv. reflexivity.
Qed.

(* ---- the Unsqueeze pass ------------------------------------------------------------------------ *)
Definition keep (n : nitem) : bool := match n with NNew | NFull | NSlice _ _ _ => true | _ => false end.
Definition new_axes_from (k : nat) (index : list nitem) : list nat :=
  flat_map (fun p : nat * nitem => if is_new (snd p) then [fst p] else []) (enumerate_from k (filter keep index)).
Lemma new_axes_is index : new_axes index = new_axes_from 0 index.
Proof. reflexivity. Qed.

(* output shape / source index with the new axes put in / taken out, read off the index itself *)
Fixpoint interleave (index : list nitem) (o : list nat) : list nat :=
  match index with
  | [] => []
  | NNew :: r => 1 :: interleave r o
  | NInt _ :: r | NBool _ :: r => interleave r o
  | _ :: r => match o with x :: o' => x :: interleave r o' | [] => [] end
  end.
Fixpoint strip (index : list nitem) (idx : list nat) : list nat :=
  match index with
  | [] => idx
  | NNew :: r => match idx with [] => [] | _ :: j => strip r j end
  | NInt _ :: r | NBool _ :: r => strip r idx
  | _ :: r => match idx with [] => [] | i :: j => i :: strip r j end
  end.
Fixpoint count_sl (index : list nitem) : nat :=
  match index with
  | [] => 0
  | NFull :: r | NSlice _ _ _ :: r => S (count_sl r)
  | _ :: r => count_sl r
  end.

Lemma new_axes_ge index : forall k x, In x (new_axes_from k index) -> k <= x.
Proof.
  unfold new_axes_from. induction index as [|a r IH]; intros k x H; simpl in *; [tauto|].
  destruct a; simpl in *; try (now apply IH); try (specialize (IH (S k) x H); lia).
  destruct H as [<- | H]; [lia|]. specialize (IH (S k) x H). lia.
Qed.

Lemma existsb_fresh k axes : (forall x, In x axes -> S k <= x) -> existsb (Nat.eqb k) axes = false.
Proof.
  intros H. induction axes as [|a r IH]; simpl; auto. rewrite IH by (intros; apply H; now right).
  specialize (H a (or_introl eq_refl)). assert (E : k =? a = false) by (apply Nat.eqb_neq; lia). now rewrite E.
Qed.

Lemma unsq_shape_skip a axes : forall m k sh, a < k -> unsq_shape k m (a :: axes) sh = unsq_shape k m axes sh.
Proof.
  induction m as [|m IH]; intros k sh H; simpl; auto.
  assert (E : k =? a = false) by (apply Nat.eqb_neq; lia). rewrite E; simpl.
  destruct (existsb (Nat.eqb k) axes); [now rewrite IH by lia|]. destruct sh; auto. now rewrite IH by lia.
Qed.
Lemma unsq_index_skip a axes : forall idx k, a < k -> unsq_index k (a :: axes) idx = unsq_index k axes idx.
Proof.
  induction idx as [|i j IH]; intros k H; simpl; auto.
  assert (E : k =? a = false) by (apply Nat.eqb_neq; lia). rewrite E; simpl.
  destruct (existsb (Nat.eqb k) axes); now rewrite IH by lia.
Qed.
Lemma unsq_index_nil idx : forall k, unsq_index k [] idx = idx.
Proof. induction idx as [|i j IH]; intros k; simpl; auto. now rewrite IH. Qed.

Lemma unsq_is index : forall k o, length o = count_sl index ->
  unsq_shape k (length (filter keep index)) (new_axes_from k index) o = interleave index o /\
  forall idx, unsq_index k (new_axes_from k index) idx = strip index idx.
Proof.
  induction index as [|a r IH]; intros k o Ho.
  - simpl. split; auto. intros idx. apply unsq_index_nil.
  - destruct a as [z|b|  |s e p| ].
    + apply (IH k o Ho).
    + apply (IH k o Ho).
    + destruct o as [|x o']; [discriminate|]. simpl in Ho. destruct (IH (S k) o' ltac:(lia)) as [I1 I2].
      change (new_axes_from k (NFull :: r)) with (new_axes_from (S k) r).
      assert (F : existsb (Nat.eqb k) (new_axes_from (S k) r) = false) by (apply existsb_fresh; apply new_axes_ge).
      split.
      * simpl. rewrite F. now rewrite I1.
      * intros [|i j]; simpl; auto. rewrite F. now rewrite I2.
    + destruct o as [|x o']; [discriminate|]. simpl in Ho. destruct (IH (S k) o' ltac:(lia)) as [I1 I2].
      change (new_axes_from k (NSlice s e p :: r)) with (new_axes_from (S k) r).
      assert (F : existsb (Nat.eqb k) (new_axes_from (S k) r) = false) by (apply existsb_fresh; apply new_axes_ge).
      split.
      * simpl. rewrite F. now rewrite I1.
      * intros [|i j]; simpl; auto. rewrite F. now rewrite I2.
    + simpl in Ho. destruct (IH (S k) o Ho) as [I1 I2].
      change (new_axes_from k (NNew :: r)) with (k :: new_axes_from (S k) r).
      split.
      * simpl. rewrite Nat.eqb_refl. simpl. rewrite unsq_shape_skip by lia. now rewrite I1.
      * intros [|i j]; simpl; auto. rewrite Nat.eqb_refl. simpl. rewrite unsq_index_skip by lia. apply I2.
Qed.

Lemma count_keep index k : length (filter keep index) = count_sl index + length (new_axes_from k index).
Proof.
  revert k. unfold new_axes_from. induction index as [|a r IH]; intros k; simpl; auto.
  destruct a; simpl; auto; rewrite (IH (S k)); simpl; try rewrite app_length; simpl; lia.
Qed.

Lemma inb_strip index : forall o idx, length o = count_sl index -> inb (interleave index o) idx -> inb o (strip index idx).
Proof.
  induction index as [|a r IH]; intros o idx Ho H.
  - simpl in *. destruct o; [|discriminate]. destruct idx; simpl in *; tauto.
  - destruct a as [z|b|  |s e p| ]; simpl in *; auto.
    + destruct o as [|x o']; [discriminate|]. destruct idx as [|i j]; simpl in *; [tauto|]. destruct H. split; auto.
    + destruct o as [|x o']; [discriminate|]. destruct idx as [|i j]; simpl in *; [tauto|]. destruct H. split; auto.
    + destruct idx as [|i j]; simpl in *; [tauto|]. destruct H. apply IH; auto.
Qed.

Lemma mat_unsq {A} (t : tensor A) w index d : length (vshape w) = count_sl index ->
  t_unsqueeze (mat t w d) (new_axes index) d =
  tab (interleave index (vshape w)) (fun idx => get t (vmap w (strip index idx)) d).
Proof.
  intros Hw. unfold t_unsqueeze. rewrite new_axes_is. change (shape (mat t w d)) with (vshape w).
  assert (E : length (vshape w) + length (new_axes_from 0 index) = length (filter keep index)) by (rewrite (count_keep index 0); lia).
  rewrite E. destruct (unsq_is index 0 (vshape w) Hw) as [U1 U2]. rewrite U1.
  apply tab_ext. intros idx Hb. rewrite U2. unfold mat. rewrite get_tab; auto. apply inb_strip; auto.
Qed.

(* ---- the whole lowering on a normalised index -------------------------------------------------- *)
Definition nonnew (n : nitem) : bool := negb (is_new n).

Lemma a_shape_len its : forall sh o, a_shape its sh = Some o -> length o = count_sl its /\ length its = length sh.
Proof.
  induction its as [|a r IH]; intros sh o H; destruct sh as [|n sh']; simpl in H; try discriminate.
  - injection H as <-. auto.
  - destruct a as [z|b|  |s e p| ]; simpl in *; try discriminate.
    + destruct (in_range n z); [|discriminate]. destruct (IH _ _ H). split; auto.
    + destruct (in_range n _); [|discriminate]. destruct (IH _ _ H). split; auto.
    + destruct (a_shape r sh') as [o'|] eqn:E; [|discriminate]. injection H as <-. destruct (IH _ _ E). simpl. split; auto.
    + destruct (a_shape r sh') as [o'|] eqn:E; [|discriminate]. injection H as <-. destruct (IH _ _ E). simpl. split; auto.
Qed.

Lemma count_sl_filter index : count_sl (filter nonnew index) = count_sl index.
Proof. induction index as [|a r IH]; simpl; auto. destruct a; simpl; auto. Qed.

Lemma unsq_shape_nil sh : forall k, unsq_shape k (length sh) [] sh = sh.
Proof. induction sh as [|x r IH]; intros k; simpl; auto. now rewrite IH. Qed.

Lemma t_unsq_nil {A} (t : tensor A) v d : t_unsqueeze (mat t v d) [] d = mat t v d.
Proof.
  unfold t_unsqueeze. change (shape (mat t v d)) with (vshape v). rewrite Nat.add_0_r, unsq_shape_nil.
  transitivity (tab (shape (mat t v d)) (fun idx => get (mat t v d) idx d)); [|apply tab_get_id, wf_tab].
  apply tab_ext. intros idx _. now rewrite unsq_index_nil.
Qed.

Lemma sel_ops_total sl : forall sh, exists s, srun sh (sel_ops sl) = Some s.
Proof. induction sl as [|[ax q] r IH]; intros sh; simpl; eauto. Qed.

Lemma getitem_view {A} (t : tensor A) v index d o :
  a_shape (filter nonnew index) (vshape v) = Some o ->
  ndx_getitem (mat t v d) index d =
  Done (tab (interleave index o)
            (fun idx => get t (vmap v (a_src (filter nonnew index) (vshape v) (strip index idx))) d)).
Proof.
  intros Ho. unfold ndx_getitem. fold nonnew. change (fun n => negb (is_new n)) with nonnew.
  set (its := filter nonnew index) in *.
  destruct (passes its v (vshape v) o eq_refl Ho) as [S M].
  rewrite model_slices, model_gathers.
  unfold ops_of in S. rewrite srun_app in S.
  destruct (sel_ops_total (axis_slices its) (vshape v)) as [s1 Es]. rewrite Es in S.
  rewrite (vshape_vrun _ _ _ Es), S. rewrite <- vrun_app. fold (ops_of its).
  set (w := vrun v (ops_of its)) in *.
  assert (Hw : vshape w = o) by (apply vshape_vrun; unfold ops_of; rewrite srun_app, Es; exact S).
  destruct (a_shape_len _ _ _ Ho) as [Hl _]. unfold its in Hl. rewrite count_sl_filter in Hl.
  assert (R : match new_axes index with [] => mat t w d | ax => t_unsqueeze (mat t w d) ax d end =
              t_unsqueeze (mat t w d) (new_axes index) d).
  { destruct (new_axes index); auto. now rewrite t_unsq_nil. }
  rewrite R, mat_unsq by (rewrite Hw; exact Hl). rewrite Hw. f_equal. apply tab_ext. intros idx Hb.
  rewrite M; auto. apply inb_strip; auto.
Qed.

Theorem getitem_nitems {A} (t : tensor A) index d o : wf t ->
  a_shape (filter nonnew index) (shape t) = Some o ->
  ndx_getitem t index d =
  Done (tab (interleave index o) (fun idx => get t (a_src (filter nonnew index) (shape t) (strip index idx)) d)).
Proof.
  intros Hwf Ho. assert (T : mat t (v_id (shape t)) d = t) by (apply tab_get_id; exact Hwf).
  rewrite <- T at 1. now rewrite (getitem_view t (v_id (shape t)) index d o Ho).
Qed.

(* ---- from the user's tuple: integers, slices inside the standard's bounds, None ------------- *)
Definition norm1 (i : item) : nitem :=
  match i with
  | IInt z => NInt z | IBool b => NBool b
  | ISlice a b c => match norm a b c with None => NFull | Some (s, e, p) => NSlice s e p end
  | _ => NNew
  end.

Fixpoint valid (index : list item) (sh : list nat) : Prop :=
  match index with
  | [] => True
  | INone :: r => valid r sh
  | IInt _ :: r => valid r (tl sh)
  | ISlice a b c :: r =>
      match sh with
      | n :: _ => Slice1D.in_bounds (Z.of_nat n) a b c /\ (Z.of_nat n < 4611686018427387904)%Z
      | [] => True
      end /\ valid r (tl sh)
  | _ => False
  end.

Lemma sel_full_length n : length (sel 0 1 (Z.of_nat n)) = n.
Proof. unfold sel. now rewrite map_length, seq_length, Nat2Z.id. Qed.
Lemma sel_full_nth n i : i < n -> Z.to_nat (nth i (sel 0 1 (Z.of_nat n)) 0%Z) = i.
Proof.
  intros H. unfold sel. rewrite Nat2Z.id.
  set (f := fun i0 : nat => (0 + Z.of_nat i0 * 1)%Z).
  replace (nth i (map f (seq 0 n)) 0%Z) with (f (nth i (seq 0 n) 0)) by (symmetry; exact (map_nth f (seq 0 n) 0 i)).
  rewrite seq_nth by exact H. unfold f. lia.
Qed.
Lemma znat_nth l i : nth i (znat l) 0 = Z.to_nat (nth i l 0%Z).
Proof. unfold znat. exact (map_nth Z.to_nat l 0%Z i). Qed.

Lemma user_spec index : forall sh o', valid index sh -> np_shape index sh = Some o' ->
  exists o, a_shape (filter nonnew (map norm1 index)) sh = Some o /\ o' = interleave (map norm1 index) o /\
    forall idx, inb o' idx -> np_source index sh idx = a_src (filter nonnew (map norm1 index)) sh (strip (map norm1 index) idx).
Proof.
  induction index as [|a r IH]; intros sh o' Hv Hs.
  - simpl in *. destruct sh; [|discriminate]. injection Hs as <-. exists []. repeat split; auto.
  - destruct a as [z|b|x y c| | | ]; simpl in Hv; try tauto.
    + (* integer *)
      simpl in Hs. destruct sh as [|n sh']; [discriminate|]. simpl in Hv.
      fold (in_range n z) in Hs. destruct (in_range n z) eqn:R; [|discriminate].
      destruct (IH sh' o' Hv Hs) as [o [E1 [E2 E3]]]. exists o. simpl. rewrite R. repeat split; auto.
      intros idx Hi. fold (resolve n z). now rewrite E3.
    + (* slice *)
      simpl in Hs. destruct sh as [|n sh']; [discriminate|]. simpl in Hv. destruct Hv as [[Hb Hn] Hv].
      destruct (np_shape r sh') as [o1|] eqn:E; [|discriminate]. injection Hs as <-.
      destruct (IH sh' o1 Hv E) as [o [E1 [E2 E3]]].
      pose proof (slice_1d (Z.of_nat n) x y c ltac:(lia) Hb) as S1.
      simpl. destruct (norm x y c) as [[[s e] p]|] eqn:En; simpl.
      * rewrite E1. simpl. eexists; split; [reflexivity|]. split.
        { simpl. rewrite <- S1, E2. unfold sel_of, znat. now rewrite map_length. }
        intros idx Hi. destruct (inb_cons_inv _ _ _ Hi) as [i [j [-> [Hin Hj]]]]. simpl.
        rewrite <- S1. unfold sel_of. rewrite znat_nth. f_equal. now apply E3.
      * rewrite E1. simpl. eexists; split; [reflexivity|]. split.
        { simpl. rewrite <- S1, E2. simpl. now rewrite sel_full_length. }
        intros idx Hi. destruct (inb_cons_inv _ _ _ Hi) as [i [j [-> [Hin Hj]]]]. simpl.
        rewrite <- S1 in *. simpl in *. rewrite sel_full_length in Hin. rewrite sel_full_nth by exact Hin. f_equal. now apply E3.
    + (* None: a new axis of extent 1 *)
      simpl in Hs. destruct (np_shape r sh) as [o1|] eqn:E; [|discriminate]. injection Hs as <-.
      destruct (IH sh o1 Hv E) as [o [E1 [E2 E3]]]. exists o. simpl. repeat split; auto; [now rewrite E2|].
      intros idx Hi. destruct (inb_cons_inv _ _ _ Hi) as [i [j [-> [Hin Hj]]]]. simpl. now apply E3.
Qed.

Lemma valid_no_ellipsis index : forall sh, valid index sh -> split_at_ellipsis index = None.
Proof.
  induction index as [|a r IH]; intros sh H; simpl; auto.
  destruct a; simpl in H; try tauto.
  - now rewrite (IH _ H).
  - destruct H as [_ H]. now rewrite (IH _ H).
  - now rewrite (IH _ H).
Qed.

Lemma valid_mmap index : forall sh, valid index sh -> mmap norm_item index = Ret (map norm1 index).
Proof.
  induction index as [|a r IH]; intros sh H; simpl; auto.
  destruct a; simpl in H; try tauto; simpl.
  - now rewrite (IH _ H).
  - destruct H as [_ H]. now rewrite (IH _ H).
  - now rewrite (IH _ H).
Qed.

Lemma filter_addr ns : filter addresses_axis ns = filter nonnew ns.
Proof. apply filter_ext. intros []; reflexivity. Qed.

(* THE n-D theorem: for every shape, every rank, every tuple of integers, in-bounds slices (any
   step sign, bounds given or omitted) and None, the lowering of getitem — normalisation, one Slice
   pass, reversed Gathers with their run-time checks, one Unsqueeze — returns exactly the array
   NumPy's left-to-right semantics defines. *)
Theorem getitem_nd {A} (t : tensor A) index d r : wf t -> valid index (shape t) ->
  np_getitem t index d = Some r -> ndx_getitem_user t index d = Done r.
Proof.
  intros Hwf Hv Hnp. unfold np_getitem in Hnp. destruct (np_shape index (shape t)) as [o'|] eqn:Es; [|discriminate].
  injection Hnp as <-. destruct (user_spec index (shape t) o' Hv Es) as [o [E1 [E2 E3]]].
  unfold ndx_getitem_user, normalise_index, construct, expand_ellipsis.
  rewrite (valid_no_ellipsis _ _ Hv), (valid_mmap _ _ Hv). simpl bind.
  destruct (a_shape_len _ _ _ E1) as [_ Hl]. rewrite filter_addr, Hl, Z.eqb_refl. simpl.
  rewrite (getitem_nitems t (map norm1 index) d o Hwf E1). f_equal. rewrite <- E2. apply tab_ext.
  intros idx Hi. now rewrite E3.
Qed.

(* An Ellipsis is, by definition, the full slices it stands for; the lowering expands it the same way. *)
Corollary getitem_nd_ellipsis {A} (t : tensor A) index d r : wf t ->
  let ex := expand_ellipsis (Z.of_nat (length (shape t))) index in
  valid ex (shape t) -> np_getitem t ex d = Some r -> ndx_getitem_user t index d = Done r.
Proof.
  intros Hwf ex Hv Hnp. rewrite <- (getitem_nd t ex d r Hwf Hv Hnp).
  assert (Eid : expand_ellipsis (Z.of_nat (length (shape t))) ex = ex)
    by (unfold expand_ellipsis at 1; now rewrite (valid_no_ellipsis _ _ Hv)).
  unfold ndx_getitem_user, normalise_index, construct. fold ex. now rewrite Eid.
Qed.

Example getitem_nd_ex :
  let t := tab [3; 4] (fun idx => Z.of_nat (ravel [3; 4] idx)) in
  let index := [INone; ISlice None None (Some (-2)%Z); IInt (-1)%Z] in
  valid index (shape t) /\ ndx_getitem_user t index 0%Z = Done {| shape := [1; 2]; data := [11; 3]%Z |}.
Proof. split; [vm_compute; intuition discriminate | vm_compute; reflexivity]. Qed.
