(* Ndx/ReduceMoreFacts.v — all/any through counting == NumPy's conjunction/disjunction; ArgMax/ArgMin
   return the first index of the extremum; CumSum is the sequence of prefix sums — for every tensor of
   every rank and extent. *)
From Coq Require Import List Arith ZArith Lia Bool.
From ND Require Import Base.Tensor Base.TensorFacts Ndx.PyVal Ndx.GetItem Ndx.Reduce Ndx.ReduceFacts Ndx.LayoutFacts Ndx.ReduceMore.
Import ListNotations.
Local Open Scope nat_scope.

(* ================= all / any ================================================================= *)
Lemma fold_add_b2z (bs : list bool) : forall acc,
  fold_left Z.add (map b2z bs) acc = (acc + Z.of_nat (length (filter id bs)))%Z.
Proof.
  induction bs as [|b r IH]; intros acc; simpl; [lia|].
  rewrite IH. destruct b; simpl; lia.
Qed.

Lemma count_zero_iff (bs : list bool) : (Z.of_nat (length (filter id bs)) =? 0)%Z = forallb negb bs.
Proof.
  induction bs as [|b r IH]; simpl; auto.
  destruct b; simpl; [|exact IH].
  destruct (Z.eqb_spec (Z.of_nat (S (length (filter id r)))) 0); [lia|reflexivity].
Qed.

Lemma fold_andb (bs : list bool) : forall acc, fold_left andb bs acc = acc && forallb id bs.
Proof.
  induction bs as [|b r IH]; intros acc; simpl; [now rewrite andb_true_r|].
  rewrite IH. now rewrite andb_assoc.
Qed.
Lemma fold_orb (bs : list bool) : forall acc, fold_left orb bs acc = acc || existsb id bs.
Proof.
  induction bs as [|b r IH]; intros acc; simpl; [now rewrite orb_false_r|].
  rewrite IH. now rewrite orb_assoc.
Qed.

Lemma forallb_map {A} (f : A -> bool) l : forallb id (map f l) = forallb f l.
Proof. induction l as [|x r IH]; simpl; [reflexivity|]. rewrite IH. reflexivity. Qed.
Lemma existsb_map {A} (f : A -> bool) l : existsb id (map f l) = existsb f l.
Proof. induction l as [|x r IH]; simpl; [reflexivity|]. rewrite IH. reflexivity. Qed.
Lemma forallb_negb_map {A} (f : A -> bool) l : forallb negb (map f l) = forallb (fun x => negb (f x)) l.
Proof. induction l as [|x r IH]; simpl; [reflexivity|]. rewrite IH. reflexivity. Qed.
Lemma forallb_negb_existsb {A} (f : A -> bool) l : forallb (fun x => negb (f x)) l = negb (existsb f l).
Proof. induction l as [|x r IH]; simpl; auto. rewrite IH. now destruct (f x). Qed.

(* the counting trick, on one reduced block *)
Lemma all_by_counting (xs : list Z) :
  (fold_left Z.add (map (fun x => b2z (x =? 0)%Z) xs) 0 =? 0)%Z = fold_left andb (map truth xs) true.
Proof.
  rewrite <- (map_map (fun x => (x =? 0)%Z) b2z), fold_add_b2z, Z.add_0_l, count_zero_iff.
  rewrite fold_andb, forallb_map, forallb_negb_map. reflexivity.
Qed.
Lemma any_by_counting (xs : list Z) :
  negb (fold_left Z.add (map (fun x => b2z (negb (x =? 0)%Z)) xs) 0 =? 0)%Z = fold_left orb (map truth xs) false.
Proof.
  rewrite <- (map_map (fun x => negb (x =? 0)%Z) b2z), fold_add_b2z, Z.add_0_l, count_zero_iff.
  rewrite fold_orb, existsb_map, forallb_negb_map, forallb_negb_existsb. simpl. now rewrite negb_involutive.
Qed.

(* all(x, axis, keepdims) as written == NumPy's all, for every tensor, rank, extent (0 too), axis form *)
Theorem ndx_all_is_np_all (t : tensor Z) axis keep : axis_valid (length (shape t)) axis ->
  ndx_all t axis keep = np_all t axis keep.
Proof.
  intros H. unfold ndx_all, np_all.
  rewrite ndx_reduce_is_np_reduce by exact H. unfold np_reduce, reduce. simpl shape.
  rewrite tmap_tab. apply tab_ext. intros oidx _.
  set (src := fun sidx => merge_from 0 (shape t) (np_axes (length (shape t)) axis) keep oidx sidx).
  rewrite (map_ext _ (fun sidx => b2z (get t (src sidx) 1%Z =? 0)%Z)).
  2:{ intros sidx. exact (get_tmap (fun x => b2z (x =? 0)%Z) t (src sidx) 1%Z). }
  rewrite (map_ext (fun sidx => get (tmap truth t) _ true) (fun sidx => truth (get t (src sidx) 1%Z))).
  2:{ intros sidx. exact (get_tmap truth t (src sidx) 1%Z). }
  rewrite <- (map_map (fun sidx => get t (src sidx) 1%Z) (fun x => b2z (x =? 0)%Z)).
  rewrite <- (map_map (fun sidx => get t (src sidx) 1%Z) truth).
  apply all_by_counting.
Qed.

Theorem ndx_any_is_np_any (t : tensor Z) axis keep : axis_valid (length (shape t)) axis ->
  ndx_any t axis keep = np_any t axis keep.
Proof.
  intros H. unfold ndx_any, np_any.
  rewrite ndx_reduce_is_np_reduce by exact H. unfold np_reduce, reduce. simpl shape.
  rewrite tmap_tab. apply tab_ext. intros oidx _.
  set (src := fun sidx => merge_from 0 (shape t) (np_axes (length (shape t)) axis) keep oidx sidx).
  rewrite (map_ext _ (fun sidx => b2z (negb (get t (src sidx) 0%Z =? 0)%Z))).
  2:{ intros sidx. exact (get_tmap (fun x => b2z (negb (x =? 0)%Z)) t (src sidx) 0%Z). }
  rewrite (map_ext (fun sidx => get (tmap truth t) _ false) (fun sidx => truth (get t (src sidx) 0%Z))).
  2:{ intros sidx. exact (get_tmap truth t (src sidx) 0%Z). }
  rewrite <- (map_map (fun sidx => get t (src sidx) 0%Z) (fun x => b2z (negb (x =? 0)%Z))).
  rewrite <- (map_map (fun sidx => get t (src sidx) 0%Z) truth).
  apply any_by_counting.
Qed.

(* ================= ArgMax / ArgMin ============================================================ *)
Lemma argmax_from_spec (l : list Z) : forall best bi i, bi < i ->
  let r := argmax_from best bi i l in
  let v := if Nat.eqb r bi then best else nth (r - i) l 0%Z in
  (r = bi \/ i <= r < i + length l) /\ (best <= v)%Z /\
  (forall j, j < length l -> (nth j l 0 <= v)%Z) /\
  (r <> bi -> (best < v)%Z) /\
  (forall j, j < length l -> i + j < r -> (nth j l 0 < v)%Z).
Proof.
  induction l as [|x l IH]; intros best bi i Hbi; cbn [argmax_from length].
  - rewrite Nat.eqb_refl. repeat split; try lia; intros; lia.
  - destruct (best <? x)%Z eqn:E.
    + apply Z.ltb_lt in E.
      specialize (IH x i (S i) (Nat.lt_succ_diag_r i)). cbv zeta in IH.
      set (r := argmax_from x i (S i) l) in *.
      destruct IH as (Ha & Hb & Hc & Hd & He).
      assert (Hr : r <> bi) by lia.
      apply Nat.eqb_neq in Hr. rewrite Hr.
      assert (Hv : nth (r - i) (x :: l) 0%Z = if Nat.eqb r i then x else nth (r - S i) l 0%Z).
      { destruct (Nat.eqb_spec r i) as [->|Hne]; [now rewrite Nat.sub_diag|].
        replace (r - i) with (S (r - S i)) by lia. reflexivity. }
      rewrite Hv. apply Nat.eqb_neq in Hr.
      split; [lia|]. split; [lia|]. split; [|split].
      * intros [|j] Hj; cbn [nth]; [exact Hb|apply Hc; lia].
      * intros _. lia.
      * intros [|j] Hj Hlt; cbn [nth].
        -- apply Hd. lia.
        -- apply He; lia.
    + apply Z.ltb_ge in E.
      assert (Hbi' : bi < S i) by lia.
      specialize (IH best bi (S i) Hbi'). cbv zeta in IH.
      set (r := argmax_from best bi (S i) l) in *.
      destruct IH as (Ha & Hb & Hc & Hd & He).
      assert (Hv : (if Nat.eqb r bi then best else nth (r - i) (x :: l) 0%Z) = if Nat.eqb r bi then best else nth (r - S i) l 0%Z).
      { destruct (Nat.eqb_spec r bi) as [_|Hne]; [reflexivity|].
        replace (r - i) with (S (r - S i)) by lia. reflexivity. }
      rewrite Hv.
      split; [lia|]. split; [exact Hb|]. split; [|split].
      * intros [|j] Hj; cbn [nth]; [lia|apply Hc; lia].
      * exact Hd.
      * intros [|j] Hj Hlt; cbn [nth].
        -- assert (r <> bi) by lia. specialize (Hd H). lia.
        -- apply He; lia.
Qed.

(* ArgMax over a non-empty list: an index of a largest element, and the first such index *)
Theorem argmax_list_spec (l : list Z) : l <> [] ->
  let i := argmax_list l in
  i < length l /\ (forall j, j < length l -> (nth j l 0 <= nth i l 0)%Z) /\ (forall j, j < i -> (nth j l 0 < nth i l 0)%Z).
Proof.
  destruct l as [|x l]; [congruence|]. intros _. cbn [argmax_list length].
  pose proof (argmax_from_spec l x 0 1 Nat.lt_0_1) as H. cbv zeta in H.
  set (r := argmax_from x 0 1 l) in *.
  destruct H as (Ha & Hb & Hc & Hd & He).
  assert (Hv : (if Nat.eqb r 0 then x else nth (r - 1) l 0%Z) = nth r (x :: l) 0%Z).
  { clearbody r. destruct r as [|r]; cbn [Nat.eqb nth]; [reflexivity|]. replace (S r - 1) with r by lia. reflexivity. }
  rewrite Hv in *.
  split; [lia|]. split.
  - intros [|j] Hj; cbn [nth]; [exact Hb|]. apply Hc. lia.
  - intros [|j] Hj; cbn [nth].
    + apply Hd. lia.
    + apply He; lia.
Qed.

Theorem argmin_list_spec (l : list Z) : l <> [] ->
  let i := argmin_list l in
  i < length l /\ (forall j, j < length l -> (nth i l 0 <= nth j l 0)%Z) /\ (forall j, j < i -> (nth i l 0 < nth j l 0)%Z).
Proof.
  intros Hl. unfold argmin_list.
  assert (Hm : map Z.opp l <> []) by (destruct l; [congruence|discriminate]).
  pose proof (argmax_list_spec (map Z.opp l) Hm) as H. cbv zeta in H.
  set (i := argmax_list (map Z.opp l)) in *. rewrite map_length in H.
  assert (Hn : forall k, nth k (map Z.opp l) 0%Z = (- nth k l 0)%Z) by (intros k; exact (map_nth Z.opp l 0%Z k)).
  destruct H as (H1 & H2 & H3). split; [exact H1|]. split.
  - intros j Hj. specialize (H2 j Hj). rewrite !Hn in H2. lia.
  - intros j Hj. specialize (H3 j Hj). rewrite !Hn in H3. lia.
Qed.

(* lanes *)
Lemma nth_map_seq {A} (f : nat -> A) n k d : k < n -> nth k (map f (seq 0 n)) d = f k.
Proof.
  intros H. rewrite (nth_indep _ d (f 0)) by (rewrite map_length, seq_length; exact H).
  rewrite map_nth. f_equal. rewrite seq_nth; lia.
Qed.
Lemma lane_length {A} (t : tensor A) ax base d : length (lane t ax base d) = nth ax (shape t) 0.
Proof. unfold lane. now rewrite map_length, seq_length. Qed.
Lemma lane_nth {A} (t : tensor A) ax base d k : k < nth ax (shape t) 0 ->
  nth k (lane t ax base d) d = get t (insert_nth ax k base) d.
Proof. intros H. unfold lane. now rewrite nth_map_seq. Qed.

(* ArgMax / ArgMin node, any rank: the output at oidx is the first position along the axis at which the
   lane through oidx takes its largest (smallest) value *)
Theorem onnx_argmax_spec (t : tensor Z) ax oidx :
  0 < nth ax (shape t) 0 -> in_bounds (remove_nth ax (shape t)) oidx ->
  let n := nth ax (shape t) 0 in
  let i := Z.to_nat (get (onnx_arg true t ax false) oidx 0%Z) in
  let at_ k := get t (insert_nth ax k oidx) 0%Z in
  i < n /\ (forall j, j < n -> (at_ j <= at_ i)%Z) /\ (forall j, j < i -> (at_ j < at_ i)%Z).
Proof.
  intros Hn Hb. cbv zeta. unfold onnx_arg. rewrite get_tab by exact Hb. rewrite Nat2Z.id. cbn [arg_list].
  set (l := lane t ax oidx 0%Z).
  assert (Hl : l <> []). { intros E. pose proof (lane_length t ax oidx 0%Z) as L. fold l in L. rewrite E in L. simpl in L. lia. }
  pose proof (argmax_list_spec l Hl) as H. cbv zeta in H.
  pose proof (lane_length t ax oidx 0%Z) as L. fold l in L. rewrite L in H.
  destruct H as (H1 & H2 & H3). split; [exact H1|]. split.
  - intros j Hj. specialize (H2 j Hj). unfold l in *. rewrite (lane_nth t ax oidx 0%Z j Hj), (lane_nth t ax oidx 0%Z _ H1) in H2. exact H2.
  - intros j Hj. specialize (H3 j Hj). unfold l in *. rewrite (lane_nth t ax oidx 0%Z j (Nat.lt_trans _ _ _ Hj H1)), (lane_nth t ax oidx 0%Z _ H1) in H3. exact H3.
Qed.

Theorem onnx_argmin_spec (t : tensor Z) ax oidx :
  0 < nth ax (shape t) 0 -> in_bounds (remove_nth ax (shape t)) oidx ->
  let n := nth ax (shape t) 0 in
  let i := Z.to_nat (get (onnx_arg false t ax false) oidx 0%Z) in
  let at_ k := get t (insert_nth ax k oidx) 0%Z in
  i < n /\ (forall j, j < n -> (at_ i <= at_ j)%Z) /\ (forall j, j < i -> (at_ i < at_ j)%Z).
Proof.
  intros Hn Hb. cbv zeta. unfold onnx_arg. rewrite get_tab by exact Hb. rewrite Nat2Z.id. cbn [arg_list].
  set (l := lane t ax oidx 0%Z).
  assert (Hl : l <> []). { intros E. pose proof (lane_length t ax oidx 0%Z) as L. fold l in L. rewrite E in L. simpl in L. lia. }
  pose proof (argmin_list_spec l Hl) as H. cbv zeta in H.
  pose proof (lane_length t ax oidx 0%Z) as L. fold l in L. rewrite L in H.
  destruct H as (H1 & H2 & H3). split; [exact H1|]. split.
  - intros j Hj. specialize (H2 j Hj). unfold l in *. rewrite (lane_nth t ax oidx 0%Z j Hj), (lane_nth t ax oidx 0%Z _ H1) in H2. exact H2.
  - intros j Hj. specialize (H3 j Hj). unfold l in *. rewrite (lane_nth t ax oidx 0%Z j (Nat.lt_trans _ _ _ Hj H1)), (lane_nth t ax oidx 0%Z _ H1) in H3. exact H3.
Qed.

(* keepdims only re-inserts an extent 1 at the axis *)
Lemma onnx_arg_keep_shape mx (t : tensor Z) ax : shape (onnx_arg mx t ax true) = replace_nth ax 1 (shape t).
Proof. reflexivity. Qed.
Lemma onnx_arg_drop_shape mx (t : tensor Z) ax : shape (onnx_arg mx t ax false) = remove_nth ax (shape t).
Proof. reflexivity. Qed.

(* axis=None: the flattened position (row-major) of the first extremum *)
Theorem ndx_argmax_flat (t : tensor Z) keep r : wf t -> ndx_arg true t None keep = Done r ->
  let i := Z.to_nat (nth 0 (data r) 0%Z) in
  i < length (data t) /\ (forall j, j < length (data t) -> (nth j (data t) 0 <= nth i (data t) 0)%Z)
  /\ (forall j, j < i -> (nth j (data t) 0 < nth i (data t) 0)%Z).
Proof.
  intros Hwf. unfold ndx_arg. destruct (Nat.eqb_spec (size (shape t)) 0) as [|Hne]; [discriminate|].
  intros E. injection E as <-. cbv zeta. cbn [data].
  unfold onnx_arg. cbn [shape remove_nth tab data all_idx map nth]. rewrite Nat2Z.id. cbn [arg_list].
  unfold lane. cbn [shape nth insert_nth].
  assert (Hd : map (fun i => get {| shape := [size (shape t)]; data := data t |} [i] 0%Z) (seq 0 (size (shape t))) = data t).
  { unfold get. cbn [shape ravel size fold_right data]. rewrite <- Hwf.
    rewrite <- (map_nth_seq (data t) 0%Z) at 2. apply map_ext. intros k. f_equal. lia. }
  rewrite Hd.
  assert (Hl : data t <> []). { intros E. unfold wf in Hwf. rewrite E in Hwf. simpl in Hwf. lia. }
  exact (argmax_list_spec (data t) Hl).
Qed.

(* ================= CumSum ====================================================================== *)
Definition zsum (l : list Z) : Z := fold_right Z.add 0%Z l.

Lemma cumsum_from_length l : forall acc, length (cumsum_from acc l) = length l.
Proof. induction l as [|x r IH]; intros acc; simpl; auto. Qed.

Lemma cumsum_from_nth (f : nat -> Z) n : forall s acc k, k < n ->
  nth k (cumsum_from acc (map f (seq s n))) 0%Z = (acc + zsum (map f (seq s (S k))))%Z.
Proof.
  induction n as [|n IH]; intros s acc k Hk; [lia|].
  cbn [seq map cumsum_from]. destruct k as [|k]; cbn [nth].
  - simpl. lia.
  - rewrite IH by lia. cbn [seq map zsum fold_right]. unfold zsum. lia.
Qed.

Lemma insert_remove (idx : list nat) : forall ax k, ax < length idx -> insert_nth ax k (remove_nth ax idx) = replace_nth ax k idx.
Proof.
  induction idx as [|i r IH]; intros ax k H; simpl in H; [lia|].
  destruct ax as [|ax]; cbn [remove_nth insert_nth replace_nth]; [reflexivity|].
  f_equal. apply IH. lia.
Qed.

(* CumSum node, any rank: the element at idx is the sum of the elements at positions 0..idx[ax] along the axis *)
Theorem onnx_cumsum_spec (t : tensor Z) ax idx : ax < length (shape t) -> in_bounds (shape t) idx ->
  get (onnx_cumsum t ax) idx 0%Z = zsum (map (fun i => get t (replace_nth ax i idx) 0%Z) (seq 0 (S (nth ax idx 0)))).
Proof.
  intros Hax Hb. unfold onnx_cumsum. rewrite get_tab by exact Hb.
  assert (Hlen : length idx = length (shape t)).
  { clear Hax. revert idx Hb. induction (shape t) as [|n r IH]; intros [|i j] Hb; simpl in *; try tauto. f_equal. apply IH. tauto. }
  assert (Hk : nth ax idx 0 < nth ax (shape t) 0).
  { clear Hlen. revert idx ax Hax Hb. induction (shape t) as [|n r IH]; intros [|i j] ax Hax Hb; simpl in *; try tauto; try lia.
    destruct ax as [|ax]; [tauto|]. apply IH; [lia|tauto]. }
  unfold cumsum_list, lane. rewrite cumsum_from_nth by exact Hk. rewrite Z.add_0_l.
  f_equal. apply map_ext. intros i. rewrite insert_remove by lia. reflexivity.
Qed.

Lemma onnx_cumsum_shape t ax : shape (onnx_cumsum t ax) = shape t.
Proof. reflexivity. Qed.

(* ================= all / any as forms (T-src) ==================================================== *)
Lemma interp_all_form t axis keep : interp_num all_form t axis keep = ndx_all t axis keep.
Proof. reflexivity. Qed.
Lemma interp_any_form t axis keep : interp_num any_form t axis keep = ndx_any t axis keep.
Proof. reflexivity. Qed.

Lemma tmap_tmap {A B C} (f : A -> B) (g : B -> C) (t : tensor A) : tmap g (tmap f t) = tmap (fun x => g (f x)) t.
Proof. unfold tmap. simpl. now rewrite map_map. Qed.
Lemma tmap_ext {A B} (f g : A -> B) (t : tensor A) : (forall x, f x = g x) -> tmap f t = tmap g t.
Proof. intros H. unfold tmap. f_equal. now apply map_ext. Qed.

(* boolean input: all / any as written are the conjunction / disjunction of the elements *)
Theorem interp_bool_all (t : tensor bool) axis keep : axis_valid (length (shape t)) axis ->
  interp_bool all_form t axis keep = np_reduce andb true t axis keep true.
Proof.
  intros H.
  pose proof (ndx_all_is_np_all (tmap b2z t) axis keep H) as E. unfold ndx_all, np_all in E.
  rewrite tmap_tmap in E.
  transitivity (tmap (fun s : Z => (s =? 0)%Z) (ndx_reduce Z.add 0%Z (tmap (fun x : bool => b2z (b2z x =? 0)%Z) t) axis keep 0%Z)); [reflexivity|].
  rewrite E. rewrite tmap_tmap.
  assert (Ht : tmap (fun x : bool => truth (b2z x)) t = t).
  { unfold tmap. destruct t as [sh dt]; simpl. f_equal. rewrite <- (map_id dt) at 2. apply map_ext. now intros []. }
  now rewrite Ht.
Qed.
Theorem interp_bool_any (t : tensor bool) axis keep : axis_valid (length (shape t)) axis ->
  interp_bool any_form t axis keep = np_reduce orb false t axis keep false.
Proof.
  intros H.
  pose proof (ndx_any_is_np_any (tmap b2z t) axis keep H) as E. unfold ndx_any, np_any in E.
  rewrite tmap_tmap in E.
  transitivity (tmap (fun s : Z => negb (s =? 0)%Z) (ndx_reduce Z.add 0%Z (tmap (fun x : bool => b2z (negb (b2z x =? 0)%Z)) t) axis keep 0%Z)); [reflexivity|].
  rewrite E. rewrite tmap_tmap.
  assert (Ht : tmap (fun x : bool => truth (b2z x)) t = t).
  { unfold tmap. destruct t as [sh dt]; simpl. f_equal. rewrite <- (map_id dt) at 2. apply map_ext. now intros []. }
  now rewrite Ht.
Qed.
