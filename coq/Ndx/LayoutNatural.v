(* Ndx/LayoutNatural.v — the PUBLIC layout functions of the model (permute_dims, matrix_transpose, expand_dims, squeeze,
   reshape, take, roll, broadcast_to, concat, stack) commute with every element-wise map, outcome included: they succeed or
   fail on the mapped tensor exactly as on the original.  Consequence: on a nullable (value, flag) tensor or a struct of
   fields the function applied field by field is the function applied once to the tuples — every element keeps its own
   flag / fields (C04, C19). *)
From Coq Require Import List Arith ZArith Bool Lia.
From ND Require Import Base.Tensor Base.TensorFacts Ndx.PyVal Ndx.GetItem Ndx.GetItemProof Ndx.Layout Ndx.LayoutFacts Ndx.NullTravel.
Import ListNotations.
Local Open Scope nat_scope.

Section Nat.
  Context {A B : Type} (f : A -> B).

  Lemma rank_tmap (t : tensor A) : rank (tmap f t) = rank t. Proof. reflexivity. Qed.

  Theorem permute_dims_natural (t : tensor A) axes d :
    res_map (tmap f) (ndx_permute_dims t axes d) = ndx_permute_dims (tmap f t) axes (f d).
  Proof. unfold ndx_permute_dims. rewrite rank_tmap. destruct (is_perm _ _); cbn [res_map]; [now rewrite transpose_natural|reflexivity]. Qed.

  Theorem matrix_transpose_natural (t : tensor A) d :
    res_map (tmap f) (ndx_matrix_transpose t d) = ndx_matrix_transpose (tmap f t) (f d).
  Proof. unfold ndx_matrix_transpose. rewrite rank_tmap. destruct (_ <? 2); cbn [res_map]; [reflexivity|now rewrite transpose_natural]. Qed.

  Theorem expand_dims_natural (t : tensor A) axis d :
    res_map (tmap f) (ndx_expand_dims t axis d) = ndx_expand_dims (tmap f t) axis (f d).
  Proof. unfold ndx_expand_dims. rewrite rank_tmap. destruct (axis_ok _ _); cbn [res_map]; [now rewrite unsqueeze_natural|reflexivity]. Qed.

  Theorem squeeze_fn_natural (t : tensor A) axes d :
    res_map (tmap f) (ndx_squeeze t axes d) = ndx_squeeze (tmap f t) axes (f d).
  Proof.
    unfold ndx_squeeze. rewrite rank_tmap, shape_tmap. destruct axes as [|a r]; [reflexivity|].
    destruct (forallb _ _); [|reflexivity]. destruct (forallb _ _); cbn [res_map]; [now rewrite squeeze_natural|reflexivity].
  Qed.

  Theorem reshape_natural (t : tensor A) target :
    res_map (tmap f) (ndx_reshape t target) = ndx_reshape (tmap f t) target.
  Proof. unfold ndx_reshape. rewrite shape_tmap. destruct (onnx_reshape_shape _ _); reflexivity. Qed.

  Theorem take_natural (t : tensor A) ix axis d :
    res_map (tmap f) (ndx_take t ix axis d) = ndx_take (tmap f t) ix axis (f d).
  Proof.
    unfold ndx_take. rewrite rank_tmap, shape_tmap. destruct (axis_ok _ _); [|reflexivity].
    destruct (forallb _ _); cbn [res_map]; [now rewrite select_natural|reflexivity].
  Qed.

  Theorem roll_steps_natural steps : forall (t : tensor A) d,
    res_map (tmap f) (roll_steps t steps d) = roll_steps (tmap f t) steps (f d).
  Proof.
    induction steps as [|[s a] r IH]; intros t d; [reflexivity|]. cbn [roll_steps]. rewrite rank_tmap, shape_tmap.
    destruct (axis_ok _ _); [|reflexivity].
    cbv zeta. destruct (_ =? 0)%Z; [reflexivity|]. rewrite <- take_natural.
    destruct (ndx_take t _ a d) as [t'| |e]; cbn [res_map]; [apply IH|reflexivity|reflexivity].
  Qed.

  Theorem roll_natural (t : tensor A) shifts axes d :
    res_map (tmap f) (ndx_roll t shifts axes d) = ndx_roll (tmap f t) shifts axes (f d).
  Proof.
    unfold ndx_roll. rewrite shape_tmap. destruct axes as [axs|].
    - destruct (Nat.eqb _ _); [|reflexivity]. rewrite <- roll_steps_natural.
      destruct (roll_steps t _ d) as [r| |e]; cbn [res_map]; [apply reshape_natural|reflexivity|reflexivity].
    - destruct shifts as [|s [|s2 r]]; try reflexivity. rewrite <- reshape_natural.
      destruct (ndx_reshape t _) as [flat| |e]; cbn [res_map]; try reflexivity. rewrite <- roll_steps_natural.
      destruct (roll_steps flat _ d) as [r| |e]; cbn [res_map]; [apply reshape_natural|reflexivity|reflexivity].
  Qed.

  Theorem broadcast_to_natural (t : tensor A) target d :
    res_map (tmap f) (ndx_broadcast_to t target d) = ndx_broadcast_to (tmap f t) target (f d).
  Proof. unfold ndx_broadcast_to. rewrite shape_tmap. destruct (broadcast_shape _ _); cbn [res_map]; [now rewrite expand_natural|reflexivity]. Qed.

  Lemma concat2_natural (a b : tensor A) ax d : tmap f (t_concat2 a b ax d) = t_concat2 (tmap f a) (tmap f b) ax (f d).
  Proof.
    unfold t_concat2. rewrite tmap_tab, !shape_tmap. apply tab_ext. intros idx _. cbv zeta.
    destruct (_ <? _); now rewrite get_tmap.
  Qed.

  Theorem concat_all_natural (ts : list (tensor A)) ax d :
    res_map (tmap f) (concat_all ts ax d) = concat_all (map (tmap f) ts) ax (f d).
  Proof.
    induction ts as [|t ts IH]; [reflexivity|]. destruct ts as [|t2 ts']; [reflexivity|].
    change (concat_all (t :: t2 :: ts') ax d) with
      (match concat_all (t2 :: ts') ax d with
       | Done u => if same_except ax (shape t) (shape u) then Done (t_concat2 t u ax d) else TraceError ValueError
       | e => e end).
    change (concat_all (map (tmap f) (t :: t2 :: ts')) ax (f d)) with
      (match concat_all (map (tmap f) (t2 :: ts')) ax (f d) with
       | Done u => if same_except ax (shape (tmap f t)) (shape u) then Done (t_concat2 (tmap f t) u ax (f d)) else TraceError ValueError
       | e => e end).
    rewrite <- IH. destruct (concat_all (t2 :: ts') ax d) as [u| |e]; cbn [res_map]; try reflexivity.
    rewrite !shape_tmap. destruct (same_except _ _ _); cbn [res_map]; [now rewrite concat2_natural|reflexivity].
  Qed.

  Theorem concat_natural (ts : list (tensor A)) axis d :
    res_map (tmap f) (ndx_concat ts axis d) = ndx_concat (map (tmap f) ts) axis (f d).
  Proof.
    unfold ndx_concat. destruct axis as [a|].
    - destruct ts as [|t r]; [reflexivity|]. cbn [map]. rewrite rank_tmap. destruct (axis_ok _ _); [|reflexivity].
      apply (concat_all_natural (t :: r)).
    - rewrite concat_all_natural, !map_map. reflexivity.
  Qed.

  Lemma stack_cons {C} (t : tensor C) r axis d : ndx_stack (t :: r) axis d =
    if axis_ok (rank t + 1) axis then concat_all (map (fun u => t_unsqueeze u [zaxis (rank t + 1) axis] d) (t :: r)) (zaxis (rank t + 1) axis) d
    else TraceError ValueError.
  Proof. reflexivity. Qed.

  Theorem stack_natural (ts : list (tensor A)) axis d :
    res_map (tmap f) (ndx_stack ts axis d) = ndx_stack (map (tmap f) ts) axis (f d).
  Proof.
    destruct ts as [|t r]; [reflexivity|]. rewrite stack_cons.
    change (map (tmap f) (t :: r)) with (tmap f t :: map (tmap f) r). rewrite stack_cons, rank_tmap.
    destruct (axis_ok _ _); [|reflexivity]. rewrite concat_all_natural. f_equal.
    change (tmap f t :: map (tmap f) r) with (map (tmap f) (t :: r)). rewrite !map_map.
    apply map_ext. intros u. now rewrite unsqueeze_natural.
  Qed.
End Nat.

(* ---- consequence for nullable arrays: the function applied to the values field and to the null field separately is the
   function applied once to the (value, flag) tensor — each element keeps its own flag, and both fields succeed or fail
   together.  Stated for the functions that take several operands (concat, stack) and for the one-operand family. ---- *)
(* concat / stack: the field-wise lowering would keep flags with their elements; the implementation refuses nullable operands
   today (known finding C11-stack-concat-nullable), so these two are statements about the model's operators only *)
Theorem concat_null_flags_travel {A} (ts : list (tensor (A * bool))) axis d m :
  ndx_concat (map values_of ts) axis d = res_map values_of (ndx_concat ts axis (d, m)) /\
  ndx_concat (map nulls_of ts) axis m = res_map nulls_of (ndx_concat ts axis (d, m)).
Proof. split; symmetry; [exact (concat_natural fst ts axis (d, m))|exact (concat_natural snd ts axis (d, m))]. Qed.

Theorem stack_null_flags_travel {A} (ts : list (tensor (A * bool))) axis d m :
  ndx_stack (map values_of ts) axis d = res_map values_of (ndx_stack ts axis (d, m)) /\
  ndx_stack (map nulls_of ts) axis m = res_map nulls_of (ndx_stack ts axis (d, m)).
Proof. split; symmetry; [exact (stack_natural fst ts axis (d, m))|exact (stack_natural snd ts axis (d, m))]. Qed.

Theorem one_operand_null_flags_travel {A} (t : tensor (A * bool)) d m :
  (forall axes, ndx_permute_dims (values_of t) axes d = res_map values_of (ndx_permute_dims t axes (d, m)) /\
                ndx_permute_dims (nulls_of t) axes m = res_map nulls_of (ndx_permute_dims t axes (d, m))) /\
  (forall target, ndx_reshape (values_of t) target = res_map values_of (ndx_reshape t target) /\
                  ndx_reshape (nulls_of t) target = res_map nulls_of (ndx_reshape t target)) /\
  (forall ix axis, ndx_take (values_of t) ix axis d = res_map values_of (ndx_take t ix axis (d, m)) /\
                   ndx_take (nulls_of t) ix axis m = res_map nulls_of (ndx_take t ix axis (d, m))) /\
  (forall shifts axes, ndx_roll (values_of t) shifts axes d = res_map values_of (ndx_roll t shifts axes (d, m)) /\
                       ndx_roll (nulls_of t) shifts axes m = res_map nulls_of (ndx_roll t shifts axes (d, m))) /\
  (forall target, ndx_broadcast_to (values_of t) target d = res_map values_of (ndx_broadcast_to t target (d, m)) /\
                  ndx_broadcast_to (nulls_of t) target m = res_map nulls_of (ndx_broadcast_to t target (d, m))) /\
  (forall axis, ndx_expand_dims (values_of t) axis d = res_map values_of (ndx_expand_dims t axis (d, m)) /\
                ndx_expand_dims (nulls_of t) axis m = res_map nulls_of (ndx_expand_dims t axis (d, m))) /\
  (forall axes, ndx_squeeze (values_of t) axes d = res_map values_of (ndx_squeeze t axes (d, m)) /\
                ndx_squeeze (nulls_of t) axes m = res_map nulls_of (ndx_squeeze t axes (d, m))).
Proof.
  repeat split; symmetry.
  - exact (permute_dims_natural fst t axes (d, m)). - exact (permute_dims_natural snd t axes (d, m)).
  - exact (reshape_natural fst t target). - exact (reshape_natural snd t target).
  - exact (take_natural fst t ix axis (d, m)). - exact (take_natural snd t ix axis (d, m)).
  - exact (roll_natural fst t shifts axes (d, m)). - exact (roll_natural snd t shifts axes (d, m)).
  - exact (broadcast_to_natural fst t target (d, m)). - exact (broadcast_to_natural snd t target (d, m)).
  - exact (expand_dims_natural fst t axis (d, m)). - exact (expand_dims_natural snd t axis (d, m)).
  - exact (squeeze_fn_natural fst t axes (d, m)). - exact (squeeze_fn_natural snd t axes (d, m)).
Qed.
