(* Ndx/UniqueCounts.v — unique_all / unique_counts: the counts add up to the number of elements (every element is counted
   under exactly one unique value), for every input list *)
From Coq Require Import List Arith ZArith Bool Lia Sorted Permutation.
From ND Require Import Ndx.Sort Ndx.SortFacts Ndx.UniqueFacts.
Import ListNotations.
Local Open Scope nat_scope.

Definition total (l : list nat) : nat := fold_right Nat.add 0 l.

Lemma total_pointwise_add {A} (f g : A -> nat) (l : list A) :
  total (map (fun v => f v + g v) l) = total (map f l) + total (map g l).
Proof. induction l as [|a r IH]; simpl; [reflexivity|]. unfold total in *. simpl. lia. Qed.

Lemma indicator_absent x vals : ~ In x vals -> total (map (fun v => if (x =? v)%Z then 1 else 0) vals) = 0.
Proof.
  induction vals as [|a r IH]; intros H; simpl; [reflexivity|].
  destruct (Z.eqb_spec x a) as [->|Hne]; [exfalso; apply H; now left|]. apply IH. intros Hin. apply H. now right.
Qed.
Lemma indicator_once x vals : NoDup vals -> In x vals -> total (map (fun v => if (x =? v)%Z then 1 else 0) vals) = 1.
Proof.
  induction vals as [|a r IH]; intros Hnd Hin; [destruct Hin|]. inversion Hnd as [|? ? Hna Hnr]; subst. simpl.
  destruct (Z.eqb_spec x a) as [->|Hne].
  - rewrite indicator_absent by exact Hna. reflexivity.
  - destruct Hin as [->|Hin]; [congruence|]. now rewrite IH.
Qed.

Lemma count_eq_cons v x r : count_eq v (x :: r) = (if (x =? v)%Z then 1 else 0) + count_eq v r.
Proof. unfold count_eq. simpl. destruct (x =? v)%Z; reflexivity. Qed.

Lemma counts_total vals : NoDup vals -> forall l, incl l vals -> total (map (fun v => count_eq v l) vals) = length l.
Proof.
  intros Hnd. induction l as [|x r IH]; intros Hincl.
  - unfold count_eq. simpl. clear. induction vals as [|a q IHq]; simpl; [reflexivity|exact IHq].
  - rewrite (map_ext _ (fun v => (if (x =? v)%Z then 1 else 0) + count_eq v r)) by (intros v; apply count_eq_cons).
    rewrite total_pointwise_add. rewrite indicator_once by (auto; apply Hincl; now left).
    rewrite IH by (intros y Hy; apply Hincl; now right). reflexivity.
Qed.

Lemma sorted_lt_nodup l : Sorted Z.lt l -> NoDup l.
Proof.
  intros H. apply Sorted_StronglySorted in H; [|intros a b c; lia].
  induction H as [|a r Hs IH Hf]; constructor; [|exact IH].
  intros Hin. rewrite Forall_forall in Hf. specialize (Hf a Hin). lia.
Qed.

(* the counts add up to the size; together with unique_counts_positive: a partition of the input's positions *)
Theorem unique_counts_total l : total (u_counts (ndx_unique l)) = length l /\ length (u_counts (ndx_unique l)) = length (u_values (ndx_unique l)).
Proof.
  destruct (unique_values_spec l) as [Hs Hin]. split.
  - unfold ndx_unique in *. cbn [u_counts u_values] in *. apply counts_total; [now apply sorted_lt_nodup|].
    intros x Hx. now apply Hin.
  - unfold ndx_unique. cbn [u_counts u_values]. now rewrite map_length.
Qed.

(* and each count is the number of positions holding that value *)
Theorem unique_counts_spec l : forall k, k < length (u_values (ndx_unique l)) ->
  nth k (u_counts (ndx_unique l)) 0 = length (filter (fun x => (x =? nth k (u_values (ndx_unique l)) 0%Z)%Z) l).
Proof.
  intros k Hk. unfold ndx_unique in *. cbn [u_counts u_values] in *.
  rewrite nth_indep with (d' := count_eq 0%Z l) by (now rewrite map_length).
  exact (map_nth (fun v => count_eq v l) _ 0%Z k).
Qed.
