(* permute_dims: NumPy's law  out.shape[i] = x.shape[perm[i]],  out[idx] = x[src] with src[perm[i]] = idx[i]  — for every
   permutation (no repeated entry, every entry < rank) and every in-bounds index *)
From Coq Require Import List Arith ZArith Bool Lia.
From ND Require Import Base.Tensor Base.TensorFacts Ndx.PyVal Ndx.GetItem Ndx.Layout.
Import ListNotations.
Local Open Scope nat_scope.

Lemma index_of_go k l : forall s, (fix go (l : list nat) (i : nat) := match l with [] => i | x :: r => if Nat.eqb x k then i else go r (S i) end) l s
                                  = s + index_of k l.
Proof.
  unfold index_of. induction l as [|x r IH]; intros s; simpl; [lia|].
  destruct (Nat.eqb x k); [lia|]. rewrite IH, (IH 1). lia.
Qed.

Lemma index_of_nth perm : NoDup perm -> forall i, i < length perm -> index_of (nth i perm 0) perm = i.
Proof.
  induction 1 as [|x l Hnin Hnd IH]; intros i Hi; simpl in Hi; [lia|].
  destruct i as [|i]; unfold index_of; simpl.
  - now rewrite Nat.eqb_refl.
  - destruct (Nat.eqb_spec x (nth i l 0)) as [E|_].
    + exfalso. apply Hnin. rewrite E. apply nth_In. lia.
    + rewrite index_of_go. rewrite IH by lia. reflexivity.
Qed.

Theorem transpose_spec {A} (t : tensor A) perm d idx :
  NoDup perm -> length perm = rank t -> (forall p, In p perm -> p < rank t) ->
  in_bounds (map (fun p => nth p (shape t) 0) perm) idx ->
  shape (t_transpose t perm d) = map (fun p => nth p (shape t) 0) perm /\
  exists src, get (t_transpose t perm d) idx d = get t src d /\ length src = rank t /\
              forall i, i < rank t -> nth (nth i perm 0) src 0 = nth i idx 0.
Proof.
  intros Hnd Hlen Hlt Hb. split; [reflexivity|].
  exists (map (fun k => nth (index_of k perm) idx 0) (seq 0 (rank t))). split; [|split].
  - unfold t_transpose. now rewrite get_tab.
  - now rewrite map_length, seq_length.
  - intros i Hi. assert (Hp : nth i perm 0 < rank t) by (apply Hlt, nth_In; lia).
    assert (G : forall (f : nat -> nat) n k, k < n -> nth k (map f (seq 0 n)) 0 = f k).
    { intros f n k Hk. rewrite (nth_indep _ 0 (f 0)) by (rewrite map_length, seq_length; exact Hk). rewrite map_nth. f_equal. rewrite seq_nth; lia. }
    rewrite G by exact Hp. now rewrite (index_of_nth perm Hnd) by lia.
Qed.
