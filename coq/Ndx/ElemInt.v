(* Ndx/ElemInt.v — what the graphs of the model table compute on integers, for ALL operand
   values (C02, integer part).  Each theorem first pins the row of the table (by vm_compute
   lookup) and then proves its semantics. *)
From Coq Require Import List Bool ZArith String Lia.
From Coq Require Import Floats.SpecFloat.
From ND Require Import Base.Dtype Ndx.ElemSyntax Ndx.ElemSem Ndx.ElemTable.
Import ListNotations.
Open Scope Z_scope.

Ltac Zify.zify_post_hook ::= Z.to_euclidean_division_equations.

Definition int_cores : list core := [CI8; CI16; CI32; CI64; CU8; CU16; CU32; CU64].
Lemma int_cores_complete c : is_int c = true -> In c int_cores.
Proof. destruct c; simpl; try discriminate; tauto. Qed.

(* the expression of a same-dtype row, if the row traces *)
Definition row_expr (fn : string) (args : list argk) : option fexpr :=
  match lookup table fn HFunc args with Some (Traced _ v _) => Some v | _ => None end.
Definition row1 fn c := row_expr fn [AArr (DCore c)].
Definition row2 fn c := row_expr fn [AArr (DCore c); AArr (DCore c)].

Section Run.
  Variable tr : op1 -> core -> spec_float -> spec_float.
  Variable trpow : core -> spec_float -> spec_float -> spec_float.
  Definition envI (c : core) (xs : list Z) (i : nat) : sval := VI c (nth i xs 0).
  Definition run (e : fexpr) (c : core) (xs : list Z) : res :=
    eval tr trpow (envI c xs) (fun _ => false) e.
End Run.

(* ---- arithmetic on wrap ----------------------------------------------------------------- *)
Lemma wrap_in_range c z : is_int c = true -> in_range c (wrap c z).
Proof. destruct c; try discriminate; intros _; unfold in_range, lo, hi, wrap; simpl; lia. Qed.

Lemma wrap_id c z : is_int c = true -> in_range c z -> wrap c z = z.
Proof. destruct c; try discriminate; intros _; unfold in_range, lo, hi, wrap; simpl; lia. Qed.

(* routing through int64 and casting back is invisible modulo 2^bits *)
Lemma via64_add c x y : is_int c = true -> wrap c (wrap CI64 (wrap CI64 x + wrap CI64 y)) = wrap c (x + y).
Proof. destruct c; try discriminate; intros _; unfold wrap; simpl; lia. Qed.
Lemma via64_sub c x y : is_int c = true -> wrap c (wrap CI64 (wrap CI64 x - wrap CI64 y)) = wrap c (x - y).
Proof. destruct c; try discriminate; intros _; unfold wrap; simpl; lia. Qed.
Lemma via64_neg c x : is_int c = true -> wrap c (wrap CI64 (- wrap CI64 x)) = wrap c (- x).
Proof. destruct c; try discriminate; intros _; unfold wrap; simpl; lia. Qed.

Lemma mod_mul_mod a b m : 0 < m -> ((a mod m) * (b mod m)) mod m = (a * b) mod m.
Proof. intros H. rewrite <- Z.mul_mod by lia. reflexivity. Qed.

Lemma wrap_congr c a b : is_int c = true -> a mod 2 ^ zbits c = b mod 2 ^ zbits c -> wrap c a = wrap c b.
Proof.
  intros Hc H. unfold wrap. destruct (is_signed c).
  - assert (E : (a + 2 ^ (zbits c - 1)) mod 2 ^ zbits c = (b + 2 ^ (zbits c - 1)) mod 2 ^ zbits c).
    { rewrite (Z.add_mod a), (Z.add_mod b), H by (destruct c; simpl; try discriminate; lia). reflexivity. }
    now rewrite E.
  - exact H.
Qed.

Lemma wrap_mod c z : is_int c = true -> (wrap c z) mod 2 ^ zbits c = z mod 2 ^ zbits c.
Proof. destruct c; try discriminate; intros _; unfold wrap; simpl; lia. Qed.

Lemma mod64_mod c z : is_int c = true -> (z mod 2 ^ 64) mod 2 ^ zbits c = z mod 2 ^ zbits c.
Proof. destruct c; try discriminate; intros _; simpl; lia. Qed.

Lemma via64_mul c x y : is_int c = true -> wrap c (wrap CI64 (wrap CI64 x * wrap CI64 y)) = wrap c (x * y).
Proof.
  intros Hc. apply wrap_congr; auto.
  rewrite <- (mod64_mod c (wrap CI64 _)) by auto.
  change (2 ^ 64) with (2 ^ zbits CI64). rewrite wrap_mod by reflexivity.
  rewrite <- mod_mul_mod by (simpl; lia). rewrite !wrap_mod by reflexivity.
  rewrite mod_mul_mod by (simpl; lia). change (2 ^ zbits CI64) with (2 ^ 64). now apply mod64_mod.
Qed.

(* ---- which rows: pinned by computation on the table ------------------------------------- *)
Definition via64 (o : op2) (c : core) := Cast c (Op2 o (Cast CI64 (ArgV 0)) (Cast CI64 (ArgV 1))).
Definition direct (o : op2) := Op2 o (ArgV 0) (ArgV 1).
Definition is_via_or_direct (o : op2) (c : core) (e : option fexpr) : bool :=
  match e with Some e => fexpr_eqb e (via64 o c) || fexpr_eqb e (direct o) | None => false end.

Lemma rows_add : forallb (fun c => is_via_or_direct OAdd c (row2 "add" c)) int_cores = true.
Proof. vm_compute. reflexivity. Qed.
Lemma rows_sub : forallb (fun c => is_via_or_direct OSub c (row2 "subtract" c)) int_cores = true.
Proof. vm_compute. reflexivity. Qed.
Lemma rows_mul : forallb (fun c => is_via_or_direct OMul c (row2 "multiply" c)) int_cores = true.
Proof. vm_compute. reflexivity. Qed.

Lemma fexpr_eqb_eq : forall a b, fexpr_eqb a b = true -> a = b.
Proof.
  induction a; destruct b; simpl; try discriminate; intros H;
    repeat match goal with
    | H : _ && _ = true |- _ => apply andb_true_iff in H; destruct H
    | H : Nat.eqb _ _ = true |- _ => apply Nat.eqb_eq in H
    | H : Z.eqb _ _ = true |- _ => apply Z.eqb_eq in H
    | H : Bool.eqb _ _ = true |- _ => apply eqb_prop in H
    | H : String.eqb _ _ = true |- _ => apply String.eqb_eq in H
    | H : core_eqb ?x ?y = true |- _ => assert (x = y) by (destruct x, y; simpl in H; congruence); clear H
    | H : op1_eqb ?x ?y = true |- _ => assert (x = y) by (destruct x, y; simpl in H; congruence); clear H
    | H : op2_eqb ?x ?y = true |- _ => assert (x = y) by (destruct x, y; simpl in H; congruence); clear H
    | IH : forall b, fexpr_eqb ?a b = true -> ?a = b, H : fexpr_eqb ?a _ = true |- _ => apply IH in H
    end; subst; reflexivity.
Qed.

Lemma core_eqb_refl c : core_eqb c c = true.
Proof. destruct c; reflexivity. Qed.

Section Specs.
  Variable tr : op1 -> core -> spec_float -> spec_float.
  Variable trpow : core -> spec_float -> spec_float -> spec_float.
  Notation run := (run tr trpow).

  (* semantics of the two shapes, any arithmetic operator with a modular law *)
  Definition zop (o : op2) (x y : Z) : Z :=
    match o with OAdd => x + y | OSub => x - y | _ => x * y end.

  Lemma run_direct o c x y : is_int c = true -> (o = OAdd \/ o = OSub \/ o = OMul) ->
    run (direct o) c [x; y] = RV (VI c (wrap c (zop o x y))).
  Proof.
    intros Hc Ho. unfold run, direct, envI; simpl. rewrite core_eqb_refl.
    destruct Ho as [-> | [-> | ->]]; reflexivity.
  Qed.

  Lemma run_via64 o c x y : is_int c = true -> (o = OAdd \/ o = OSub \/ o = OMul) ->
    run (via64 o c) c [x; y] = RV (VI c (wrap c (zop o x y))).
  Proof.
    intros Hc Ho. unfold run, via64, envI.
    destruct c; try discriminate; destruct Ho as [-> | [-> | ->]]; cbn -[wrap];
      first [rewrite via64_add by reflexivity | rewrite via64_sub by reflexivity | rewrite via64_mul by reflexivity];
      reflexivity.
  Qed.

  Lemma arith_spec (r : option fexpr) o c x y :
    (o = OAdd \/ o = OSub \/ o = OMul) -> is_int c = true ->
    is_via_or_direct o c r = true ->
    exists e, r = Some e /\ run e c [x; y] = RV (VI c (wrap c (zop o x y))).
  Proof.
    intros Ho Hc Hr. unfold is_via_or_direct in Hr. destruct r as [e|]; try discriminate.
    exists e; split; auto. apply orb_true_iff in Hr as [H | H]; apply fexpr_eqb_eq in H; subst e.
    - now apply run_via64.
    - now apply run_direct.
  Qed.

  Theorem add_int_spec c x y : is_int c = true ->
    exists e, row2 "add" c = Some e /\ run e c [x; y] = RV (VI c (wrap c (x + y))).
  Proof.
    intros Hc. apply (arith_spec (row2 "add" c) OAdd); auto.
    exact (proj1 (forallb_forall _ _) rows_add c (int_cores_complete c Hc)).
  Qed.
  Theorem subtract_int_spec c x y : is_int c = true ->
    exists e, row2 "subtract" c = Some e /\ run e c [x; y] = RV (VI c (wrap c (x - y))).
  Proof.
    intros Hc. apply (arith_spec (row2 "subtract" c) OSub); auto.
    exact (proj1 (forallb_forall _ _) rows_sub c (int_cores_complete c Hc)).
  Qed.
  Theorem multiply_int_spec c x y : is_int c = true ->
    exists e, row2 "multiply" c = Some e /\ run e c [x; y] = RV (VI c (wrap c (x * y))).
  Proof.
    intros Hc. apply (arith_spec (row2 "multiply" c) OMul); auto.
    exact (proj1 (forallb_forall _ _) rows_mul c (int_cores_complete c Hc)).
  Qed.

  (* ---- identity functions on integers: floor, ceil, round, trunc, positive -------------- *)
  Lemma rows_identity : forallb (fun fn => forallb (fun c =>
      match row1 fn c with Some e => fexpr_eqb e (ArgV 0) | None => false end) int_cores)
      ["floor"; "ceil"; "round"; "trunc"; "positive"]%string = true.
  Proof. vm_compute. reflexivity. Qed.

  Theorem rounding_int_identity fn c x :
    In fn ["floor"; "ceil"; "round"; "trunc"; "positive"]%string -> is_int c = true ->
    exists e, row1 fn c = Some e /\ run e c [x] = RV (VI c x).
  Proof.
    intros Hf Hc. pose proof (proj1 (forallb_forall _ _) rows_identity fn Hf) as H.
    pose proof (proj1 (forallb_forall _ _) H c (int_cores_complete c Hc)) as H2. cbv beta in H2.
    generalize dependent (row1 fn c). intros r H2. destruct r as [e|]; try discriminate.
    apply fexpr_eqb_eq in H2; subst e. exists (ArgV 0). split; reflexivity.
  Qed.

  (* ---- negative --------------------------------------------------------------------------- *)
  Definition neg_via c := Cast c (Op1 ONeg (Cast CI64 (ArgV 0))).
  Lemma rows_neg : forallb (fun c => match row1 "negative" c with
      | Some e => fexpr_eqb e (neg_via c) || (is_signed c && fexpr_eqb e (Op1 ONeg (ArgV 0))) | None => false end) int_cores = true.
  Proof. vm_compute. reflexivity. Qed.

  Theorem negative_int_spec c x : is_int c = true ->
    exists e, row1 "negative" c = Some e /\ run e c [x] = RV (VI c (wrap c (- x))).
  Proof.
    intros Hc. pose proof (proj1 (forallb_forall _ _) rows_neg c (int_cores_complete c Hc)) as H. cbv beta in H.
    generalize dependent (row1 "negative" c). intros r H. destruct r as [e|]; try discriminate.
    exists e; split; auto. apply orb_true_iff in H as [H | H].
    - apply fexpr_eqb_eq in H; subst e. unfold run, neg_via, envI.
      destruct c; try discriminate; cbn -[wrap]; rewrite via64_neg by reflexivity; reflexivity.
    - apply andb_true_iff in H as [Hs H]. apply fexpr_eqb_eq in H; subst e. unfold run, envI. cbn -[wrap]. now rewrite Hs.
  Qed.

  (* ---- comparisons ------------------------------------------------------------------------ *)
  Definition cmp_via o := Op2 o (Cast CI64 (ArgV 0)) (Cast CI64 (ArgV 1)).
  Definition cmp_rows (fn : string) (o : op2) := forallb (fun c => match row2 fn c with
      | Some e => fexpr_eqb e (cmp_via o) || fexpr_eqb e (direct o) | None => false end) int_cores.
  Lemma rows_equal : cmp_rows "equal" OEqual = true. Proof. vm_compute. reflexivity. Qed.
  Lemma rows_less : cmp_rows "less" OLess = true. Proof. vm_compute. reflexivity. Qed.
  Lemma rows_less_equal : cmp_rows "less_equal" OLessEq = true. Proof. vm_compute. reflexivity. Qed.
  Lemma rows_greater : cmp_rows "greater" OGreater = true. Proof. vm_compute. reflexivity. Qed.
  Lemma rows_greater_equal : cmp_rows "greater_equal" OGreaterEq = true. Proof. vm_compute. reflexivity. Qed.

  Definition is_cmp (o : op2) := o = OEqual \/ o = OLess \/ o = OLessEq \/ o = OGreater \/ o = OGreaterEq.

  Lemma run_cmp_via o c x y : is_int c = true -> c <> CU64 -> is_cmp o -> in_range c x -> in_range c y ->
    run (cmp_via o) c [x; y] = RV (VB (zcmp o x y)).
  Proof.
    intros Hc Hn Ho Hx Hy. unfold run, cmp_via, envI.
    assert (Ex : wrap CI64 x = x) by (destruct c; try discriminate; try congruence; unfold in_range, lo, hi in Hx; unfold wrap; simpl in *; lia).
    assert (Ey : wrap CI64 y = y) by (destruct c; try discriminate; try congruence; unfold in_range, lo, hi in Hy; unfold wrap; simpl in *; lia).
    destruct Ho as [-> | [-> | [-> | [-> | ->]]]]; cbn -[wrap]; rewrite Ex, Ey; reflexivity.
  Qed.

  Lemma run_cmp_direct o c x y : is_int c = true -> is_cmp o ->
    run (direct o) c [x; y] = RV (VB (zcmp o x y)).
  Proof.
    intros Hc Ho. unfold run, direct, envI. cbn. rewrite core_eqb_refl.
    destruct Ho as [-> | [-> | [-> | [-> | ->]]]]; reflexivity.
  Qed.

  Lemma cmp_spec (r : option fexpr) o c x y : is_int c = true -> c <> CU64 -> is_cmp o ->
    in_range c x -> in_range c y ->
    match r with Some e => fexpr_eqb e (cmp_via o) || fexpr_eqb e (direct o) | None => false end = true ->
    exists e, r = Some e /\ run e c [x; y] = RV (VB (zcmp o x y)).
  Proof.
    intros Hc Hn Ho Hx Hy H. destruct r as [e|]; try discriminate. exists e; split; auto.
    apply orb_true_iff in H as [H | H]; apply fexpr_eqb_eq in H; subst e;
      [now apply run_cmp_via | now apply run_cmp_direct].
  Qed.

  Theorem less_int_spec c x y : is_int c = true -> c <> CU64 -> in_range c x -> in_range c y ->
    exists e, row2 "less" c = Some e /\ run e c [x; y] = RV (VB (x <? y)).
  Proof.
    intros Hc Hn Hx Hy.
    apply (cmp_spec (row2 "less" c) OLess c x y); auto; [unfold is_cmp; tauto|].
    exact (proj1 (forallb_forall _ _) rows_less c (int_cores_complete c Hc)).
  Qed.
  Theorem less_equal_int_spec c x y : is_int c = true -> c <> CU64 -> in_range c x -> in_range c y ->
    exists e, row2 "less_equal" c = Some e /\ run e c [x; y] = RV (VB (x <=? y)).
  Proof.
    intros Hc Hn Hx Hy.
    apply (cmp_spec (row2 "less_equal" c) OLessEq c x y); auto; [unfold is_cmp; tauto|].
    exact (proj1 (forallb_forall _ _) rows_less_equal c (int_cores_complete c Hc)).
  Qed.
  Theorem greater_int_spec c x y : is_int c = true -> c <> CU64 -> in_range c x -> in_range c y ->
    exists e, row2 "greater" c = Some e /\ run e c [x; y] = RV (VB (y <? x)).
  Proof.
    intros Hc Hn Hx Hy.
    apply (cmp_spec (row2 "greater" c) OGreater c x y); auto; [unfold is_cmp; tauto|].
    exact (proj1 (forallb_forall _ _) rows_greater c (int_cores_complete c Hc)).
  Qed.
  Theorem greater_equal_int_spec c x y : is_int c = true -> c <> CU64 -> in_range c x -> in_range c y ->
    exists e, row2 "greater_equal" c = Some e /\ run e c [x; y] = RV (VB (y <=? x)).
  Proof.
    intros Hc Hn Hx Hy.
    apply (cmp_spec (row2 "greater_equal" c) OGreaterEq c x y); auto; [unfold is_cmp; tauto|].
    exact (proj1 (forallb_forall _ _) rows_greater_equal c (int_cores_complete c Hc)).
  Qed.
  Theorem equal_int_spec c x y : is_int c = true -> c <> CU64 -> in_range c x -> in_range c y ->
    exists e, row2 "equal" c = Some e /\ run e c [x; y] = RV (VB (x =? y)).
  Proof.
    intros Hc Hn Hx Hy.
    apply (cmp_spec (row2 "equal" c) OEqual c x y); auto; [unfold is_cmp; tauto|].
    exact (proj1 (forallb_forall _ _) rows_equal c (int_cores_complete c Hc)).
  Qed.

  (* FINDING (known): unsigned 64-bit comparisons go through int64 *)
  Theorem less_uint64_refuted : exists x y e, in_range CU64 x /\ in_range CU64 y /\
    row2 "less" CU64 = Some e /\ run e CU64 [x; y] <> RV (VB (x <? y)).
  Proof.
    exists (2 ^ 63), 1, (cmp_via OLess). repeat split; try (vm_compute; intros Hcmp; discriminate Hcmp); try lia.
    all: try (vm_compute; reflexivity).
  Qed.

  (* FINDING (known): remainder uses C fmod (sign of the dividend), the standard wants the sign of the divisor *)
  Theorem remainder_sign_refuted : exists x y e, in_range CI64 x /\ in_range CI64 y /\ y <> 0 /\
    row2 "remainder" CI64 = Some e /\ run e CI64 [x; y] <> RV (VI CI64 (x mod y)).
  Proof.
    exists (-7), 3, (Op2 OFmod (ArgV 0) (ArgV 1)). repeat split; try (vm_compute; intros Hcmp; discriminate Hcmp); try lia.
    all: try (vm_compute; reflexivity).
  Qed.

  (* FINDING (known): right shift of a negative int64 is logical, not arithmetic *)
  Theorem right_shift_int64_refuted : exists x y e, in_range CI64 x /\ 0 <= y < 64 /\
    row2 "bitwise_right_shift" CI64 = Some e /\ run e CI64 [x; y] <> RV (VI CI64 (Z.shiftr x y)).
  Proof.
    exists (-2), 1, (Cast CI64 (Op2 OShr (Cast CU64 (ArgV 0)) (Cast CU64 (ArgV 1)))). repeat split; try (vm_compute; intros Hcmp; discriminate Hcmp); try lia.
    all: try (vm_compute; reflexivity).
  Qed.

  (* FINDING (known): integer floor_divide goes through floating point (int64 via float64) *)
  Theorem floor_divide_int64_refuted : exists x y e, in_range CI64 x /\ in_range CI64 y /\ y <> 0 /\
    row2 "floor_divide" CI64 = Some e /\ run e CI64 [x; y] <> RV (VI CI64 (x / y)).
  Proof.
    exists (2 ^ 62 + 1), 1, (Cast CI64 (Op1 OFloor (Op2 ODiv (Cast CF64 (ArgV 0)) (Cast CF64 (ArgV 1))))).
    repeat split; try (vm_compute; intros Hcmp; discriminate Hcmp); try lia.
    all: try (vm_compute; reflexivity).
  Qed.
End Specs.
