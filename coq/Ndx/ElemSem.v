(* Ndx/ElemSem.v — scalar (point-wise) semantics of fexpr terms: ONNX operator kernels on one
   element.  Integers are Z with the two's-complement wrap of the dtype written out; floats
   are Coq.Floats.SpecFloat (exact IEEE for + - * / sqrt, compare, casts); transcendental
   kernels go through an oracle `tr` (they are onnxruntime's; see DESIGN §7).  Tensor-level
   broadcasting is Base/Broadcast: element-wise operators act point-wise on broadcast
   operands, so the point-wise semantics is the whole story for values. *)
From Coq Require Import List Bool ZArith String Lia.
From Coq Require Import Floats.SpecFloat.
From ND Require Import Base.Dtype Ndx.ElemSyntax.
Import ListNotations.
Open Scope Z_scope.

Definition zbits (c : core) : Z :=
  match c with
  | CI8 | CU8 => 8 | CI16 | CU16 => 16 | CI32 | CU32 => 32 | CI64 | CU64 => 64
  | _ => 0
  end.

Definition lo (c : core) : Z := if is_signed c then - 2 ^ (zbits c - 1) else 0.
Definition hi (c : core) : Z := if is_signed c then 2 ^ (zbits c - 1) - 1 else 2 ^ (zbits c) - 1.
Definition in_range (c : core) (z : Z) : Prop := lo c <= z <= hi c.
Definition in_rangeb (c : core) (z : Z) : bool := (lo c <=? z) && (z <=? hi c).

(* two's-complement wrap into the range of an integer dtype *)
Definition wrap (c : core) (z : Z) : Z :=
  if is_signed c then (z + 2 ^ (zbits c - 1)) mod 2 ^ (zbits c) - 2 ^ (zbits c - 1)
  else z mod 2 ^ (zbits c).

Inductive sval :=
  | VB (b : bool)
  | VI (c : core) (z : Z)               (* an integer of dtype c, lo c <= z <= hi c *)
  | VF (c : core) (f : spec_float)      (* CF32 or CF64 *)
  | VS (s : string).

Inductive res :=
  | RV (v : sval)
  | RErr        (* onnxruntime fails at run time (or rejects the graph as ill-typed) *)
  | RUnspec.    (* outside what the model specifies (UB conversions, string casts, ...) *)

Definition prec (c : core) : Z := match c with CF32 => 24 | _ => 53 end.
Definition emax (c : core) : Z := match c with CF32 => 128 | _ => 1024 end.

Definition sf_of_Z (c : core) (z : Z) : spec_float := binary_normalize (prec c) (emax c) z 0 false.

Definition sf_is_nan (f : spec_float) := match f with S754_nan => true | _ => false end.
Definition sf_is_inf (f : spec_float) := match f with S754_infinity _ => true | _ => false end.
Definition sf_is_zero (f : spec_float) := match f with S754_zero _ => true | _ => false end.

(* truncation toward zero / floor / ceil of a finite float, as an integer *)
Definition sf_trunc (f : spec_float) : option Z :=
  match f with
  | S754_zero _ => Some 0
  | S754_finite s m e =>
      let a := if 0 <=? e then Z.pos m * 2 ^ e else Z.pos m / 2 ^ (- e) in
      Some (if s then - a else a)
  | _ => None
  end.
Definition sf_floor (f : spec_float) : option Z :=
  match f with
  | S754_zero _ => Some 0
  | S754_finite s m e =>
      if 0 <=? e then Some ((if s then -1 else 1) * (Z.pos m * 2 ^ e))
      else Some ((if s then - Z.pos m else Z.pos m) / 2 ^ (- e))     (* Z./ is floor division *)
  | _ => None
  end.
Definition sf_ceil (f : spec_float) : option Z :=
  match f with
  | S754_zero _ => Some 0
  | S754_finite s m e =>
      if 0 <=? e then Some ((if s then -1 else 1) * (Z.pos m * 2 ^ e))
      else Some (- ((if s then Z.pos m else - Z.pos m) / 2 ^ (- e)))
  | _ => None
  end.
(* round half to even *)
Definition sf_rint (f : spec_float) : option Z :=
  match sf_floor f, f with
  | Some fl, S754_finite s m e =>
      if 0 <=? e then Some fl
      else
        let d := 2 ^ (- e) in
        let r := (if s then - Z.pos m else Z.pos m) - fl * d in     (* 0 <= r < d *)
        Some (if 2 * r <? d then fl else if d <? 2 * r then fl + 1
              else if Z.even fl then fl else fl + 1)
  | x, _ => x
  end.

(* an integral float result keeps the sign of its argument when it is zero (-0.5 -> -0) *)
Definition sf_of_Z_signed (c : core) (neg : bool) (z : Z) : spec_float :=
  if z =? 0 then S754_zero neg else sf_of_Z c z.
Definition sf_sign (f : spec_float) : bool :=
  match f with S754_zero s | S754_infinity s | S754_finite s _ _ => s | S754_nan => false end.

Definition sf_round_with (g : spec_float -> option Z) (c : core) (f : spec_float) : spec_float :=
  match g f with Some z => sf_of_Z_signed c (sf_sign f) z | None => f end.

Section Eval.
  (* transcendental kernels: onnxruntime's, not modelled *)
  Variable tr : op1 -> core -> spec_float -> spec_float.
  Variable trpow : core -> spec_float -> spec_float -> spec_float.
  (* argument i: its values element and its null flag *)
  Variable envV : nat -> sval.
  Variable envN : nat -> bool.

  Definition cast_to (c : core) (v : sval) : res :=
    match c, v with
    | CBool, VB b => RV (VB b)
    | CBool, VI _ z => RV (VB (negb (z =? 0)))
    | CBool, VF _ f => RV (VB (negb (sf_is_zero f)))
    | (CF32 | CF64), VB b => RV (VF c (sf_of_Z c (if b then 1 else 0)))
    | (CF32 | CF64), VI _ z => RV (VF c (sf_of_Z c z))
    | (CF32 | CF64), VF c' f =>
        RV (VF c (match f with
                  | S754_finite s m e => binary_normalize (prec c) (emax c) (if s then Z.neg m else Z.pos m) e s
                  | _ => f end))
    | CStr, VS s => RV (VS s)
    | CStr, _ => RUnspec
    | _, VS _ => RUnspec
    | _, VB b => if is_int c then RV (VI c (if b then 1 else 0)) else RErr
    | _, VI _ z => if is_int c then RV (VI c (wrap c z)) else RErr
    | _, VF _ f =>
        if is_int c then
          match sf_trunc f with
          | Some z => if in_rangeb c z then RV (VI c z) else RUnspec
          | None => RUnspec
          end
        else RErr
    end.

  Definition zcmp (o : op2) (x y : Z) : bool :=
    match o with
    | OEqual => x =? y | OLess => x <? y | OLessEq => x <=? y | OGreater => y <? x | _ => y <=? x
    end.
  Definition fcmp (o : op2) (x y : spec_float) : bool :=
    match o with
    | OEqual => SFeqb x y | OLess => SFltb x y | OLessEq => SFleb x y
    | OGreater => SFltb y x | _ => SFleb y x
    end.

  Definition int_op2 (o : op2) (c : core) (x y : Z) : res :=
    match o with
    | OAdd => RV (VI c (wrap c (x + y)))
    | OSub => RV (VI c (wrap c (x - y)))
    | OMul => RV (VI c (wrap c (x * y)))
    | ODiv => if y =? 0 then RErr else RV (VI c (wrap c (Z.quot x y)))
    | OMod => if y =? 0 then RErr else RV (VI c (x mod y))           (* sign of the divisor  *)
    | OFmod => if y =? 0 then RErr                                  (* sign of the dividend; onnxruntime *)
               else if (Z.abs x <=? 2 ^ 53) && (Z.abs y <=? 2 ^ 53)  (* computes it with C fmod on doubles  *)
               then RV (VI c (Z.rem x y)) else RUnspec
    | OPow => if y <? 0 then RUnspec else RV (VI c (wrap c (x ^ y)))
    | OBitAnd => RV (VI c (wrap c (Z.land x y)))
    | OBitOr => RV (VI c (wrap c (Z.lor x y)))
    | OBitXor => RV (VI c (wrap c (Z.lxor x y)))
    | OShl => if is_unsigned c then (if y <? zbits c then RV (VI c (wrap c (Z.shiftl x y))) else RUnspec) else RErr
    | OShr => if is_unsigned c then (if y <? zbits c then RV (VI c (Z.shiftr x y)) else RUnspec) else RErr
    | OEqual | OLess | OLessEq | OGreater | OGreaterEq => RV (VB (zcmp o x y))
    | _ => RErr
    end.

  Definition float_op2 (o : op2) (c : core) (x y : spec_float) : res :=
    let p := prec c in let em := emax c in
    match o with
    | OAdd => RV (VF c (SFadd p em x y))
    | OSub => RV (VF c (SFsub p em x y))
    | OMul => RV (VF c (SFmul p em x y))
    | ODiv => RV (VF c (SFdiv p em x y))
    | OPow => RV (VF c (trpow c x y))
    | OEqual | OLess | OLessEq | OGreater | OGreaterEq => RV (VB (fcmp o x y))
    | OFmod => RUnspec
    | _ => RErr
    end.

  Definition bool_op2 (o : op2) (x y : bool) : res :=
    match o with
    | OAnd => RV (VB (x && y)) | OOr => RV (VB (x || y)) | OXor => RV (VB (xorb x y))
    | OEqual => RV (VB (Bool.eqb x y))
    | _ => RErr
    end.

  Definition eval_op2 (o : op2) (a b : sval) : res :=
    match a, b with
    | VB x, VB y => bool_op2 o x y
    | VI c x, VI c' y => if core_eqb c c' then int_op2 o c x y else RErr
    | VF c x, VF c' y => if core_eqb c c' then float_op2 o c x y else RErr
    | VS x, VS y => match o with
                    | OStrCat => RV (VS (x ++ y))
                    | OEqual => RV (VB (String.eqb x y))
                    | _ => RErr end
    | _, _ => RErr
    end.

  Definition eval_op1 (o : op1) (a : sval) : res :=
    match o, a with
    | ONot, VB b => RV (VB (negb b))
    | OAbs, VI c z => RV (VI c (wrap c (Z.abs z)))
    | ONeg, VI c z => if is_signed c then RV (VI c (wrap c (- z))) else RErr
    | OBitNot, VI c z => RV (VI c (wrap c (Z.lnot z)))
    | OAbs, VF c f => RV (VF c (SFabs f))
    | ONeg, VF c f => RV (VF c (SFopp f))
    | OFloor, VF c f => RV (VF c (sf_round_with sf_floor c f))
    | OCeil, VF c f => RV (VF c (sf_round_with sf_ceil c f))
    | ORound, VF c f => RV (VF c (sf_round_with sf_rint c f))
    | OSqrt, VF c f => RV (VF c (SFsqrt (prec c) (emax c) f))
    | OIsNaN, VF c f => RV (VB (sf_is_nan f))
    | OIsInf, VF c f => RV (VB (sf_is_inf f))
    | (OExp | OLog | OSin | OCos | OTan | OAsin | OAcos | OAtan | OSinh | OCosh | OTanh
       | OAsinh | OAcosh | OAtanh), VF c f => RV (VF c (tr o c f))
    | _, _ => RErr
    end.

  Definition bind (r : res) (k : sval -> res) : res :=
    match r with RV v => k v | e => e end.

  Definition const_float (c : core) (f : spec_float) : res :=
    match c with CF32 | CF64 => RV (VF c f) | _ => RErr end.

  Fixpoint eval (e : fexpr) : res :=
    match e with
    | ArgV i => RV (envV i)
    | ArgN i => RV (VB (envN i))
    | KZ CBool z => RV (VB (negb (z =? 0)))
    | KZ c z => if is_int c then RV (VI c z) else RErr
    | KF c m ex => const_float c (binary_normalize (prec c) (emax c) m ex false)
    | KFnan c => const_float c S754_nan
    | KFinf c n => const_float c (S754_infinity n)
    | KFzero c n => const_float c (S754_zero n)
    | KS s => RV (VS s)
    | Cast c a => bind (eval a) (cast_to c)
    | Op1 o a => bind (eval a) (eval_op1 o)
    | Op2 o a b => bind (eval a) (fun x => bind (eval b) (fun y => eval_op2 o x y))
    | Where c a b =>
        bind (eval c) (fun cv => bind (eval a) (fun x => bind (eval b) (fun y =>
          match cv with
          | VB true => RV (match x with                      (* onnxruntime's Where returns +0 for a *)
                           | VF c (S754_zero _) => VF c (S754_zero false)   (* selected -0 of the true branch *)
                           | _ => x end)
          | VB false => RV y
          | _ => RErr end)))
    | Clip x l h =>
        bind (eval x) (fun xv => bind (eval l) (fun lv => bind (eval h) (fun hv =>
          match xv, lv, hv with
          | VI c a, VI c1 b, VI c2 d =>
              if core_eqb c c1 && core_eqb c c2 then RV (VI c (Z.min (Z.max a b) d)) else RErr
          | _, _, _ => RUnspec
          end)))
    | FullLike c x => bind (eval x) (fun _ => eval c)
    end.
End Eval.
