(* Ndx/FlipForm.v — UniformShapeOperations.flip as a FORM (what a T-src translator reads off the source): whether a rank-0
   array is returned as a copy, which axis arguments are normalised (negative -> ndim + axis), and which slice the member
   axes get.  The expected form is Ndx/Layout.v ndx_flip; neighbouring forms are refuted on witnesses. *)
From Coq Require Import List Arith ZArith Bool.
From ND Require Import Base.Tensor Ndx.PyVal Ndx.Slice1D Ndx.Index Ndx.GetItem Ndx.Layout.
Import ListNotations.
Local Open Scope nat_scope.

Inductive flip_axis := FNone | FScalar (a : Z) | FList (l : list Z).
Inductive norm_mode := NormAll | NormScalarOnly | NormNever.
Record fform := { ff_rank0_copies : bool; ff_norm : norm_mode; ff_member_reversed : bool }.
Definition expected_fform : fform := {| ff_rank0_copies := true; ff_norm := NormAll; ff_member_reversed := true |}.

Definition norm_all (r : nat) (l : list Z) : list nat := map (fun a => Z.to_nat (if (a <? 0)%Z then Z.of_nat r + a else a)%Z) l.
(* without normalisation a negative entry never equals a position 0..r-1 *)
Definition norm_none (l : list Z) : list nat := flat_map (fun a => if (a <? 0)%Z then [] else [Z.to_nat a]) l.

Definition flip_axes (f : fform) (r : nat) (ax : flip_axis) : list nat :=
  match ax with
  | FNone => seq 0 r
  | FScalar a => match ff_norm f with NormNever => norm_none [a] | _ => norm_all r [a] end
  | FList l => match ff_norm f with NormAll => norm_all r l | _ => norm_none l end
  end.

Definition interp_flip {A} (f : fform) (t : tensor A) (ax : flip_axis) (d : A) : res (tensor A) :=
  let r := rank t in
  if Nat.eqb r 0 then (if ff_rank0_copies f then Done t else TraceError IndexError) else
  let axs := flip_axes f r ax in
  ndx_getitem_user t (map (fun i => if existsb (Nat.eqb i) axs
                                    then (if ff_member_reversed f then ISlice None None (Some (-1)%Z) else ISlice None None None)
                                    else (if ff_member_reversed f then ISlice None None None else ISlice None None (Some (-1)%Z))) (seq 0 r)) d.

Definition as_option (ax : flip_axis) : option (list Z) := match ax with FNone => None | FScalar a => Some [a] | FList l => Some l end.

Lemma interp_flip_expected {A} (t : tensor A) ax d : interp_flip expected_fform t ax d = ndx_flip t (as_option ax) d.
Proof. destruct ax; reflexivity. Qed.

Definition t23' : tensor Z := {| shape := [2; 3]; data := [1; 2; 3; 4; 5; 6]%Z |}.
Example scalar_only_normalisation_differs :
  interp_flip {| ff_rank0_copies := true; ff_norm := NormScalarOnly; ff_member_reversed := true |} t23' (FList [(-1)%Z]) 0%Z
  <> ndx_flip t23' (Some [(-1)%Z]) 0%Z.
Proof. vm_compute. discriminate. Qed.
Example no_normalisation_differs :
  interp_flip {| ff_rank0_copies := true; ff_norm := NormNever; ff_member_reversed := true |} t23' (FScalar (-2)%Z) 0%Z
  <> ndx_flip t23' (Some [(-2)%Z]) 0%Z.
Proof. vm_compute. discriminate. Qed.
