(* Ndx/NonzeroChain.v — nonzero from the primitive operators: the index grid (Range / Unsqueeze / Expand / Concat,
   Ndx/NdIndex.v) indexed by the mask x != 0 (Reshape / Compress, Ndx/MaskIndex.v) is the matrix whose row j is the j-th
   non-zero position in row-major order; the strided gathers of Ndx/NonzeroFacts.v then return its columns. *)
From Coq Require Import List Arith ZArith Bool Lia.
From ND Require Import Base.Tensor Base.TensorFacts Ndx.PyVal Ndx.GetItem Ndx.GetItemProof Ndx.NdIndex Ndx.MaskIndex.
Import ListNotations.
Local Open Scope nat_scope.

Lemma hits_in_bounds (m : tensor bool) j : j < length (hits m) -> inb (shape m) (nth j (hits m) []).
Proof.
  intros Hj. assert (Hin : In (nth j (hits m) []) (hits m)) by (apply nth_In; exact Hj).
  unfold hits in Hin. apply filter_In in Hin as [Hin _]. now apply in_all_idx.
Qed.

Lemma grid_get sh idx k : inb sh idx -> k < length sh -> get (coord_grid sh) (idx ++ [k]) 0 = nth k idx 0.
Proof.
  intros Hb Hk. unfold coord_grid. rewrite get_tab by (apply inb_app_last; assumption).
  pose proof (inb_length _ _ Hb) as Hl. rewrite <- Hl at 1. rewrite nth_last. apply app_nth1. lia.
Qed.

Lemma firstn_app_exact {A} (l r : list A) : firstn (length l) (l ++ r) = l.
Proof. induction l; simpl; [now destruct r|now f_equal]. Qed.
Lemma skipn_app_exact {A} (l r : list A) : skipn (length l) (l ++ r) = r.
Proof. induction l; simpl; auto. Qed.

(* the grid compressed by the mask: row j, column k = coordinate k of the j-th true position of the mask *)
Theorem compressed_grid_is_the_hit_matrix sh (m : tensor bool) : sh <> [] -> wf m -> shape m = sh ->
  ndx_getitem_mask (coord_grid sh) m =
  Done (tab [length (hits m); length sh] (fun oidx => nth (nth 1 oidx 0) (nth (nth 0 oidx 0) (hits m) []) 0)).
Proof.
  intros Hne Hwm Hsh.
  assert (Hr : 0 < length sh) by (destruct sh; [congruence|simpl; lia]).
  rewrite (getitem_mask_is_numpy (coord_grid sh) m 0).
  - f_equal. unfold np_getitem_mask, rank'. cbn [coord_grid shape tab]. rewrite Hsh, skipn_app_exact.
    apply tab_ext. intros oidx Hb.
    destruct oidx as [|j [|k [|? ?]]]; simpl in Hb; try tauto. destruct Hb as (Hj & Hk & _).
    cbn [hd tl nth]. apply grid_get; [|exact Hk].
    rewrite <- Hsh. now apply hits_in_bounds.
  - apply wf_tab.
  - exact Hwm.
  - unfold rank'. cbn [coord_grid shape tab]. rewrite Hsh. symmetry. apply firstn_app_exact.
  - left. unfold rank'. cbn [coord_grid shape tab]. rewrite Hsh, skipn_app_exact. simpl. lia.
Qed.

From ND Require Import Ndx.Sort Ndx.NonzeroFacts.

(* the mask x != 0 of integer data *)
Definition nz_mask (sh : list nat) (data : list Z) : tensor bool := {| shape := sh; data := map (fun v => negb (v =? 0)%Z) data |}.

Lemma hits_nz_mask sh data : length data = size sh -> hits (nz_mask sh data) = nz_rows sh data.
Proof.
  intros Hl. rewrite (nz_rows_spec sh data Hl). unfold hits, nz_mask, get. cbn [shape Tensor.data].
  apply filter_ext. intros idx.
  change false with ((fun v => negb (v =? 0)%Z) 0%Z). now rewrite map_nth.
Qed.

Lemma all_idx_1 r : all_idx [r] = map (fun k => [k]) (seq 0 r).
Proof. simpl. induction (seq 0 r) as [|k l IH]; simpl; [reflexivity|]. now rewrite IH. Qed.

(* Reshape [-1] of the hit matrix: the rows one after the other *)
Lemma hit_matrix_data (hs : list (list nat)) r : Forall (fun h => length h = r) hs ->
  data (tab [length hs; r] (fun oidx => nth (nth 1 oidx 0) (nth (nth 0 oidx 0) hs []) 0)) = concat hs.
Proof.
  intros Hf. rewrite tab_cons_data.
  transitivity (concat (map (fun j => nth j hs []) (seq 0 (length hs)))); [|now rewrite map_nth_seq]. f_equal.
  apply map_ext_in. intros j Hj. apply in_seq in Hj. simpl in Hj.
  rewrite all_idx_1, map_map. cbn [nth].
  assert (Hlen : length (nth j hs []) = r).
  { rewrite Forall_forall in Hf. apply Hf. apply nth_In. lia. }
  rewrite <- Hlen. apply map_nth_seq.
Qed.

(* nonzero, end to end: Range/Unsqueeze/Expand/Concat grid -> Reshape/Compress by x != 0 -> Reshape [-1] -> strided
   GatherElements == NumPy's nonzero, for every shape of rank >= 1 and every integer data *)
Theorem nonzero_end_to_end sh data : sh <> [] -> length data = size sh ->
  exists g hm,
    ndindex_lowered sh = Done g /\ ndx_getitem_mask g (nz_mask sh data) = Done hm /\
    Tensor.data hm = concat (nz_rows sh data) /\
    ndx_nonzero sh data = nonzero_coords sh data (all_idx sh).
Proof.
  intros Hne Hl. exists (coord_grid sh). eexists. split; [now apply ndindex_lowered_spec|]. split; [|split].
  - apply compressed_grid_is_the_hit_matrix; [exact Hne|exact (eq_trans (map_length _ _) Hl)|reflexivity].
  - rewrite (hits_nz_mask sh data Hl). apply hit_matrix_data. apply nz_rows_lengths.
  - apply ndx_nonzero_is_numpy.
Qed.
