(* Ndx/MatrixTFacts.v — matrix_transpose: the last two axes are swapped, all leading axes keep their place; every rank >= 2 *)
From Coq Require Import List Arith ZArith Bool Lia.
From ND Require Import Base.Tensor Base.TensorFacts Ndx.PyVal Ndx.GetItem Ndx.Layout Ndx.TransposeFacts.
Import ListNotations.
Local Open Scope nat_scope.

Definition mt_perm (n : nat) : list nat := seq 0 (n - 2) ++ [n - 1; n - 2].

Lemma mt_perm_length n : 2 <= n -> length (mt_perm n) = n.
Proof. intros H. unfold mt_perm. rewrite app_length, seq_length. simpl. lia. Qed.

Lemma mt_perm_nth n i : 2 <= n -> i < n ->
  nth i (mt_perm n) 0 = if i <? n - 2 then i else if i =? n - 2 then n - 1 else n - 2.
Proof.
  intros H Hi. unfold mt_perm. destruct (Nat.ltb_spec i (n - 2)) as [Hl|Hl].
  - rewrite app_nth1 by (rewrite seq_length; exact Hl). rewrite seq_nth by exact Hl. reflexivity.
  - rewrite app_nth2 by (rewrite seq_length; exact Hl). rewrite seq_length.
    destruct (Nat.eqb_spec i (n - 2)) as [->|Hne]; [now rewrite Nat.sub_diag|].
    replace (i - (n - 2)) with 1 by lia. reflexivity.
Qed.

Lemma mt_perm_in n p : 2 <= n -> In p (mt_perm n) -> p < n.
Proof.
  intros H Hin. unfold mt_perm in Hin. apply in_app_or in Hin as [Hin|Hin].
  - apply in_seq in Hin. lia.
  - destruct Hin as [<-|[<-|[]]]; lia.
Qed.


Lemma nodup_app {A} (l1 l2 : list A) : NoDup l1 -> NoDup l2 -> (forall x, In x l1 -> ~ In x l2) -> NoDup (l1 ++ l2).
Proof.
  induction l1 as [|a r IH]; intros H1 H2 Hd; [exact H2|]. inversion H1; subst. simpl. constructor.
  - intros Hin. apply in_app_or in Hin as [Hin|Hin]; [contradiction|]. apply (Hd a); [now left|exact Hin].
  - apply IH; auto. intros x Hx. apply Hd. now right.
Qed.

Lemma mt_perm_nodup n : 2 <= n -> NoDup (mt_perm n).
Proof.
  intros H. unfold mt_perm. apply nodup_app.
  - apply seq_NoDup.
  - constructor; [intros [E|[]]; lia|]. constructor; [intros []|constructor].
  - intros x Hx Hin. apply in_seq in Hx. destruct Hin as [<-|[<-|[]]]; lia.
Qed.

Lemma nth_map_lt (f : nat -> nat) l i : i < length l -> nth i (map f l) 0 = f (nth i l 0).
Proof. intros H. rewrite (nth_indep _ 0 (f 0)) by (now rewrite map_length). apply map_nth. Qed.

Theorem matrix_transpose_spec {A} (t : tensor A) d r : ndx_matrix_transpose t d = Done r ->
  let n := rank t in
  2 <= n /\ length (shape r) = n /\
  (forall i, i < n - 2 -> nth i (shape r) 0 = nth i (shape t) 0) /\
  nth (n - 2) (shape r) 0 = nth (n - 1) (shape t) 0 /\ nth (n - 1) (shape r) 0 = nth (n - 2) (shape t) 0 /\
  forall idx, in_bounds (shape r) idx ->
    exists src, get r idx d = get t src d /\ length src = n /\
      (forall i, i < n - 2 -> nth i src 0 = nth i idx 0) /\
      nth (n - 1) src 0 = nth (n - 2) idx 0 /\ nth (n - 2) src 0 = nth (n - 1) idx 0.
Proof.
  intros H n. unfold ndx_matrix_transpose in H. fold n in H. destruct (Nat.ltb_spec n 2) as [Hn|Hn]; [discriminate|].
  injection H as <-. fold (mt_perm n).
  assert (Hsh : shape (t_transpose t (mt_perm n) d) = map (fun p => nth p (shape t) 0) (mt_perm n)) by reflexivity.
  assert (Hnth : forall i, i < n -> nth i (shape (t_transpose t (mt_perm n) d)) 0 = nth (nth i (mt_perm n) 0) (shape t) 0).
  { intros i Hi. rewrite Hsh. apply (nth_map_lt (fun p => nth p (shape t) 0)). rewrite mt_perm_length; lia. }
  split; [exact Hn|]. split; [rewrite Hsh, map_length; now apply mt_perm_length|].
  split; [|split; [|split]].
  - intros i Hi. rewrite Hnth by lia. rewrite mt_perm_nth by lia. destruct (Nat.ltb_spec i (n - 2)); [reflexivity|lia].
  - rewrite Hnth by lia. rewrite mt_perm_nth by lia. destruct (Nat.ltb_spec (n - 2) (n - 2)); [lia|]. now rewrite Nat.eqb_refl.
  - rewrite Hnth by lia. rewrite mt_perm_nth by lia. destruct (Nat.ltb_spec (n - 1) (n - 2)); [lia|].
    destruct (Nat.eqb_spec (n - 1) (n - 2)); [lia|reflexivity].
  - intros idx Hb. rewrite Hsh in Hb.
    destruct (transpose_spec t (mt_perm n) d idx (mt_perm_nodup n Hn) (mt_perm_length n Hn) (fun p Hp => mt_perm_in n p Hn Hp) Hb) as [_ (src & Hg & Hl & Hs)].
    exists src. split; [exact Hg|]. split; [exact Hl|]. fold n in Hs. split; [|split].
    + intros i Hi. specialize (Hs i ltac:(lia)). rewrite mt_perm_nth in Hs by lia. destruct (Nat.ltb_spec i (n - 2)); [exact Hs|lia].
    + specialize (Hs (n - 2) ltac:(lia)). rewrite mt_perm_nth in Hs by lia. destruct (Nat.ltb_spec (n - 2) (n - 2)); [lia|]. now rewrite Nat.eqb_refl in Hs.
    + specialize (Hs (n - 1) ltac:(lia)). rewrite mt_perm_nth in Hs by lia. destruct (Nat.ltb_spec (n - 1) (n - 2)); [lia|].
      destruct (Nat.eqb_spec (n - 1) (n - 2)); [lia|exact Hs].
Qed.

Example matrix_transpose_example :
  match ndx_matrix_transpose {| shape := [2;2;3]; data := [1;2;3;4;5;6;7;8;9;10;11;12]%Z |} 0%Z with
  | Done r => shape r = [2;3;2] /\ data r = [1;4;2;5;3;6;7;10;8;11;9;12]%Z | _ => False end.
Proof. vm_compute. split; reflexivity. Qed.
