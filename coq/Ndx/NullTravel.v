(* Ndx/NullTravel.v — C04, indexing and layout: ndonnx applies one and the same lowering to every field of a
   struct array (Array._transmute / UniformShapeOperations.getitem).  Because the whole basic-indexing lowering
   commutes with every element-wise map, applying it to the values and to the null field separately is the same
   as applying it to the tensor of (value, flag) pairs: the null flag travels with its element. *)
From Coq Require Import List Arith ZArith Bool Lia.
From ND Require Import Base.Tensor Base.TensorFacts Ndx.PyVal Ndx.Slice1D Ndx.Index Ndx.GetItem Ndx.Layout Ndx.LayoutFacts.
Import ListNotations.
Local Open Scope nat_scope.

Definition res_map {A B} (f : tensor A -> tensor B) (r : res (tensor A)) : res (tensor B) :=
  match r with Done t => Done (f t) | RuntimeError => RuntimeError | TraceError e => TraceError e end.

Lemma shape_tmap {A B} (f : A -> B) (t : tensor A) : shape (tmap f t) = shape t.
Proof. reflexivity. Qed.

Lemma apply_slices_natural {A B} (f : A -> B) sl : forall (t : tensor A) d,
  tmap f (apply_slices t sl d) = apply_slices (tmap f t) sl (f d).
Proof.
  unfold apply_slices. induction sl as [|[ax q] r IH]; intros t d; simpl; [reflexivity|].
  rewrite IH. f_equal. rewrite select_natural. reflexivity.
Qed.

Lemma apply_gathers_natural {A B} (f : A -> B) gs : forall (t : tensor A) d,
  res_map (tmap f) (apply_gathers t gs d) = apply_gathers (tmap f t) gs (f d).
Proof.
  induction gs as [|[ax z] r IH]; intros t d; simpl; [reflexivity|].
  destruct ((- Z.of_nat (nth ax (shape t) 0%nat) <=? z)%Z && (z <? Z.of_nat (nth ax (shape t) 0%nat))%Z); [|reflexivity].
  rewrite IH. now rewrite drop_natural.
Qed.

(* the lowering of a normalised index commutes with every element-wise map *)
Theorem getitem_natural {A B} (f : A -> B) (t : tensor A) index d :
  res_map (tmap f) (ndx_getitem t index d) = ndx_getitem (tmap f t) index (f d).
Proof.
  unfold ndx_getitem. rewrite <- apply_slices_natural, <- apply_gathers_natural.
  destruct (apply_gathers (apply_slices t _ d) _ d) as [t2| |e]; simpl; try reflexivity.
  destruct (new_axes index); [reflexivity|]. now rewrite unsqueeze_natural.
Qed.

Theorem getitem_user_natural {A B} (f : A -> B) (t : tensor A) index d :
  res_map (tmap f) (ndx_getitem_user t index d) = ndx_getitem_user (tmap f t) index (f d).
Proof.
  unfold ndx_getitem_user. rewrite shape_tmap.
  destruct (normalise_index _ index); [apply getitem_natural|reflexivity].
Qed.

(* nullable arrays as tensors of (value, flag) pairs; ndonnx indexes the two fields separately *)
Definition values_of {A} (t : tensor (A * bool)) : tensor A := tmap fst t.
Definition nulls_of {A} (t : tensor (A * bool)) : tensor bool := tmap snd t.

(* x[index] on a nullable array: the values field and the null field of the result are the fields of the
   paired tensor indexed once — every selected element keeps its own flag; both fields fail together *)
Theorem null_flag_travels_with_its_element {A} (t : tensor (A * bool)) index d m :
  ndx_getitem_user (values_of t) index d = res_map values_of (ndx_getitem_user t index (d, m)) /\
  ndx_getitem_user (nulls_of t) index m = res_map nulls_of (ndx_getitem_user t index (d, m)).
Proof.
  split.
  - symmetry. exact (getitem_user_natural fst t index (d, m)).
  - symmetry. exact (getitem_user_natural snd t index (d, m)).
Qed.

(* the same for flip (a getitem with reversed slices) *)
Theorem flip_natural {A B} (f : A -> B) (t : tensor A) axes d :
  res_map (tmap f) (ndx_flip t axes d) = ndx_flip (tmap f t) axes (f d).
Proof.
  unfold ndx_flip, rank. rewrite shape_tmap.
  destruct (Nat.eqb (length (shape t)) 0); [reflexivity|]. apply getitem_user_natural.
Qed.
