(* Ndx/FlipProof.v — flip, n-D: ndonnx lowers flip to x[..] with slice(None, None, -1) on the
   flipped axes; by the n-D getitem theorem the result has the shape of the input and its element
   at idx is the input's element at idx with every flipped coordinate i replaced by n-1-i. *)
From Coq Require Import List Arith ZArith Bool Lia.
From ND Require Import Base.Tensor Base.TensorFacts Ndx.PyVal Ndx.Slice1D Ndx.Slice1DFacts Ndx.Index Ndx.GetItem
  Ndx.GetItemProof Ndx.SetItemProof Ndx.Layout Ndx.LayoutFacts.
Import ListNotations.
Local Open Scope nat_scope.

Definition flip_item (b : bool) : item := if b then ISlice None None (Some (-1)%Z) else ISlice None None None.
Definition flip_index (flags : list bool) : list item := map flip_item flags.

Fixpoint flip_idx (flags : list bool) (sh idx : list nat) : list nat :=
  match flags, sh, idx with
  | b :: fs, n :: sh', i :: idx' => (if b then n - 1 - i else i) :: flip_idx fs sh' idx'
  | _, _, _ => []
  end.

Lemma py_full n : (0 <= n)%Z -> py_slice n None None None = sel 0 1 n.
Proof.
  intros H. unfold py_slice, py_bounds. simpl. unfold count. f_equal.
  replace ((0 - n) / 1)%Z with (- n)%Z by (rewrite Z.div_1_r; lia). lia.
Qed.

Lemma py_rev n : (0 <= n < 4611686018427387904)%Z ->
  py_slice n None None (Some (-1)%Z) = map (fun i => (n - 1 - Z.of_nat i)%Z) (seq 0 (Z.to_nat n)).
Proof.
  intros H. rewrite <- flip_slice by exact H. symmetry. apply slice_1d; auto.
  unfold Slice1D.in_bounds, IMIN. simpl. repeat split; try lia; discriminate.
Qed.

Lemma flip_valid flags : forall sh, length flags = length sh -> Forall (fun n => (Z.of_nat n < 4611686018427387904)%Z) sh ->
  valid (flip_index flags) sh.
Proof.
  induction flags as [|b fs IH]; intros [|n sh] Hl Hf; simpl in *; try discriminate; auto.
  inversion Hf as [|? ? Hn Hr]; subst.
  assert (Hv : valid (flip_index fs) sh) by (apply IH; auto).
  destruct b; simpl; (split; [split; [|exact Hn] | exact Hv]);
    unfold Slice1D.in_bounds, IMIN; simpl; repeat split; try lia; try discriminate.
Qed.

Lemma flip_np flags : forall sh, length flags = length sh -> Forall (fun n => (Z.of_nat n < 4611686018427387904)%Z) sh ->
  np_shape (flip_index flags) sh = Some sh /\
  forall idx, inb sh idx -> np_source (flip_index flags) sh idx = flip_idx flags sh idx.
Proof.
  induction flags as [|b fs IH]; intros [|n sh] Hl Hf; simpl in *; try discriminate.
  - split; auto.
  - inversion Hf as [|? ? Hn Hr]; subst. destruct (IH sh ltac:(lia) Hr) as [I1 I2].
    destruct b; simpl; rewrite I1.
    + rewrite py_rev by lia. rewrite map_length, seq_length, Nat2Z.id. split; auto.
      intros idx Hi. destruct (inb_cons_inv _ _ _ Hi) as [i [j [-> [Hin Hj]]]]. simpl. rewrite I2 by exact Hj. f_equal.
      set (f := fun i0 : nat => (Z.of_nat n - 1 - Z.of_nat i0)%Z).
      replace (nth i (map f (seq 0 n)) 0%Z) with (f (nth i (seq 0 n) 0)).
      * rewrite seq_nth by exact Hin. unfold f. lia.
      * rewrite <- (map_nth f). apply nth_indep. now rewrite map_length, seq_length.
    + rewrite py_full by lia. rewrite sel_full_length. split; auto.
      intros idx Hi. destruct (inb_cons_inv _ _ _ Hi) as [i [j [-> [Hin Hj]]]]. simpl. rewrite I2 by exact Hj. f_equal.
      now apply sel_full_nth.
Qed.

(* the lowering of flip on any tensor of any rank *)
Theorem flip_nd {A} (t : tensor A) flags d : wf t -> length flags = length (shape t) ->
  Forall (fun n => (Z.of_nat n < 4611686018427387904)%Z) (shape t) ->
  ndx_getitem_user t (flip_index flags) d = Done (tab (shape t) (fun idx => get t (flip_idx flags (shape t) idx) d)).
Proof.
  intros Hwf Hl Hf. destruct (flip_np flags (shape t) Hl Hf) as [N1 N2].
  apply getitem_nd; auto.
  - now apply flip_valid.
  - unfold np_getitem. rewrite N1. f_equal. apply tab_ext. intros idx Hi. now rewrite N2.
Qed.

(* ... and ndx_flip is that lowering with the flags computed from the (normalised) axes *)
Theorem ndx_flip_nd {A} (t : tensor A) axes d : wf t -> rank t <> 0 ->
  Forall (fun n => (Z.of_nat n < 4611686018427387904)%Z) (shape t) ->
  let r := rank t in
  let ax := match axes with None => seq 0 r | Some l => map (fun a => Z.to_nat (if (a <? 0)%Z then Z.of_nat r + a else a)%Z) l end in
  let flags := map (fun i => existsb (Nat.eqb i) ax) (seq 0 r) in
  ndx_flip t axes d = Done (tab (shape t) (fun idx => get t (flip_idx flags (shape t) idx) d)).
Proof.
  intros Hwf Hr Hf r ax flags. unfold ndx_flip. fold r. destruct (Nat.eqb r 0) eqn:E; [apply Nat.eqb_eq in E; contradiction|].
  fold ax. rewrite <- (flip_nd t flags d Hwf); auto.
  - f_equal. unfold flip_index, flags. rewrite map_map. apply map_ext. intros i. unfold flip_item. now destruct (existsb _ ax).
  - unfold flags. now rewrite map_length, seq_length.
Qed.

(* flipping twice on the same axes is the identity *)
Lemma flip_idx_involutive flags : forall sh idx, inb sh idx -> length flags = length sh ->
  flip_idx flags sh (flip_idx flags sh idx) = idx /\ inb sh (flip_idx flags sh idx).
Proof.
  induction flags as [|b fs IH]; intros [|n sh] [|i idx] Hi Hl; simpl in *; try discriminate; try tauto.
  destruct Hi as [Hin Hi]. destruct (IH sh idx Hi ltac:(lia)) as [I1 I2]. rewrite I1. split.
  - f_equal. destruct b; lia.
  - split; auto. destruct b; lia.
Qed.

Example flip_ex : ndx_flip (tab [2; 3] (fun idx => Z.of_nat (ravel [2; 3] idx))) (Some [(-1)%Z]) 0%Z
  = Done {| shape := [2; 3]; data := [2; 1; 0; 5; 4; 3]%Z |}.
Proof. vm_compute. reflexivity. Qed.
