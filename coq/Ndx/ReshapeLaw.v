(* Ndx/ReshapeLaw.v — reshape (ONNX Reshape, allowzero = 0): whenever it succeeds the row-major data are untouched and the
   new shape has the same number of elements — whatever mixture of explicit extents, copied extents (0) and one inferred
   extent (-1) the target holds; so every element keeps its flat position *)
From Coq Require Import List Arith ZArith Bool Lia.
From ND Require Import Base.Tensor Base.TensorFacts Ndx.PyVal Ndx.GetItem Ndx.Layout.
Import ListNotations.
Local Open Scope nat_scope.

Definition known_of (c : list Z) : nat := fold_right (fun z acc => if (z =? -1)%Z then acc else Z.to_nat z * acc) 1 c.
Definition minus_of (c : list Z) : nat := length (filter (fun z => (z =? -1)%Z) c).

Lemma size_inferred c q : size (map (fun z => if (z =? -1)%Z then q else Z.to_nat z) c) = known_of c * q ^ minus_of c.
Proof.
  induction c as [|z r IH]; [reflexivity|]. unfold known_of, minus_of in *. cbn [map filter fold_right size] in *.
  fold (size (map (fun z0 : Z => if (z0 =? -1)%Z then q else Z.to_nat z0) r)). rewrite IH.
  destruct (z =? -1)%Z; cbn [length Nat.pow]; lia.
Qed.

Lemma no_minus_map c q : minus_of c = 0 -> map (fun z => if (z =? -1)%Z then q else Z.to_nat z) c = map Z.to_nat c.
Proof.
  unfold minus_of. induction c as [|z r IH]; intros H; [reflexivity|]. cbn [filter] in H. cbn [map].
  destruct (z =? -1)%Z; [discriminate|]. now rewrite IH.
Qed.

Theorem reshape_shape_size sh target sh' : onnx_reshape_shape sh target = Some sh' ->
  size sh' = size sh /\ length sh' = length target.
Proof.
  unfold onnx_reshape_shape.
  set (copied := map (fun p => if (snd p =? 0)%Z then Z.of_nat (nth (fst p) sh 0) else snd p) (enumerate_from 0 target)).
  assert (Hlen : length copied = length target).
  { unfold copied. rewrite map_length. generalize 0. induction target as [|z r IH]; intros k; simpl; auto. }
  fold (known_of copied). fold (minus_of copied).
  destruct (existsb _ _); [discriminate|].
  destruct (2 <=? minus_of copied) eqn:H2; [discriminate|]. apply Nat.leb_gt in H2.
  destruct (Nat.eqb_spec (minus_of copied) 1) as [H1|H1].
  - destruct (Nat.eqb_spec (known_of copied) 0) as [Hk|Hk]; [discriminate|].
    destruct (Nat.eqb_spec (size sh mod known_of copied) 0) as [Hm|Hm]; [|discriminate].
    intros H. injection H as <-. rewrite size_inferred, H1, map_length. split; [|exact Hlen].
    rewrite Nat.pow_1_r. pose proof (Nat.div_mod (size sh) (known_of copied) Hk). lia.
  - destruct (Nat.eqb_spec (known_of copied) (size sh)) as [Hk|Hk]; [|discriminate].
    intros H. injection H as <-. assert (H0 : minus_of copied = 0) by lia.
    rewrite <- (no_minus_map copied 0 H0), size_inferred, H0, map_length. split; [|exact Hlen]. cbn [Nat.pow]. lia.
Qed.

(* the law: data untouched, element count preserved, so well-formedness is preserved and the element at a new index is the
   input's datum at that index's flat position in the new shape *)
Theorem ndx_reshape_spec {A} (t : tensor A) target r : ndx_reshape t target = Done r ->
  data r = data t /\ size (shape r) = size (shape t) /\ length (shape r) = length target /\
  (wf t -> wf r) /\
  forall idx d, get r idx d = nth (ravel (shape r) idx) (data t) d.
Proof.
  unfold ndx_reshape. destruct (onnx_reshape_shape (shape t) target) as [sh|] eqn:E; [|discriminate].
  intros H. injection H as <-. destruct (reshape_shape_size _ _ _ E) as [Hs Hl]. cbn [shape data].
  repeat split; auto. unfold wf. cbn [shape data]. now rewrite Hs.
Qed.

Lemma copied_nth (sh : list nat) : forall (target : list Z) b k z, nth_error target k = Some z ->
  nth_error (map (fun p : nat * Z => if (snd p =? 0)%Z then Z.of_nat (nth (fst p) sh 0) else snd p) (enumerate_from b target)) k =
  Some (if (z =? 0)%Z then Z.of_nat (nth (b + k) sh 0) else z).
Proof.
  induction target as [|y r IH]; intros b [|k] z H; try discriminate; cbn [enumerate_from map nth_error fst snd] in *.
  - injection H as ->. now rewrite Nat.add_0_r.
  - rewrite (IH (S b) k z H). now replace (S b + k) with (b + S k) by lia.
Qed.

(* explicit extents are taken as written; 0 copies the input's extent at that position *)
Theorem reshape_explicit_extents sh target sh' : onnx_reshape_shape sh target = Some sh' ->
  forall k z, nth_error target k = Some z -> (z <> -1)%Z ->
    nth k sh' 0 = if (z =? 0)%Z then nth k sh 0 else Z.to_nat z.
Proof.
  unfold onnx_reshape_shape.
  set (copied := map (fun p => if (snd p =? 0)%Z then Z.of_nat (nth (fst p) sh 0) else snd p) (enumerate_from 0 target)).
  assert (Hnth : forall k z, nth_error target k = Some z -> nth_error copied k = Some (if (z =? 0)%Z then Z.of_nat (nth k sh 0) else z)).
  { unfold copied. intros k z Hkz. exact (copied_nth sh target 0 k z Hkz). }
  intros H k z Hk Hz.
  assert (G : forall q, nth k (map (fun z => if (z =? -1)%Z then q else Z.to_nat z) copied) 0 = if (z =? 0)%Z then nth k sh 0 else Z.to_nat z).
  { intros q. specialize (Hnth k z Hk). apply nth_error_split in Hnth as (l1 & l2 & -> & <-).
    rewrite map_app, app_nth2 by (rewrite map_length; lia). rewrite map_length, Nat.sub_diag. cbn [map nth].
    destruct (Z.eqb_spec z 0) as [->|Hz0].
    - destruct (Z.eqb_spec (Z.of_nat (nth (length l1) sh 0)) (-1)); [lia|]. now rewrite Nat2Z.id.
    - destruct (Z.eqb_spec z (-1)); [contradiction|reflexivity]. }
  destruct (existsb _ _); [discriminate|]. fold (minus_of copied) in H. fold (known_of copied) in H.
  destruct (2 <=? minus_of copied) eqn:H2; [discriminate|]. apply Nat.leb_gt in H2.
  destruct (Nat.eqb (minus_of copied) 1) eqn:H1.
  - destruct (Nat.eqb (known_of copied) 0); [discriminate|]. destruct (Nat.eqb _ 0); [|discriminate]. injection H as <-. apply G.
  - destruct (Nat.eqb (known_of copied) (size sh)); [|discriminate]. injection H as <-.
    apply Nat.eqb_neq in H1. rewrite <- (no_minus_map copied 0) by lia. apply G.
Qed.

(* non-vacuity: (2,3,4) -> (0,-1,2): the 0 copies 2, the -1 is inferred as 6 *)
Example reshape_example : onnx_reshape_shape [2;3;4] [0; -1; 2]%Z = Some [2;6;2] /\ onnx_reshape_shape [2;3;4] [5; -1]%Z = None.
Proof. split; reflexivity. Qed.
