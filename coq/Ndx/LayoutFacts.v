From Coq Require Import List Arith ZArith Bool Lia.
From ND Require Import Base.Tensor Base.TensorFacts Ndx.PyVal Ndx.Slice1D Ndx.Slice1DFacts Ndx.Index Ndx.GetItem Ndx.Layout.
Import ListNotations.
Local Open Scope nat_scope.

(* ---- roll: the index vector ndonnx gathers with is NumPy's (i - shift) mod len ------------------ *)
Lemma roll_index len s i : (0 < len)%Z ->
  ((i + (- s + len)) mod len = (i - s) mod len)%Z.
Proof.
  intros H. replace (i + (- s + len))%Z with ((i - s) + 1 * len)%Z by lia. now rewrite Z.mod_add by lia.
Qed.

Lemma roll_indices_spec len s : (0 < len)%Z ->
  roll_indices len s = map (fun i => ((Z.of_nat i - s) mod len)%Z) (seq 0 (Z.to_nat len)).
Proof. intros H. unfold roll_indices. apply map_ext. intros i. now apply roll_index. Qed.

Lemma roll_indices_in_range len s z : (0 < len)%Z -> In z (roll_indices len s) -> (0 <= z < len)%Z.
Proof.
  intros H Hin. unfold roll_indices in Hin. apply in_map_iff in Hin as [i [<- _]]. apply Z.mod_pos_bound. lia.
Qed.

Lemma roll_indices_length len s : length (roll_indices len s) = Z.to_nat len.
Proof. unfold roll_indices. now rewrite map_length, seq_length. Qed.

(* shifting by any multiple of the length is the identity: shifts of any sign and magnitude *)
Lemma roll_indices_periodic len s k : (0 < len)%Z -> roll_indices len (s + k * len) = roll_indices len s.
Proof.
  intros H. rewrite !roll_indices_spec by lia. apply map_ext. intros i.
  replace (Z.of_nat i - (s + k * len))%Z with ((Z.of_nat i - s) + (- k) * len)%Z by lia. now rewrite Z.mod_add by lia.
Qed.

(* ---- flip: the slice [::-1] reverses an axis of any extent ---------------------------------------- *)
Lemma flip_slice n : (0 <= n < 4611686018427387904)%Z ->
  onnx_slice n (norm None None (Some (-1)%Z)) = map (fun i => (n - 1 - Z.of_nat i)%Z) (seq 0 (Z.to_nat n)).
Proof.
  intros Hn. rewrite slice_1d; auto.
  - unfold py_slice, py_bounds. simpl. unfold sel, count.
    replace (Z.max 0 (- ((n - 1 - -1) / -1)))%Z with n.
    + apply map_ext. intros i. lia.
    + replace (n - 1 - -1)%Z with n by lia.
      assert (E : (n / -1 = - n)%Z) by (symmetry; apply Z.div_unique_exact; lia). rewrite E. lia.
  - unfold in_bounds, IMIN. simpl. repeat split; try lia; discriminate.
Qed.

(* ---- naturality: layout operators commute with any element-wise map --------------------------------
   (every operator of Ndx/Layout.v and Ndx/GetItem.v is `tab sh (fun idx => get t (reindex idx))`) *)
Lemma tmap_tab {A B} (f : A -> B) sh (g : list nat -> A) : tmap f (tab sh g) = tab sh (fun idx => f (g idx)).
Proof. unfold tmap, tab; simpl. now rewrite map_map. Qed.

Lemma get_tmap {A B} (f : A -> B) (t : tensor A) idx d : get (tmap f t) idx (f d) = f (get t idx d).
Proof. unfold get, tmap; simpl. apply map_nth. Qed.

Theorem select_natural {A B} (f : A -> B) (t : tensor A) axis sel d :
  tmap f (t_select t axis sel d) = t_select (tmap f t) axis sel (f d).
Proof. unfold t_select. rewrite tmap_tab. simpl. apply tab_ext. intros idx _. now rewrite get_tmap. Qed.
Theorem drop_natural {A B} (f : A -> B) (t : tensor A) axis c d :
  tmap f (t_drop t axis c d) = t_drop (tmap f t) axis c (f d).
Proof. unfold t_drop. rewrite tmap_tab. simpl. apply tab_ext. intros idx _. now rewrite get_tmap. Qed.
Theorem unsqueeze_natural {A B} (f : A -> B) (t : tensor A) axes d :
  tmap f (t_unsqueeze t axes d) = t_unsqueeze (tmap f t) axes (f d).
Proof. unfold t_unsqueeze. rewrite tmap_tab. simpl. apply tab_ext. intros idx _. now rewrite get_tmap. Qed.
Theorem transpose_natural {A B} (f : A -> B) (t : tensor A) perm d :
  tmap f (t_transpose t perm d) = t_transpose (tmap f t) perm (f d).
Proof. unfold t_transpose, rank. rewrite tmap_tab. simpl. apply tab_ext. intros idx _. now rewrite get_tmap. Qed.
Theorem expand_natural {A B} (f : A -> B) (t : tensor A) sh d :
  tmap f (t_expand t sh d) = t_expand (tmap f t) sh (f d).
Proof. unfold t_expand, rank. rewrite tmap_tab. simpl. apply tab_ext. intros idx _. now rewrite get_tmap. Qed.
Theorem squeeze_natural {A B} (f : A -> B) (t : tensor A) axes d :
  tmap f (t_squeeze t axes d) = t_squeeze (tmap f t) axes (f d).
Proof. unfold t_squeeze, rank. rewrite tmap_tab. simpl. apply tab_ext. intros idx _. now rewrite get_tmap. Qed.

