(* Ndx/Proto.v — scalar conversion, truthiness, index, len, iteration: the decision structure of
   Array.__bool__/__int__/__float__/__index__/__len__/__iter__ and NumPy's behaviour. *)
From Coq Require Import List Bool ZArith.
Import ListNotations.
Open Scope Z_scope.

(* what the methods can observe of an array *)
Inductive dim0 := NoDim | DimInt (n : Z) | DimDynamic.      (* shape[0]: absent / int / None *)
Record pstate := {
  has_value : bool;         (* to_numpy() is not None *)
  size : Z;                 (* eager_value.size (0 when there is no value) *)
  ndim : Z;                 (* static rank *)
  item_is_int : bool;       (* eager_value.item() is a Python int (integer dtypes) *)
  item_is_bool : bool;      (* ... is a Python bool *)
  shape0 : dim0 }.

Inductive conv := ToFloat | ToInt | ToBool.
Inductive poutcome :=
  | PConv (c : conv)        (* delegate to NumPy's float()/int()/bool() on the value *)
  | PLen (n : Z)            (* an integer length *)
  | PIter (n : Z)           (* yields x[i, ...] for i in range(n) *)
  | PRaiseVE | PRaiseTE | PRaiseOther.

(* ---- ndonnx, as in _array.py ---------------------------------------------------------------- *)
Definition ndx_float (s : pstate) := if has_value s && (size s =? 1) then PConv ToFloat else PRaiseVE.
Definition ndx_index (s : pstate) :=
  if (ndim s =? 0) && has_value s && ((item_is_int s || item_is_bool s) && negb (item_is_bool s)) then PConv ToInt else PRaiseVE.
Definition ndx_int (s : pstate) :=
  if negb (has_value s) then PRaiseVE else if negb (size s =? 1) then PRaiseVE else PConv ToInt.
Definition ndx_bool (s : pstate) :=
  if negb (has_value s) then PRaiseVE else if negb (size s =? 1) then PRaiseVE else PConv ToBool.
Definition ndx_len (s : pstate) :=
  match shape0 s with DimInt n => PLen n | NoDim => PRaiseOther (* IndexError *) | DimDynamic => PRaiseVE end.
Definition ndx_iter (s : pstate) :=
  match shape0 s with DimInt n => PIter n | NoDim => PRaiseVE | DimDynamic => PRaiseVE end.

(* ---- NumPy on a data-holding array ------------------------------------------------------------ *)
(* numpy's own scalar conversions: only 0-d arrays convert with int()/float() (NumPy >= 2.x raises
   TypeError otherwise); bool() accepts any single-element array *)
Inductive npout := NVal | NLen (n : Z) | NIter (n : Z) | NRaise.
Definition np_conv (c : conv) (s : pstate) : npout :=
  match c with
  | ToBool => if size s =? 1 then NVal else NRaise
  | ToInt | ToFloat => if ndim s =? 0 then NVal else NRaise
  end.
Definition np_float (s : pstate) := np_conv ToFloat s.
Definition np_int (s : pstate) := np_conv ToInt s.
Definition np_bool (s : pstate) := np_conv ToBool s.
Definition np_index (s : pstate) := if (ndim s =? 0) && item_is_int s && negb (item_is_bool s) then NVal else NRaise.
Definition np_len (s : pstate) := match shape0 s with DimInt n => NLen n | _ => NRaise end.
Definition np_iter (s : pstate) := match shape0 s with DimInt n => NIter n | _ => NRaise end.

(* what the user observes of an ndonnx outcome *)
Definition observe (o : poutcome) (s : pstate) : npout :=
  match o with
  | PConv c => np_conv c s            (* the conversion itself is NumPy's, applied to the value *)
  | PLen n => NLen n | PIter n => NIter n
  | PRaiseVE | PRaiseTE | PRaiseOther => NRaise
  end.

(* well-formed observation of a data-holding array *)
Definition eager_wf (s : pstate) : Prop :=
  has_value s = true /\ 0 <= ndim s /\ 0 <= size s /\
  (ndim s = 0 -> size s = 1 /\ shape0 s = NoDim) /\
  (0 < ndim s -> exists n, shape0 s = DimInt n /\ 0 <= n /\ (n = 0 -> size s = 0)) /\
  (item_is_bool s = true -> item_is_int s = false).

Definition lazy_wf (s : pstate) : Prop := has_value s = false /\ size s = 0.
