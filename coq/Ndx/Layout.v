(* Ndx/Layout.v — shape-manipulation functions as ndonnx lowers them (ONNX Transpose, Unsqueeze,
   Squeeze, Slice, Gather, Reshape, Expand, Concat, Trilu on executable tensors). *)
From Coq Require Import List Arith ZArith Bool Lia.
From ND Require Import Base.Tensor Ndx.PyVal Ndx.Slice1D Ndx.Index Ndx.GetItem Ndx.Reduce.
Import ListNotations.
Local Open Scope nat_scope.

Definition rank {A} (t : tensor A) : nat := length (shape t).
Definition zaxis (r : nat) (a : Z) : nat := Z.to_nat (if (a <? 0)%Z then a + Z.of_nat r else a)%Z.
Definition axis_ok (r : nat) (a : Z) : bool := ((- Z.of_nat r <=? a) && (a <? Z.of_nat r))%Z.

(* ---- Transpose ------------------------------------------------------------------------------ *)
(* out.shape[i] = shape[perm[i]];  out[idx] = x[src] with src[perm[i]] = idx[i] *)
Definition index_of (k : nat) (l : list nat) : nat :=
  (fix go (l : list nat) (i : nat) := match l with [] => i | x :: r => if Nat.eqb x k then i else go r (S i) end) l 0.
Definition t_transpose {A} (t : tensor A) (perm : list nat) (d : A) : tensor A :=
  tab (map (fun p => nth p (shape t) 0) perm)
      (fun idx => get t (map (fun k => nth (index_of k perm) idx 0) (seq 0 (rank t))) d).

Definition is_perm (r : nat) (perm : list nat) : bool :=
  Nat.eqb (length perm) r && forallb (fun k => existsb (Nat.eqb k) perm) (seq 0 r).

Definition ndx_permute_dims {A} (t : tensor A) (axes : list nat) (d : A) : res (tensor A) :=
  if is_perm (rank t) axes then Done (t_transpose t axes d) else TraceError ValueError.

Definition ndx_matrix_transpose {A} (t : tensor A) (d : A) : res (tensor A) :=
  let n := rank t in
  if n <? 2 then TraceError ValueError
  else Done (t_transpose t (seq 0 (n - 2) ++ [n - 1; n - 2]) d).

(* ---- expand_dims / squeeze -------------------------------------------------------------------- *)
Definition ndx_expand_dims {A} (t : tensor A) (axis : Z) (d : A) : res (tensor A) :=
  let r := rank t + 1 in
  if axis_ok r axis then Done (t_unsqueeze t [zaxis r axis] d) else TraceError ValueError.

Definition t_squeeze {A} (t : tensor A) (axes : list nat) (d : A) : tensor A :=
  let keep := filter (fun k => negb (existsb (Nat.eqb k) axes)) (seq 0 (rank t)) in
  tab (map (fun k => nth k (shape t) 0) keep)
      (fun idx => get t (map (fun k => if existsb (Nat.eqb k) axes then 0 else nth (index_of k keep) idx 0) (seq 0 (rank t))) d).

Definition ndx_squeeze {A} (t : tensor A) (axes : list Z) (d : A) : res (tensor A) :=
  match axes with
  | [] => Done t
  | _ =>
      if forallb (axis_ok (rank t)) axes then
        let ax := map (zaxis (rank t)) axes in
        if forallb (fun k => Nat.eqb (nth k (shape t) 0) 1) ax then Done (t_squeeze t ax d) else TraceError ValueError
      else TraceError ValueError
  end.

(* ---- flip: x[index] with slice(None, None, -1) on the flipped axes ---------------------------- *)
Definition ndx_flip {A} (t : tensor A) (axes : option (list Z)) (d : A) : res (tensor A) :=
  let r := rank t in
  if Nat.eqb r 0 then Done t else
  let ax := match axes with None => seq 0 r | Some l => map (fun a => Z.to_nat (if (a <? 0)%Z then Z.of_nat r + a else a)%Z) l end in
  ndx_getitem_user t (map (fun i => if existsb (Nat.eqb i) ax then ISlice None None (Some (-1)%Z) else ISlice None None None) (seq 0 r)) d.

(* ---- reshape (ONNX Reshape, allowzero = 0: a 0 in the target copies the input extent) ----------- *)
Definition onnx_reshape_shape (sh : list nat) (target : list Z) : option (list nat) :=
  let copied := map (fun p => if (snd p =? 0)%Z then Z.of_nat (nth (fst p) sh 0) else snd p) (enumerate_from 0 target) in
  let known := fold_right (fun z acc => if (z =? -1)%Z then acc else Z.to_nat z * acc) 1 copied in
  let n := size sh in
  let minus := length (filter (fun z => (z =? -1)%Z) copied) in
  if existsb (fun p => (snd p =? 0)%Z && (length sh <=? fst p)) (enumerate_from 0 target) then None   (* "invalid position of 0" *)
  else if 2 <=? minus then None
  else if Nat.eqb minus 1 then
    (if Nat.eqb known 0 then None
     else if Nat.eqb (n mod known) 0 then Some (map (fun z => if (z =? -1)%Z then n / known else Z.to_nat z) copied) else None)
  else if Nat.eqb known n then Some (map Z.to_nat copied) else None.

Definition ndx_reshape {A} (t : tensor A) (target : list Z) : res (tensor A) :=
  match onnx_reshape_shape (shape t) target with
  | Some sh => Done {| shape := sh; data := data t |}
  | None => RuntimeError
  end.

(* ---- take / roll (Gather with an index vector) -------------------------------------------------- *)
Definition ndx_take {A} (t : tensor A) (idx : list Z) (axis : Z) (d : A) : res (tensor A) :=
  if axis_ok (rank t) axis then
    let ax := zaxis (rank t) axis in
    let n := Z.of_nat (nth ax (shape t) 0) in
    if forallb (fun z => (- n <=? z) && (z <? n))%Z idx
    then Done (t_select t ax (map (fun z => Z.to_nat (if (z <? 0)%Z then z + n else z)%Z) idx) d)
    else RuntimeError
  else TraceError ValueError.

(* one (shift, axis) step of roll: indices (range(len) + (len - shift)) mod len, ONNX Mod fmod=0 *)
Definition roll_indices (len shift : Z) : list Z :=
  map (fun i => ((Z.of_nat i + (- shift + len)) mod len)%Z) (seq 0 (Z.to_nat len)).

Fixpoint roll_steps {A} (t : tensor A) (steps : list (Z * Z)) (d : A) : res (tensor A) :=
  match steps with
  | [] => Done t
  | (sh, ax) :: r =>
      if axis_ok (rank t) ax then
        let len := Z.of_nat (nth (zaxis (rank t) ax) (shape t) 0) in
        if (len =? 0)%Z then RuntimeError       (* Mod by zero inside onnxruntime *)
        else match ndx_take t (roll_indices len sh) ax d with
             | Done t' => roll_steps t' r d
             | e => e
             end
      else TraceError ValueError
  end.

Definition ndx_roll {A} (t : tensor A) (shifts : list Z) (axes : option (list Z)) (d : A) : res (tensor A) :=
  match axes with
  | None =>
      match shifts with
      | [s] =>
          match ndx_reshape t [(-1)%Z] with
          | Done flat => match roll_steps flat [(s, 0%Z)] d with
                         | Done r => ndx_reshape r (map Z.of_nat (shape t))
                         | e => e end
          | e => e
          end
      | _ => TraceError ValueError
      end
  | Some axs =>
      if Nat.eqb (length shifts) (length axs) then
        match roll_steps t (combine shifts axs) d with
        | Done r => ndx_reshape r (map Z.of_nat (shape t))
        | e => e
        end
      else TraceError ValueError
  end.

(* ---- broadcast_to (ONNX Expand: bidirectional broadcast) ----------------------------------------- *)
Fixpoint bshape (a b : list nat) : option (list nat) :=   (* on reversed shapes *)
  match a, b with
  | [], l | l, [] => Some l
  | x :: a', y :: b' =>
      match bshape a' b' with
      | Some r => if Nat.eqb x y then Some (x :: r) else if Nat.eqb x 1 then Some (y :: r) else if Nat.eqb y 1 then Some (x :: r) else None
      | None => None
      end
  end.
Definition broadcast_shape (a b : list nat) : option (list nat) :=
  match bshape (rev a) (rev b) with Some r => Some (rev r) | None => None end.

Definition t_expand {A} (t : tensor A) (sh : list nat) (d : A) : tensor A :=
  let r := length sh in let k := r - rank t in
  tab sh (fun idx => get t (map (fun p => if Nat.eqb (snd p) 1 then 0 else nth (k + fst p) idx 0) (enumerate_from 0 (shape t))) d).

Definition ndx_broadcast_to {A} (t : tensor A) (target : list nat) (d : A) : res (tensor A) :=
  match broadcast_shape (shape t) target with
  | Some sh => Done (t_expand t sh d)
  | None => RuntimeError
  end.

(* ---- concat / stack ---------------------------------------------------------------------------------- *)
Definition t_concat2 {A} (a b : tensor A) (ax : nat) (d : A) : tensor A :=
  let na := nth ax (shape a) 0 in
  tab (replace_nth ax (na + nth ax (shape b) 0) (shape a))
      (fun idx => let i := nth ax idx 0 in
                  if i <? na then get a idx d else get b (replace_nth ax (i - na) idx) d).

Definition same_except (ax : nat) (s1 s2 : list nat) : bool :=
  Nat.eqb (length s1) (length s2) &&
  forallb (fun k => Nat.eqb k ax || Nat.eqb (nth k s1 0) (nth k s2 0)) (seq 0 (length s1)).

Fixpoint concat_all {A} (ts : list (tensor A)) (ax : nat) (d : A) : res (tensor A) :=
  match ts with
  | [] => TraceError ValueError
  | [t] => Done t
  | t :: r => match concat_all r ax d with
              | Done u => if same_except ax (shape t) (shape u) then Done (t_concat2 t u ax d) else TraceError ValueError
              | e => e end
  end.

Definition ndx_concat {A} (ts : list (tensor A)) (axis : option Z) (d : A) : res (tensor A) :=
  match axis with
  | None => concat_all (map (fun t => {| shape := [size (shape t)]; data := data t |}) ts) 0 d
  | Some a =>
      match ts with
      | [] => TraceError ValueError
      | t :: _ => if axis_ok (rank t) a then concat_all ts (zaxis (rank t) a) d else TraceError ValueError
      end
  end.

Definition ndx_stack {A} (ts : list (tensor A)) (axis : Z) (d : A) : res (tensor A) :=
  match ts with
  | [] => TraceError ValueError
  | t :: _ =>
      let r := rank t + 1 in
      if axis_ok r axis then concat_all (map (fun t => t_unsqueeze t [zaxis r axis] d) ts) (zaxis r axis) d
      else TraceError ValueError
  end.

(* ---- tril / triu (ONNX Trilu on the last two axes) --------------------------------------------------- *)
Definition ndx_trilu {A} (t : tensor A) (k : Z) (upper : bool) (zero d : A) : res (tensor A) :=
  let r := rank t in
  if r <? 2 then RuntimeError else
  Done (tab (shape t) (fun idx =>
        let i := Z.of_nat (nth (r - 2) idx 0) in let j := Z.of_nat (nth (r - 1) idx 0) in
        let keep := if upper then (i + k <=? j)%Z else (j <=? i + k)%Z in
        if keep then get t idx d else zero)).
