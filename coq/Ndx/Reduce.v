(* Ndx/Reduce.v — reductions: ONNX Reduce* semantics on executable tensors, the ndonnx
   prologue (axis -> axes / noop_with_empty_axes, negative axes normalised), the NumPy spec. *)
From Coq Require Import List Arith ZArith Lia Bool.
From ND Require Import Base.Tensor.
Import ListNotations.

(* the `axis` argument as Python passes it *)
Inductive axis_spec := AxNone | AxInt (a : Z) | AxTuple (l : list Z).

(* ---- ONNX Reduce{Sum,Prod,Min,Max} (opset 18+: axes is an input) -------------------------- *)
Definition norm_axis (rank : nat) (a : Z) : nat :=
  Z.to_nat (if (a <? 0)%Z then (a + Z.of_nat rank)%Z else a).

Definition onnx_axes (rank : nat) (axes : list Z) (noop_with_empty_axes : bool) : list nat :=
  match axes with
  | [] => if noop_with_empty_axes then [] else seq 0 rank
  | _ => map (norm_axis rank) axes
  end.

Definition memb (k : nat) (l : list nat) : bool := existsb (Nat.eqb k) l.

(* output shape *)
Fixpoint reduce_shape_from (k : nat) (sh : list nat) (axes : list nat) (keep : bool) : list nat :=
  match sh with
  | [] => []
  | n :: r =>
      if memb k axes then (if keep then 1 :: reduce_shape_from (S k) r axes keep else reduce_shape_from (S k) r axes keep)
      else n :: reduce_shape_from (S k) r axes keep
  end.
Definition reduce_shape sh axes keep := reduce_shape_from 0 sh axes keep.

(* shape of the reduced block *)
Fixpoint sub_shape_from (k : nat) (sh : list nat) (axes : list nat) : list nat :=
  match sh with
  | [] => []
  | n :: r => if memb k axes then n :: sub_shape_from (S k) r axes else sub_shape_from (S k) r axes
  end.

(* input index from an output index and an index into the reduced block *)
Fixpoint merge_from (k : nat) (sh : list nat) (axes : list nat) (keep : bool) (oidx sidx : list nat) : list nat :=
  match sh with
  | [] => []
  | _ :: r =>
      if memb k axes then
        match sidx with
        | s :: sidx' => s :: merge_from (S k) r axes keep (if keep then tl oidx else oidx) sidx'
        | [] => []
        end
      else
        match oidx with
        | o :: oidx' => o :: merge_from (S k) r axes keep oidx' sidx
        | [] => []
        end
  end.

Definition reduce {A} (op : A -> A -> A) (neutral : A) (t : tensor A) (axes : list nat) (keep : bool) (d : A) : tensor A :=
  let sh := shape t in
  tab (reduce_shape sh axes keep)
      (fun oidx => fold_left op (map (fun sidx => get t (merge_from 0 sh axes keep oidx sidx) d)
                                     (all_idx (sub_shape_from 0 sh axes))) neutral).

(* ---- ndonnx: sum / prod / min / max prologue (as in _numericimpl.py after the fix) ---------- *)
Definition ndx_axes (ndim : Z) (axis : axis_spec) : list Z :=
  let axes := match axis with AxNone => [] | AxInt a => [a] | AxTuple l => l end in
  map (fun ax => if (ax <? 0)%Z then (ax + ndim)%Z else ax) axes.
Definition ndx_noop (axis : axis_spec) : bool := match axis with AxNone => false | _ => true end.

Definition ndx_reduce {A} (op : A -> A -> A) (neutral : A) (t : tensor A) (axis : axis_spec) (keep : bool) (d : A) :=
  let rank := length (shape t) in
  reduce op neutral t (onnx_axes rank (ndx_axes (Z.of_nat rank) axis) (ndx_noop axis)) keep d.

(* ---- NumPy / Array API ------------------------------------------------------------------------ *)
Definition np_axes (rank : nat) (axis : axis_spec) : list nat :=
  match axis with
  | AxNone => seq 0 rank
  | AxInt a => [norm_axis rank a]
  | AxTuple l => map (norm_axis rank) l
  end.
Definition np_reduce {A} (op : A -> A -> A) (neutral : A) (t : tensor A) (axis : axis_spec) (keep : bool) (d : A) :=
  reduce op neutral t (np_axes (length (shape t)) axis) keep d.

Definition axis_valid (rank : nat) (axis : axis_spec) : Prop :=
  let ok a := (- Z.of_nat rank <= a < Z.of_nat rank)%Z in
  match axis with AxNone => True | AxInt a => ok a | AxTuple l => Forall ok l end.
