From Coq Require Import List Arith ZArith Bool.
From ND Require Import Base.Tensor Ndx.Sort Ndx.ReduceCorr.
Import ListNotations.
Local Open Scope nat_scope.

Inductive sobs :=
  | SSort (desc : bool) (x : list Z) (out : list Z)
  | SArgsort (desc : bool) (x : list Z) (out : list Z)
  | SUnique (x : list Z) (vals : list Z) (idx inv cnt : list Z)
  | SSearch (right : bool) (x1 : list Z) (x2 : list Z) (out : list Z)
  | SNonzero (sh : list nat) (x : list Z) (outs : list (list Z)).

Definition zs (l : list nat) : list Z := map Z.of_nat l.

Definition sobs_ok (o : sobs) : bool :=
  match o with
  | SSort d x out => list_eqb_Z (ndx_sort d x) out
  | SArgsort d x out => list_eqb_Z (zs (ndx_argsort d x)) out
  | SUnique x v i n c =>
      let u := ndx_unique x in
      list_eqb_Z (u_values u) v && list_eqb_Z (zs (u_indices u)) i && list_eqb_Z (zs (u_inverse u)) n && list_eqb_Z (zs (u_counts u)) c
  | SSearch r x1 x2 out => list_eqb_Z (zs (map (searchsorted_spec r x1) x2)) out
  | SNonzero sh x outs =>
      let m := nonzero_coords sh x (all_idx sh) in
      Nat.eqb (length m) (length outs) && forallb (fun p => list_eqb_Z (zs (fst p)) (snd p)) (combine m outs)
  end.
