From Coq Require Import List Arith ZArith Bool.
From ND Require Import Base.Tensor Ndx.Index Ndx.GetItem Ndx.SetItem Ndx.ReduceCorr Ndx.GetItemCorr.
Import ListNotations.
Local Open Scope nat_scope.

(* x = token tensor; x[index] = v (scalar, broadcast); observed result *)
Record wcase := { w_shape : list nat; w_index : list item; w_value : Z; w_out : gout }.

Definition wcase_ok (c : wcase) : bool :=
  let t := token (w_shape c) in
  let m := match w_shape c, ndx_setitem t (w_index c) (fun _ => w_value c) 0%Z with
           | [], Done _ => (* rank 0: setitem returns the (scalar) update itself *)
                           GOk [] [w_value c]
           | _, r => gout_of_model r
           end in
  gout_eqb m (w_out c).
