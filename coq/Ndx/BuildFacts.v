From Coq Require Import List String Bool Arith.
From ND Require Import Base.Dtype Base.DtypeFacts Ndx.Build.
Import ListNotations.
Open Scope string_scope.

(* the two recursions of _build.py agree: the tensors the model exposes for an array are exactly
   the names a consumer derives from its dtype, in the same order and with the same element types,
   for arbitrarily nested struct dtypes *)
Fixpoint vars_names (a : arr) : forall n d, typed a d = true ->
  map (fun p => (fst p, snd (snd p))) (vars n a) = names n d.
Proof.
  destruct a as [v c | fa]; intros n d H; destruct d as [c' | fd]; simpl in H; try discriminate.
  - apply core_eqb_eq in H. subst. reflexivity.
  - simpl. revert fd H n. induction fa as [|[f x] ra IH]; intros [|[g y] rd] H n; try discriminate; auto.
    apply andb_true_iff in H as [H H3]. apply andb_true_iff in H as [H1 H2]. apply String.eqb_eq in H1. subst g.
    rewrite map_app. rewrite (vars_names x _ y H2). f_equal. apply IH. exact H3.
Qed.

(* every built-in dtype: a core array is exposed under its own name, a nullable array as
   <name>_values and <name>_null with element types (value type, bool) *)
Lemma builtin_names n c :
  names n (Leaf c) = [(n, c)] /\ names n (Struct [("values", Leaf c); ("null", Leaf CBool)]) = [(n ++ "_values", c); (n ++ "_null", CBool)].
Proof. split; reflexivity. Qed.

(* schema names are injective on the built-in dtypes *)
Lemma schema_name_injective a b : a <> DStruct -> b <> DStruct -> schema_name a = schema_name b -> a = b.
Proof.
  intros Ha Hb. destruct a as [x|x|], b as [y|y|]; try congruence; destruct x, y; simpl; intros H; try reflexivity; discriminate H.
Qed.
