(* Ndx/GetItemForm.v — the tuple-of-scalars path of _opset_extensions.getitem as a FORM: the choices a T-src translator
   reads off the source text (what the stepped slices / integer entries are numbered over, the order of the Gathers, what
   the new-axis positions are counted over).  The expected form is the hand-written lowering Ndx/GetItem.v ndx_getitem; the
   other forms are the nearby programs and are refuted on witnesses. *)
From Coq Require Import List Arith ZArith Bool.
From ND Require Import Base.Tensor Ndx.PyVal Ndx.Slice1D Ndx.Index Ndx.GetItem.
Import ListNotations.
Local Open Scope nat_scope.

Inductive enum_base := OverIndexSome | OverIndex.
Record gform := { gf_slices_over : enum_base; gf_ints_over : enum_base; gf_gather_reversed : bool; gf_new_axes_over_filtered : bool }.

Definition expected_form : gform :=
  {| gf_slices_over := OverIndexSome; gf_ints_over := OverIndexSome; gf_gather_reversed := true; gf_new_axes_over_filtered := true |}.

Definition raw_new_axes (index : list nitem) : list nat :=
  flat_map (fun p => if is_new (snd p) then [fst p] else []) (enumerate_from 0 index).

Definition interp_getitem {A} (f : gform) (t : tensor A) (index : list nitem) (d : A) : res (tensor A) :=
  let index_some := filter (fun n => negb (is_new n)) index in
  let pick b := match b with OverIndexSome => index_some | OverIndex => index end in
  let t1 := apply_slices t (axis_slices (pick (gf_slices_over f))) d in
  let gs := axis_indices (pick (gf_ints_over f)) in
  match apply_gathers t1 (if gf_gather_reversed f then rev gs else gs) d with
  | Done t2 => Done (match (if gf_new_axes_over_filtered f then new_axes index else raw_new_axes index) with
                     | [] => t2 | ax => t_unsqueeze t2 ax d end)
  | e => e
  end.

Definition interp_getitem_user {A} (f : gform) (t : tensor A) (index : list item) (d : A) : res (tensor A) :=
  match normalise_index (Z.of_nat (length (shape t))) index with
  | Ret ns => interp_getitem f t ns d
  | Raise e => TraceError e
  end.

Lemma interp_expected {A} (t : tensor A) index d : interp_getitem expected_form t index d = ndx_getitem t index d.
Proof. reflexivity. Qed.
Lemma interp_expected_user {A} (t : tensor A) index d : interp_getitem_user expected_form t index d = ndx_getitem_user t index d.
Proof. reflexivity. Qed.

(* the neighbouring forms are different programs *)
Definition t23 : tensor Z := {| shape := [2; 3]; data := [1; 2; 3; 4; 5; 6]%Z |}.
Example slices_over_raw_index_differs :
  interp_getitem_user {| gf_slices_over := OverIndex; gf_ints_over := OverIndexSome; gf_gather_reversed := true; gf_new_axes_over_filtered := true |}
                      t23 [INone; ISlice None None (Some 2%Z); ISlice None None (Some 2%Z)] 0%Z
  <> ndx_getitem_user t23 [INone; ISlice None None (Some 2%Z); ISlice None None (Some 2%Z)] 0%Z.
Proof. vm_compute. discriminate. Qed.
Example gathers_in_forward_order_differ :
  interp_getitem_user {| gf_slices_over := OverIndexSome; gf_ints_over := OverIndexSome; gf_gather_reversed := false; gf_new_axes_over_filtered := true |}
                      t23 [IInt 1%Z; IInt 2%Z] 0%Z
  <> ndx_getitem_user t23 [IInt 1%Z; IInt 2%Z] 0%Z.
Proof. vm_compute. discriminate. Qed.
Example new_axes_over_raw_index_differ :
  interp_getitem_user {| gf_slices_over := OverIndexSome; gf_ints_over := OverIndexSome; gf_gather_reversed := true; gf_new_axes_over_filtered := false |}
                      t23 [IInt 0%Z; INone; ISlice None None None] 0%Z
  <> ndx_getitem_user t23 [IInt 0%Z; INone; ISlice None None None] 0%Z.
Proof. vm_compute. discriminate. Qed.
