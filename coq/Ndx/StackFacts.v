(* Ndx/StackFacts.v — stack: every operand is unsqueezed at the new axis and the results are concatenated there, so
   position j of the new axis is operand j — for any number of operands, any rank, any position of the new axis *)
From Coq Require Import List Arith ZArith Bool Lia.
From ND Require Import Base.Tensor Base.TensorFacts Ndx.PyVal Ndx.GetItem Ndx.GetItemProof Ndx.Layout Ndx.LayoutFacts Ndx.NdIndex Ndx.ConcatFacts.
Import ListNotations.
Local Open Scope nat_scope.

Lemma inb_char : forall (sh idx : list nat), length idx = length sh -> (forall p, p < length sh -> nth p idx 0 < nth p sh 0) -> inb sh idx.
Proof.
  induction sh as [|x s IH]; intros [|y l] Hlen Hp; simpl in *; try lia; auto.
  split; [exact (Hp 0 (Nat.lt_0_succ _))|]. apply IH; [lia|]. intros p Hpl. apply (Hp (S p)). lia.
Qed.

Lemma same_except_length ax s1 s2 : same_except ax s1 s2 = true -> length s1 = length s2.
Proof. unfold same_except. intros H. apply andb_true_iff in H as [Hl _]. now apply Nat.eqb_eq in Hl. Qed.

(* every operand of a successful concat has the result's rank and its extents off the axis *)
Lemma concat_all_members {A} (ts : list (tensor A)) ax d : forall r, concat_all ts ax d = Done r ->
  forall t, In t ts -> length (shape t) = length (shape r) /\ forall k, k <> ax -> nth k (shape t) 0 = nth k (shape r) 0.
Proof.
  induction ts as [|t0 ts IH]; intros r H t Hin; [discriminate|].
  destruct ts as [|t2 ts'].
  - simpl in H. injection H as <-. destruct Hin as [<-|[]]. split; auto.
  - change (concat_all (t0 :: t2 :: ts') ax d) with
      (match concat_all (t2 :: ts') ax d with
       | Done u => if same_except ax (shape t0) (shape u) then Done (t_concat2 t0 u ax d) else TraceError ValueError
       | e => e end) in H.
    destruct (concat_all (t2 :: ts') ax d) as [u| |e]; try discriminate.
    destruct (same_except ax (shape t0) (shape u)) eqn:Hse; [|discriminate]. injection H as <-.
    rewrite shape_concat2, length_replace.
    destruct Hin as [<-|Hin].
    + split; [reflexivity|]. intros k Hk. now rewrite nth_replace_other'.
    + destruct (IH u eq_refl t Hin) as [Hl Hn]. split.
      * rewrite Hl. symmetry. now apply (same_except_length ax).
      * intros k Hk. rewrite nth_replace_other' by exact Hk. rewrite Hn by exact Hk. symmetry. now apply (same_except_nth ax).
Qed.

Lemma unsq_shape_single : forall sh k ax, k <= ax -> ax - k <= length sh ->
  unsq_shape k (length sh + 1) [ax] sh = insert_nth (ax - k) 1 sh.
Proof.
  assert (G : forall s' k' ax, ax < k' -> unsq_shape k' (length s') [ax] s' = s').
  { induction s' as [|y s'' IH']; intros k' ax Hk'; simpl; auto. destruct (Nat.eqb_spec k' ax); [lia|]. simpl. f_equal. apply IH'. lia. }
  induction sh as [|x s IH]; intros k ax Hk Hl; simpl in *.
  - assert (ax = k) by lia. subst. rewrite Nat.eqb_refl, Nat.sub_diag. reflexivity.
  - destruct (Nat.eqb_spec k ax) as [->|Hne]; simpl.
    + rewrite Nat.sub_diag. simpl. f_equal.
      replace (length s + 1) with (length (x :: s)) by (simpl; lia). apply G. lia.
    + replace (ax - k) with (S (ax - S k)) by lia. simpl. f_equal. apply IH; lia.
Qed.

Lemma nth_insert_same {A} (l : list A) : forall ax v d, ax <= length l -> nth ax (insert_nth ax v l) d = v.
Proof. induction l as [|x r IH]; intros [|ax] v d H; simpl in *; auto; try lia. apply IH. lia. Qed.
Lemma length_insert {A} (l : list A) : forall ax v, ax <= length l -> length (insert_nth ax v l) = S (length l).
Proof. induction l as [|x r IH]; intros [|ax] v H; simpl in *; auto; try lia. rewrite IH; lia. Qed.

Lemma shape_unsqueeze_single {A} (t : tensor A) ax d : ax <= length (shape t) -> shape (t_unsqueeze t [ax] d) = insert_nth ax 1 (shape t).
Proof. intros H. unfold t_unsqueeze. cbn [shape tab length]. rewrite unsq_shape_single by lia. now rewrite Nat.sub_0_r. Qed.

Lemma remove_replace {A} (idx : list A) : forall ax v, remove_nth ax (replace_nth ax v idx) = remove_nth ax idx.
Proof. induction idx as [|x l IH]; intros [|ax] v; simpl; auto. now rewrite IH. Qed.

(* stack: position j of the new axis is operand j *)
Theorem stack_elements {A} (ts : list (tensor A)) ax d r :
  Forall (fun t => ax <= length (shape t)) ts ->
  concat_all (map (fun t => t_unsqueeze t [ax] d) ts) ax d = Done r ->
  nth ax (shape r) 0 = length ts /\
  forall idx, inb (shape r) idx ->
    nth ax idx 0 < length ts /\
    forall dflt, get r idx d = get (nth (nth ax idx 0) ts dflt) (remove_nth ax idx) d.
Proof.
  intros Hall H.
  destruct (concat_all_spec _ ax d r H) as (Hne & _ & Hext & He).
  destruct ts as [|t0 ts']; [exfalso; now apply Hne|]. set (ts := t0 :: ts') in *.
  assert (H0 : ax <= length (shape t0)) by (inversion Hall; assumption).
  assert (Hax0 : ax < length (shape (hd r (map (fun t => t_unsqueeze t [ax] d) ts)))).
  { unfold ts. cbn [map hd]. rewrite shape_unsqueeze_single by exact H0. rewrite length_insert by exact H0. lia. }
  assert (Hexts : map (fun t => nth ax (shape t) 0) (map (fun t => t_unsqueeze t [ax] d) ts) = repeat 1 (length ts)).
  { rewrite map_map. clear -Hall. induction Hall as [|t l Ht _ IH]; cbn [map length repeat]; [reflexivity|].
    rewrite shape_unsqueeze_single by exact Ht. rewrite nth_insert_same by exact Ht. f_equal. exact IH. }
  assert (Hsum : forall n, fold_right Nat.add 0 (repeat 1 n) = n) by (induction n; simpl; auto).
  specialize (Hext Hax0). rewrite Hexts, Hsum in Hext. split; [exact Hext|].
  intros idx Hb.
  assert (Hrank : ax < length (shape r)).
  { rewrite (concat_all_rank _ ax d r H). exact Hax0. }
  assert (Hj : nth ax idx 0 < length ts) by (rewrite <- Hext; now apply inb_nth).
  split; [exact Hj|]. intros dflt.
  specialize (He idx Hb Hax0). rewrite Hexts, locate_ones in He by exact Hj.
  destruct He as [_ He]. rewrite (He (t_unsqueeze dflt [ax] d)).
  change (t_unsqueeze dflt [ax] d) with ((fun t => t_unsqueeze t [ax] d) dflt). rewrite map_nth.
  set (tj := nth (nth ax idx 0) ts dflt).
  assert (Hk : ax <= length (shape tj)).
  { rewrite Forall_forall in Hall. apply Hall. apply nth_In. exact Hj. }
  rewrite get_unsqueeze_single; [now rewrite remove_replace|exact Hk|].
  (* in bounds of the unsqueezed operand: r's extents off the axis, extent 1 and position 0 on it *)
  assert (Hin : In (t_unsqueeze tj [ax] d) (map (fun t => t_unsqueeze t [ax] d) ts)) by (apply (in_map (fun t => t_unsqueeze t [ax] d)); apply nth_In; exact Hj).
  destruct (concat_all_members _ ax d r H _ Hin) as [Hl Hn].
  apply inb_char.
  - rewrite length_replace, Hl. now apply inb_length.
  - intros p Hp. destruct (Nat.eq_dec p ax) as [->|Hpa].
    + rewrite nth_replace_same by (rewrite (inb_length _ _ Hb); exact Hrank).
      rewrite shape_unsqueeze_single by exact Hk. rewrite nth_insert_same by exact Hk. lia.
    + rewrite nth_replace_other' by exact Hpa. rewrite Hn by exact Hpa. apply inb_nth; [exact Hb|]. now rewrite <- Hl.
Qed.


Lemma zaxis_lt r a : axis_ok r a = true -> zaxis r a < r.
Proof.
  unfold axis_ok, zaxis. intros H. apply andb_true_iff in H as [H1 H2]. apply Z.leb_le in H1. apply Z.ltb_lt in H2.
  destruct (a <? 0)%Z eqn:E; [apply Z.ltb_lt in E|apply Z.ltb_ge in E]; lia.
Qed.

(* stack as written (ndx_stack: axis normalised against rank + 1, Unsqueeze of every operand, Concat) on operands of one rank *)
Theorem ndx_stack_spec {A} (ts : list (tensor A)) axis d r :
  ndx_stack ts axis d = Done r -> (forall t, In t ts -> rank t = rank (hd r ts)) ->
  let ax := zaxis (rank (hd r ts) + 1) axis in
  ax <= rank (hd r ts) /\ nth ax (shape r) 0 = length ts /\
  forall idx, inb (shape r) idx ->
    nth ax idx 0 < length ts /\
    forall dflt, get r idx d = get (nth (nth ax idx 0) ts dflt) (remove_nth ax idx) d.
Proof.
  intros H Hr ax. destruct ts as [|t0 ts']; [discriminate|]. unfold ndx_stack in H. cbn [hd] in *.
  destruct (axis_ok (rank t0 + 1) axis) eqn:Hok; [|discriminate].
  pose proof (zaxis_lt _ _ Hok) as Hlt. fold ax in H, Hlt.
  split; [lia|]. apply stack_elements; [|exact H].
  apply Forall_forall. intros t Hin. specialize (Hr t Hin). unfold rank in *. lia.
Qed.

(* non-vacuity: three 2x2 operands stacked at axis -2 (= 1): shape [2;3;2], element [i;j;k] = operand j at [i;k] *)
Example stack_example :
  let a := {| shape := [2;2]; data := [1;2;3;4]%Z |} in
  let b := {| shape := [2;2]; data := [5;6;7;8]%Z |} in
  let c := {| shape := [2;2]; data := [9;10;11;12]%Z |} in
  match ndx_stack [a; b; c] (-2) 0%Z with
  | Done r => shape r = [2;3;2] /\ data r = [1;2;5;6;9;10;3;4;7;8;11;12]%Z
  | _ => False end.
Proof. vm_compute. split; reflexivity. Qed.
