(* Ndx/RollProof.v — roll, n-D: the sequence of Gather steps ndonnx emits (index vector
   (range(len) + (len - shift)) mod len per (shift, axis) pair) moves, for every tensor of every rank, the
   element at coordinate i of each rolled axis to (i + shift) mod len — NumPy's roll.  Shifts of any sign
   and magnitude; repeated axes add up; the final Reshape to the original shape is the identity. *)
From Coq Require Import List Arith ZArith Bool Lia.
From ND Require Import Base.Tensor Base.TensorFacts Ndx.PyVal Ndx.Slice1D Ndx.Index Ndx.GetItem Ndx.GetItemProof Ndx.Layout Ndx.LayoutFacts.
Import ListNotations.
Local Open Scope nat_scope.

(* where the element that ends up at idx comes from, after one (shift, axis) step *)
Definition rstep (sh : list nat) (s : Z) (ax : nat) (idx : list nat) : list nat :=
  replace_nth ax (Z.to_nat ((Z.of_nat (nth ax idx 0) - s) mod Z.of_nat (nth ax sh 0))) idx.

Lemma nth_map_seq' {A} (f : nat -> A) n k d : k < n -> nth k (map f (seq 0 n)) d = f k.
Proof.
  intros H. rewrite (nth_indep _ d (f 0)) by (rewrite map_length, seq_length; exact H).
  rewrite map_nth. f_equal. rewrite seq_nth; lia.
Qed.

Lemma replace_nth_id {A} ax (l : list A) d : replace_nth ax (nth ax l d) l = l.
Proof. revert ax; induction l as [|x r IH]; intros ax; destruct ax; simpl; auto. now rewrite IH. Qed.

Lemma nth_znat_roll n s i : 0 < n -> i < n ->
  nth i (map (fun z => Z.to_nat (if (z <? 0)%Z then z + Z.of_nat n else z)%Z) (roll_indices (Z.of_nat n) s)) 0
  = Z.to_nat ((Z.of_nat i - s) mod Z.of_nat n).
Proof.
  intros Hn Hi. rewrite roll_indices_spec by lia. rewrite map_map, Nat2Z.id.
  rewrite nth_map_seq' by exact Hi.
  assert (0 <= (Z.of_nat i - s) mod Z.of_nat n)%Z by (apply Z.mod_pos_bound; lia).
  destruct ((Z.of_nat i - s) mod Z.of_nat n <? 0)%Z eqn:E; [apply Z.ltb_lt in E; lia|reflexivity].
Qed.

(* one step of roll_steps on an axis of positive extent *)
Lemma roll_one {A} (t : tensor A) s (a : Z) d :
  axis_ok (rank t) a = true -> 0 < nth (zaxis (rank t) a) (shape t) 0 ->
  ndx_take t (roll_indices (Z.of_nat (nth (zaxis (rank t) a) (shape t) 0)) s) a d
  = Done (tab (shape t) (fun idx => get t (rstep (shape t) s (zaxis (rank t) a) idx) d)).
Proof.
  intros Hok Hn. unfold ndx_take. rewrite Hok.
  set (ax := zaxis (rank t) a) in *. set (n := nth ax (shape t) 0) in *.
  assert (Hall : forallb (fun z => (- Z.of_nat n <=? z) && (z <? Z.of_nat n))%Z (roll_indices (Z.of_nat n) s) = true).
  { apply forallb_forall. intros z Hz. apply roll_indices_in_range in Hz; [|lia].
    apply andb_true_iff. split; [apply Z.leb_le|apply Z.ltb_lt]; lia. }
  rewrite Hall. f_equal. unfold t_select. rewrite map_length, roll_indices_length, Nat2Z.id.
  unfold n at 1. rewrite replace_nth_id.
  assert (Hax : ax < length (shape t)).
  { unfold ax, zaxis, axis_ok, rank in *. apply andb_true_iff in Hok as [H1 H2]. apply Z.leb_le in H1. apply Z.ltb_lt in H2.
    destruct (a <? 0)%Z eqn:E; [apply Z.ltb_lt in E|apply Z.ltb_ge in E]; lia. }
  apply tab_ext. intros idx Hb. unfold rstep. fold n.
  rewrite nth_znat_roll; [reflexivity|exact Hn|]. unfold n. now apply inb_nth.
Qed.

Lemma rstep_inb sh s ax idx : inb sh idx -> ax < length sh -> 0 < nth ax sh 0 -> inb sh (rstep sh s ax idx).
Proof.
  intros Hb Hax Hn. unfold rstep. apply (inb_replace sh idx ax (nth ax sh 0)).
  - now rewrite replace_nth_id.
  - intros _. assert (0 <= (Z.of_nat (nth ax idx 0%nat) - s) mod Z.of_nat (nth ax sh 0%nat) < Z.of_nat (nth ax sh 0%nat))%Z by (apply Z.mod_pos_bound; lia). lia.
Qed.

Definition step_ok (sh : list nat) (st : Z * Z) : Prop :=
  axis_ok (length sh) (snd st) = true /\ 0 < nth (zaxis (length sh) (snd st)) sh 0.

Definition roll_src (sh : list nat) (steps : list (Z * Z)) (idx : list nat) : list nat :=
  fold_right (fun st acc => rstep sh (fst st) (zaxis (length sh) (snd st)) acc) idx steps.

Lemma axis_ok_lt r a : axis_ok r a = true -> zaxis r a < r.
Proof.
  unfold axis_ok, zaxis. intros H. apply andb_true_iff in H as [H1 H2]. apply Z.leb_le in H1. apply Z.ltb_lt in H2.
  destruct (a <? 0)%Z eqn:E; [apply Z.ltb_lt in E|apply Z.ltb_ge in E]; lia.
Qed.

Lemma roll_src_inb sh steps idx : Forall (step_ok sh) steps -> inb sh idx -> inb sh (roll_src sh steps idx).
Proof.
  induction steps as [|[s a] r IH]; intros Hs Hb; simpl; [exact Hb|].
  inversion Hs as [|? ? [Hok Hn] Hr]; subst. simpl in *. apply rstep_inb; auto. now apply axis_ok_lt.
Qed.

(* the whole Gather sequence, any rank, any number of (shift, axis) pairs *)
Theorem roll_steps_spec {A} (steps : list (Z * Z)) : forall (t : tensor A) d, wf t -> Forall (step_ok (shape t)) steps ->
  roll_steps t steps d = Done (tab (shape t) (fun idx => get t (roll_src (shape t) steps idx) d)).
Proof.
  induction steps as [|[s a] r IH]; intros t d Hwf Hs.
  - simpl. f_equal. symmetry. now apply tab_get_id.
  - inversion Hs as [|? ? [Hok Hn] Hr]; subst. simpl in Hok, Hn. cbn [roll_steps].
    unfold rank in *. rewrite Hok.
    destruct (Z.eqb_spec (Z.of_nat (nth (zaxis (length (shape t)) a) (shape t) 0)) 0) as [E|_]; [lia|].
    pose proof (roll_one t s a d) as H1. unfold rank in H1. rewrite (H1 Hok Hn).
    set (t1 := tab (shape t) (fun idx => get t (rstep (shape t) s (zaxis (length (shape t)) a) idx) d)).
    assert (Hsh : shape t1 = shape t) by reflexivity.
    rewrite (IH t1 d); [|apply wf_tab|rewrite Hsh; exact Hr].
    f_equal. rewrite Hsh. apply tab_ext. intros idx Hb. unfold t1.
    rewrite get_tab by (apply roll_src_inb; assumption). reflexivity.
Qed.

(* ---- the final Reshape to the original shape is the identity ------------------------------------------ *)
Lemma enumerate_in {A} (l : list A) : forall k p, In p (enumerate_from k l) -> k <= fst p < k + length l.
Proof.
  induction l as [|x r IH]; intros k p H; simpl in *; [tauto|].
  destruct H as [<-|H]; simpl; [lia|]. apply IH in H. lia.
Qed.

Lemma copied_same sh : forall l k, (forall i, i < length l -> nth (k + i) sh 0 = nth i l 0) ->
  map (fun p : nat * Z => if (snd p =? 0)%Z then Z.of_nat (nth (fst p) sh 0) else snd p) (enumerate_from k (map Z.of_nat l)) = map Z.of_nat l.
Proof.
  induction l as [|x r IH]; intros k H; simpl; [reflexivity|]. f_equal.
  - destruct (Z.eqb_spec (Z.of_nat x) 0) as [E|_]; [|reflexivity].
    specialize (H 0 (Nat.lt_0_succ _)). rewrite Nat.add_0_r in H. simpl in H. now rewrite H.
  - apply IH. intros i Hi. specialize (H (S i)). simpl in H. replace (S k + i) with (k + S i) by lia. apply H. lia.
Qed.

Lemma known_size sh : fold_right (fun z acc => if (z =? -1)%Z then acc else Z.to_nat z * acc) 1 (map Z.of_nat sh) = size sh.
Proof.
  induction sh as [|x r IH]; simpl; [reflexivity|].
  destruct (Z.eqb_spec (Z.of_nat x) (-1)) as [E|_]; [lia|]. now rewrite Nat2Z.id, IH.
Qed.

Lemma no_minus sh : filter (fun z => (z =? -1)%Z) (map Z.of_nat sh) = [].
Proof. induction sh as [|x r IH]; simpl; auto. destruct (Z.eqb_spec (Z.of_nat x) (-1)); [lia|exact IH]. Qed.

Lemma reshape_same_shape sh : onnx_reshape_shape sh (map Z.of_nat sh) = Some sh.
Proof.
  unfold onnx_reshape_shape.
  rewrite (copied_same sh sh 0) by (intros; reflexivity).
  rewrite known_size, no_minus. cbn [length].
  assert (E : existsb (fun p : nat * Z => (snd p =? 0)%Z && (length sh <=? fst p)) (enumerate_from 0 (map Z.of_nat sh)) = false).
  { apply not_true_is_false. intros H. apply existsb_exists in H as [p [Hin Hp]].
    apply enumerate_in in Hin. rewrite map_length in Hin. apply andb_true_iff in Hp as [_ Hp]. apply Nat.leb_le in Hp. lia. }
  rewrite E. cbn [Nat.leb Nat.eqb]. rewrite Nat.eqb_refl. f_equal.
  rewrite map_map. rewrite <- (map_id sh) at 2. apply map_ext. intros x. apply Nat2Z.id.
Qed.

Lemma reshape_same {A} (t : tensor A) : ndx_reshape t (map Z.of_nat (shape t)) = Done t.
Proof. unfold ndx_reshape. rewrite reshape_same_shape. now destruct t. Qed.

(* ---- roll as the user calls it (axis given): any rank, any number of pairs ------------------------------ *)
Theorem ndx_roll_nd {A} (t : tensor A) shifts axs d : wf t -> length shifts = length axs ->
  Forall (step_ok (shape t)) (combine shifts axs) ->
  ndx_roll t shifts (Some axs) d = Done (tab (shape t) (fun idx => get t (roll_src (shape t) (combine shifts axs) idx) d)).
Proof.
  intros Hwf Hlen Hs. unfold ndx_roll. rewrite Hlen, Nat.eqb_refl.
  rewrite roll_steps_spec by assumption.
  exact (reshape_same (tab (shape t) (fun idx => get t (roll_src (shape t) (combine shifts axs) idx) d))).
Qed.

(* ---- NumPy's reading: per axis the shifts add up, different axes do not interact ------------------------- *)
Lemma replace_replace {A} ax (u v : A) l : replace_nth ax u (replace_nth ax v l) = replace_nth ax u l.
Proof. revert ax; induction l as [|x r IH]; intros ax; destruct ax; simpl; auto. now rewrite IH. Qed.
Lemma nth_replace_other {A} a b (v : A) l d : a <> b -> nth a (replace_nth b v l) d = nth a l d.
Proof. revert a b; induction l as [|x r IH]; intros a b H; destruct a, b; simpl; auto; try lia; try (apply IH; lia). Qed.
Lemma replace_comm {A} a b (u v : A) l : a <> b -> replace_nth a u (replace_nth b v l) = replace_nth b v (replace_nth a u l).
Proof. revert a b; induction l as [|x r IH]; intros a b H; destruct a, b; simpl; auto; try lia; try (f_equal; apply IH; lia). Qed.

Theorem rstep_same_axis_adds sh s1 s2 ax idx : ax < length idx -> 0 < nth ax sh 0 ->
  rstep sh s1 ax (rstep sh s2 ax idx) = rstep sh (s1 + s2) ax idx.
Proof.
  intros Hax Hn. unfold rstep. rewrite nth_replace_same by exact Hax. rewrite replace_replace. f_equal. f_equal.
  set (n := Z.of_nat (nth ax sh 0)). set (i := Z.of_nat (nth ax idx 0)).
  assert (0 <= (i - s2) mod n < n)%Z by (apply Z.mod_pos_bound; lia).
  rewrite Z2Nat.id by lia. rewrite Zminus_mod_idemp_l. f_equal. lia.
Qed.

Theorem rstep_other_axis_commutes sh s1 s2 a1 a2 idx : a1 <> a2 ->
  rstep sh s1 a1 (rstep sh s2 a2 idx) = rstep sh s2 a2 (rstep sh s1 a1 idx).
Proof.
  intros H. unfold rstep. rewrite !nth_replace_other by auto. apply replace_comm. exact H.
Qed.

(* one pair, in NumPy's forward reading: the element at coordinate i of the rolled axis is found at (i + shift) mod n *)
Theorem roll_forward sh s ax idx : ax < length idx -> 0 < nth ax sh 0 -> nth ax idx 0 < nth ax sh 0 ->
  rstep sh s ax (replace_nth ax (Z.to_nat ((Z.of_nat (nth ax idx 0) + s) mod Z.of_nat (nth ax sh 0))) idx) = idx.
Proof.
  intros Hax Hn Hi. unfold rstep. rewrite nth_replace_same by exact Hax. rewrite replace_replace.
  set (n := Z.of_nat (nth ax sh 0)). set (i := Z.of_nat (nth ax idx 0)).
  assert (0 <= (i + s) mod n < n)%Z by (apply Z.mod_pos_bound; lia).
  rewrite Z2Nat.id by lia. rewrite Zminus_mod_idemp_l. replace (i + s - s)%Z with i by lia.
  rewrite Z.mod_small by (unfold i, n; lia). unfold i. rewrite Nat2Z.id. apply replace_nth_id.
Qed.
