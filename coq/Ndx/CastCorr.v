(* Ndx/CastCorr.v — exhaustive tie for the cast matrix and can_cast; value correspondence. *)
From Coq Require Import List Bool ZArith String.
From ND Require Import Base.Dtype Base.DtypeFacts Ndx.ElemSyntax Ndx.ElemSem Ndx.ElemCorr Ndx.Cast.
Import ListNotations.

(* observed: result dtype (or error), was a source mask preserved, is the result mask all-false *)
Inductive cobs := COk (d : dtype) | CErrTE | CErrOther.

Definition cobs_ok (a b : dtype) (o : cobs) : bool :=
  match astype_outcome a b, o with
  | CastTo d _ _, COk d' => dtype_eqb d d'
  | CastErr, CErrTE => true
  | _, _ => false
  end.

Definition cancast_ok (a b : core) (o : bool) : bool := Bool.eqb (can_cast_safe a b) o.

(* value observations: (source dtype, source encoding, target core, observed) *)
Definition vobs := (core * enc * core * enc)%type.
Definition vobs_ok (v : vobs) : bool :=
  match v with
  | (cs, x, ct, out) =>
      match sval_of_enc cs x with
      | Some sv => match enc_of_res (cast_to ct sv) with Some m => enc_eqb m out | None => true end
      | None => true
      end
  end.
Definition vobs_decided (v : vobs) : bool :=
  match v with (cs, x, ct, _) => match sval_of_enc cs x with Some sv => match enc_of_res (cast_to ct sv) with Some _ => true | None => false end | None => false end end.
