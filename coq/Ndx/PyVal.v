(* Ndx/PyVal.v — a small universal Python value type and the primitives the T-src
   translator targets when it turns _index.py into Gallina. *)
From Coq Require Import List ZArith Bool.
Import ListNotations.
Open Scope Z_scope.

Inductive pyval :=
  | PNone | PInt (z : Z) | PBool (b : bool) | PSlice (a b c : pyval) | PEllipsis | POther.

Inductive exn := TypeError | IndexError | ValueError.
Inductive M (A : Type) := Ret (a : A) | Raise (e : exn).
Arguments Ret {A} a. Arguments Raise {A} e.

Definition bind {A B} (m : M A) (k : A -> M B) : M B :=
  match m with Ret a => k a | Raise e => Raise e end.

Definition INDEX_MAX : Z := 9223372036854775807.
Definition INDEX_MIN : Z := -9223372036854775808.

(* Python truthiness of the values that occur *)
Definition truthy (v : pyval) : bool :=
  match v with PNone => false | PInt z => negb (z =? 0) | PBool b => b | _ => true end.

Definition as_int (v : pyval) : option Z :=
  match v with PInt z => Some z | PBool b => Some (if b then 1 else 0) | _ => None end.

Definition py_is_none (v : pyval) : bool := match v with PNone => true | _ => false end.

(* ordering comparisons raise TypeError on None / non-numbers, like Python 3 *)
Definition py_cmp (f : Z -> Z -> bool) (a b : pyval) : M bool :=
  match as_int a, as_int b with
  | Some x, Some y => Ret (f x y)
  | _, _ => Raise TypeError
  end.
Definition py_gt := py_cmp Z.gtb.
Definition py_lt := py_cmp Z.ltb.
Definition py_ge := py_cmp Z.geb.
Definition py_le := py_cmp Z.leb.

(* == never raises *)
Fixpoint py_eq (a b : pyval) : bool :=
  match as_int a, as_int b with
  | Some x, Some y => x =? y
  | _, _ =>
      match a, b with
      | PNone, PNone | PEllipsis, PEllipsis => true
      | PSlice a1 b1 c1, PSlice a2 b2 c2 => py_eq a1 a2 && py_eq b1 b2 && py_eq c1 c2
      | _, _ => false
      end
  end.

Definition isinstance_int_bool (v : pyval) : bool := match v with PInt _ | PBool _ => true | _ => false end.
Definition isinstance_slice (v : pyval) : bool := match v with PSlice _ _ _ => true | _ => false end.

Definition attr_start (v : pyval) : M pyval := match v with PSlice a _ _ => Ret a | _ => Raise TypeError end.
Definition attr_stop (v : pyval) : M pyval := match v with PSlice _ b _ => Ret b | _ => Raise TypeError end.
Definition attr_step (v : pyval) : M pyval := match v with PSlice _ _ c => Ret c | _ => Raise TypeError end.

(* map in the error monad *)
Fixpoint mmap {A B} (f : A -> M B) (l : list A) : M (list B) :=
  match l with
  | [] => Ret []
  | x :: r => bind (f x) (fun y => bind (mmap f r) (fun ys => Ret (y :: ys)))
  end.
