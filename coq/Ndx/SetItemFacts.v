From Coq Require Import List Arith ZArith Bool Lia.
From ND Require Import Base.Tensor Base.TensorFacts Ndx.PyVal Ndx.Index Ndx.GetItem Ndx.SetItem.
Import ListNotations.
Local Open Scope nat_scope.

Lemma list_nat_eqb_eq a b : list_nat_eqb a b = true <-> a = b.
Proof.
  revert b; induction a as [|x a IH]; destruct b as [|y b]; simpl; split; try discriminate; auto.
  - intros H. apply andb_true_iff in H as [H1 H2]. apply Nat.eqb_eq in H1. apply IH in H2. congruence.
  - intros [= -> ->]. rewrite Nat.eqb_refl. now apply IH.
Qed.

Lemma find_pos_none idx G p : find_pos idx G p = None <-> ~ In idx G.
Proof.
  revert p; induction G as [|x r IH]; intros p; simpl; [tauto|].
  destruct (list_nat_eqb x idx) eqn:E.
  - apply list_nat_eqb_eq in E. split; [discriminate|]. intros H. exfalso. apply H. now left.
  - rewrite IH. split; intros H; [intros [H1 | H1]; [subst; rewrite (proj2 (list_nat_eqb_eq idx idx) eq_refl) in E; discriminate | contradiction] | tauto].
Qed.

Lemma find_pos_some idx G p q : find_pos idx G p = Some q -> p <= q /\ nth_error G (q - p) = Some idx.
Proof.
  revert p; induction G as [|x r IH]; intros p H; simpl in H; [discriminate|].
  destruct (list_nat_eqb x idx) eqn:E.
  - apply list_nat_eqb_eq in E. inversion H; subst. rewrite Nat.sub_diag. simpl. auto.
  - apply IH in H as [H1 H2]. split; [lia|]. replace (q - p) with (S (q - S p)) by lia. exact H2.
Qed.

(* FRAME: an element that is not addressed by the index keeps its value *)
Theorem setitem_frame {A} (t : tensor A) G upd d idx :
  in_bounds (shape t) idx -> ~ In idx G -> get (scatter t G upd d) idx d = get t idx d.
Proof.
  intros Hb Hn. unfold scatter. rewrite get_tab by exact Hb.
  now rewrite (proj2 (find_pos_none idx G 0) Hn).
Qed.

(* TARGET: an addressed element takes the update of (the first slot) that addresses it *)
Theorem setitem_target {A} (t : tensor A) G upd d idx :
  in_bounds (shape t) idx -> In idx G ->
  exists p, nth_error G p = Some idx /\ get (scatter t G upd d) idx d = upd p.
Proof.
  intros Hb Hin. unfold scatter. rewrite get_tab by exact Hb.
  destruct (find_pos idx G 0) as [q|] eqn:E.
  - apply find_pos_some in E as [_ E]. rewrite Nat.sub_0_r in E. exists q. auto.
  - apply find_pos_none in E. contradiction.
Qed.

(* the shape never changes *)
Theorem setitem_shape {A} (t : tensor A) G upd d : shape (scatter t G upd d) = shape t.
Proof. reflexivity. Qed.
