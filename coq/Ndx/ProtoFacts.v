From Coq Require Import List Bool ZArith Lia.
From ND Require Import Ndx.Proto.
Open Scope Z_scope.

Ltac pz := repeat match goal with
                  | H : (_ =? _) = true |- _ => apply Z.eqb_eq in H
                  | H : (_ =? _) = false |- _ => apply Z.eqb_neq in H
                  end.

(* data-holding arrays: every protocol behaves as NumPy's (same value or both raise) *)
Theorem proto_eager s : eager_wf s ->
  observe (ndx_float s) s = np_float s /\ observe (ndx_int s) s = np_int s /\
  observe (ndx_bool s) s = np_bool s /\ observe (ndx_index s) s = np_index s /\
  observe (ndx_len s) s = np_len s /\ observe (ndx_iter s) s = np_iter s.
Proof.
  intros (Hv & Hn & Hs & H0 & H1 & Hb).
  unfold ndx_float, ndx_int, ndx_bool, ndx_index, ndx_len, ndx_iter, np_float, np_int, np_bool, np_index, np_len, np_iter, observe, np_conv.
  rewrite Hv. simpl.
  destruct (size s =? 1) eqn:Es, (ndim s =? 0) eqn:En; pz; simpl;
    try (destruct (H0 En) as [Hs1 Hsh]; rewrite ?Hsh; try congruence);
    repeat split; try reflexivity;
    try (destruct (item_is_int s) eqn:Ei, (item_is_bool s) eqn:Eb; simpl; try reflexivity; specialize (Hb eq_refl); discriminate);
    try (destruct (shape0 s); reflexivity).
Qed.

(* placeholders: value protocols refuse with ValueError; len/iter need a static leading extent *)
Theorem proto_lazy s : lazy_wf s ->
  ndx_float s = PRaiseVE /\ ndx_int s = PRaiseVE /\ ndx_bool s = PRaiseVE /\ ndx_index s = PRaiseVE /\
  (shape0 s = DimDynamic -> ndx_len s = PRaiseVE /\ ndx_iter s = PRaiseVE) /\
  (forall n, shape0 s = DimInt n -> ndx_len s = PLen n /\ ndx_iter s = PIter n).
Proof.
  intros [Hv Hs]. unfold ndx_float, ndx_int, ndx_bool, ndx_index, ndx_len, ndx_iter. rewrite Hv. simpl.
  rewrite andb_false_r. repeat split; try reflexivity; intros; try (rewrite H; reflexivity).
  all: rewrite H; reflexivity.
Qed.

(* iteration yields exactly shape[0] items or raises before yielding: PIter n carries the
   leading extent, and range(n) is finite; nothing else is ever returned *)
Theorem iter_terminates s : match ndx_iter s with PIter n => shape0 s = DimInt n | PRaiseVE => True | _ => False end.
Proof. unfold ndx_iter. destruct (shape0 s); auto. Qed.
