(* Ndx/ReduceMore.v — the reductions that are not a plain Reduce* node: all / any (counting trick
   over ReduceSum), argmax / argmin (ONNX ArgMax / ArgMin, select_last_index = 0, with the
   flatten-and-reshape path for axis=None) and cumulative_sum (ONNX CumSum, exclusive = 0, plus
   the include_initial concat).  Executable on integer tensors; the NumPy statements are in
   ReduceMoreFacts.v. *)
From Coq Require Import List Arith ZArith Lia Bool.
From ND Require Import Base.Tensor Ndx.PyVal Ndx.GetItem Ndx.Reduce.
Import ListNotations.
Local Open Scope nat_scope.

(* ---- lanes: the 1-D sections of a tensor along one axis ----------------------------------- *)
(* `base` indexes the shape with the axis removed *)
Definition lane {A} (t : tensor A) (ax : nat) (base : list nat) (d : A) : list A :=
  map (fun i => get t (insert_nth ax i base) d) (seq 0 (nth ax (shape t) 0)).

(* ---- all / any: as written in _numericimpl.py / _boolimpl.py ------------------------------ *)
(* zeros = equal(x, 0) (logical_not for bool); all = equal(sum(zeros.astype(int64)), 0)
   nonzeros = not_equal(x, 0);                 any = not_equal(sum(nonzeros.astype(int64)), 0) *)
Definition b2z (b : bool) : Z := if b then 1%Z else 0%Z.
Definition ndx_all (t : tensor Z) (axis : axis_spec) (keep : bool) : tensor bool :=
  tmap (fun s => (s =? 0)%Z) (ndx_reduce Z.add 0%Z (tmap (fun x => b2z (x =? 0)%Z) t) axis keep 0%Z).
Definition ndx_any (t : tensor Z) (axis : axis_spec) (keep : bool) : tensor bool :=
  tmap (fun s => negb (s =? 0)%Z) (ndx_reduce Z.add 0%Z (tmap (fun x => b2z (negb (x =? 0)%Z)) t) axis keep 0%Z).

(* NumPy: conjunction / disjunction of the truth values over the reduced axes *)
Definition truth (x : Z) : bool := negb (x =? 0)%Z.
Definition np_all (t : tensor Z) (axis : axis_spec) (keep : bool) : tensor bool :=
  np_reduce andb true (tmap truth t) axis keep true.
Definition np_any (t : tensor Z) (axis : axis_spec) (keep : bool) : tensor bool :=
  np_reduce orb false (tmap truth t) axis keep false.

(* ---- ArgMax / ArgMin ------------------------------------------------------------------------- *)
(* first index of the largest element (select_last_index = 0) *)
Fixpoint argmax_from (best : Z) (bi i : nat) (l : list Z) : nat :=
  match l with
  | [] => bi
  | x :: r => if (best <? x)%Z then argmax_from x i (S i) r else argmax_from best bi (S i) r
  end.
Definition argmax_list (l : list Z) : nat := match l with [] => 0 | x :: r => argmax_from x 0 1 r end.
Definition argmin_list (l : list Z) : nat := argmax_list (map Z.opp l).
Definition arg_list (mx : bool) : list Z -> nat := if mx then argmax_list else argmin_list.

Definition onnx_arg (mx : bool) (t : tensor Z) (ax : nat) (keep : bool) : tensor Z :=
  let sh := shape t in
  tab (if keep then replace_nth ax 1 sh else remove_nth ax sh)
      (fun oidx => Z.of_nat (arg_list mx (lane t ax (if keep then remove_nth ax oidx else oidx) 0%Z))).

Definition zaxis' (r : nat) (a : Z) : nat := Z.to_nat (if (a <? 0)%Z then a + Z.of_nat r else a)%Z.
Definition axis_ok' (r : nat) (a : Z) : bool := ((- Z.of_nat r <=? a) && (a <? Z.of_nat r))%Z.

(* argmax / argmin as written: axis=None flattens, reduces axis 0 without keepdims and reshapes
   the scalar to [] or [1]*ndim; an integer axis goes straight to the node *)
Definition ndx_arg (mx : bool) (t : tensor Z) (axis : option Z) (keep : bool) : res (tensor Z) :=
  match axis with
  | None =>
      let flat := {| shape := [size (shape t)]; data := data t |} in
      if Nat.eqb (size (shape t)) 0 then RuntimeError
      else let r := onnx_arg mx flat 0 false in
           Done {| shape := if keep then map (fun _ => 1) (shape t) else []; data := data r |}
  | Some a =>
      let r := length (shape t) in
      if axis_ok' r a then
        (if Nat.eqb (nth (zaxis' r a) (shape t) 0) 0 then RuntimeError else Done (onnx_arg mx t (zaxis' r a) keep))
      else TraceError ValueError
  end.

(* ---- CumSum ------------------------------------------------------------------------------------ *)
Fixpoint cumsum_from (acc : Z) (l : list Z) : list Z :=
  match l with [] => [] | x :: r => (acc + x)%Z :: cumsum_from (acc + x)%Z r end.
Definition cumsum_list (l : list Z) : list Z := cumsum_from 0%Z l.

Definition onnx_cumsum (t : tensor Z) (ax : nat) : tensor Z :=
  tab (shape t) (fun idx => nth (nth ax idx 0) (cumsum_list (lane t ax (remove_nth ax idx) 0%Z)) 0%Z).

(* include_initial: a block of zeros of extent 1 is concatenated in front along the axis *)
Definition with_initial (t : tensor Z) (ax : nat) : tensor Z :=
  tab (replace_nth ax (S (nth ax (shape t) 0)) (shape t))
      (fun idx => let i := nth ax idx 0 in if Nat.eqb i 0 then 0%Z else get t (replace_nth ax (i - 1) idx) 0%Z).

Definition ndx_cumsum (t : tensor Z) (axis : option Z) (initial : bool) : res (tensor Z) :=
  let r := length (shape t) in
  match (match axis with
         | None => if r <=? 1 then Some 0%Z else None
         | Some a => Some a end) with
  | None => TraceError ValueError
  | Some a =>
      if Nat.eqb r 0 then RuntimeError      (* CumSum needs rank >= 1 *)
      else if axis_ok' r a then
        let ax := zaxis' r a in
        let c := onnx_cumsum t ax in
        Done (if initial then with_initial c ax else c)
      else RuntimeError
  end.

(* ---- all / any as a FORM (what the T-src translator extracts from the source text) ---------------- *)
(* inner point-wise step: equal(x, 0) | not_equal(x, 0) | logical_not(x) | x itself (boolean input);
   reducer: which public reduction is called on the int64 cast; outer: equal(s, 0) | not_equal(s, 0) *)
Inductive pointf := PEq0 | PNe0 | PNot | PId.
Inductive redf := FSum | FProd | FMin | FMax.
Record aform := { af_inner_bool : pointf; af_inner_num : pointf; af_red : redf; af_outer : pointf }.

Definition pbool (p : pointf) (x : Z) : bool :=
  match p with PEq0 | PNot => (x =? 0)%Z | PNe0 | PId => negb (x =? 0)%Z end.
Definition red_op (r : redf) : (Z -> Z -> Z) * Z :=
  match r with
  | FSum => (Z.add, 0%Z) | FProd => (Z.mul, 1%Z)
  | FMin => (Z.min, 9223372036854775807%Z) | FMax => (Z.max, (-9223372036854775808)%Z)
  end.

Definition interp_num (f : aform) (t : tensor Z) (axis : axis_spec) (keep : bool) : tensor bool :=
  tmap (pbool (af_outer f))
       (ndx_reduce (fst (red_op (af_red f))) (snd (red_op (af_red f))) (tmap (fun x => b2z (pbool (af_inner_num f) x)) t) axis keep 0%Z).
(* boolean input: the same pipeline on the 0/1 image with the boolean inner step *)
Definition interp_bool (f : aform) (t : tensor bool) (axis : axis_spec) (keep : bool) : tensor bool :=
  tmap (pbool (af_outer f))
       (ndx_reduce (fst (red_op (af_red f))) (snd (red_op (af_red f))) (tmap (fun b : bool => b2z (pbool (af_inner_bool f) (b2z b))) t) axis keep 0%Z).

Definition all_form : aform := {| af_inner_bool := PNot; af_inner_num := PEq0; af_red := FSum; af_outer := PEq0 |}.
Definition any_form : aform := {| af_inner_bool := PId; af_inner_num := PNe0; af_red := FSum; af_outer := PNe0 |}.
