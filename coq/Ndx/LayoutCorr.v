(* Ndx/LayoutCorr.v — in-Coq correspondence for layout functions on token tensors. *)
From Coq Require Import List Arith ZArith Bool.
From ND Require Import Base.Tensor Ndx.PyVal Ndx.Slice1D Ndx.Index Ndx.GetItem Ndx.Layout Ndx.ReduceCorr Ndx.GetItemCorr.
Import ListNotations.
Local Open Scope nat_scope.

Inductive lop :=
  | LPermute (perm : list nat) | LMatrixT | LExpand (axis : Z) | LSqueeze (axes : list Z)
  | LFlip (axes : option (list Z)) | LRoll (shifts : list Z) (axes : option (list Z))
  | LReshape (target : list Z) | LBroadcast (target : list nat) | LTake (idx : list Z) (axis : Z)
  | LConcat (axis : option Z) | LStack (axis : Z) | LTril (k : Z) | LTriu (k : Z).

Record lcase := { l_op : lop; l_shapes : list (list nat); l_out : gout }.

(* input j is the token tensor of its shape, offset by 1000 * j *)
Definition token_off (j : nat) (sh : list nat) : tensor Z := tab sh (fun idx => Z.of_nat (1000 * j + ravel sh idx)).
Definition inputs (c : lcase) : list (tensor Z) :=
  map (fun p => token_off (fst p) (snd p)) (enumerate_from 0 (l_shapes c)).

Definition model_layout (c : lcase) : res (tensor Z) :=
  let ts := inputs c in
  let t := hd {| shape := []; data := [0%Z] |} ts in
  match l_op c with
  | LPermute p => ndx_permute_dims t p 0%Z
  | LMatrixT => ndx_matrix_transpose t 0%Z
  | LExpand a => ndx_expand_dims t a 0%Z
  | LSqueeze a => ndx_squeeze t a 0%Z
  | LFlip a => ndx_flip t a 0%Z
  | LRoll s a => ndx_roll t s a 0%Z
  | LReshape s => ndx_reshape t s
  | LBroadcast s => ndx_broadcast_to t s 0%Z
  | LTake i a => ndx_take t i a 0%Z
  | LConcat a => ndx_concat ts a 0%Z
  | LStack a => ndx_stack ts a 0%Z
  | LTril k => ndx_trilu t k false 0%Z 0%Z
  | LTriu k => ndx_trilu t k true 0%Z 0%Z
  end.

(* any failure class of the model matches any failure of the implementation: the property
   speaks about results; which exception is raised for invalid arguments is not part of it *)
Definition lout_eqb (m : gout) (o : gout) : bool :=
  match m, o with
  | GOk s d, GOk s' d' => list_eqb_nat s s' && list_eqb_Z d d'
  | GOk _ _, _ | _, GOk _ _ => false
  | _, _ => true
  end.

Definition lcase_ok (c : lcase) : bool := lout_eqb (gout_of_model (model_layout c)) (l_out c).
