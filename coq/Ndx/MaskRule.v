(* Ndx/MaskRule.v — C04 for element-wise functions: a decision procedure showing that the
   null-mask expression of a table row is the OR of the operands' null masks for EVERY value
   of the data-dependent sub-expressions (hence independent of payloads), with its soundness
   proof against the evaluator of Ndx/ElemSem.v. *)
From Coq Require Import List Bool ZArith String Arith Lia.
From Coq Require Import Floats.SpecFloat.
From ND Require Import Base.Dtype Ndx.ElemSyntax Ndx.ElemSem Ndx.ElemInt.
Import ListNotations.

(* boolean skeleton of an expression: everything that is not And/Or/Xor/Not/ArgN/constant/
   FullLike is an opaque atom (its value may depend on data, i.e. on payloads) *)
Fixpoint beval (rn : nat -> bool) (ra : fexpr -> bool) (e : fexpr) : bool :=
  match e with
  | ArgN i => rn i
  | KZ CBool z => negb (z =? 0)%Z
  | Op1 ONot a => negb (beval rn ra a)
  | Op2 OAnd a b => beval rn ra a && beval rn ra b
  | Op2 OOr a b => beval rn ra a || beval rn ra b
  | Op2 OXor a b => xorb (beval rn ra a) (beval rn ra b)
  | FullLike c _ => beval rn ra c
  | other => ra other
  end.

Fixpoint atoms (e : fexpr) : list fexpr :=
  match e with
  | ArgN _ => []
  | KZ CBool _ => []
  | Op1 ONot a => atoms a
  | Op2 OAnd a b | Op2 OOr a b | Op2 OXor a b => atoms a ++ atoms b
  | FullLike c _ => atoms c
  | other => [other]
  end.

Fixpoint argns (e : fexpr) : list nat :=
  match e with
  | ArgN i => [i]
  | Op1 ONot a => argns a
  | Op2 OAnd a b | Op2 OOr a b | Op2 OXor a b => argns a ++ argns b
  | FullLike c _ => argns c
  | _ => []
  end.

(* all boolean vectors of length n *)
Fixpoint bvecs (n : nat) : list (list bool) :=
  match n with O => [[]] | S k => flat_map (fun v => [true :: v; false :: v]) (bvecs k) end.

Definition ra_of (l : list (fexpr * bool)) (a : fexpr) : bool :=
  match find (fun p => fexpr_eqb a (fst p)) l with Some (_, b) => b | None => false end.
Definition rn_of (l : list (nat * bool)) (i : nat) : bool :=
  match find (fun p => Nat.eqb i (fst p)) l with Some (_, b) => b | None => false end.

(* the rule: null = OR over the nullable operands `ns` *)
Definition rule_holds (e : fexpr) (ns : list nat) : bool :=
  let ats := atoms e in
  let ids := nodup Nat.eq_dec (argns e ++ ns) in
  forallb (fun va => forallb (fun vn =>
      let ra := ra_of (combine ats va) in
      let rn := rn_of (combine ids vn) in
      Bool.eqb (beval rn ra e) (existsb rn ns))
    (bvecs (List.length ids))) (bvecs (List.length ats)).

(* ---- soundness -------------------------------------------------------------------------- *)
Lemma fexpr_eqb_refl e : fexpr_eqb e e = true.
Proof.
  induction e; simpl; rewrite ?Nat.eqb_refl, ?Z.eqb_refl, ?core_eqb_refl, ?String.eqb_refl, ?eqb_reflx; auto;
    repeat match goal with H : fexpr_eqb _ _ = true |- _ => rewrite H; clear H end; simpl; auto;
    try (destruct o; reflexivity).
Qed.

Lemma in_bvecs (v : list bool) : In v (bvecs (List.length v)).
Proof.
  induction v as [|b v IH]; simpl; [tauto|]. apply in_flat_map. exists v. split; auto.
  destruct b; simpl; tauto.
Qed.

Lemma beval_ext rn rn' ra ra' e :
  (forall i, In i (argns e) -> rn i = rn' i) -> (forall a, In a (atoms e) -> ra a = ra' a) ->
  beval rn ra e = beval rn' ra' e.
Proof.
  revert rn rn' ra ra'.
  induction e; intros rn rn' ra ra' Hn Ha; simpl in *; try (apply Ha; simpl; tauto).
  - apply Hn; tauto.
  - destruct c; try (apply Ha; simpl; tauto). reflexivity.
  - destruct o; try (apply Ha; simpl; tauto). f_equal. apply IHe; auto.
  - destruct o; try (apply Ha; simpl; tauto);
      (erewrite IHe1, IHe2; [reflexivity| | | |]; intros; try apply Hn; try apply Ha; apply in_or_app; tauto).
  - apply IHe1; auto.
Qed.

Lemma ra_of_combine (ra : fexpr -> bool) ats a : In a ats -> ra_of (combine ats (map ra ats)) a = ra a.
Proof.
  unfold ra_of. induction ats as [|x ats IH]; simpl; [tauto|]. intros [-> | H].
  - rewrite fexpr_eqb_refl. reflexivity.
  - destruct (fexpr_eqb a x) eqn:E; simpl.
    + apply fexpr_eqb_eq in E. subst. reflexivity.
    + now apply IH.
Qed.

Lemma rn_of_combine (rn : nat -> bool) ids i : In i ids -> rn_of (combine ids (map rn ids)) i = rn i.
Proof.
  unfold rn_of. induction ids as [|x ids IH]; simpl; [tauto|]. intros [-> | H].
  - rewrite Nat.eqb_refl. reflexivity.
  - destruct (Nat.eqb i x) eqn:E; simpl.
    + apply Nat.eqb_eq in E. subst. reflexivity.
    + now apply IH.
Qed.

Lemma existsb_ext_in {A} (f g : A -> bool) l : (forall x, In x l -> f x = g x) -> existsb f l = existsb g l.
Proof. induction l; simpl; intros H; auto. rewrite H, IHl; auto. Qed.

(* the decision procedure covers every assignment of mask bits and atom values *)
Theorem rule_holds_sound e ns : rule_holds e ns = true ->
  forall (rn : nat -> bool) (ra : fexpr -> bool), beval rn ra e = existsb rn ns.
Proof.
  unfold rule_holds. intros H rn ra.
  set (ats := atoms e) in *. set (ids := nodup Nat.eq_dec (argns e ++ ns)) in *.
  rewrite forallb_forall in H.
  specialize (H (map ra ats)). rewrite <- (map_length ra ats) in H at 1.
  specialize (H (in_bvecs _)). rewrite forallb_forall in H.
  specialize (H (map rn ids)). rewrite <- (map_length rn ids) in H at 1.
  specialize (H (in_bvecs _)). apply eqb_prop in H.
  rewrite <- (beval_ext rn _ ra _ e) in H.
  - rewrite H. apply existsb_ext_in. intros i Hi. apply rn_of_combine.
    apply nodup_In. apply in_or_app; tauto.
  - intros i Hi. symmetry. apply rn_of_combine. apply nodup_In. apply in_or_app; tauto.
  - intros a Ha. symmetry. now apply ra_of_combine.
Qed.

(* ---- link with the evaluator: whenever the null expression evaluates, its value is the
        boolean skeleton under the valuation that gives each atom its run-time value ---------- *)
Section Link.
  Variable tr : op1 -> core -> spec_float -> spec_float.
  Variable trpow : core -> spec_float -> spec_float -> spec_float.
  Variable envV : nat -> sval.
  Variable envN : nat -> bool.
  Notation ev := (eval tr trpow envV envN).

  Definition ra_run (a : fexpr) : bool := match ev a with RV (VB b) => b | _ => false end.

  Lemma ra_run_ok a b : ev a = RV (VB b) -> b = ra_run a.
  Proof. unfold ra_run. intros ->. reflexivity. Qed.

  Lemma eval_beval e b : ev e = RV (VB b) -> b = beval envN ra_run e.
  Proof.
    revert b. induction e; intros b0 H; try (simpl; now apply ra_run_ok).
    - simpl in *. congruence.
    - destruct c; try (simpl; now apply ra_run_ok). simpl in *. congruence.
    - destruct o; try (simpl; now apply ra_run_ok). simpl in *.
      destruct (ev e) as [[bb| | |]| |] eqn:E; simpl in H; try discriminate.
      inversion H. f_equal. now apply IHe.
    - destruct o; try (simpl; now apply ra_run_ok); simpl in *;
        destruct (ev e1) as [v1| |] eqn:E1; simpl in H; try discriminate;
        destruct (ev e2) as [v2| |] eqn:E2; simpl in H; try discriminate;
        destruct v1 as [b1|c1 z1|c1 f1|s1], v2 as [b2|c2 z2|c2 f2|s2]; simpl in H; try discriminate;
        try (destruct (core_eqb c1 c2); simpl in H; discriminate);
        inversion H; rewrite <- (IHe1 b1 eq_refl), <- (IHe2 b2 eq_refl); reflexivity.
    - simpl in *. destruct (ev e2) eqn:E2; simpl in H; try discriminate. now apply IHe1.
  Qed.

  (* C04, element-wise: if a row's null expression passes the decision procedure, then for
     every data, every mask and every payload, whenever the graph evaluates, the output
     element is null exactly when some nullable operand's element is null. *)
  Theorem mask_rule e ns b : rule_holds e ns = true -> ev e = RV (VB b) -> b = existsb envN ns.
  Proof. intros Hr He. rewrite (eval_beval e b He). now apply rule_holds_sound. Qed.
End Link.

(* ---- the rows ---------------------------------------------------------------------------- *)
Definition nullable_args (args : list argk) : list nat :=
  let fix go (l : list argk) (i : nat) :=
    match l with
    | [] => []
    | AArr (DNull _) :: r => i :: go r (S i)
    | _ :: r => go r (S i)
    end in go args 0%nat.

Fixpoint no_argn (e : fexpr) : bool :=
  match e with
  | ArgN _ => false
  | Cast _ a | Op1 _ a => no_argn a
  | Op2 _ a b | FullLike a b => no_argn a && no_argn b
  | Where a b c | Clip a b c => no_argn a && no_argn b && no_argn c
  | _ => true
  end.

(* a row obeys the masking rule if: its mask expression is the OR of the operand masks for all
   data (decision procedure), and its values expression never looks at a mask *)
Definition c04_row_ok (r : row) : bool :=
  match r_out r with
  | Traced _ v (Some n) => rule_holds n (nullable_args (r_args r)) && no_argn v
  | Traced _ v None => no_argn v
  | _ => true
  end.
