(* Ndx/Sort.v — sorting, sets, searching on 1-D integer data: ONNX TopK (k = len, sorted) and
   Unique(sorted) as executable definitions; searchsorted / nonzero specifications. *)
From Coq Require Import List Arith ZArith Bool Lia Sorted Permutation.
Import ListNotations.
Local Open Scope nat_scope.

(* (value, original index); lexicographic order makes the order total with unique keys, so the
   sorted permutation is unique: stability comes for free *)
Definition key := (Z * nat)%type.
Definition kle (desc : bool) (a b : key) : bool :=
  let '(x, i) := a in let '(y, j) := b in
  if desc then (y <? x)%Z || ((x =? y)%Z && (i <=? j)) else (x <? y)%Z || ((x =? y)%Z && (i <=? j)).

Fixpoint insert (desc : bool) (a : key) (l : list key) : list key :=
  match l with
  | [] => [a]
  | b :: r => if kle desc a b then a :: l else b :: insert desc a r
  end.
Fixpoint isort (desc : bool) (l : list key) : list key :=
  match l with [] => [] | a :: r => insert desc a (isort desc r) end.

Definition tag (l : list Z) : list key := combine l (seq 0 (length l)).
(* TopK(x, k = len(x), largest = desc, sorted = 1) -> (values, indices) *)
Definition topk (desc : bool) (l : list Z) : list Z * list nat :=
  let s := isort desc (tag l) in (map fst s, map snd s).
Definition ndx_sort (desc : bool) (l : list Z) : list Z := fst (topk desc l).
Definition ndx_argsort (desc : bool) (l : list Z) : list nat := snd (topk desc l).

(* ---- Unique(sorted = 1) ------------------------------------------------------------------------ *)
Fixpoint dedup_sorted (l : list Z) : list Z :=
  match l with
  | [] => []
  | a :: r => match r with b :: _ => if (a =? b)%Z then dedup_sorted r else a :: dedup_sorted r | [] => [a] end
  end.
Definition first_index (v : Z) (l : list Z) : nat :=
  (fix go (l : list Z) (i : nat) := match l with [] => i | x :: r => if (x =? v)%Z then i else go r (S i) end) l 0.
Definition count_eq (v : Z) (l : list Z) : nat := length (filter (fun x => (x =? v)%Z) l).

Record unique_out := { u_values : list Z; u_indices : list nat; u_inverse : list nat; u_counts : list nat }.
Definition ndx_unique (l : list Z) : unique_out :=
  let vals := dedup_sorted (ndx_sort false l) in
  {| u_values := vals;
     u_indices := map (fun v => first_index v l) vals;
     u_inverse := map (fun x => first_index x vals) l;
     u_counts := map (fun v => count_eq v l) vals |}.

(* ---- searchsorted: the specification (x1 sorted ascending) --------------------------------------- *)
Definition searchsorted_spec (right : bool) (x1 : list Z) (v : Z) : nat :=
  length (filter (fun x => if right then (x <=? v)%Z else (x <? v)%Z) x1).

(* ---- nonzero: row-major coordinates of the non-zero elements, one list per axis -------------------- *)
Definition nonzero_coords (sh : list nat) (data : list Z) (all_idx : list (list nat)) : list (list nat) :=
  let hits := map fst (filter (fun p => negb (snd p =? 0)%Z) (combine all_idx data)) in
  map (fun ax => map (fun idx => nth ax idx 0) hits) (seq 0 (length sh)).
