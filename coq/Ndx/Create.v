(* Ndx/Create.v — creation functions: ONNX Range / EyeLike / Expand as executable definitions. *)
From Coq Require Import List Arith ZArith Bool Lia.
From ND Require Import Base.Tensor.
Import ListNotations.
Open Scope Z_scope.

(* ONNX Range: number_of_elements = max(ceil((limit - start) / delta), 0) *)
Definition range_len (start limit delta : Z) : Z :=
  Z.max 0 (if 0 <? delta then (limit - start + delta - 1) / delta else (start - limit + (- delta) - 1) / (- delta)).
Definition onnx_range (start limit delta : Z) : list Z :=
  map (fun i => start + Z.of_nat i * delta) (seq 0 (Z.to_nat (range_len start limit delta))).

(* ndonnx.arange(start, stop=None, step=1): one argument means arange(0, start) *)
Definition ndx_arange (start : Z) (stop : option Z) (step : Z) : list Z :=
  match stop with None => onnx_range 0 start step | Some s => onnx_range start s step end.

(* EyeLike on an (n x m) input with offset k *)
Definition ndx_eye (n m : nat) (k : Z) : tensor Z :=
  tab [n; m] (fun idx => if (Z.of_nat (nth 1 idx 0%nat) - Z.of_nat (nth 0 idx 0%nat) =? k) then 1 else 0).

(* full / zeros / ones: Expand of a scalar *)
Definition ndx_full (sh : list nat) (v : Z) : tensor Z := tab sh (fun _ => v).
