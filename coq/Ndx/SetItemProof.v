(* Ndx/SetItemProof.v — the n-D statement for assignment through a basic index: x[index] = v
   writes exactly the elements NumPy's left-to-right semantics addresses, the k-th addressed
   element (row-major over the selection) receives the k-th update value, every other element
   keeps its value and the shape is unchanged.  Rests on the n-D getitem theorem: the lowering
   scatters over getitem(ndindex(shape), index). *)
From Coq Require Import List Arith ZArith Bool Lia.
From ND Require Import Base.Tensor Base.TensorFacts Ndx.PyVal Ndx.Slice1D Ndx.Slice1DFacts Ndx.Index Ndx.GetItem
  Ndx.GetItemProof Ndx.SetItem Ndx.SetItemFacts.
Import ListNotations.
Local Open Scope nat_scope.

(* ---- the positions a Python slice selects: inside the axis, pairwise distinct ------------------ *)
Lemma sel_length s p cnt : length (sel s p cnt) = Z.to_nat cnt.
Proof. unfold sel. now rewrite map_length, seq_length. Qed.

Lemma sel_nth s p cnt i : i < Z.to_nat cnt -> nth i (sel s p cnt) 0%Z = (s + Z.of_nat i * p)%Z.
Proof.
  intros H. unfold sel. set (f := fun i0 : nat => (s + Z.of_nat i0 * p)%Z).
  replace (nth i (map f (seq 0 (Z.to_nat cnt))) 0%Z) with (f (nth i (seq 0 (Z.to_nat cnt)) 0)).
  - now rewrite seq_nth.
  - rewrite <- (map_nth f). apply nth_indep. now rewrite map_length, seq_length.
Qed.

Lemma py_slice_range n a b c i : (0 <= n < 4611686018427387904)%Z -> Slice1D.in_bounds n a b c ->
  i < length (py_slice n a b c) -> (0 <= nth i (py_slice n a b c) 0 < n)%Z.
Proof.
  intros Hn Hb Hi. rewrite <- (slice_1d n a b c Hn Hb) in *.
  destruct (norm a b c) as [q|].
  - pose proof (onnx_slice_range n q ltac:(lia)) as R. rewrite Forall_forall in R. apply R. now apply nth_In.
  - simpl in *. rewrite sel_length in Hi. rewrite sel_nth by exact Hi. lia.
Qed.

Lemma sel_inj s p cnt i j : p <> 0%Z -> i < Z.to_nat cnt -> j < Z.to_nat cnt ->
  nth i (sel s p cnt) 0%Z = nth j (sel s p cnt) 0%Z -> i = j.
Proof.
  intros Hp Hi Hj. rewrite !sel_nth by assumption. intros H.
  assert (E : ((Z.of_nat i - Z.of_nat j) * p = 0)%Z) by nia.
  apply Z.mul_eq_0 in E. destruct E as [E | E]; [lia | contradiction].
Qed.

Lemma py_slice_inj n a b c i j : Slice1D.in_bounds n a b c ->
  i < length (py_slice n a b c) -> j < length (py_slice n a b c) ->
  nth i (py_slice n a b c) 0%Z = nth j (py_slice n a b c) 0%Z -> i = j.
Proof.
  unfold py_slice. intros Hb. destruct (py_bounds n a b _) as [s e].
  rewrite sel_length. intros Hi Hj. apply sel_inj; auto. destruct Hb as [Hp _]. exact Hp.
Qed.

(* ---- NumPy's source positions: in bounds and injective on the selection ---------------------- *)
Lemma np_source_inb index : forall sh o oidx, valid index sh -> np_shape index sh = Some o -> inb o oidx ->
  inb sh (np_source index sh oidx).
Proof.
  induction index as [|a r IH]; intros sh o oidx Hv Hs Hi.
  - simpl in *. destruct sh; [|discriminate]. exact I.
  - destruct a as [z|b|x y c| | | ]; simpl in Hv; try tauto.
    + simpl in Hs. destruct sh as [|n sh']; [discriminate|]. simpl in Hv.
      destruct ((- Z.of_nat n <=? z)%Z && (z <? Z.of_nat n)%Z) eqn:R; [|discriminate].
      apply andb_true_iff in R. destruct R as [R1 R2]. apply Z.leb_le in R1. apply Z.ltb_lt in R2.
      simpl. split; [destruct (z <? 0)%Z eqn:Ez; [apply Z.ltb_lt in Ez | apply Z.ltb_ge in Ez]; lia|]. eapply IH; eauto.
    + simpl in Hs. destruct sh as [|n sh']; [discriminate|]. simpl in Hv. destruct Hv as [[Hb Hn] Hv].
      destruct (np_shape r sh') as [o1|] eqn:E; [|discriminate]. injection Hs as <-.
      destruct (inb_cons_inv _ _ _ Hi) as [i [j [-> [Hin Hj]]]]. simpl. split.
      * pose proof (py_slice_range (Z.of_nat n) x y c i ltac:(lia) Hb Hin). lia.
      * eapply IH; eauto.
    + simpl in Hs. destruct (np_shape r sh) as [o1|] eqn:E; [|discriminate]. injection Hs as <-.
      destruct (inb_cons_inv _ _ _ Hi) as [i [j [-> [Hin Hj]]]]. simpl. eapply IH; eauto.
Qed.

Lemma np_source_inj index : forall sh o i1 i2, valid index sh -> np_shape index sh = Some o ->
  inb o i1 -> inb o i2 -> np_source index sh i1 = np_source index sh i2 -> i1 = i2.
Proof.
  induction index as [|a r IH]; intros sh o i1 i2 Hv Hs H1 H2 He.
  - simpl in *. destruct sh; [|discriminate]. injection Hs as <-. destruct i1, i2; simpl in *; tauto.
  - destruct a as [z|b|x y c| | | ]; simpl in Hv; try tauto.
    + simpl in Hs. destruct sh as [|n sh']; [discriminate|]. simpl in Hv.
      destruct ((- Z.of_nat n <=? z)%Z && (z <? Z.of_nat n)%Z); [|discriminate].
      simpl in He. injection He as He. eapply IH; eauto.
    + simpl in Hs. destruct sh as [|n sh']; [discriminate|]. simpl in Hv. destruct Hv as [[Hb Hn] Hv].
      destruct (np_shape r sh') as [o1|] eqn:E; [|discriminate]. injection Hs as <-.
      destruct (inb_cons_inv _ _ _ H1) as [a1 [j1 [-> [Ha1 Hj1]]]].
      destruct (inb_cons_inv _ _ _ H2) as [a2 [j2 [-> [Ha2 Hj2]]]].
      simpl in He. injection He as He1 He2.
      pose proof (py_slice_range (Z.of_nat n) x y c a1 ltac:(lia) Hb Ha1).
      pose proof (py_slice_range (Z.of_nat n) x y c a2 ltac:(lia) Hb Ha2).
      assert (a1 = a2) by (apply (py_slice_inj (Z.of_nat n) x y c); auto; lia).
      subst. f_equal. eapply IH; eauto.
    + simpl in Hs. destruct (np_shape r sh) as [o1|] eqn:E; [|discriminate]. injection Hs as <-.
      destruct (inb_cons_inv _ _ _ H1) as [a1 [j1 [-> [Ha1 Hj1]]]].
      destruct (inb_cons_inv _ _ _ H2) as [a2 [j2 [-> [Ha2 Hj2]]]].
      simpl in He. assert (a1 = 0) by lia. assert (a2 = 0) by lia. subst. f_equal. eapply IH; eauto.
Qed.

(* ---- the first slot that addresses f(oidx) is oidx's own row-major position ------------------- *)
Lemma nodup_all_idx sh : NoDup (all_idx sh).
Proof. apply (NoDup_map_inv (ravel sh)). rewrite ravel_all_idx. apply seq_NoDup. Qed.

Lemma find_pos_map_inj (f : list nat -> list nat) l : forall p x,
  (forall a b, In a l -> In b l -> f a = f b -> a = b) -> NoDup l -> In x l ->
  exists q, find_pos (f x) (map f l) p = Some (p + q) /\ nth_error l q = Some x.
Proof.
  induction l as [|y r IH]; intros p x Hinj Hnd Hin; [destruct Hin|].
  simpl. destruct (list_nat_eqb (f y) (f x)) eqn:E.
  - apply list_nat_eqb_eq in E. assert (y = x) by (apply Hinj; simpl; auto). subst.
    exists 0. split; [f_equal; lia | reflexivity].
  - destruct Hin as [-> | Hin]; [rewrite (proj2 (list_nat_eqb_eq _ _) eq_refl) in E; discriminate|].
    inversion Hnd as [|? ? Hn Hnd']; subst.
    destruct (IH (S p) x) as [q [H1 H2]]; auto.
    { intros a b Ha Hb. apply Hinj; simpl; auto. }
    exists (S q). split; [rewrite H1; f_equal; lia | exact H2].
Qed.

Lemma nth_error_all_idx_ravel sh idx q : NoDup (all_idx sh) -> inb sh idx -> nth_error (all_idx sh) q = Some idx -> q = ravel sh idx.
Proof.
  intros Hnd Hb Hq. pose proof (nth_all_idx sh idx Hb) as Hn.
  assert (Hr : ravel sh idx < length (all_idx sh)) by (rewrite length_all_idx; now apply ravel_lt).
  assert (Hq' : q < length (all_idx sh)) by (apply nth_error_Some; congruence).
  apply (proj1 (NoDup_nth (all_idx sh) []) Hnd); auto.
  rewrite Hn. now apply nth_error_nth.
Qed.

(* THE n-D assignment theorem *)
Theorem setitem_nd {A} (t : tensor A) index (upd : nat -> A) d o :
  valid index (shape t) -> np_shape index (shape t) = Some o ->
  exists r, ndx_setitem t index upd d = Done r /\ shape r = shape t /\
    (forall oidx, inb o oidx -> get r (np_source index (shape t) oidx) d = upd (ravel o oidx)) /\
    (forall idx, inb (shape t) idx -> (forall oidx, inb o oidx -> np_source index (shape t) oidx <> idx) ->
       get r idx d = get t idx d).
Proof.
  intros Hv Hs. set (sh := shape t) in *.
  assert (Hg : ndx_getitem_user (ndindex sh) index [] = Done (tab o (fun oidx => np_source index sh oidx))).
  { rewrite (getitem_nd (ndindex sh) index [] (tab o (fun oidx => get (ndindex sh) (np_source index sh oidx) []))).
    - f_equal. apply tab_ext. intros oidx Hi. unfold ndindex. rewrite get_tab; auto. eapply np_source_inb; eauto.
    - apply wf_tab.
    - exact Hv.
    - unfold np_getitem. change (shape (ndindex sh)) with sh. now rewrite Hs. }
  unfold ndx_setitem. fold sh. rewrite Hg. eexists. split; [reflexivity|]. split; [reflexivity|].
  simpl data. set (G := map (fun oidx => np_source index sh oidx) (all_idx o)).
  split.
  - intros oidx Hi. unfold scatter. rewrite get_tab by (eapply np_source_inb; eauto).
    destruct (find_pos_map_inj (fun oidx => np_source index sh oidx) (all_idx o) 0 oidx) as [q [H1 H2]].
    + intros a b Ha Hb. apply in_all_idx in Ha, Hb. eapply np_source_inj; eauto.
    + apply nodup_all_idx.
    + now apply in_all_idx.
    + fold G in H1. rewrite H1. simpl. f_equal. apply nth_error_all_idx_ravel; auto. apply nodup_all_idx.
  - intros idx Hb Hn. apply setitem_frame; auto. unfold G. intros Hin. apply in_map_iff in Hin.
    destruct Hin as [oidx [He Hi]]. apply in_all_idx in Hi. exact (Hn oidx Hi He).
Qed.
