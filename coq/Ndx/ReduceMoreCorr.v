(* Ndx/ReduceMoreCorr.v — in-Coq correspondence for all / any / argmax / argmin / cumulative_sum on
   integer tensors (booleans are written 0/1). *)
From Coq Require Import List Arith ZArith Bool.
From ND Require Import Base.Tensor Ndx.PyVal Ndx.GetItem Ndx.Reduce Ndx.ReduceCorr Ndx.ReduceMore.
Import ListNotations.

Inductive mfn := MAll | MAny | MArgmax | MArgmin | MCumsum (initial : bool).

(* mc_axis: axis argument of all/any;  mc_axis1: the integer-or-None axis of argmax/argmin/cumulative_sum *)
Record mcase := { mc_fn : mfn; mc_shape : list nat; mc_data : list Z; mc_axis : axis_spec; mc_axis1 : option Z;
                  mc_keep : bool; mc_oshape : list nat; mc_odata : list Z }.

Definition bz (t : tensor bool) : tensor Z := tmap (fun b : bool => if b then 1%Z else 0%Z) t.

Definition model_more (c : mcase) : res (tensor Z) :=
  let t := {| shape := mc_shape c; data := mc_data c |} in
  match mc_fn c with
  | MAll => Done (bz (ndx_all t (mc_axis c) (mc_keep c)))
  | MAny => Done (bz (ndx_any t (mc_axis c) (mc_keep c)))
  | MArgmax => ndx_arg true t (mc_axis1 c) (mc_keep c)
  | MArgmin => ndx_arg false t (mc_axis1 c) (mc_keep c)
  | MCumsum ini => ndx_cumsum t (mc_axis1 c) ini
  end.

Definition mcase_ok (c : mcase) : bool :=
  match model_more c with
  | Done t => list_eqb_nat (shape t) (mc_oshape c) && list_eqb_Z (data t) (mc_odata c)
  | _ => false
  end.
