(* Ndx/ConcatFacts.v — concat along an axis: the element at position i of the axis comes from the operand whose block
   contains i, at the offset inside that block; stack = unsqueeze each operand, then concat: element j of the new axis is
   operand j.  Any number of operands, any rank. *)
From Coq Require Import List Arith ZArith Bool Lia.
From ND Require Import Base.Tensor Base.TensorFacts Ndx.PyVal Ndx.GetItem Ndx.GetItemProof Ndx.Layout Ndx.LayoutFacts Ndx.NdIndex.
Import ListNotations.
Local Open Scope nat_scope.

(* which operand, and where in it, position i of the concatenated axis comes from *)
Fixpoint locate (exts : list nat) (i : nat) : nat * nat :=
  match exts with
  | [] => (0, i)
  | n :: r => if i <? n then (0, i) else let '(k, o) := locate r (i - n) in (S k, o)
  end.

Lemma replace_nth_overflow {A} (l : list A) : forall ax v, length l <= ax -> replace_nth ax v l = l.
Proof. induction l as [|x r IH]; intros [|ax] v H; simpl in *; auto; try lia. now rewrite IH by lia. Qed.

Lemma locate_cons n r i : locate (n :: r) i = if i <? n then (0, i) else let '(k, o) := locate r (i - n) in (S k, o).
Proof. reflexivity. Qed.

Lemma shape_concat2 {A} (a b : tensor A) ax d : shape (t_concat2 a b ax d) = replace_nth ax (nth ax (shape a) 0 + nth ax (shape b) 0) (shape a).
Proof. reflexivity. Qed.

Lemma same_except_nth ax s1 s2 k : same_except ax s1 s2 = true -> k <> ax -> nth k s1 0 = nth k s2 0.
Proof.
  unfold same_except. intros H Hk. apply andb_true_iff in H as [Hl H]. apply Nat.eqb_eq in Hl.
  destruct (Nat.lt_ge_cases k (length s1)) as [Hlt|Hge].
  - rewrite forallb_forall in H. specialize (H k). rewrite in_seq in H. specialize (H ltac:(lia)).
    apply orb_true_iff in H as [H|H]; [apply Nat.eqb_eq in H; contradiction|now apply Nat.eqb_eq in H].
  - rewrite !nth_overflow by lia. reflexivity.
Qed.

Lemma concat_all_rank {A} (ts : list (tensor A)) ax d : forall r, concat_all ts ax d = Done r ->
  length (shape r) = length (shape (hd r ts)).
Proof.
  induction ts as [|t ts IH]; intros r H; [discriminate|].
  destruct ts as [|t2 ts'].
  - simpl in H. now injection H as <-.
  - change (concat_all (t :: t2 :: ts') ax d) with
      (match concat_all (t2 :: ts') ax d with
       | Done u => if same_except ax (shape t) (shape u) then Done (t_concat2 t u ax d) else TraceError ValueError
       | e => e end) in H.
    destruct (concat_all (t2 :: ts') ax d) as [u| |e]; try discriminate.
    destruct (same_except ax (shape t) (shape u)); [|discriminate]. injection H as <-.
    cbn [hd]. rewrite shape_concat2. apply length_replace.
Qed.

(* concat of a non-empty list of operands (pairwise compatible): shape and every element *)
Theorem concat_all_spec {A} (ts : list (tensor A)) ax d : forall r, concat_all ts ax d = Done r ->
  ts <> [] /\
  (forall k, k <> ax -> nth k (shape r) 0 = nth k (shape (hd r ts)) 0) /\
  (ax < length (shape (hd r ts)) -> nth ax (shape r) 0 = fold_right Nat.add 0 (map (fun t => nth ax (shape t) 0) ts)) /\
  forall idx, inb (shape r) idx -> ax < length (shape (hd r ts)) ->
    let '(k, o) := locate (map (fun t => nth ax (shape t) 0) ts) (nth ax idx 0) in
    k < length ts /\ forall dflt, get r idx d = get (nth k ts dflt) (replace_nth ax o idx) d.
Proof.
  induction ts as [|t ts IH]; intros r H; [discriminate|].
  destruct ts as [|t2 ts'].
  - simpl in H. injection H as <-. split; [discriminate|]. split; [reflexivity|]. split.
    + intros _. simpl. lia.
    + intros idx Hb Hax. cbn [map locate]. 
      pose proof (inb_nth _ _ ax Hb Hax) as Hlt. apply Nat.ltb_lt in Hlt. cbn [hd] in *. rewrite Hlt.
      split; [simpl; lia|]. intros dflt. cbn [nth]. f_equal. symmetry. clear. revert ax. induction idx as [|x l IHl]; intros [|ax]; simpl; auto. now rewrite IHl.
  - change (concat_all (t :: t2 :: ts') ax d) with
      (match concat_all (t2 :: ts') ax d with
       | Done u => if same_except ax (shape t) (shape u) then Done (t_concat2 t u ax d) else TraceError ValueError
       | e => e end) in H.
    destruct (concat_all (t2 :: ts') ax d) as [u| |e] eqn:E; try discriminate.
    destruct (same_except ax (shape t) (shape u)) eqn:Es; [|discriminate]. injection H as <-.
    destruct (IH u eq_refl) as (_ & Hk & Hs & He).
    split; [discriminate|]. cbn [hd] in *. split; [|split].
    + intros k Hne. rewrite shape_concat2. destruct (Nat.lt_ge_cases ax (length (shape t))) as [Hl|Hl].
      * rewrite nth_replace_other' by exact Hne. reflexivity.
      * now rewrite replace_nth_overflow by exact Hl.
    + intros Hax. rewrite shape_concat2, nth_replace_same by exact Hax. cbn [map fold_right]. f_equal.
      apply Hs. unfold same_except in Es. apply andb_true_iff in Es as [El _]. apply Nat.eqb_eq in El.
      pose proof (concat_all_rank (t2 :: ts') ax d u E) as Hru. cbn [hd] in Hru.
      lia.
    + intros idx Hb Hax.
      change (map (fun t0 : tensor A => nth ax (shape t0) 0) (t :: t2 :: ts')) with (nth ax (shape t) 0 :: map (fun t0 : tensor A => nth ax (shape t0) 0) (t2 :: ts')).
      rewrite locate_cons.
      rewrite shape_concat2 in Hb.
      unfold t_concat2. rewrite get_tab by exact Hb.
      destruct (nth ax idx 0 <? nth ax (shape t) 0) eqn:Elt.
      * split; [simpl; lia|]. intros dflt. cbn [nth]. f_equal. symmetry. clear. revert ax. induction idx as [|x l IHl]; intros [|ax]; simpl; auto. now rewrite IHl.
      * apply Nat.ltb_ge in Elt.
        assert (Hax_u : ax < length (shape t2)).
        { unfold same_except in Es. apply andb_true_iff in Es as [El _]. apply Nat.eqb_eq in El.
          pose proof (concat_all_rank (t2 :: ts') ax d u E) as Hru. cbn [hd] in Hru.
          lia. }
        set (i' := nth ax idx 0 - nth ax (shape t) 0).
        assert (Hb' : inb (shape u) (replace_nth ax i' idx)).
        { apply (inb_replace (shape u) idx ax (nth ax (shape t) 0 + nth ax (shape u) 0)).
          - (* the concatenated shape is u's shape with the axis extent replaced *)
            assert (Hsh : replace_nth ax (nth ax (shape t) 0 + nth ax (shape u) 0) (shape u) = replace_nth ax (nth ax (shape t) 0 + nth ax (shape u) 0) (shape t)).
            { assert (El : length (shape t) = length (shape u)).
              { pose proof Es as Es'. unfold same_except in Es'. apply andb_true_iff in Es' as [El' _]. now apply Nat.eqb_eq in El'. }
              apply nth_ext with (d := 0) (d' := 0); [now rewrite !length_replace|].
              intros k Hk'. rewrite length_replace in Hk'.
              destruct (Nat.eq_dec k ax) as [->|Hne]; [rewrite !nth_replace_same by lia; reflexivity|].
              rewrite !nth_replace_other' by exact Hne. symmetry. exact (same_except_nth ax _ _ k Es Hne). }
            rewrite Hsh. exact Hb.
          - intros Hlu. pose proof (inb_nth _ _ ax Hb ltac:(rewrite length_replace; lia)) as Hlt.
            rewrite nth_replace_same in Hlt by lia. unfold i'. lia. }
        specialize (He (replace_nth ax i' idx) Hb' Hax_u).
        rewrite nth_replace_same in He by (rewrite (inb_length _ _ Hb), length_replace; lia).
        fold i'. destruct (locate (map (fun t0 => nth ax (shape t0) 0) (t2 :: ts')) i') as [k o] eqn:El.
        destruct He as [Hkl He2]. cbv beta iota zeta. split; [simpl in *; lia|]. intros dflt. cbn [nth]. rewrite (He2 dflt).
        assert (RR : forall (l : list nat) a u v, replace_nth a u (replace_nth a v l) = replace_nth a u l) by (induction l as [|x l0 IHl0]; intros [|a0] u0 v0; simpl; auto; now rewrite IHl0).
        now rewrite RR.
Qed.

(* ---- stack: every operand is unsqueezed at the new axis (extent 1), then concatenated there ------------------- *)
Lemma locate_ones n : forall i, i < n -> locate (repeat 1 n) i = (i, 0).
Proof.
  induction n as [|n IH]; intros i Hi; [lia|]. cbn [repeat]. rewrite locate_cons.
  destruct (Nat.ltb_spec i 1) as [H|H].
  - replace i with 0 by lia. reflexivity.
  - rewrite IH by lia. f_equal. lia.
Qed.

Lemma unsq_index_single : forall idx k ax, k <= ax -> unsq_index k [ax] idx = remove_nth (ax - k) idx.
Proof.
  induction idx as [|x l IH]; intros k ax Hk; simpl; [destruct (ax - k); reflexivity|].
  destruct (Nat.eqb_spec k ax) as [->|Hne]; simpl.
  - rewrite Nat.sub_diag. cbn [remove_nth].
    (* no further position equals ax *)
    assert (G : forall l' k', ax < k' -> unsq_index k' [ax] l' = l').
    { induction l' as [|y l'' IH']; intros k' Hk'; simpl; auto. destruct (Nat.eqb_spec k' ax); [lia|]. simpl. f_equal. apply IH'. lia. }
    apply G. lia.
  - replace (ax - k) with (S (ax - S k)) by lia. cbn [remove_nth]. f_equal. apply IH. lia.
Qed.

Lemma get_unsqueeze_single {A} (t : tensor A) ax idx d : ax <= length (shape t) ->
  inb (shape (t_unsqueeze t [ax] d)) idx -> get (t_unsqueeze t [ax] d) idx d = get t (remove_nth ax idx) d.
Proof.
  intros Hax Hb. unfold t_unsqueeze in *. cbn [shape tab] in Hb. rewrite get_tab by exact Hb.
  rewrite unsq_index_single by lia. now rewrite Nat.sub_0_r.
Qed.
