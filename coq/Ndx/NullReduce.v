(* Ndx/NullReduce.v — reductions over nullable arrays.  ndonnx replaces the values under a null
   by a fill constant and hands the filled tensor to the ONNX reduction:
       x = where(x.null, FILL, x.values); Reduce*(x, axes)
   so the result can depend on the payload under a null only through FILL (payload
   independence, for ANY reduction), and when FILL is neutral for the reduction the nulls are
   simply skipped.  Which FILL each function uses is extracted from the source on every run
   (T-src, GenNullFill.v) and compared with `expected_null_fills`. *)
From Coq Require Import List ZArith Bool String Lia.
Import ListNotations.

Inductive fillk := FInt (z : Z) | FBool (b : bool) | FTypeMin | FTypeMax.
Definition fillk_eqb (a b : fillk) : bool :=
  match a, b with
  | FInt x, FInt y => Z.eqb x y
  | FBool x, FBool y => Bool.eqb x y
  | FTypeMin, FTypeMin | FTypeMax, FTypeMax => true
  | _, _ => false
  end.

(* (function, [(dtype class tested by isinstance, fill)]) as the source reads today *)
Definition expected_null_fills : list (string * list (string * fillk)) :=
  [("sum", [("NullableNumerical", FInt 0)]);
   ("prod", [("NullableNumerical", FInt 1)]);
   ("min", [("NullableFloating", FTypeMax); ("NullableIntegral", FTypeMax)]);
   ("max", [("NullableFloating", FTypeMin); ("NullableIntegral", FTypeMin)]);
   ("all", [("NullableCore", FBool true)]);
   ("any", [("NullableCore", FBool false)])]%string.

Definition fills_eqb (a b : list (string * list (string * fillk))) : bool :=
  (fix go a b := match a, b with
     | [], [] => true
     | (f, l) :: a', (g, m) :: b' =>
         String.eqb f g &&
         (fix go2 l m := match l, m with
            | [], [] => true
            | (c, k) :: l', (c', k') :: m' => String.eqb c c' && fillk_eqb k k' && go2 l' m'
            | _, _ => false end) l m && go a' b'
     | _, _ => false end) a b.

Section Fill.
Context {A : Type}.

(* where(null, fill, values), element by element *)
Fixpoint fill_nulls (fill : A) (vals : list A) (nulls : list bool) : list A :=
  match vals, nulls with
  | v :: vs, m :: ms => (if m then fill else v) :: fill_nulls fill vs ms
  | _, _ => []
  end.

Fixpoint non_null (vals : list A) (nulls : list bool) : list A :=
  match vals, nulls with
  | v :: vs, m :: ms => if m then non_null vs ms else v :: non_null vs ms
  | _, _ => []
  end.

(* two value lists that agree wherever the element is not null *)
Fixpoint agree (vals vals' : list A) (nulls : list bool) : Prop :=
  match vals, vals', nulls with
  | v :: vs, v' :: vs', m :: ms => (m = false -> v = v') /\ agree vs vs' ms
  | [], [], _ => True
  | _, _, [] => True
  | _, _, _ => False
  end.

(* PAYLOAD INDEPENDENCE: whatever the reduction does afterwards, it is handed the same tensor *)
Theorem fill_payload_independent fill vals vals' nulls :
  List.length vals = List.length vals' -> agree vals vals' nulls -> fill_nulls fill vals nulls = fill_nulls fill vals' nulls.
Proof.
  revert vals' nulls. induction vals as [|v vs IH]; intros [|v' vs'] [|m ms] Hl H; simpl in *; try discriminate; auto.
  destruct H as [H1 H2]. f_equal.
  - destruct m; auto.
  - apply IH; auto.
Qed.

(* NEUTRAL FILL: a reduction (fold of op from e) over the filled values is the reduction over the
   non-null values only, as soon as the fill is a left-neutral element of op *)
Variable op : A -> A -> A.
Theorem fill_neutral_skips_nulls fill e vals nulls :
  (forall x, op fill x = x) -> List.length vals = List.length nulls ->
  fold_right op e (fill_nulls fill vals nulls) = fold_right op e (non_null vals nulls).
Proof.
  intros Hn. revert nulls. induction vals as [|v vs IH]; intros [|m ms] Hl; simpl in *; try discriminate; auto.
  destruct m; simpl; rewrite IH by lia; auto.
Qed.
End Fill.

(* the fills of sum / prod / all / any / min / max are neutral (min and max: on values inside the type's range) *)
Lemma sum_fill_neutral x : (0 + x = x)%Z. Proof. lia. Qed.
Lemma prod_fill_neutral x : (1 * x = x)%Z. Proof. lia. Qed.
Lemma all_fill_neutral x : true && x = x. Proof. reflexivity. Qed.
Lemma any_fill_neutral x : false || x = x. Proof. reflexivity. Qed.
Lemma min_fill_neutral hi x : (x <= hi -> Z.min hi x = x)%Z. Proof. lia. Qed.
Lemma max_fill_neutral lo x : (lo <= x -> Z.max lo x = x)%Z. Proof. lia. Qed.

Theorem sum_skips_nulls vals nulls : List.length vals = List.length nulls ->
  fold_right Z.add 0%Z (fill_nulls 0%Z vals nulls) = fold_right Z.add 0%Z (non_null vals nulls).
Proof. apply fill_neutral_skips_nulls. exact sum_fill_neutral. Qed.
Theorem prod_skips_nulls vals nulls : List.length vals = List.length nulls ->
  fold_right Z.mul 1%Z (fill_nulls 1%Z vals nulls) = fold_right Z.mul 1%Z (non_null vals nulls).
Proof. apply fill_neutral_skips_nulls. exact prod_fill_neutral. Qed.
Theorem all_skips_nulls vals nulls : List.length vals = List.length nulls ->
  fold_right andb true (fill_nulls true vals nulls) = fold_right andb true (non_null vals nulls).
Proof. apply fill_neutral_skips_nulls. exact all_fill_neutral. Qed.
Theorem any_skips_nulls vals nulls : List.length vals = List.length nulls ->
  fold_right orb false (fill_nulls false vals nulls) = fold_right orb false (non_null vals nulls).
Proof. apply fill_neutral_skips_nulls. exact any_fill_neutral. Qed.

(* min / max: the fill is the largest / smallest value of the type; on in-range values it is neutral,
   and an all-null (or empty) reduction returns the fill itself *)
Theorem min_skips_nulls hi vals nulls : List.length vals = List.length nulls -> Forall (fun x => x <= hi)%Z vals ->
  fold_right Z.min hi (fill_nulls hi vals nulls) = fold_right Z.min hi (non_null vals nulls).
Proof.
  revert nulls. induction vals as [|v vs IH]; intros [|m ms] Hl Hf; simpl in *; try discriminate; auto.
  inversion Hf as [|? ? Hv Hvs]; subst. destruct m; simpl; rewrite IH by (auto; lia); auto.
  assert (H : (fold_right Z.min hi (non_null vs ms) <= hi)%Z).
  { clear. revert ms. induction vs as [|a r IH]; intros [|m ms]; simpl; try lia. destruct m; simpl; auto. specialize (IH ms). lia. }
  lia.
Qed.
Theorem max_skips_nulls lo vals nulls : List.length vals = List.length nulls -> Forall (fun x => lo <= x)%Z vals ->
  fold_right Z.max lo (fill_nulls lo vals nulls) = fold_right Z.max lo (non_null vals nulls).
Proof.
  revert nulls. induction vals as [|v vs IH]; intros [|m ms] Hl Hf; simpl in *; try discriminate; auto.
  inversion Hf as [|? ? Hv Hvs]; subst. destruct m; simpl; rewrite IH by (auto; lia); auto.
  assert (H : (lo <= fold_right Z.max lo (non_null vs ms))%Z).
  { clear. revert ms. induction vs as [|a r IH]; intros [|m ms]; simpl; try lia. destruct m; simpl; auto. specialize (IH ms). lia. }
  lia.
Qed.

Example fill_ex : fill_nulls 0%Z [5; 7; 9]%Z [false; true; false] = [5; 0; 9]%Z /\ non_null [5; 7; 9]%Z [false; true; false] = [5; 9]%Z.
Proof. split; reflexivity. Qed.
