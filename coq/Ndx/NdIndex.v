(* Ndx/NdIndex.v — the index grid `ndindex(shape)` as ndonnx builds it (one Range per axis, Unsqueeze to rank r on all
   other axes, Expand to the shape, Unsqueeze a last axis, Concat along it) is the coordinate tensor:
   grid[i_0, ..., i_{r-1}, k] = i_k.  Underlies item assignment (ScatterND indices) and nonzero. *)
From Coq Require Import List Arith ZArith Bool Lia.
From ND Require Import Base.Tensor Base.TensorFacts Ndx.PyVal Ndx.Slice1D Ndx.Index Ndx.GetItem Ndx.GetItemProof Ndx.Layout Ndx.LayoutFacts.
Import ListNotations.
Local Open Scope nat_scope.

(* ---- as written in _opset_extensions.ndindex (to_reverse = [], axes_permutation = None) --------------------- *)
Definition range_t (n : nat) : tensor nat := tab [n] (fun idx => nth 0 idx 0).
Definition other_axes (r i : nat) : list nat := filter (fun j => negb (Nat.eqb i j)) (seq 0 r).
Definition fit (r i n : nat) : tensor nat := t_unsqueeze (range_t n) (other_axes r i) 0.
Definition expanded (sh : list nat) (i : nat) : tensor nat := t_expand (fit (length sh) i (nth i sh 0)) sh 0.
Definition with_last (t : tensor nat) : tensor nat := t_unsqueeze t [length (shape t)] 0.
Definition ndindex_lowered (sh : list nat) : res (tensor nat) :=
  concat_all (map (fun i => with_last (expanded sh i)) (seq 0 (length sh))) (length sh) 0.

(* the coordinate tensor *)
Definition coord_grid (sh : list nat) : tensor nat := tab (sh ++ [length sh]) (fun idx => nth (nth (length sh) idx 0) idx 0).

(* ---- Unsqueeze on all axes but one ----------------------------------------------------------------------------- *)
Definition memb' (k : nat) (l : list nat) : bool := existsb (Nat.eqb k) l.

Lemma other_axes_mem r i j : memb' j (other_axes r i) = (j <? r) && negb (Nat.eqb i j).
Proof.
  unfold memb', other_axes.
  destruct ((j <? r) && negb (i =? j)) eqn:E.
  - apply andb_true_iff in E as [E1 E2]. apply Nat.ltb_lt in E1. apply existsb_exists. exists j. split; [|apply Nat.eqb_refl].
    apply filter_In. split; [apply in_seq; lia|exact E2].
  - apply not_true_is_false. intros H. apply existsb_exists in H as [x [Hin Hx]]. apply Nat.eqb_eq in Hx. subst x.
    apply filter_In in Hin as [Hs Hn]. apply in_seq in Hs. rewrite Hn in E.
    assert (j <? r = true) by (apply Nat.ltb_lt; lia). rewrite H in E. discriminate.
Qed.

Lemma other_axes_length r i : i < r -> length (other_axes r i) = r - 1.
Proof.
  intros Hi. unfold other_axes.
  assert (G : forall s m, s <= i < s + m -> length (filter (fun j => negb (i =? j)) (seq s m)) = m - 1).
  { intros s m. revert s. induction m as [|m IH]; intros s H; [lia|]. simpl.
    destruct (Nat.eqb_spec i s) as [->|Hne]; simpl.
    - assert (F : forall s' m', s < s' -> length (filter (fun j => negb (s =? j)) (seq s' m')) = m').
      { intros s' m'. revert s'. induction m' as [|m' IH']; intros s' Hs; simpl; auto.
        destruct (Nat.eqb_spec s s'); [lia|]. simpl. f_equal. apply IH'. lia. }
      rewrite F by lia. lia.
    - rewrite IH by lia. lia. }
  apply G. lia.
Qed.

(* shape: 1 everywhere, n at position i *)
Lemma unsq_shape_after axes : forall m k, (forall j, k <= j < k + m -> memb' j axes = true) ->
  unsq_shape k m axes [] = map (fun _ => 1) (seq k m).
Proof.
  induction m as [|m IH]; intros k H; simpl; [reflexivity|].
  fold (memb' k axes). rewrite H by lia. f_equal. apply IH. intros j Hj. apply H. lia.
Qed.

Lemma unsq_shape_one axes n i : forall m k, k <= i < k + m ->
  (forall j, k <= j < k + m -> memb' j axes = negb (Nat.eqb i j)) ->
  unsq_shape k m axes [n] = map (fun p => if Nat.eqb i p then n else 1) (seq k m).
Proof.
  induction m as [|m IH]; intros k Hi H; [lia|]. simpl.
  fold (memb' k axes). rewrite H by lia.
  destruct (Nat.eqb_spec i k) as [->|Hne]; simpl.
  - f_equal. rewrite unsq_shape_after.
    + apply map_ext_in. intros p Hp. apply in_seq in Hp. destruct (Nat.eqb_spec k p); [lia|reflexivity].
    + intros j Hj. rewrite H by lia. destruct (Nat.eqb_spec k j); [lia|reflexivity].
  - f_equal. apply IH; [lia|]. intros j Hj. apply H. lia.
Qed.

(* index: only coordinate i survives *)
Lemma unsq_index_none axes : forall idx k, (forall j, k <= j < k + length idx -> memb' j axes = true) -> unsq_index k axes idx = [].
Proof.
  induction idx as [|x r IH]; intros k H; simpl; [reflexivity|].
  fold (memb' k axes). rewrite H by (simpl; lia). apply IH. intros j Hj. apply H. simpl. lia.
Qed.

Lemma unsq_index_one axes i : forall idx k, k <= i < k + length idx ->
  (forall j, k <= j < k + length idx -> memb' j axes = negb (Nat.eqb i j)) ->
  unsq_index k axes idx = [nth (i - k) idx 0].
Proof.
  induction idx as [|x r IH]; intros k Hi H; simpl in *; [lia|].
  fold (memb' k axes). rewrite H by lia.
  destruct (Nat.eqb_spec i k) as [->|Hne]; simpl.
  - rewrite Nat.sub_diag. f_equal. apply unsq_index_none. intros j Hj. rewrite H by lia. destruct (Nat.eqb_spec k j); [lia|reflexivity].
  - rewrite IH; [|lia|intros j Hj; apply H; lia]. replace (i - k) with (S (i - S k)) by lia. reflexivity.
Qed.

Definition unit_shape (r i n : nat) : list nat := map (fun p => if Nat.eqb i p then n else 1) (seq 0 r).

Lemma fit_shape r i n : i < r -> shape (fit r i n) = unit_shape r i n.
Proof.
  intros Hi. unfold fit, t_unsqueeze, range_t. cbn [shape tab length]. rewrite other_axes_length by exact Hi.
  replace (1 + (r - 1)) with r by lia.
  apply unsq_shape_one; [lia|]. intros j Hj. rewrite other_axes_mem.
  assert (j <? r = true) by (apply Nat.ltb_lt; lia). now rewrite H.
Qed.

Lemma unit_shape_length r i n : length (unit_shape r i n) = r.
Proof. unfold unit_shape. now rewrite map_length, seq_length. Qed.
Lemma nth_map_seq0 {A} (f : nat -> A) n k d : k < n -> nth k (map f (seq 0 n)) d = f k.
Proof.
  intros H. rewrite (nth_indep _ d (f 0)) by (rewrite map_length, seq_length; exact H).
  rewrite map_nth. f_equal. rewrite seq_nth; lia.
Qed.
Lemma unit_shape_nth r i n p : p < r -> nth p (unit_shape r i n) 0 = if Nat.eqb i p then n else 1.
Proof. intros Hp. unfold unit_shape. now rewrite nth_map_seq0. Qed.

Lemma inb_unit_shape r i n idx : i < r -> length idx = r -> nth i idx 0 < n -> (forall p, p < r -> p <> i -> nth p idx 0 = 0) ->
  inb (unit_shape r i n) idx.
Proof.
  intros Hi Hl Hn Hz.
  assert (G : forall (sh idx : list nat), length idx = length sh -> (forall p, p < length sh -> nth p idx 0 < nth p sh 0) -> inb sh idx).
  { induction sh as [|x s IH]; intros [|y l] Hlen Hp; simpl in *; try lia; auto.
    split; [exact (Hp 0 (Nat.lt_0_succ _))|]. apply IH; [lia|]. intros p Hpl. apply (Hp (S p)). lia. }
  apply G; [now rewrite unit_shape_length|]. rewrite unit_shape_length. intros p Hp. rewrite unit_shape_nth by exact Hp.
  destruct (Nat.eqb_spec i p) as [<-|Hne]; [exact Hn|]. rewrite Hz; auto.
Qed.

Lemma get_fit r i n idx : i < r -> length idx = r -> nth i idx 0 < n -> (forall p, p < r -> p <> i -> nth p idx 0 = 0) ->
  get (fit r i n) idx 0 = nth i idx 0.
Proof.
  intros Hi Hl Hn Hz. pose proof (fit_shape r i n Hi) as Hs.
  unfold fit, t_unsqueeze in *. cbn [shape tab] in Hs.
  rewrite Hs. rewrite get_tab by (apply inb_unit_shape; assumption).
  rewrite (unsq_index_one _ i) by (rewrite ?Hl; try lia; intros j Hj; rewrite other_axes_mem;
                                    assert (j <? r = true) by (apply Nat.ltb_lt; lia); now rewrite H).
  rewrite Nat.sub_0_r. unfold range_t. rewrite get_tab by (simpl; lia). reflexivity.
Qed.

(* ---- Expand to the shape: coordinate i everywhere ------------------------------------------------------------------ *)
Lemma map_enumerate {A B} (F : nat * A -> B) (d : A) (l : list A) : forall k,
  map F (enumerate_from k l) = map (fun q => F (k + q, nth q l d)) (seq 0 (length l)).
Proof.
  induction l as [|x r IH]; intros k; simpl; [reflexivity|]. f_equal.
  - now rewrite Nat.add_0_r.
  - rewrite IH, <- seq_shift, map_map. apply map_ext. intros q. now replace (S k + q) with (k + S q) by lia.
Qed.

Lemma expanded_spec sh i : i < length sh -> expanded sh i = tab sh (fun idx => nth i idx 0).
Proof.
  intros Hi. unfold expanded, t_expand. set (r := length sh). set (n := nth i sh 0).
  assert (Hr : rank (fit r i n) = r) by (unfold rank; rewrite fit_shape by exact Hi; apply unit_shape_length).
  rewrite Hr, Nat.sub_diag. apply tab_ext. intros idx Hb.
  rewrite fit_shape by exact Hi.
  rewrite (map_enumerate _ 0), unit_shape_length. cbn [Nat.add fst snd].
  pose proof (inb_length _ _ Hb) as Hl. pose proof (inb_nth _ _ i Hb Hi) as Hn. fold n in Hn. fold r in Hl.
  set (src := map (fun q => if Nat.eqb (nth q (unit_shape r i n) 0) 1 then 0 else nth q idx 0) (seq 0 r)).
  assert (Hsrc : forall p, p < r -> nth p src 0 = if Nat.eqb i p then (if Nat.eqb n 1 then 0 else nth i idx 0) else 0).
  { intros p Hp. unfold src. rewrite nth_map_seq0 by exact Hp. rewrite unit_shape_nth by exact Hp.
    destruct (Nat.eqb_spec i p) as [<-|Hne]; [reflexivity|]. reflexivity. }
  assert (Hi_src : nth i src 0 = nth i idx 0).
  { rewrite Hsrc by exact Hi. rewrite Nat.eqb_refl. destruct (Nat.eqb_spec n 1) as [E|_]; [lia|reflexivity]. }
  rewrite get_fit.
  - exact Hi_src.
  - exact Hi.
  - unfold src. now rewrite map_length, seq_length.
  - rewrite Hi_src. exact Hn.
  - intros p Hp Hne. rewrite Hsrc by exact Hp. destruct (Nat.eqb_spec i p); [congruence|reflexivity].
Qed.

(* ---- Unsqueeze a last axis ------------------------------------------------------------------------------------------ *)
Lemma unsq_shape_last sh : forall k, unsq_shape k (length sh + 1) [k + length sh] sh = sh ++ [1].
Proof.
  induction sh as [|x s IH]; intros k; simpl.
  - rewrite Nat.add_0_r, Nat.eqb_refl. reflexivity.
  - destruct (Nat.eqb_spec k (k + S (length s))) as [E|_]; [lia|]. simpl. f_equal.
    replace (k + S (length s)) with (S k + length s) by lia. apply IH.
Qed.

Lemma unsq_index_last : forall idx k n, length idx = n + 1 -> unsq_index k [k + n] idx = removelast idx.
Proof.
  induction idx as [|x s IH]; intros k n H; simpl in *; [lia|].
  destruct n as [|n].
  - rewrite Nat.add_0_r, Nat.eqb_refl. simpl. destruct s; [reflexivity|simpl in H; lia].
  - destruct (Nat.eqb_spec k (k + S n)) as [E|_]; [lia|]. simpl.
    replace (k + S n) with (S k + n) by lia. rewrite (IH (S k) n) by lia.
    destruct s; [simpl in H; lia|reflexivity].
Qed.

Lemma with_last_tab sh (f : list nat -> nat) : with_last (tab sh f) = tab (sh ++ [1]) (fun idx => f (removelast idx)).
Proof.
  unfold with_last, t_unsqueeze. cbn [shape tab length].
  pose proof (unsq_shape_last sh 0) as Hs. simpl in Hs. rewrite Hs.
  apply tab_ext. intros idx Hb.
  pose proof (inb_length _ _ Hb) as Hl. rewrite app_length in Hl. simpl in Hl.
  pose proof (unsq_index_last idx 0 (length sh) Hl) as Hi. simpl in Hi. rewrite Hi.
  apply get_tab.
  (* removelast idx is in bounds of sh *)
  clear - Hb. revert idx Hb. induction sh as [|x s IH]; intros idx Hb; simpl in *.
  - destruct idx as [|a [|b l]]; simpl in *; tauto.
  - destruct idx as [|a l]; [tauto|]. destruct Hb as [Ha Hb]. destruct l as [|b l'].
    + destruct s; simpl in Hb; tauto.
    + simpl. split; [exact Ha|]. apply (IH (b :: l')). exact Hb.
Qed.

(* ---- Concat along the last axis ------------------------------------------------------------------------------------------ *)
Lemma replace_last {A} (sh : list A) a v : replace_nth (length sh) v (sh ++ [a]) = sh ++ [v].
Proof. induction sh as [|x s IH]; simpl; [reflexivity|]. now rewrite IH. Qed.
Lemma nth_last {A} (sh : list A) a d : nth (length sh) (sh ++ [a]) d = a.
Proof. induction sh as [|x s IH]; simpl; auto. Qed.
Lemma nth_removelast {A} (l : list A) p d : S p < length l -> nth p (removelast l) d = nth p l d.
Proof.
  revert p. induction l as [|x s IH]; intros p H; simpl in *; [lia|].
  destruct s as [|y s']; [simpl in H; lia|]. destruct p; [reflexivity|]. apply IH. simpl in *. lia.
Qed.
Lemma nth_replace_other' {A} a b (v : A) l d : a <> b -> nth a (replace_nth b v l) d = nth a l d.
Proof. revert a b; induction l as [|x r IH]; intros a b H; destruct a, b; simpl; auto; try lia; try (apply IH; lia). Qed.

Lemma same_except_last sh a b : same_except (length sh) (sh ++ [a]) (sh ++ [b]) = true.
Proof.
  unfold same_except. rewrite !app_length, Nat.eqb_refl. simpl.
  apply forallb_forall. intros k Hk. apply in_seq in Hk. simpl in Hk.
  destruct (Nat.eqb_spec k (length sh)) as [->|Hne]; [reflexivity|]. simpl.
  rewrite !app_nth1 by lia. apply Nat.eqb_refl.
Qed.

Definition T (sh : list nat) (i : nat) : tensor nat := with_last (expanded sh i).

Lemma T_spec sh i : i < length sh -> T sh i = tab (sh ++ [1]) (fun idx => nth i idx 0).
Proof.
  intros Hi. unfold T. rewrite expanded_spec by exact Hi. rewrite with_last_tab.
  apply tab_ext. intros idx Hb. apply nth_removelast.
  pose proof (inb_length _ _ Hb) as Hl. rewrite app_length in Hl. simpl in Hl. lia.
Qed.

Lemma inb_last sh n idx : inb (sh ++ [n]) idx -> nth (length sh) idx 0 < n.
Proof.
  intros Hb. pose proof (inb_nth (sh ++ [n]) idx (length sh) Hb) as H. rewrite nth_last in H. apply H.
  rewrite app_length. simpl. lia.
Qed.

Lemma inb_set_last sh n n' idx c : inb (sh ++ [n]) idx -> c < n' -> inb (sh ++ [n']) (replace_nth (length sh) c idx).
Proof.
  intros Hb Hc. apply (inb_replace (sh ++ [n']) idx (length sh) n).
  - now rewrite replace_last.
  - intros _. now rewrite nth_last.
Qed.

Lemma concat_grid sh : forall m s, 1 <= m -> s + m <= length sh ->
  concat_all (map (T sh) (seq s m)) (length sh) 0 = Done (tab (sh ++ [m]) (fun idx => nth (s + nth (length sh) idx 0) idx 0)).
Proof.
  set (r := length sh).
  induction m as [|m IH]; intros s Hm Hs; [lia|].
  destruct m as [|m].
  - (* a single tensor *)
    simpl. f_equal. rewrite T_spec by (fold r; lia). apply tab_ext. intros idx Hb.
    pose proof (inb_last _ _ _ Hb) as Hl. fold r in Hl. replace (nth r idx 0) with 0 by lia. now rewrite Nat.add_0_r.
  - cbn [seq map]. cbn [seq map] in IH. 
    change (concat_all (T sh s :: T sh (S s) :: map (T sh) (seq (S (S s)) m)) r 0)
      with (match concat_all (T sh (S s) :: map (T sh) (seq (S (S s)) m)) r 0 with
            | Done u => if same_except r (shape (T sh s)) (shape u) then Done (t_concat2 (T sh s) u r 0) else TraceError ValueError
            | e => e end).
    rewrite (IH (S s)) by lia.
    rewrite T_spec by (fold r; lia). cbn [shape tab].
    assert (NL : forall a, nth r (sh ++ [a]) 0 = a) by (intros; apply nth_last).
    assert (RL : forall a v, replace_nth r v (sh ++ [a]) = sh ++ [v]) by (intros; apply replace_last).
    assert (SE : forall a b, same_except r (sh ++ [a]) (sh ++ [b]) = true) by (intros; apply same_except_last).
    rewrite SE. f_equal.
    unfold t_concat2. cbn [shape tab]. rewrite !NL, RL.
    apply tab_ext. intros idx Hb.
    pose proof (inb_last _ _ _ Hb) as Hl. fold r in Hl.
    destruct (Nat.ltb_spec (nth r idx 0) 1) as [H0|H1].
    + rewrite get_tab.
      * replace (nth r idx 0) with 0 by lia. now rewrite Nat.add_0_r.
      * replace idx with (replace_nth r (nth r idx 0) idx) by (clear; generalize r; induction idx as [|x l IHl]; intros [|k]; simpl; auto; now rewrite IHl).
        unfold r in *. apply (inb_set_last sh (1 + S m)); [exact Hb|lia].
    + rewrite get_tab by (unfold r in *; apply (inb_set_last sh (1 + S m)); [exact Hb|lia]).
      pose proof (inb_length _ _ Hb) as Hlen. rewrite app_length in Hlen. simpl in Hlen. fold r in Hlen.
      rewrite nth_replace_same by lia.
      rewrite nth_replace_other' by lia. f_equal. lia.
Qed.

(* ---- the grid ndonnx builds IS the coordinate tensor, for every shape of rank >= 1 ----------------------------------------- *)
Theorem ndindex_lowered_spec sh : sh <> [] -> ndindex_lowered sh = Done (coord_grid sh).
Proof.
  intros Hne. unfold ndindex_lowered, coord_grid.
  assert (Hr : 1 <= length sh) by (destruct sh; [congruence|simpl; lia]).
  exact (concat_grid sh (length sh) 0 Hr (Nat.le_refl _)).
Qed.

(* the rows of the grid are the multi-indices themselves: row idx = idx (the abstract `ndindex` of Ndx/SetItem.v and the
   `all_idx` rows of Ndx/NonzeroFacts.v) *)
Lemma inb_app_last sh n idx k : inb sh idx -> k < n -> inb (sh ++ [n]) (idx ++ [k]).
Proof.
  revert idx. induction sh as [|x s IH]; intros [|a l] Hb Hk; simpl in *; try tauto.
  destruct Hb as [Ha Hb]. split; [exact Ha|]. now apply IH.
Qed.

Theorem grid_rows_are_the_indices sh idx : inb sh idx ->
  map (fun k => get (coord_grid sh) (idx ++ [k]) 0) (seq 0 (length sh)) = idx.
Proof.
  intros Hb. pose proof (inb_length _ _ Hb) as Hl.
  transitivity (map (fun k => nth k idx 0) (seq 0 (length idx))); [|apply map_nth_seq]. rewrite Hl. apply map_ext_in. intros k Hk. apply in_seq in Hk. simpl in Hk.
  unfold coord_grid. rewrite get_tab by (apply inb_app_last; [exact Hb|lia]).
  rewrite <- Hl at 1. rewrite nth_last. apply app_nth1. lia.
Qed.
