(* Ndx/MaskIndex.v — x[mask] with a boolean mask array of rank k >= 1 as ndonnx lowers it (getitem_null: Reshape to
   [-1] ++ shape[k:], mask flattened, Compress along axis 0) selects exactly the elements NumPy selects, in NumPy's
   order and shape: one block x[idx, ...] per true position idx of the mask, row-major. *)
From Coq Require Import List Arith ZArith Bool Lia.
From ND Require Import Base.Tensor Base.TensorFacts Ndx.PyVal Ndx.GetItem.
Import ListNotations.
Local Open Scope nat_scope.

Definition rank' {A} (t : tensor A) : nat := length (shape t).

(* ---- the lowering ---------------------------------------------------------------------------------------------------- *)
Definition blocks {A} (bs : nat) (l : list A) (n : nat) : list (list A) := map (fun i => firstn bs (skipn (i * bs) l)) (seq 0 n).
(* ONNX Compress along axis 0: the rows whose condition is true (a shorter condition ignores the remaining rows) *)
Definition compress_rows {A} (rows : list (list A)) (cond : list bool) : list (list A) :=
  map fst (filter (fun p => snd p) (combine rows cond)).

Definition ndx_getitem_mask {A} (t : tensor A) (m : tensor bool) : res (tensor A) :=
  let k := rank' m in
  if rank' t <? k then TraceError IndexError else
  let rest := skipn k (shape t) in
  let bs := size rest in
  if Nat.eqb bs 0 && (2 <=? k) then RuntimeError          (* Reshape cannot infer the -1 when the block is empty *)
  else
    let sel := compress_rows (blocks bs (data t) (size (firstn k (shape t)))) (data m) in
    Done {| shape := length sel :: rest; data := concat sel |}.

(* ---- NumPy ------------------------------------------------------------------------------------------------------------- *)
Definition hits (m : tensor bool) : list (list nat) := filter (fun idx => get m idx false) (all_idx (shape m)).
Definition np_getitem_mask {A} (t : tensor A) (m : tensor bool) (d : A) : tensor A :=
  let rest := skipn (rank' m) (shape t) in
  let h := hits m in
  tab (length h :: rest) (fun oidx => get t (nth (hd 0 oidx) h [] ++ tl oidx) d).

(* ---- multi-indices of a concatenated shape ------------------------------------------------------------------------------ *)
Lemma flat_map_flat_map {A B C} (g : B -> list C) (h : A -> list B) l :
  flat_map g (flat_map h l) = flat_map (fun x => flat_map g (h x)) l.
Proof. induction l as [|x r IH]; simpl; [reflexivity|]. now rewrite flat_map_app, IH. Qed.
Lemma flat_map_map' {A B C} (g : B -> list C) (h : A -> B) l : flat_map g (map h l) = flat_map (fun x => g (h x)) l.
Proof. induction l as [|x r IH]; simpl; [reflexivity|]. now rewrite IH. Qed.

Lemma all_idx_app a b : all_idx (a ++ b) = flat_map (fun i => map (app i) (all_idx b)) (all_idx a).
Proof.
  induction a as [|n a IH]; simpl.
  - rewrite app_nil_r. symmetry. apply map_id.
  - rewrite flat_map_flat_map. apply flat_map_ext. intros i.
    rewrite IH, map_flat_map, flat_map_map'. apply flat_map_ext. intros idx.
    rewrite map_map. reflexivity.
Qed.

Lemma data_as_gets {A} (t : tensor A) d : wf t -> data t = map (fun idx => get t idx d) (all_idx (shape t)).
Proof. intros H. pose proof (tab_get_id t d H) as E. apply (f_equal data) in E. simpl in E. now symmetry. Qed.

Lemma data_in_blocks {A} (t : tensor A) a b d : wf t -> shape t = a ++ b ->
  data t = concat (map (fun i => map (fun j => get t (i ++ j) d) (all_idx b)) (all_idx a)).
Proof.
  intros Hw Hs. rewrite (data_as_gets t d Hw), Hs, all_idx_app, map_flat_map, flat_map_concat_map.
  f_equal. apply map_ext. intros i. now rewrite map_map.
Qed.

Lemma blocks_concat {A} bs (ls : list (list A)) : Forall (fun l => length l = bs) ls -> blocks bs (concat ls) (length ls) = ls.
Proof.
  unfold blocks. induction 1 as [|l ls Hl _ IH]; simpl; [reflexivity|]. f_equal.
  - rewrite firstn_app, Hl, Nat.sub_diag. simpl. rewrite app_nil_r. rewrite <- Hl. apply firstn_all.
  - rewrite <- seq_shift, map_map. rewrite <- IH at 2. apply map_ext. intros i.
    f_equal. replace (S i * bs) with (length l + i * bs) by (rewrite Hl; simpl; lia).
    now rewrite skipn_app, skipn_all2, Nat.add_comm, Nat.add_sub by lia.
Qed.

Lemma compress_map {A B} (F : A -> list B) (c : A -> bool) xs :
  compress_rows (map F xs) (map c xs) = map F (filter c xs).
Proof.
  unfold compress_rows. induction xs as [|x r IH]; simpl; [reflexivity|].
  destruct (c x); simpl; [f_equal|]; exact IH.
Qed.

Lemma tab_cons_data {A} n b (G : list nat -> A) :
  data (tab (n :: b) G) = concat (map (fun i => map (fun j => G (i :: j)) (all_idx b)) (seq 0 n)).
Proof.
  unfold tab. simpl. rewrite map_flat_map, flat_map_concat_map. f_equal. apply map_ext. intros i. now rewrite map_map.
Qed.

(* x[mask] as lowered == NumPy's boolean-mask indexing: any rank, any mask rank k >= 0 with mask.shape == x.shape[:k] *)
Theorem getitem_mask_is_numpy {A} (t : tensor A) (m : tensor bool) d :
  wf t -> wf m -> shape m = firstn (rank' m) (shape t) -> (size (skipn (rank' m) (shape t)) <> 0 \/ rank' m < 2) ->
  ndx_getitem_mask t m = Done (np_getitem_mask t m d).
Proof.
  intros Hwt Hwm Hsh Hbs. unfold ndx_getitem_mask, np_getitem_mask.
  set (k := rank' m) in *. set (a := firstn k (shape t)) in *. set (b := skipn k (shape t)).
  assert (Hab : shape t = a ++ b) by (symmetry; apply firstn_skipn).
  assert (Hk : rank' t <? k = false).
  { apply Nat.ltb_ge. unfold rank', k, rank'. rewrite Hsh. fold k. unfold a. rewrite firstn_length. lia. }
  rewrite Hk.
  assert (Hc : Nat.eqb (size b) 0 && (2 <=? k) = false).
  { destruct Hbs as [H|H]; [apply Nat.eqb_neq in H; fold b in H; now rewrite H|].
    assert (E : 2 <=? k = false) by (apply Nat.leb_gt; exact H). rewrite E. apply andb_false_r. }
  rewrite Hc. f_equal.
  set (F := fun i => map (fun j => get t (i ++ j) d) (all_idx b)).
  assert (Hrows : blocks (size b) (data t) (size a) = map F (all_idx a)).
  { rewrite (data_in_blocks t a b d Hwt Hab). fold F.
    replace (size a) with (length (map F (all_idx a))) by (rewrite map_length; apply length_all_idx).
    apply blocks_concat. apply Forall_forall. intros l Hl. apply in_map_iff in Hl as [i [<- _]].
    unfold F. now rewrite map_length, length_all_idx. }
  rewrite Hrows.
  rewrite (data_as_gets m false Hwm), Hsh. fold k a.
  rewrite compress_map. fold (hits m). 
  assert (Hh : filter (fun idx => get m idx false) (all_idx a) = hits m) by (unfold hits; now rewrite Hsh).
  rewrite Hh, map_length.
  unfold tab at 1. cbn [shape]. f_equal.
  change (map (fun oidx : list nat => get t (nth (hd 0 oidx) (hits m) [] ++ tl oidx) d) (all_idx (length (hits m) :: b)))
    with (data (tab (length (hits m) :: b) (fun oidx => get t (nth (hd 0 oidx) (hits m) [] ++ tl oidx) d))).
  rewrite tab_cons_data. cbn [hd tl]. f_equal.
  rewrite <- (map_nth_seq (hits m) []) at 1. rewrite map_map. reflexivity.
Qed.

Example mask_ex : ndx_getitem_mask {| shape := [2; 2]; data := [1; 2; 3; 4] |} {| shape := [2]; data := [false; true] |}
  = Done {| shape := [1; 2]; data := [3; 4] |}.
Proof. reflexivity. Qed.

(* ---- in-Coq correspondence ---------------------------------------------------------------------------------------------- *)
Record mkcase := { mk_shape : list nat; mk_data : list Z; mk_mshape : list nat; mk_mdata : list bool;
                   mk_out : option (list nat * list Z) }.
Fixpoint eqb_nats (a b : list nat) : bool :=
  match a, b with [], [] => true | x :: a', y :: b' => Nat.eqb x y && eqb_nats a' b' | _, _ => false end.
Fixpoint eqb_Zs (a b : list Z) : bool :=
  match a, b with [], [] => true | x :: a', y :: b' => Z.eqb x y && eqb_Zs a' b' | _, _ => false end.
Definition mkcase_ok (c : mkcase) : bool :=
  match ndx_getitem_mask {| shape := mk_shape c; data := mk_data c |} {| shape := mk_mshape c; data := mk_mdata c |}, mk_out c with
  | Done r, Some (s, dd) => eqb_nats (shape r) s && eqb_Zs (data r) dd
  | RuntimeError, None | TraceError _, None => true
  | _, _ => false
  end.
Definition mkcase_spec_ok (c : mkcase) : bool :=
  match ndx_getitem_mask {| shape := mk_shape c; data := mk_data c |} {| shape := mk_mshape c; data := mk_mdata c |} with
  | Done r => let n := np_getitem_mask {| shape := mk_shape c; data := mk_data c |} {| shape := mk_mshape c; data := mk_mdata c |} 0%Z in
              eqb_nats (shape r) (shape n) && eqb_Zs (data r) (data n)
  | _ => true
  end.
