(* Ndx/GetItemCorr.v — in-Coq correspondence for basic indexing on integer token tensors. *)
From Coq Require Import List Arith ZArith Bool.
From ND Require Import Base.Tensor Ndx.PyVal Ndx.Slice1D Ndx.Index Ndx.GetItem Ndx.ReduceCorr.
Import ListNotations.
Local Open Scope nat_scope.

Inductive gout := GOk (sh : list nat) (dat : list Z) | GIndexError | GTypeError | GRuntime | GOtherExn.

Record gcase := { g_shape : list nat; g_index : list item; g_out : gout }.

Definition token (sh : list nat) : tensor Z := tab sh (fun idx => Z.of_nat (ravel sh idx)).

Definition gout_of_model (r : res (tensor Z)) : gout :=
  match r with
  | Done t => GOk (shape t) (data t)
  | RuntimeError => GRuntime
  | TraceError IndexError => GIndexError
  | TraceError TypeError => GTypeError
  | TraceError _ => GOtherExn
  end.

Definition gout_eqb (a b : gout) : bool :=
  match a, b with
  | GOk s d, GOk s' d' => list_eqb_nat s s' && list_eqb_Z d d'
  | GIndexError, GIndexError | GTypeError, GTypeError => true
  | (GRuntime | GOtherExn), (GRuntime | GOtherExn) => true      (* fails, with a non-Index/Type error *)
  | _, _ => false
  end.

(* implementation == model *)
Definition gcase_ok (c : gcase) : bool :=
  gout_eqb (gout_of_model (ndx_getitem_user (token (g_shape c)) (g_index c) 0%Z)) (g_out c).

(* model == NumPy spec wherever the spec is defined (a test of the n-D statement, not a proof) *)
Definition gcase_spec_ok (c : gcase) : bool :=
  match np_getitem (token (g_shape c)) (g_index c) 0%Z with
  | Some t => gout_eqb (gout_of_model (ndx_getitem_user (token (g_shape c)) (g_index c) 0%Z)) (GOk (shape t) (data t))
  | None => true
  end.
