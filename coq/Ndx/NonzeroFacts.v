(* Ndx/NonzeroFacts.v — nonzero as ndonnx lowers it: the coordinate rows of the index grid are compressed by
   the mask x != 0, flattened, and column i is recovered by gathering positions i, i + r, i + 2r, ...
   Theorem: that is NumPy's nonzero (coordinates of the non-zero elements in row-major order, one vector
   per axis), for every shape of rank >= 1 and every data.  Also: the boolean `where` trick. *)
From Coq Require Import List Arith ZArith Bool Lia.
From ND Require Import Base.Tensor Base.TensorFacts Ndx.Sort.
Import ListNotations.
Local Open Scope nat_scope.

(* the lowering, on lists: rows of the grid that survive Compress; Reshape [-1]; GatherElements with arange(i, len, r) *)
Definition nz_rows (sh : list nat) (data : list Z) : list (list nat) :=
  map fst (filter (fun p => negb (snd p =? 0)%Z) (combine (all_idx sh) data)).
Definition arange_count (start stop step : nat) : nat := (stop - start + (step - 1)) / step.
Definition ndx_nonzero (sh : list nat) (data : list Z) : list (list nat) :=
  let r := length sh in
  let flat := concat (nz_rows sh data) in
  map (fun i => map (fun j => nth (i + j * r) flat 0) (seq 0 (arange_count i (length flat) r))) (seq 0 r).

Lemma length_concat_uniform {A} (rows : list (list A)) r : Forall (fun row => length row = r) rows ->
  length (concat rows) = length rows * r.
Proof. induction 1 as [|row rows H _ IH]; simpl; auto. rewrite app_length, IH, H. lia. Qed.

Lemma nth_concat_uniform {A} (rows : list (list A)) r d : Forall (fun row => length row = r) rows ->
  forall j i, i < r -> j < length rows -> nth (i + j * r) (concat rows) d = nth i (nth j rows []) d.
Proof.
  induction 1 as [|row rows H _ IH]; intros j i Hi Hj; simpl in *; [lia|].
  destruct j as [|j].
  - simpl. rewrite Nat.add_0_r. apply app_nth1. lia.
  - rewrite app_nth2 by (rewrite H; simpl; lia). rewrite H.
    replace (i + S j * r - r) with (i + j * r) by (simpl; lia). apply IH; lia.
Qed.

Lemma arange_count_exact i m r : i < r -> arange_count i (m * r) r = m.
Proof.
  intros Hi. unfold arange_count.
  destruct m as [|m]; simpl.
  - replace (0 - i + (r - 1)) with (r - 1) by lia. apply Nat.div_small. lia.
  - replace (r + m * r - i + (r - 1)) with ((r - 1 - i) + (S m) * r) by lia.
    rewrite Nat.div_add by lia. rewrite Nat.div_small by lia. lia.
Qed.

Lemma all_idx_lengths sh : Forall (fun idx => length idx = length sh) (all_idx sh).
Proof.
  apply Forall_forall. intros idx H. apply in_all_idx in H.
  revert idx H. induction sh as [|n r IH]; intros [|i j] H; simpl in *; try tauto. f_equal. apply IH. tauto.
Qed.

Lemma nz_rows_lengths sh data : Forall (fun row => length row = length sh) (nz_rows sh data).
Proof.
  unfold nz_rows. apply Forall_forall. intros row H. apply in_map_iff in H as [[idx v] [<- Hin]]. simpl.
  apply filter_In in Hin as [Hin _]. apply in_combine_l in Hin.
  pose proof (all_idx_lengths sh) as F. rewrite Forall_forall in F. now apply F.
Qed.

(* the lowering == NumPy's nonzero (Ndx/Sort.v nonzero_coords), any rank >= 1, any extents, any data *)
Theorem ndx_nonzero_is_numpy sh data : ndx_nonzero sh data = nonzero_coords sh data (all_idx sh).
Proof.
  unfold ndx_nonzero, nonzero_coords. fold (nz_rows sh data).
  set (rows := nz_rows sh data). set (r := length sh).
  pose proof (nz_rows_lengths sh data) as HL. fold rows r in HL.
  apply map_ext_in. intros i Hi. apply in_seq in Hi. simpl in Hi.
  rewrite (length_concat_uniform rows r HL), arange_count_exact by lia.
  rewrite <- (map_nth_seq rows []) at 2. rewrite map_map.
  apply map_ext_in. intros j Hj. apply in_seq in Hj. simpl in Hj.
  apply nth_concat_uniform; auto; lia.
Qed.

(* the hits are exactly the in-bounds indices whose element is non-zero, in row-major order *)
Theorem nz_rows_spec sh data : length data = size sh ->
  nz_rows sh data = filter (fun idx => negb (nth (ravel sh idx) data 0%Z =? 0)%Z) (all_idx sh).
Proof.
  intros Hlen. unfold nz_rows.
  assert (G : forall (idxs : list (list nat)) (ds : list Z) (f : list nat -> Z),
             length idxs = length ds -> map f idxs = ds ->
             map fst (filter (fun p => negb (snd p =? 0)%Z) (combine idxs ds)) = filter (fun idx => negb (f idx =? 0)%Z) idxs).
  { induction idxs as [|x xs IH]; intros [|y ys] f Hl Hm; simpl in *; try discriminate; auto.
    injection Hm as Hy Hys. injection Hl as Hl. rewrite Hy.
    destruct (negb (y =? 0)%Z); simpl; [f_equal|]; apply IH; auto. }
  apply G; [now rewrite length_all_idx|].
  rewrite <- (map_map (ravel sh) (fun k => nth k data 0%Z)), ravel_all_idx, <- Hlen. apply map_nth_seq.
Qed.

(* ---- where on booleans: xor(and(c, a), and(not c, b)) selects ----------------------------------------- *)
Theorem where_bool_trick (c a b : bool) : xorb (c && a) (negb c && b) = if c then a else b.
Proof. destruct c, a, b; reflexivity. Qed.
