From Coq Require Import List ZArith Bool Lia.
From ND Require Import Ndx.Slice1D.
Import ListNotations.
Open Scope Z_scope.

Ltac split_ifs :=
  repeat match goal with
         | |- context [if ?c then _ else _] =>
             match c with
             | context [if _ then _ else _] => fail 1
             | _ => let E := fresh "E" in destruct c eqn:E
             end
         end.
Ltac zb := repeat match goal with
                  | H : (_ <? _) = true |- _ => apply Z.ltb_lt in H
                  | H : (_ <? _) = false |- _ => apply Z.ltb_ge in H
                  | H : (_ <=? _) = true |- _ => apply Z.leb_le in H
                  | H : (_ <=? _) = false |- _ => apply Z.leb_gt in H
                  | H : (_ =? _) = true |- _ => apply Z.eqb_eq in H
                  | H : (_ =? _) = false |- _ => apply Z.eqb_neq in H
                  end.

(* 1. when ndonnx emits a Slice, onnxruntime's clamped bounds are Python's adjusted bounds *)
Lemma bounds_agree n a b c s e p : 0 < n < 4611686018427387904 -> in_bounds n a b c ->
  norm a b c = Some (s, e, p) ->
  onnx_bounds n s e p = py_bounds n a b p /\ p = match c with Some s => s | None => 1 end.
Proof.
  intros Hn Hb. unfold in_bounds in Hb. destruct Hb as (Hp0 & Hpm & Hpos & Hneg).
  unfold norm. intros H.
  destruct c as [cz|]; simpl in *.
  - (* explicit step *)
    destruct (0 <? cz) eqn:Ec; zb.
    + specialize (Hpos Ec). destruct Hpos as [Ha Hb'].
      destruct a as [az|], b as [bz|]; simpl in *;
        try match type of H with (if ?c then _ else _) = _ => destruct c eqn:EE end; try discriminate;
        inversion H; subst; clear H; split; auto;
        unfold onnx_bounds, py_bounds, py_adj, clampO, IMAX, IMIN in *;
        split_ifs; zb; try (f_equal; lia); try lia.
    + assert (Hlt : cz < 0) by lia. specialize (Hneg Hlt). destruct Hneg as [Ha Hb'].
      destruct a as [az|], b as [bz|]; simpl in *;
        try match type of H with (if ?c then _ else _) = _ => destruct c eqn:EE end; try discriminate;
        inversion H; subst; clear H; split; auto;
        unfold onnx_bounds, py_bounds, py_adj, clampO, IMAX, IMIN in *;
        split_ifs; zb; try (f_equal; lia); try lia.
  - (* step omitted: 1 *)
    assert (H1 : 0 < 1) by lia. specialize (Hpos H1). destruct Hpos as [Ha Hb'].
    destruct a as [az|], b as [bz|]; simpl in *;
      try match type of H with (if ?c then _ else _) = _ => destruct c eqn:EE end; try discriminate;
      inversion H; subst; clear H; split; auto;
      unfold onnx_bounds, py_bounds, py_adj, clampO, IMAX, IMIN in *; simpl;
      split_ifs; zb; try (f_equal; lia); try lia.
Qed.

(* 2. the full-slice marker (no Slice emitted) selects everything, as Python does *)
Lemma marker_is_full n a b c : 0 <= n < 4611686018427387904 -> in_bounds n a b c ->
  norm a b c = None -> py_slice n a b c = sel 0 1 n.
Proof.
  intros Hn Hb. unfold in_bounds in Hb. destruct Hb as (Hp0 & Hpm & Hpos & Hneg).
  unfold norm. intros H.
  assert (Hc : match c with Some s => s | None => 1 end = 1).
  { destruct c as [cz|]; auto. simpl in H.
    destruct ((match a with Some x => x | None => if 0 <? cz then 0 else IMAX end =? 0)
              && (match b with Some x => x | None => if 0 <? cz then IMAX else IMIN end =? IMAX) && (cz =? 1)) eqn:E; try discriminate.
    apply andb_true_iff in E as [_ E]. now apply Z.eqb_eq in E. }
  assert (H1 : 0 < match c with Some s => s | None => 1 end) by lia.
  specialize (Hpos H1). destruct Hpos as [Ha Hb'].
  unfold py_slice. rewrite Hc. unfold py_bounds. change (1 <? 0) with false. cbv beta iota.
  assert (Hpos1 : (match c with None => true | Some s => 0 <? s end) = true).
  { destruct c as [cz|]; auto. apply Z.ltb_lt. simpl in Hc. lia. }
  rewrite Hpos1 in H.
  assert (Hs : match a with None => 0 | Some x => py_adj n x false end = 0).
  { destruct a as [az|]; auto. simpl in H, Ha.
    destruct (az =? 0) eqn:E; simpl in H; [|discriminate]. apply Z.eqb_eq in E. subst.
    unfold py_adj. simpl. destruct (n <=? 0) eqn:E2; auto. apply Z.leb_le in E2. lia. }
  assert (He : match b with None => n | Some x => py_adj n x false end = n).
  { destruct b as [bz|]; auto. simpl in H, Hb'. exfalso.
    destruct (match a with Some x => x | None => 0 end =? 0); simpl in H; try discriminate.
    destruct (bz =? IMAX) eqn:E; simpl in H; try discriminate. apply Z.eqb_eq in E. unfold IMAX in E. lia. }
  rewrite Hs, He. f_equal. unfold count. rewrite Z.div_1_r. lia.
Qed.

Lemma sel_zero s p : sel s p 0 = [].
Proof. reflexivity. Qed.

(* 3. an empty axis: Python selects nothing for every admissible slice *)
Lemma empty_axis_py a b c : in_bounds 0 a b c -> py_slice 0 a b c = [].
Proof.
  intros Hb. unfold in_bounds in Hb. destruct Hb as (Hp0 & Hpm & Hpos & Hneg).
  unfold py_slice, py_bounds.
  set (p := match c with Some s => s | None => 1 end) in *.
  assert (Hcnt : forall s e, (0 < p -> s = 0 /\ e = 0) -> (p < 0 -> s = -1 /\ e = -1) -> count s e p = 0).
  { intros s e H1 H2. unfold count. destruct (Z_lt_ge_dec 0 p) as [Hp|Hp].
    - destruct (H1 Hp) as [-> ->]. simpl. reflexivity.
    - assert (Hn : p < 0) by lia. destruct (H2 Hn) as [-> ->]. simpl. reflexivity. }
  cbv beta iota. rewrite Hcnt.
  - reflexivity.
  - intros Hp. destruct (Hpos Hp) as [Ha Hb']. assert (E : p <? 0 = false) by (apply Z.ltb_ge; lia). rewrite E.
    split; [destruct a as [az|]|destruct b as [bz|]]; auto; simpl in *; unfold py_adj;
      split_ifs; zb; lia.
  - intros Hp. destruct (Hneg Hp) as [Ha Hb']. assert (E : p <? 0 = true) by (apply Z.ltb_lt; lia). rewrite E.
    split; [destruct a as [az|]|destruct b as [bz|]]; auto; simpl in *; unfold py_adj;
      split_ifs; zb; lia.
Qed.

(* THE 1-D theorem: for every extent, every admissible slice (given or omitted bounds, any
   step sign), the Slice that ndonnx emits selects exactly Python's index sequence. *)
Theorem slice_1d n a b c : 0 <= n < 4611686018427387904 -> in_bounds n a b c ->
  onnx_slice n (norm a b c) = py_slice n a b c.
Proof.
  intros Hn Hb. destruct (Z.eq_dec n 0) as [-> | Hn0].
  - rewrite empty_axis_py by exact Hb. unfold onnx_slice. destruct (norm a b c) as [[[s e] p]|]; [|reflexivity].
    destruct (onnx_bounds 0 s e p). reflexivity.
  - destruct (norm a b c) as [[[s e] p]|] eqn:E.
    + destruct (bounds_agree n a b c s e p) as [Hbd Hp]; auto; [lia|].
      unfold onnx_slice, py_slice. rewrite Hbd, <- Hp. destruct (py_bounds n a b p) as [s2 e2].
      assert (En : n =? 0 = false) by (apply Z.eqb_neq; exact Hn0). now rewrite En.
    + unfold onnx_slice. symmetry. now apply marker_is_full.
Qed.

(* the guard is needed: outside the standard's bounds the two differ *)
Example slice_1d_oob_differs :
  onnx_slice 3 (norm (Some (-5)) None (Some (-1))) <> py_slice 3 (Some (-5)) None (Some (-1)).
Proof. vm_compute. discriminate. Qed.

Example slice_1d_ex : in_bounds 5 None None (Some (-2)) /\ py_slice 5 None None (Some (-2)) = [4; 2; 0].
Proof. split; [unfold in_bounds, IMIN; simpl; repeat split; lia|reflexivity]. Qed.
