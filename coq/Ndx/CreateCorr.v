From Coq Require Import List Arith ZArith Bool.
From ND Require Import Base.Tensor Ndx.Create Ndx.ReduceCorr.
Import ListNotations.

Inductive cobs :=
  | CArange (start : Z) (stop : option Z) (step : Z) (out : list Z)
  | CEye (n m : nat) (k : Z) (osh : list nat) (out : list Z)
  | CFull (sh : list nat) (v : Z) (osh : list nat) (out : list Z).

Definition cobs_ok (o : cobs) : bool :=
  match o with
  | CArange a b s out => list_eqb_Z (ndx_arange a b s) out
  | CEye n m k osh out => let t := ndx_eye n m k in list_eqb_nat (shape t) osh && list_eqb_Z (data t) out
  | CFull sh v osh out => let t := ndx_full sh v in list_eqb_nat (shape t) osh && list_eqb_Z (data t) out
  end.
