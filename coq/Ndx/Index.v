(* Ndx/Index.v — typed view of index normalisation (what ndonnx/_index.py does to one index
   tuple), tied on every run to the Gallina generated from the source (Tie/TieIndex). *)
From Coq Require Import List ZArith Bool.
From ND Require Import Ndx.PyVal Ndx.Slice1D.
Import ListNotations.
Open Scope Z_scope.

Inductive item := IInt (z : Z) | IBool (b : bool) | ISlice (a b c : option Z) | INone | IEllipsis | IOther.

Definition enc_opt (o : option Z) : pyval := match o with None => PNone | Some z => PInt z end.
Definition enc (i : item) : pyval :=
  match i with
  | IInt z => PInt z | IBool b => PBool b
  | ISlice a b c => PSlice (enc_opt a) (enc_opt b) (enc_opt c)
  | INone => PNone | IEllipsis => PEllipsis | IOther => POther
  end.

(* normalised items: what getitem receives *)
Inductive nitem := NInt (z : Z) | NBool (b : bool) | NFull | NSlice (s e p : Z) | NNew.
Definition enc_n (n : nitem) : pyval :=
  match n with
  | NInt z => PInt z | NBool b => PBool b
  | NFull => PSlice PNone PNone PNone
  | NSlice s e p => PSlice (PInt s) (PInt e) (PInt p)
  | NNew => PNone
  end.

Definition norm_item (i : item) : M nitem :=
  match i with
  | IInt z => Ret (NInt z)
  | IBool b => Ret (NBool b)
  | ISlice a b c => Ret (match norm a b c with None => NFull | Some (s, e, p) => NSlice s e p end)
  | INone => Ret NNew
  | IEllipsis | IOther => Raise TypeError
  end.

Definition mapM {A B} (f : A -> B) (m : M A) : M B := match m with Ret a => Ret (f a) | Raise e => Raise e end.

(* construct_index: the first Ellipsis becomes (rank - #addressing entries) full slices *)
Definition counts_as_some (i : item) : bool := match i with INone | IEllipsis => false | _ => true end.
Definition is_ellipsis (i : item) : bool := match i with IEllipsis => true | _ => false end.

Fixpoint split_at_ellipsis (l : list item) : option (list item * list item) :=
  match l with
  | [] => None
  | IEllipsis :: r => Some ([], r)
  | x :: r => match split_at_ellipsis r with Some (p, s) => Some (x :: p, s) | None => None end
  end.

Definition expand_ellipsis (rank : Z) (l : list item) : list item :=
  match split_at_ellipsis l with
  | None => l
  | Some (pre, suf) =>
      let count_some := Z.of_nat (length (filter counts_as_some l)) in
      pre ++ repeat (ISlice None None None) (Z.to_nat (rank - count_some)) ++ suf
  end.

Definition construct (rank : Z) (l : list item) : M (list nitem) := mmap norm_item (expand_ellipsis rank l).

(* _CoreArray._normalise_index: every axis must be addressed *)
Definition addresses_axis (n : nitem) : bool := match n with NNew => false | _ => true end.
Definition normalise_index (rank : Z) (l : list item) : M (list nitem) :=
  bind (construct rank l) (fun ns =>
    if negb (rank =? Z.of_nat (length (filter addresses_axis ns))) then Raise IndexError else Ret ns).
