From Coq Require Import List Arith ZArith Lia Bool.
From ND Require Import Base.Tensor Base.TensorFacts Ndx.Reduce.
Import ListNotations.

Lemma norm_idem rank a : (- Z.of_nat rank <= a < Z.of_nat rank)%Z ->
  norm_axis rank (if (a <? 0)%Z then (a + Z.of_nat rank)%Z else a) = norm_axis rank a.
Proof.
  intros H. unfold norm_axis. destruct (a <? 0)%Z eqn:E.
  - apply Z.ltb_lt in E. destruct (a + Z.of_nat rank <? 0)%Z eqn:E2; auto. apply Z.ltb_lt in E2. lia.
  - rewrite E. reflexivity.
Qed.

(* the axes ndonnx hands to ONNX denote exactly the axes NumPy reduces *)
Theorem axes_resolve rank axis : axis_valid rank axis ->
  onnx_axes rank (ndx_axes (Z.of_nat rank) axis) (ndx_noop axis) = np_axes rank axis.
Proof.
  destruct axis as [|a|l]; simpl; intros H; auto.
  - f_equal. now apply norm_idem.
  - unfold ndx_axes. destruct l as [|a l]; simpl; auto.
    inversion H as [|? ? Ha Hl]; subst. f_equal; [now apply norm_idem|].
    rewrite map_map. apply map_ext_in. intros b Hb. apply norm_idem. rewrite Forall_forall in Hl. now apply Hl.
Qed.

Theorem ndx_reduce_is_np_reduce {A} (op : A -> A -> A) neutral t axis keep d :
  axis_valid (length (shape t)) axis ->
  ndx_reduce op neutral t axis keep d = np_reduce op neutral t axis keep d.
Proof. intros H. unfold ndx_reduce, np_reduce. now rewrite axes_resolve. Qed.

(* keepdims: the rank is kept and every reduced extent is 1; otherwise the axes disappear *)
Lemma reduce_shape_keep_length k sh axes : length (reduce_shape_from k sh axes true) = length sh.
Proof. revert k; induction sh as [|n r IH]; intros k; simpl; auto. destruct (memb k axes); simpl; now rewrite IH. Qed.

Lemma reduce_shape_keep_nth k sh axes i :
  i < length sh ->
  nth i (reduce_shape_from k sh axes true) 0 = if memb (k + i) axes then 1 else nth i sh 0.
Proof.
  revert k i; induction sh as [|n r IH]; intros k i Hi; simpl in *; [lia|].
  destruct i as [|i].
  - rewrite Nat.add_0_r. destruct (memb k axes); reflexivity.
  - replace (k + S i) with (S k + i) by lia. destruct (memb k axes); simpl; apply IH; lia.
Qed.

Lemma reduce_shape_drop_length k sh axes :
  length (reduce_shape_from k sh axes false) + length (sub_shape_from k sh axes) = length sh.
Proof. revert k; induction sh as [|n r IH]; intros k; simpl; auto. destruct (memb k axes); simpl; specialize (IH (S k)); lia. Qed.

(* reducing no axis is the identity on shapes; reducing an empty block yields the neutral element *)
Lemma reduce_shape_nil k sh keep : reduce_shape_from k sh [] keep = sh.
Proof. revert k; induction sh as [|n r IH]; intros k; simpl; auto. now rewrite IH. Qed.

Lemma shape_reduce {A} (op : A -> A -> A) neutral t axes keep d :
  shape (reduce op neutral t axes keep d) = reduce_shape (shape t) axes keep.
Proof. reflexivity. Qed.

Lemma all_idx_has_zero sh : In 0 sh -> all_idx sh = [].
Proof.
  induction sh as [|n r IH]; simpl; [tauto|]. intros [-> | H]; [reflexivity|].
  rewrite (IH H). induction (seq 0 n); simpl; auto.
Qed.

(* an empty reduction (some reduced extent is 0) yields the neutral element everywhere *)
Theorem reduce_empty_is_neutral {A} (op : A -> A -> A) neutral t axes keep d oidx :
  In 0 (sub_shape_from 0 (shape t) axes) -> in_bounds (reduce_shape (shape t) axes keep) oidx ->
  get (reduce op neutral t axes keep d) oidx d = neutral.
Proof.
  intros H0 Hb. unfold reduce. rewrite get_tab by exact Hb.
  now rewrite (all_idx_has_zero _ H0).
Qed.
