(* Ndx/Cast.v — astype between the 24 built-in dtypes (protocol of _funcs.astype +
   CoreType/NullableCore._cast_to/_cast_from) and can_cast (NumPy's safe table, by rule). *)
From Coq Require Import List Bool ZArith Lia.
From Coq Require Import Floats.SpecFloat.
From ND Require Import Base.Dtype Ndx.ElemSyntax Ndx.ElemSem.
Import ListNotations.

Inductive cast_outcome := CastTo (d : dtype) (mask_kept : bool) (fresh_mask : bool) | CastErr.

(* mask_kept: the source mask travels unchanged; fresh_mask: an all-false mask is created *)
Definition astype_outcome (a b : dtype) : cast_outcome :=
  match a, b with
  | DCore _, DCore _ => CastTo b false false
  | DCore _, DNull _ => CastTo b false true
  | DNull _, DNull _ => CastTo b true false
  | DNull _, DCore _ => CastErr                 (* would have to discard nulls *)
  | _, _ => CastErr
  end.

(* values: the ONNX Cast on the values field *)
Definition astype_value (b : dtype) (v : sval) : res :=
  match core_of b with Some c => cast_to c v | None => RErr end.

(* NumPy's safe casting, by rule: value-preserving embeddings *)
Definition can_cast_safe (a b : core) : bool :=
  match kind_of a, kind_of b with
  | _, KStr => true
  | KStr, _ => false
  | KBool, _ => true
  | _, KBool => false
  | KSigned, KSigned | KUnsigned, KUnsigned | KFloat, KFloat => Nat.leb (bits a) (bits b)
  | KUnsigned, KSigned => Nat.ltb (bits a) (bits b)
  | KSigned, KUnsigned => false
  | (KSigned | KUnsigned), KFloat => if Nat.leb (bits a) 16 then true else Nat.leb 64 (bits b)
  | KFloat, _ => false
  end.

(* integer -> integer casts wrap; in-range values are unchanged *)
Lemma cast_int_int_in_range c c' z : is_int c = true -> in_range c z ->
  cast_to c (VI c' z) = RV (VI c z).
Proof.
  intros Hc Hr. destruct c; try discriminate; simpl; f_equal; f_equal;
    unfold in_range, lo, hi in Hr; unfold wrap; simpl in *;
    match goal with |- context [?x mod ?m] => pose proof (Z.mod_pos_bound x m ltac:(lia)) end;
    try (rewrite Z.mod_small by lia; lia).
Qed.

(* float -> integer: truncation toward zero.  z = trunc(f) iff |z| <= |f| < |z| + 1 with the sign
   of f; for a finite float (-1)^s * m * 2^e: *)
Lemma sf_trunc_spec s m e z : sf_trunc (S754_finite s m e) = Some z ->
  let a := Z.abs z in
  (if s then z <= 0 else 0 <= z)%Z /\
  ((0 <= e)%Z -> a = (Z.pos m * 2 ^ e)%Z) /\
  ((e < 0)%Z -> (a * 2 ^ (- e) <= Z.pos m < (a + 1) * 2 ^ (- e))%Z).
Proof.
  intros H.
  assert (Hz : z = (if s then (- (if (0 <=? e)%Z then (Z.pos m * 2 ^ e)%Z else (Z.pos m / 2 ^ (- e))%Z))%Z
                         else (if (0 <=? e)%Z then (Z.pos m * 2 ^ e)%Z else (Z.pos m / 2 ^ (- e))%Z))).
  { unfold sf_trunc in H. cbv zeta in H. congruence. }
  clear H. set (P := (Z.pos m * 2 ^ e)%Z) in *. set (Q := (Z.pos m / 2 ^ (- e))%Z) in *.
  destruct (0 <=? e)%Z eqn:E.
  - apply Z.leb_le in E.
    assert (HP : (0 < P)%Z) by (apply Z.mul_pos_pos; [lia|apply Z.pow_pos_nonneg; lia]).
    destruct s; cbv beta iota zeta in Hz; subst z; cbv beta iota zeta; (split; [lia | split; intros; lia]).
  - apply Z.leb_gt in E.
    assert (Hp : (0 < 2 ^ (- e))%Z) by (apply Z.pow_pos_nonneg; lia).
    assert (Hq : (0 <= Q)%Z) by (apply Z.div_pos; lia).
    pose proof (Z.mul_div_le (Z.pos m) (2 ^ (- e)) Hp) as H1.
    pose proof (Z.mul_succ_div_gt (Z.pos m) (2 ^ (- e)) Hp) as H2.
    fold Q in H1, H2.
    destruct s; cbv beta iota zeta in Hz; subst z; cbv beta iota zeta;
      (split; [lia | split; intros; [lia|]]);
      [replace (Z.abs (- Q)) with Q by lia | replace (Z.abs Q) with Q by lia]; nia.
Qed.
