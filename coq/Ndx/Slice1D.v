(* Ndx/Slice1D.v — one axis: ndonnx's normalisation of a Python slice (typed view of
   _index.index_normalise), onnxruntime's Slice on that axis, Python's slice semantics. *)
From Coq Require Import List ZArith Bool Lia.
Import ListNotations.
Open Scope Z_scope.

Definition IMAX := 9223372036854775807.
Definition IMIN := -9223372036854775808.

(* typed view of index_normalise on slice(a, b, c); None = the full-slice marker
   slice(None, None, None) for which getitem emits no Slice *)
Definition norm (a b c : option Z) : option (Z * Z * Z) :=
  let pos := match c with None => true | Some s => 0 <? s end in
  let start := match a with Some x => x | None => if pos then 0 else IMAX end in
  let stop  := match b with Some x => x | None => if pos then IMAX else IMIN end in
  let step  := match c with Some s => s | None => 1 end in
  if (start =? 0) && (stop =? IMAX) && (step =? 1) then None else Some (start, stop, step).

(* onnxruntime's Slice (SliceBase::PrepareForCompute), one axis of extent n *)
Definition clampO (lo hi v : Z) := if v <? lo then lo else if hi <? v then hi else v.
Definition onnx_bounds (n s e p : Z) : Z * Z :=
  let s1 := if s <? 0 then s + n else s in
  let s2 := if p <? 0 then clampO 0 (n - 1) s1 else clampO 0 n s1 in
  let e2 := if e =? IMAX then (if p <? 0 then -1 else n)
            else (let e1 := if e <? 0 then e + n else e in
                  if p <? 0 then clampO (-1) (n - 1) e1 else clampO 0 n e1) in
  (s2, e2).
(* number of selected elements: ceil((e - s) / p) clipped at 0 *)
Definition count (s e p : Z) : Z := Z.max 0 (- ((s - e) / p)).
Definition sel (s p cnt : Z) : list Z := map (fun i => s + Z.of_nat i * p) (seq 0 (Z.to_nat cnt)).

Definition onnx_slice (n : Z) (q : option (Z * Z * Z)) : list Z :=
  match q with
  | None => sel 0 1 n
  | Some (s, e, p) => let '(s2, e2) := onnx_bounds n s e p in sel s2 p (if n =? 0 then 0 else count s2 e2 p)
  end.

(* Python: slice(a, b, c).indices(n) + range  (PySlice_AdjustIndices) *)
Definition py_adj (n v : Z) (neg : bool) : Z :=
  if v <? 0 then (let w := v + n in if w <? 0 then (if neg then -1 else 0) else w)
  else if n <=? v then (if neg then n - 1 else n) else v.
Definition py_bounds (n : Z) (a b : option Z) (p : Z) : Z * Z :=
  let neg := p <? 0 in
  (match a with None => if neg then n - 1 else 0 | Some x => py_adj n x neg end,
   match b with None => if neg then -1 else n | Some x => py_adj n x neg end).
Definition py_slice (n : Z) (a b c : option Z) : list Z :=
  let p := match c with Some s => s | None => 1 end in
  let '(s, e) := py_bounds n a b p in sel s p (count s e p).

(* the slice bounds the Array API standard defines *)
Definition optP (P : Z -> Prop) (o : option Z) : Prop := match o with None => True | Some x => P x end.
Definition in_bounds (n : Z) (a b c : option Z) : Prop :=
  let p := match c with Some s => s | None => 1 end in
  p <> 0 /\ IMIN < p /\
  (0 < p -> optP (fun x => - n <= x <= n) a /\ optP (fun x => - n <= x <= n) b) /\
  (p < 0 -> optP (fun x => - n <= x <= Z.max 0 (n - 1)) a /\ optP (fun x => - n - 1 <= x <= Z.max 0 (n - 1)) b).
