(* Ndx/ElemSyntax.v — the term language into which traced ONNX graphs of element-wise
   functions are translated (T-graph), and the row format of the function x dtype table. *)
From Coq Require Import List Bool ZArith String.
From ND Require Import Base.Dtype.
Import ListNotations.
Open Scope string_scope.

Inductive op1 :=
  | OAbs | ONeg | ONot | OBitNot | OFloor | OCeil | ORound | OSqrt | OExp | OLog | OSin | OCos
  | OTan | OAsin | OAcos | OAtan | OSinh | OCosh | OTanh | OAsinh | OAcosh | OAtanh | OIsNaN | OIsInf.

Inductive op2 :=
  | OAdd | OSub | OMul | ODiv | OPow | OMod | OFmod | OAnd | OOr | OXor | OBitAnd | OBitOr | OBitXor
  | OShl | OShr | OEqual | OLess | OLessEq | OGreater | OGreaterEq | OStrCat.

Inductive fexpr :=
  | ArgV (i : nat)                      (* values (or data) tensor of argument i *)
  | ArgN (i : nat)                      (* null mask of (nullable) argument i    *)
  | KZ (c : core) (z : Z)               (* scalar integer / bool constant         *)
  | KF (c : core) (m e : Z)             (* scalar float constant m * 2^e          *)
  | KFnan (c : core) | KFinf (c : core) (neg : bool) | KFzero (c : core) (neg : bool)
  | KS (s : string)
  | Cast (c : core) (e : fexpr)
  | Op1 (o : op1) (e : fexpr)
  | Op2 (o : op2) (a b : fexpr)
  | Where (c a b : fexpr)
  | Clip (x lo hi : fexpr)
  | FullLike (c x : fexpr).            (* Expand(c, Shape(x)) *)

Definition op1_eqb (a b : op1) : bool :=
  match a, b with
  | OAbs, OAbs | ONeg, ONeg | ONot, ONot | OBitNot, OBitNot | OFloor, OFloor | OCeil, OCeil
  | ORound, ORound | OSqrt, OSqrt | OExp, OExp | OLog, OLog | OSin, OSin | OCos, OCos
  | OTan, OTan | OAsin, OAsin | OAcos, OAcos | OAtan, OAtan | OSinh, OSinh | OCosh, OCosh
  | OTanh, OTanh | OAsinh, OAsinh | OAcosh, OAcosh | OAtanh, OAtanh | OIsNaN, OIsNaN
  | OIsInf, OIsInf => true
  | _, _ => false
  end.

Definition op2_eqb (a b : op2) : bool :=
  match a, b with
  | OAdd, OAdd | OSub, OSub | OMul, OMul | ODiv, ODiv | OPow, OPow | OMod, OMod | OFmod, OFmod
  | OAnd, OAnd | OOr, OOr | OXor, OXor | OBitAnd, OBitAnd | OBitOr, OBitOr | OBitXor, OBitXor
  | OShl, OShl | OShr, OShr | OEqual, OEqual | OLess, OLess | OLessEq, OLessEq
  | OGreater, OGreater | OGreaterEq, OGreaterEq | OStrCat, OStrCat => true
  | _, _ => false
  end.

Fixpoint fexpr_eqb (x y : fexpr) : bool :=
  match x, y with
  | ArgV i, ArgV j | ArgN i, ArgN j => Nat.eqb i j
  | KZ c z, KZ c' z' => core_eqb c c' && Z.eqb z z'
  | KF c m e, KF c' m' e' => core_eqb c c' && Z.eqb m m' && Z.eqb e e'
  | KFnan c, KFnan c' => core_eqb c c'
  | KFinf c n, KFinf c' n' | KFzero c n, KFzero c' n' => core_eqb c c' && Bool.eqb n n'
  | KS s, KS s' => String.eqb s s'
  | Cast c e, Cast c' e' => core_eqb c c' && fexpr_eqb e e'
  | Op1 o e, Op1 o' e' => op1_eqb o o' && fexpr_eqb e e'
  | Op2 o a b, Op2 o' a' b' => op2_eqb o o' && fexpr_eqb a a' && fexpr_eqb b b'
  | Where c a b, Where c' a' b' | Clip c a b, Clip c' a' b' =>
      fexpr_eqb c c' && fexpr_eqb a a' && fexpr_eqb b b'
  | FullLike c a, FullLike c' a' => fexpr_eqb c c' && fexpr_eqb a a'
  | _, _ => false
  end.

(* ---- table rows ---------------------------------------------------------------------- *)
Inductive argk := AArr (d : dtype) | AScal (s : pyscalar).
Inductive how := HFunc | HOper.         (* ndx.<name>(...) or the Array operator *)

Inductive excfam := ETypeError | EValueError | EOther.

Inductive rowout :=
  | Traced (d : dtype) (values : fexpr) (null : option fexpr)
  | DtypeOnly (d : dtype)               (* traced; only the result dtype is recorded *)
  | Raises (e : excfam)
  | Untranslated.                       (* traced, but the graph is outside the translator's vocabulary *)

Record row := { r_fn : string; r_how : how; r_args : list argk; r_out : rowout }.

Definition pyscalar_eqb (a b : pyscalar) : bool :=
  match a, b with
  | PyBool, PyBool | PyInt, PyInt | PyFloat, PyFloat | PyStr, PyStr => true
  | _, _ => false
  end.

Definition argk_eqb (a b : argk) : bool :=
  match a, b with
  | AArr d, AArr d' => dtype_eqb d d'
  | AScal s, AScal s' => pyscalar_eqb s s'
  | _, _ => false
  end.

Definition how_eqb (a b : how) : bool :=
  match a, b with HFunc, HFunc | HOper, HOper => true | _, _ => false end.

Definition excfam_eqb (a b : excfam) : bool :=
  match a, b with
  | ETypeError, ETypeError | EValueError, EValueError | EOther, EOther => true
  | _, _ => false
  end.

Definition opt_eqb {A} (eqb : A -> A -> bool) (x y : option A) : bool :=
  match x, y with
  | Some a, Some b => eqb a b
  | None, None => true
  | _, _ => false
  end.

Definition rowout_eqb (a b : rowout) : bool :=
  match a, b with
  | Traced d v n, Traced d' v' n' => dtype_eqb d d' && fexpr_eqb v v' && opt_eqb fexpr_eqb n n'
  | DtypeOnly d, DtypeOnly d' => dtype_eqb d d'
  | Raises e, Raises e' => excfam_eqb e e'
  | Untranslated, Untranslated => true
  | _, _ => false
  end.

Fixpoint list_eqb {A} (eqb : A -> A -> bool) (x y : list A) : bool :=
  match x, y with
  | [], [] => true
  | a :: x', b :: y' => eqb a b && list_eqb eqb x' y'
  | _, _ => false
  end.

Definition key_eqb (a b : row) : bool :=
  String.eqb (r_fn a) (r_fn b) && how_eqb (r_how a) (r_how b) && list_eqb argk_eqb (r_args a) (r_args b).

Definition row_eqb (a b : row) : bool := key_eqb a b && rowout_eqb (r_out a) (r_out b).

Definition lookup (tbl : list row) (fn : string) (h : how) (args : list argk) : option rowout :=
  match find (fun r => String.eqb (r_fn r) fn && how_eqb (r_how r) h && list_eqb argk_eqb (r_args r) args) tbl with
  | Some r => Some (r_out r)
  | None => None
  end.

(* rows of `a` that are not (identically) in `b`: the tie prints these when it fails *)
Definition rows_diff (a b : list row) : list row :=
  filter (fun r => negb (existsb (row_eqb r) b)) a.
