(* Ndx/FuncDomain.v — C17 beyond the element-wise table: the public functions that are not
   element-wise (statistical, sorting, searching, linear algebra, clip, where, concat/stack,
   fill_null).  A row is one observed call: function, the kind of every operand, the kind of an
   explicit dtype= argument, lazy or data-holding, and the outcome class.  `outside` is the
   reading of "a dtype the function is not defined for"; the law says such a call raises a
   TypeError.  The rows are regenerated from the implementation on every run and the law is
   re-proved on them by computation (the table is finite). *)
From Coq Require Import List Bool String.
Import ListNotations.
Open Scope string_scope.

Inductive akind :=
  | AUtf8 | ANUtf8 | ABool | ANBool | AInt | AFloat | ANInt | AStruct      (* arrays *)
  | AUInt8 | AUInt32 | AInt8 | AFloat32 | ANUInt8 | ANFloat                (* more numeric arrays: narrow / unsigned / nullable *)
  | PInt | PFloat | PBool | PStr.                                          (* Python scalars *)
Inductive kclass := KStr | KBool | KNum | KStruct.
Definition kclass_of (a : akind) : kclass :=
  match a with
  | AUtf8 | ANUtf8 | PStr => KStr
  | ABool | ANBool | PBool => KBool
  | AInt | AFloat | ANInt | PInt | PFloat | AUInt8 | AUInt32 | AInt8 | AFloat32 | ANUInt8 | ANFloat => KNum
  | AStruct => KStruct
  end.
Definition is_k (k : kclass) (a : akind) : bool :=
  match k, kclass_of a with
  | KStr, KStr | KBool, KBool | KNum, KNum | KStruct, KStruct => true
  | _, _ => false
  end.

Inductive outcome := OOk | OTypeError | OOther.
Record frow := { fname : string; fargs : list akind; fkw : option akind; flazy : bool; fout : outcome }.

Definition in_list (s : string) (l : list string) : bool := existsb (String.eqb s) l.

(* numeric-only, one array operand *)
(* (a boolean operand of a numeric function is outside its domain, alone or next to numbers: the property counts
   "numeric functions on booleans" and forbids results "computed through an implicit cross-kind cast"; the calls where
   the pinned library nevertheless returns are a recorded finding class, like the element-wise one) *)
Definition numeric1 := ["sum"; "prod"; "mean"; "var"; "std"; "cumulative_sum"; "min"; "max"; "sort"; "argsort"].
(* the library defines these on booleans as well *)
Definition ordered1 := ["argmax"; "argmin"].
Definition numeric2 := ["searchsorted"; "matmul"].
Definition joins := ["concat"; "stack"; "fill_null"].

Definition mixes_str (l : list akind) : bool := existsb (is_k KStr) l && existsb (fun a => negb (is_k KStr a)) l.
(* a boolean next to a number: the result could only come from an implicit bool -> number cast *)
Definition mixes_bool_num (l : list akind) : bool := existsb (is_k KBool) l && existsb (is_k KNum) l.
Definition kw_str (kw : option akind) : bool := match kw with Some a => is_k KStr a | None => false end.

Definition outside (r : frow) : bool :=
  let a := fargs r in
  if in_list (fname r) numeric1 then
    existsb (is_k KStr) a || existsb (is_k KStruct) a || forallb (is_k KBool) a || kw_str (fkw r)
  else if in_list (fname r) ordered1 then existsb (is_k KStr) a || existsb (is_k KStruct) a
  else if in_list (fname r) numeric2 then existsb (is_k KStr) a || existsb (is_k KStruct) a || existsb (is_k KBool) a
  else if String.eqb (fname r) "clip" then
    match a with
    | x :: bounds => negb (is_k KNum x) || existsb (is_k KStr) bounds || existsb (is_k KStruct) bounds || existsb (is_k KBool) bounds
    | [] => false
    end
  else if String.eqb (fname r) "where" then
    match a with
    | c :: xy => negb (is_k KBool c) || mixes_str xy || mixes_bool_num xy
    | [] => false
    end
  else if in_list (fname r) joins then mixes_str a || mixes_bool_num a
  else false.

Definition is_type_error (o : outcome) : bool := match o with OTypeError => true | _ => false end.
Definition row_ok (r : frow) : bool := negb (outside r) || is_type_error (fout r).

Lemma row_ok_spec r : row_ok r = true <-> (outside r = true -> fout r = OTypeError).
Proof.
  unfold row_ok. destruct (outside r); simpl.
  - destruct (fout r); simpl; split; intros H; try reflexivity; try discriminate; try (now specialize (H eq_refl)); auto.
  - split; [discriminate | reflexivity].
Qed.

Theorem law_on_rows (rows : list frow) : forallb row_ok rows = true ->
  forall r, In r rows -> outside r = true -> fout r = OTypeError.
Proof. intros H r Hr. apply row_ok_spec. rewrite forallb_forall in H. now apply H. Qed.

(* what the predicate says on the calls named in the property *)
Example outside_ex1 : outside {| fname := "var"; fargs := [ABool]; fkw := Some AFloat; flazy := false; fout := OOk |} = true.
Proof. reflexivity. Qed.
Example outside_ex2 : outside {| fname := "where"; fargs := [ABool; AUtf8; AInt]; fkw := None; flazy := true; fout := OOk |} = true.
Proof. reflexivity. Qed.
Example outside_ex3 : outside {| fname := "matmul"; fargs := [ABool; AInt]; fkw := None; flazy := true; fout := OOk |} = true.
Proof. reflexivity. Qed.
Example outside_ex4 : outside {| fname := "argmax"; fargs := [ABool]; fkw := None; flazy := true; fout := OOk |} = false.
Proof. reflexivity. Qed.

Fixpoint bad_rows (rows : list frow) (i : nat) : list nat :=
  match rows with [] => [] | r :: t => if row_ok r then bad_rows t (S i) else i :: bad_rows t (S i) end.
