(* Ndx/BroadcastFacts.v — the broadcasting rule of the model (ONNX multidirectional broadcasting, used by Expand and by
   every element-wise kernel) is the Array API / NumPy rule: shapes are aligned at the right, each pair of extents must
   be equal or contain a 1, the result takes the other extent; symmetric, reflexive, and total on compatible shapes. *)
From Coq Require Import List Arith ZArith Bool Lia.
From ND Require Import Base.Tensor Base.TensorFacts Ndx.PyVal Ndx.GetItem Ndx.Layout.
Import ListNotations.
Local Open Scope nat_scope.

Definition compat (x y : nat) : Prop := x = y \/ x = 1 \/ y = 1.
Definition bext (x y : nat) : nat := if Nat.eqb x 1 then y else x.

(* on reversed shapes: position i counts from the right; missing extents read as 1 *)
Theorem bshape_spec a : forall b c, bshape a b = Some c ->
  length c = Nat.max (length a) (length b) /\
  forall i, compat (nth i a 1) (nth i b 1) /\ nth i c 1 = bext (nth i a 1) (nth i b 1).
Proof.
  induction a as [|x a IH]; intros b c H.
  - simpl in H. injection H as <-. split; [reflexivity|]. intros i. unfold compat, bext.
    destruct i; simpl; (split; [auto|reflexivity]).
  - destruct b as [|y b].
    + simpl in H. injection H as <-. split; [simpl; lia|]. intros i. unfold compat, bext.
      replace (nth i [] 1) with 1 by (destruct i; reflexivity).
      split; [auto|]. destruct (Nat.eqb_spec (nth i (x :: a) 1) 1) as [E|_]; [now rewrite E|reflexivity].
    + simpl in H. destruct (bshape a b) as [r|] eqn:E; [|discriminate].
      destruct (IH b r E) as [Hl Hn].
      destruct (Nat.eqb_spec x y) as [->|Hxy].
      * injection H as <-. split; [simpl; lia|]. intros [|i]; simpl; [|apply Hn].
        split; [left; reflexivity|]. unfold bext. destruct (Nat.eqb_spec y 1); congruence.
      * destruct (Nat.eqb_spec x 1) as [->|Hx1].
        -- injection H as <-. split; [simpl; lia|]. intros [|i]; simpl; [|apply Hn]. split; [right; left; reflexivity|reflexivity].
        -- destruct (Nat.eqb_spec y 1) as [->|Hy1]; [|discriminate].
           injection H as <-. split; [simpl; lia|]. intros [|i]; simpl; [|apply Hn].
           split; [right; right; reflexivity|]. unfold bext. destruct (Nat.eqb_spec x 1); congruence.
Qed.

Theorem bshape_total a : forall b, (forall i, compat (nth i a 1) (nth i b 1)) -> exists c, bshape a b = Some c.
Proof.
  induction a as [|x a IH]; intros b H.
  - exists b. reflexivity.
  - destruct b as [|y b]; [exists (x :: a); reflexivity|].
    destruct (IH b) as [r Hr]; [intros i; exact (H (S i))|].
    simpl. rewrite Hr. specialize (H 0). simpl in H. unfold compat in H.
    destruct (Nat.eqb_spec x y); [eexists; reflexivity|].
    destruct (Nat.eqb_spec x 1); [eexists; reflexivity|].
    destruct (Nat.eqb_spec y 1); [eexists; reflexivity|]. lia.
Qed.

Theorem bshape_comm a : forall b, bshape a b = bshape b a.
Proof.
  induction a as [|x a IH]; intros [|y b]; simpl; try reflexivity.
  rewrite (IH b). destruct (bshape b a); [|reflexivity].
  destruct (Nat.eqb_spec x y) as [->|Hxy]; [now rewrite Nat.eqb_refl|].
  destruct (Nat.eqb_spec y x); [congruence|].
  destruct (Nat.eqb_spec x 1) as [->|Hx]; destruct (Nat.eqb_spec y 1) as [->|Hy]; try reflexivity; congruence.
Qed.

Theorem bshape_refl a : bshape a a = Some a.
Proof. induction a as [|x a IH]; simpl; [reflexivity|]. now rewrite IH, Nat.eqb_refl. Qed.

Theorem broadcast_shape_comm a b : broadcast_shape a b = broadcast_shape b a.
Proof. unfold broadcast_shape. now rewrite bshape_comm. Qed.
Theorem broadcast_shape_refl a : broadcast_shape a a = Some a.
Proof. unfold broadcast_shape. now rewrite bshape_refl, rev_involutive. Qed.

(* Expand: every output element is the input element at the position with the broadcast axes set to 0 *)
Theorem expand_element {A} (t : tensor A) sh d idx : in_bounds sh idx ->
  get (t_expand t sh d) idx d =
  get t (map (fun p => if Nat.eqb (snd p) 1 then 0 else nth (length sh - rank t + fst p) idx 0) (enumerate_from 0 (shape t))) d.
Proof. intros H. unfold t_expand. now rewrite get_tab. Qed.

Example bshape_ex : broadcast_shape [3; 1; 2] [4; 1] = Some [3; 4; 2] /\ broadcast_shape [2; 3] [4; 3] = None /\ broadcast_shape [0; 1] [1; 5] = Some [0; 5].
Proof. repeat split; reflexivity. Qed.

(* ---- three operands: the grouping does not matter (where) ---------------------------------------------- *)
Definition bshape_opt (oa ob : option (list nat)) : option (list nat) :=
  match oa, ob with Some a, Some b => bshape a b | _, _ => None end.

Lemma bshape_nil_r l : bshape l [] = Some l.
Proof. destruct l; reflexivity. Qed.

Definition bdim (x y : nat) : option nat :=
  if Nat.eqb x y then Some x else if Nat.eqb x 1 then Some y else if Nat.eqb y 1 then Some x else None.
Definition bdim_opt (ox oy : option nat) : option nat := match ox, oy with Some x, Some y => bdim x y | _, _ => None end.

Lemma bdim_assoc x y z : bdim_opt (bdim x y) (Some z) = bdim_opt (Some x) (bdim y z).
Proof.
  unfold bdim_opt, bdim.
  repeat (match goal with
          | |- context [Nat.eqb ?a ?b] => destruct (Nat.eqb_spec a b); subst
          end; cbn [bdim_opt]; try congruence; try lia);
  try reflexivity; try congruence; try lia.
Qed.

Lemma bshape_cons x a y b : bshape (x :: a) (y :: b) =
  match bshape a b, bdim x y with Some r, Some d => Some (d :: r) | _, _ => None end.
Proof.
  simpl. unfold bdim. destruct (bshape a b); [|reflexivity].
  destruct (Nat.eqb x y); [reflexivity|]. destruct (Nat.eqb x 1); [reflexivity|]. destruct (Nat.eqb y 1); reflexivity.
Qed.

(* three-way broadcasting does not depend on the grouping: where(c, x, y) broadcasts as NumPy does *)
Theorem bshape_assoc a : forall b c, bshape_opt (bshape a b) (Some c) = bshape_opt (Some a) (bshape b c).
Proof.
  induction a as [|x a IH]; intros b c.
  - simpl. destruct (bshape b c); reflexivity.
  - destruct b as [|y b].
    + simpl. destruct c; reflexivity.
    + destruct c as [|z c].
      * cbn [bshape_opt]. rewrite bshape_nil_r. cbn [bshape_opt]. destruct (bshape (x :: a) (y :: b)) as [l|]; [apply bshape_nil_r|reflexivity].
      * rewrite (bshape_cons x a y b), (bshape_cons y b z c).
        specialize (IH b c). pose proof (bdim_assoc x y z) as Hd.
        destruct (bshape a b) as [r1|] eqn:E1; destruct (bdim x y) as [d1|] eqn:D1;
          destruct (bshape b c) as [r2|] eqn:E2; destruct (bdim y z) as [d2|] eqn:D2;
          cbn [bshape_opt bdim_opt] in *; rewrite ?bshape_cons;
          try rewrite IH; try rewrite <- IH; try rewrite Hd; try rewrite <- Hd; try reflexivity;
          try (destruct (bshape r1 c); reflexivity); try (destruct (bshape a r2); reflexivity);
          try (destruct (bshape a r2); [destruct (bdim x d2)|]; congruence).
Qed.
