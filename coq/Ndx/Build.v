(* Ndx/Build.v — ndonnx.build: flattening of (possibly nested) struct-typed arrays into named
   tensors (collect_vars), the independent recursion over dtypes that consumers use
   (_extract_output_names), the version-1 schema names. *)
From Coq Require Import List String Bool Arith.
From ND Require Import Base.Dtype.
Import ListNotations.
Open Scope string_scope.

Inductive dt := Leaf (c : core) | Struct (fs : list (string * dt)).
Inductive arr := ALeaf (v : nat) (c : core) | AStruct (fs : list (string * arr)).   (* v: a graph variable *)

(* _extract_output_names: dtype tree -> fully qualified names with their core types *)
Fixpoint names (n : string) (d : dt) : list (string * core) :=
  match d with
  | Leaf c => [(n, c)]
  | Struct fs => (fix go (l : list (string * dt)) := match l with [] => [] | (f, t) :: r => (names (n ++ "_" ++ f) t ++ go r)%list end) fs
  end.

(* collect_vars: array tree -> fully qualified names with their graph variables *)
Fixpoint vars (n : string) (a : arr) : list (string * (nat * core)) :=
  match a with
  | ALeaf v c => [(n, (v, c))]
  | AStruct fs => (fix go (l : list (string * arr)) := match l with [] => [] | (f, t) :: r => (vars (n ++ "_" ++ f) t ++ go r)%list end) fs
  end.

(* Array._from_fields: the fields of an array are exactly the fields of its dtype, in order *)
Fixpoint typed (a : arr) (d : dt) : bool :=
  match a, d with
  | ALeaf _ c, Leaf c' => core_eqb c c'
  | AStruct fa, Struct fd =>
      (fix go (la : list (string * arr)) (ld : list (string * dt)) :=
         match la, ld with
         | [], [] => true
         | (f, x) :: ra, (g, y) :: rd => String.eqb f g && typed x y && go ra rd
         | _, _ => false
         end) fa fd
  | _, _ => false
  end.

(* the built-in dtypes *)
Definition dt_of (d : dtype) : option dt :=
  match d with
  | DCore c => Some (Leaf c)
  | DNull c => Some (Struct [("values", Leaf c); ("null", Leaf CBool)])
  | DStruct => None
  end.

(* version-1 schema: type_name <-> dtype *)
Definition core_name (c : core) : string :=
  match c with
  | CBool => "Boolean" | CI8 => "Int8" | CI16 => "Int16" | CI32 => "Int32" | CI64 => "Int64"
  | CU8 => "UInt8" | CU16 => "UInt16" | CU32 => "UInt32" | CU64 => "UInt64"
  | CF32 => "Float32" | CF64 => "Float64" | CStr => "Utf8"
  end.
Definition schema_name (d : dtype) : string :=
  match d with DCore c => core_name c | DNull c => "N" ++ core_name c | DStruct => "?" end.
Definition v1_lookup (tbl : list (string * dtype)) (s : string) : option dtype :=
  match find (fun p => String.eqb (fst p) s) tbl with Some (_, d) => Some d | None => None end.
