(* Ndx/BuildRT.v — the schema round trip of ndonnx._build: _deconstruct_inputs/_flatten turn a (nested) struct value into
   named flat tensors, _assemble_outputs/helper rebuild the value from named flat tensors by recursing over the dtype.
   Theorem: for arbitrarily nested struct dtypes, reassembling what was flattened gives the value back, whenever the
   flattened names are pairwise distinct (the names depend on the dtype only). *)
From Coq Require Import List String Bool Arith.
From ND Require Import Base.Dtype Ndx.Build.
Import ListNotations.
Open Scope string_scope.

Section RoundTrip.
Variable V : Type.

Inductive vtree := VLeaf (x : V) | VNode (fs : list (string * vtree)).

(* the value has the layout of the dtype: same field names, in order, recursively *)
Fixpoint shaped (v : vtree) (d : dt) : bool :=
  match v, d with
  | VLeaf _, Leaf _ => true
  | VNode vs, Struct fs =>
      (fix go (lv : list (string * vtree)) (ld : list (string * dt)) :=
         match lv, ld with
         | [], [] => true
         | (g, s) :: rv, (f, t) :: rd => String.eqb g f && shaped s t && go rv rd
         | _, _ => false
         end) vs fs
  | _, _ => false
  end.

(* _flatten: sub-field names are formed from the ACCUMULATED path *)
Fixpoint flatten (n : string) (d : dt) (v : vtree) : list (string * V) :=
  match d, v with
  | Leaf _, VLeaf x => [(n, x)]
  | Struct fs, VNode vs =>
      (fix go (ld : list (string * dt)) (lv : list (string * vtree)) : list (string * V) :=
         match ld, lv with
         | (f, t) :: rd, (_, s) :: rv => (flatten (n ++ "_" ++ f) t s ++ go rd rv)%list
         | _, _ => []
         end) fs vs
  | _, _ => []
  end.

Definition lookup (k : string) (m : list (string * V)) : option V :=
  match find (fun p => String.eqb (fst p) k) m with Some p => Some (snd p) | None => None end.

(* _assemble_outputs.helper; `acc` says whether a sub-field's tensor name is formed from the accumulated path
   (f"{prefix}_{field}") or from the top-level output name *)
Definition child (acc : bool) (top n f : string) : string := (if acc then n else top) ++ "_" ++ f.

Fixpoint assemble (acc : bool) (top n : string) (d : dt) (m : list (string * V)) : option vtree :=
  match d with
  | Leaf _ => option_map VLeaf (lookup n m)
  | Struct fs =>
      option_map VNode
        ((fix go (ld : list (string * dt)) : option (list (string * vtree)) :=
            match ld with
            | [] => Some []
            | (f, t) :: rd =>
                match assemble acc top (child acc top n f) t m, go rd with
                | Some s, Some rest => Some ((f, s) :: rest)
                | _, _ => None
                end
            end) fs)
  end.

(* reassembling from any table that contains the flattened entries gives the value back *)
Fixpoint assemble_flatten (d : dt) : forall n v m top, shaped v d = true ->
  (forall k x, In (k, x) (flatten n d v) -> lookup k m = Some x) ->
  assemble true top n d m = Some v.
Proof.
  destruct d as [c | fs]; intros n v m top Hs H; destruct v as [x | vs]; simpl in Hs; try discriminate.
  - simpl. rewrite (H n x) by (simpl; auto). reflexivity.
  - simpl. simpl in H.
    enough (E : (fix go (ld : list (string * dt)) : option (list (string * vtree)) :=
                   match ld with
                   | [] => Some []
                   | (f, t) :: rd =>
                       match assemble true top (child true top n f) t m, go rd with
                       | Some s, Some rest => Some ((f, s) :: rest)
                       | _, _ => None
                       end
                   end) fs = Some vs) by (rewrite E; reflexivity).
    revert vs Hs H. induction fs as [|[f t] rd IH]; intros [|[g s] rv] Hs H; try discriminate; [reflexivity|].
    apply andb_true_iff in Hs as [Hs H3]. apply andb_true_iff in Hs as [H1 H2]. apply String.eqb_eq in H1. subst g.
    unfold child at 1. cbn [fst snd].
    rewrite (assemble_flatten t (n ++ "_" ++ f) s m top H2) by (intros k x Hin; apply H; apply in_or_app; left; exact Hin).
    rewrite (IH rv H3) by (intros k x Hin; apply H; apply in_or_app; right; exact Hin).
    reflexivity.
Qed.

(* the flattened names depend on the dtype only *)
Fixpoint flatten_names (d : dt) : forall n v, shaped v d = true -> map fst (flatten n d v) = map fst (names n d).
Proof.
  destruct d as [c | fs]; intros n v Hs; destruct v as [x | vs]; simpl in Hs; try discriminate; [reflexivity|].
  simpl. revert vs Hs. induction fs as [|[f t] rd IH]; intros [|[g s] rv] Hs; try discriminate; [reflexivity|].
  apply andb_true_iff in Hs as [Hs H3]. apply andb_true_iff in Hs as [H1 H2].
  rewrite !map_app. rewrite (flatten_names t _ s H2). f_equal. apply IH. exact H3.
Qed.

Lemma lookup_nodup (m : list (string * V)) : NoDup (map fst m) -> forall k x, In (k, x) m -> lookup k m = Some x.
Proof.
  unfold lookup. induction m as [|[k0 x0] r IH]; intros Hn k x Hin; simpl in *; [tauto|].
  inversion Hn as [|? ? Hnot Hr]; subst.
  destruct Hin as [E | Hin].
  - injection E as -> ->. now rewrite String.eqb_refl.
  - destruct (String.eqb_spec k0 k) as [->|Hne].
    + exfalso. apply Hnot. change k with (fst (k, x)). now apply in_map.
    + now apply IH.
Qed.

(* the round trip: flatten then reassemble, when the dtype's flattened names are pairwise distinct *)
Theorem schema_round_trip d n v top : shaped v d = true -> NoDup (map fst (names n d)) ->
  assemble true top n d (flatten n d v) = Some v.
Proof.
  intros Hs Hn. apply assemble_flatten; [exact Hs|].
  apply lookup_nodup. now rewrite flatten_names.
Qed.

(* ... and inside a larger table (several inputs / outputs merged), as long as the other entries use other names *)
Theorem schema_round_trip_in_context d n v top pre post : shaped v d = true ->
  NoDup (map fst (pre ++ flatten n d v ++ post)) ->
  assemble true top n d (pre ++ flatten n d v ++ post)%list = Some v.
Proof.
  intros Hs Hn. apply assemble_flatten; [exact Hs|].
  intros k x Hin. apply lookup_nodup; [exact Hn|]. apply in_or_app. right. apply in_or_app. now left.
Qed.
End RoundTrip.

Arguments VLeaf {V} x. Arguments VNode {V} fs.

(* forming sub-field names from the TOP-LEVEL name instead of the accumulated path breaks two-level structs *)
Example assemble_from_top_refuted :
  let d := Struct [("x", Struct [("values", Leaf CI64); ("null", Leaf CBool)])] in
  let v := VNode [("x", VNode [("values", VLeaf 7); ("null", VLeaf 0)])] in
  assemble nat true "o" "o" d (flatten nat "o" d v) = Some v /\ assemble nat false "o" "o" d (flatten nat "o" d v) = None.
Proof. split; reflexivity. Qed.
