(* Ndx/GetItem.v — basic indexing: the lowering in _opset_extensions.getitem (one Slice over
   all stepped axes, Gather per integer axis in reverse order, one Unsqueeze), executable on
   tensors; and NumPy's left-to-right semantics as the spec. *)
From Coq Require Import List Arith ZArith Bool Lia.
From ND Require Import Base.Tensor Ndx.PyVal Ndx.Slice1D Ndx.Index.
Import ListNotations.
Local Open Scope nat_scope.

Fixpoint replace_nth {A} (k : nat) (v : A) (l : list A) : list A :=
  match l, k with
  | [], _ => []
  | _ :: r, O => v :: r
  | x :: r, S k' => x :: replace_nth k' v r
  end.
Fixpoint remove_nth {A} (k : nat) (l : list A) : list A :=
  match l, k with
  | [], _ => []
  | _ :: r, O => r
  | x :: r, S k' => x :: remove_nth k' r
  end.
Fixpoint insert_nth {A} (k : nat) (v : A) (l : list A) : list A :=
  match k, l with
  | O, _ => v :: l
  | S k', x :: r => x :: insert_nth k' v r
  | S _, [] => [v]
  end.

(* ---- ONNX operators as re-indexings ------------------------------------------------------- *)
(* Slice on one axis / Gather with a 1-D index vector: positions `sel` of axis `axis` *)
Definition t_select {A} (t : tensor A) (axis : nat) (sel : list nat) (d : A) : tensor A :=
  tab (replace_nth axis (length sel) (shape t))
      (fun idx => get t (replace_nth axis (nth (nth axis idx 0) sel 0) idx) d).
(* Gather with a scalar index: the axis disappears *)
Definition t_drop {A} (t : tensor A) (axis : nat) (c : nat) (d : A) : tensor A :=
  tab (remove_nth axis (shape t)) (fun idx => get t (insert_nth axis c idx) d).
(* Unsqueeze: `axes` are positions in the OUTPUT, ascending *)
Fixpoint unsq_shape (k : nat) (n_out : nat) (axes : list nat) (sh : list nat) : list nat :=
  match n_out with
  | O => []
  | S m => if existsb (Nat.eqb k) axes then 1 :: unsq_shape (S k) m axes sh
           else match sh with x :: r => x :: unsq_shape (S k) m axes r | [] => [] end
  end.
Fixpoint unsq_index (k : nat) (axes : list nat) (idx : list nat) : list nat :=
  match idx with
  | [] => []
  | i :: r => if existsb (Nat.eqb k) axes then unsq_index (S k) axes r else i :: unsq_index (S k) axes r
  end.
Definition t_unsqueeze {A} (t : tensor A) (axes : list nat) (d : A) : tensor A :=
  tab (unsq_shape 0 (length (shape t) + length axes) axes (shape t)) (fun idx => get t (unsq_index 0 axes idx) d).

Inductive res (A : Type) := Done (a : A) | RuntimeError | TraceError (e : exn).
Arguments Done {A} a. Arguments RuntimeError {A}. Arguments TraceError {A} e.

Definition znat (l : list Z) : list nat := map Z.to_nat l.

(* ---- the lowering, as written in getitem ---------------------------------------------------- *)
Definition is_new (n : nitem) : bool := match n with NNew => true | _ => false end.

Fixpoint enumerate_from {A} (k : nat) (l : list A) : list (nat * A) :=
  match l with [] => [] | x :: r => (k, x) :: enumerate_from (S k) r end.

Definition axis_slices (index_some : list nitem) : list (nat * (Z * Z * Z)) :=
  flat_map (fun p => match snd p with NSlice s e st => [(fst p, (s, e, st))] | _ => [] end) (enumerate_from 0 index_some).
Definition axis_indices (index_some : list nitem) : list (nat * Z) :=
  flat_map (fun p => match snd p with NInt z => [(fst p, z)] | NBool b => [(fst p, if b then 1%Z else 0%Z)] | _ => [] end)
           (enumerate_from 0 index_some).
Definition new_axes (index : list nitem) : list nat :=
  let filtered := filter (fun n => match n with NNew | NFull | NSlice _ _ _ => true | _ => false end) index in
  flat_map (fun p => if is_new (snd p) then [fst p] else []) (enumerate_from 0 filtered).

Definition apply_slices {A} (t : tensor A) (sl : list (nat * (Z * Z * Z))) (d : A) : tensor A :=
  fold_left (fun acc p =>
               let '(ax, q) := p in
               t_select acc ax (znat (onnx_slice (Z.of_nat (nth ax (shape acc) 0)) (Some q))) d) sl t.

(* ONNX Gather with a scalar index: negative indices count from the end; out of range fails *)
Fixpoint apply_gathers {A} (t : tensor A) (gs : list (nat * Z)) (d : A) : res (tensor A) :=
  match gs with
  | [] => Done t
  | (ax, z) :: r =>
      let n := Z.of_nat (nth ax (shape t) 0) in
      if ((- n <=? z) && (z <? n))%Z
      then apply_gathers (t_drop t ax (Z.to_nat (if (z <? 0)%Z then z + n else z)%Z) d) r d
      else RuntimeError
  end.

Definition ndx_getitem {A} (t : tensor A) (index : list nitem) (d : A) : res (tensor A) :=
  let index_some := filter (fun n => negb (is_new n)) index in
  let t1 := apply_slices t (axis_slices index_some) d in
  match apply_gathers t1 (rev (axis_indices index_some)) d with
  | Done t2 => Done (match new_axes index with [] => t2 | ax => t_unsqueeze t2 ax d end)
  | e => e
  end.

(* the whole path from the user's index tuple *)
Definition ndx_getitem_user {A} (t : tensor A) (index : list item) (d : A) : res (tensor A) :=
  match normalise_index (Z.of_nat (length (shape t))) index with
  | Ret ns => ndx_getitem t ns d
  | Raise e => TraceError e
  end.

(* ---- NumPy: process the index entries left to right --------------------------------------- *)
(* returns output shape and, for an output index, the source index *)
Fixpoint np_shape (index : list item) (sh : list nat) : option (list nat) :=
  match index with
  | [] => match sh with [] => Some [] | _ => None end
  | INone :: r => match np_shape r sh with Some o => Some (1 :: o) | None => None end
  | IInt z :: r =>
      match sh with
      | n :: sh' => if ((- Z.of_nat n <=? z) && (z <? Z.of_nat n))%Z then np_shape r sh' else None
      | [] => None
      end
  | ISlice a b c :: r =>
      match sh with
      | n :: sh' => match np_shape r sh' with
                    | Some o => Some (length (py_slice (Z.of_nat n) a b c) :: o)
                    | None => None end
      | [] => None
      end
  | _ => None
  end.

Fixpoint np_source (index : list item) (sh : list nat) (oidx : list nat) : list nat :=
  match index with
  | [] => []
  | INone :: r => np_source r sh (tl oidx)
  | IInt z :: r =>
      match sh with
      | n :: sh' => Z.to_nat (if (z <? 0)%Z then z + Z.of_nat n else z)%Z :: np_source r sh' oidx
      | [] => []
      end
  | ISlice a b c :: r =>
      match sh with
      | n :: sh' => Z.to_nat (nth (hd 0 oidx) (py_slice (Z.of_nat n) a b c) 0%Z) :: np_source r sh' (tl oidx)
      | [] => []
      end
  | _ => []
  end.

Definition np_getitem {A} (t : tensor A) (index : list item) (d : A) : option (tensor A) :=
  match np_shape index (shape t) with
  | Some o => Some (tab o (fun oidx => get t (np_source index (shape t) oidx) d))
  | None => None
  end.
