(* Ndx/ElemLaws.v — the dtype law (C03) and the domain law (C17) as decidable predicates on
   table rows, plus their meaning. *)
From Coq Require Import List Bool ZArith String.
From ND Require Import Base.Dtype Base.DtypeFacts Ndx.ElemSyntax.
Import ListNotations.
Open Scope string_scope.

Definition mem (s : string) (l : list string) : bool := existsb (String.eqb s) l.

Definition arith_fns := ["add"; "subtract"; "multiply"; "floor_divide"; "remainder"; "pow";
  "abs"; "negative"; "positive"; "square"; "sign"; "floor"; "ceil"; "round"; "trunc"].
Definition bitwise_fns := ["bitwise_and"; "bitwise_or"; "bitwise_xor"; "bitwise_left_shift";
  "bitwise_right_shift"; "bitwise_invert"].
Definition compare_fns := ["equal"; "not_equal"; "less"; "less_equal"; "greater"; "greater_equal"].
Definition ordering_fns := ["less"; "less_equal"; "greater"; "greater_equal"].
Definition logical_fns := ["logical_and"; "logical_or"; "logical_xor"; "logical_not"].
Definition predicate_fns := ["isfinite"; "isinf"; "isnan"].
Definition float_fns := ["acos"; "acosh"; "asin"; "asinh"; "atan"; "atanh"; "cos"; "cosh"; "exp";
  "expm1"; "log"; "log1p"; "log2"; "log10"; "sin"; "sinh"; "sqrt"; "tan"; "tanh"; "divide";
  "atan2"; "logaddexp"].
Definition all_fns := (arith_fns ++ bitwise_fns ++ compare_fns ++ logical_fns ++ predicate_fns ++ float_fns)%list.

Definition arg_dtype (a : argk) : option dtype := match a with AArr d => Some d | AScal _ => None end.
Definition arg_nullable (a : argk) : bool := match a with AArr d => is_nullable d | _ => false end.

Definition expected_dtype (args : list argk) : outcome dtype :=
  match args with
  | [AArr d] => promote_arrays [d]
  | [AArr a; AArr b] => promote_arrays [a; b]
  | [AArr a; AScal s] | [AScal s; AArr a] => promote_array_scalar a s
  | _ => RaiseOther
  end.

Definition to_bool_dtype (d : dtype) : dtype := if is_nullable d then DNull CBool else DCore CBool.

Definition out_dtype (o : rowout) : option dtype :=
  match o with Traced d _ _ | DtypeOnly d => Some d | Raises _ | Untranslated => None end.

(* -- C03: what a successfully traced row must satisfy ------------------------------------ *)
Definition law_nullable (r : row) : bool :=
  match out_dtype (r_out r) with
  | Some d => Bool.eqb (is_nullable d) (existsb arg_nullable (r_args r))
  | None => true
  end.

Definition law_bool_result (r : row) : bool :=
  match out_dtype (r_out r) with
  | Some d => if mem (r_fn r) (compare_fns ++ logical_fns ++ predicate_fns)%list
              then match core_of d with Some CBool => true | _ => false end else true
  | None => true
  end.

Definition law_promote (r : row) : bool :=
  match out_dtype (r_out r) with
  | Some d => if mem (r_fn r) (arith_fns ++ bitwise_fns)%list
              then oeqb (Ok d) (expected_dtype (r_args r)) else true
  | None => true
  end.

(* floating functions keep a floating operand dtype *)
Definition all_float_args (args : list argk) : bool :=
  forallb (fun a => match a with
                    | AArr d => match core_of d with Some c => is_float c | None => false end
                    | AScal PyFloat => true | AScal _ => false end) args.
Definition law_float (r : row) : bool :=
  match out_dtype (r_out r) with
  | Some d => if mem (r_fn r) float_fns && all_float_args (r_args r)
              then oeqb (Ok d) (expected_dtype (r_args r)) else true
  | None => true
  end.

Definition c03_row_ok (r : row) : bool :=
  law_nullable r && law_bool_result r && law_promote r && law_float r.

(* -- C17: the Array API domain of each function, on dtype kinds -------------------------- *)
Inductive akind := AKBool | AKInt | AKFloat | AKStr | AKStruct.
Definition akind_of_core (c : core) : akind :=
  match kind_of c with KBool => AKBool | KSigned | KUnsigned => AKInt | KFloat => AKFloat | KStr => AKStr end.
Definition akind_of (a : argk) : akind :=
  match a with
  | AArr d => match core_of d with Some c => akind_of_core c | None => AKStruct end
  | AScal PyBool => AKBool | AScal PyInt => AKInt | AScal PyFloat => AKFloat | AScal PyStr => AKStr
  end.
Definition akind_eqb (a b : akind) : bool :=
  match a, b with
  | AKBool, AKBool | AKInt, AKInt | AKFloat, AKFloat | AKStr, AKStr | AKStruct, AKStruct => true
  | _, _ => false
  end.

(* Does the function accept operands of these kinds?  (Array API 2023.12 categories; a
   Python scalar counts as its own kind; mixed int/float is NumPy-style and accepted;
   strings only with `add`, `equal`, `not_equal` among themselves.) *)
Definition promotes_to_int (args : list argk) : bool :=
  match expected_dtype args with
  | Ok d => match core_of d with Some c => is_int c | None => false end
  | _ => false
  end.
Definition numeric_k (k : akind) := match k with AKInt | AKFloat => true | _ => false end.
Definition in_domain (fn : string) (args : list argk) : bool :=
  let ks := map akind_of args in
  let all p := forallb p ks in
  if existsb (akind_eqb AKStruct) ks then false
  else if all (akind_eqb AKStr) then mem fn ["add"; "equal"; "not_equal"]
  else if existsb (akind_eqb AKStr) ks then false
  else if mem fn arith_fns || mem fn ordering_fns then all numeric_k
  else if mem fn ["bitwise_left_shift"; "bitwise_right_shift"] then
         all (akind_eqb AKInt) && promotes_to_int args
  else if mem fn bitwise_fns then (all (akind_eqb AKInt) && promotes_to_int args) || all (akind_eqb AKBool)
  else if mem fn ["equal"; "not_equal"] then all numeric_k || all (akind_eqb AKBool)
  else if mem fn logical_fns then all (akind_eqb AKBool)
  else if mem fn predicate_fns then all numeric_k
  else if mem fn float_fns then all (akind_eqb AKFloat)
  else false.

(* clearly outside: the classes the property names — numeric functions on strings or
   booleans, logical functions on numbers, strings mixed with non-strings. *)
Definition outside_domain (fn : string) (args : list argk) : bool :=
  let ks := map akind_of args in
  let has k := existsb (akind_eqb k) ks in
  (has AKStr && negb (forallb (akind_eqb AKStr) ks))                       (* str mixed with non-str *)
  || (has AKStr && negb (mem fn ["add"; "equal"; "not_equal"]))             (* numeric/logical fn on str *)
  || (has AKBool && (mem fn arith_fns || mem fn ordering_fns || mem fn float_fns
                     || mem fn predicate_fns))                                (* numeric fn on bool *)
  || ((has AKInt || has AKFloat) && mem fn logical_fns)                      (* logical fn on numbers *)
  || (has AKFloat && mem fn bitwise_fns).                                    (* bitwise on floats *)

Definition c17_row_ok (r : row) : bool :=
  if outside_domain (r_fn r) (r_args r)
  then match r_out r with Raises ETypeError => true | _ => false end
  else true.

(* inside the standard's domain the call must succeed (used by C02) *)
Definition c02_row_defined (r : row) : bool :=
  if in_domain (r_fn r) (r_args r) then match r_out r with Raises _ => false | _ => true end else true.

(* -- baseline patterns: classes of rows on which the pinned tree is known to deviate ----- *)
Definition pattern := (string * list akind * list bool * option excfam * string)%type.
Definition is_scal (a : argk) : bool := match a with AScal _ => true | _ => false end.
Definition out_exc (o : rowout) : option excfam := match o with Raises e => Some e | _ => None end.
Definition pat_match (r : row) (p : pattern) : bool :=
  match p with
  | (f, ks, ss, o, _) =>
      String.eqb f (r_fn r) && list_eqb akind_eqb ks (map akind_of (r_args r))
      && list_eqb Bool.eqb ss (map is_scal (r_args r)) && opt_eqb excfam_eqb o (out_exc (r_out r))
  end.
Definition known_class (ps : list pattern) (r : row) : option string :=
  match find (pat_match r) ps with Some (_, _, _, _, c) => Some c | None => None end.
Definition is_none {A} (o : option A) : bool := match o with None => true | _ => false end.

Fixpoint indices_where {A} (f : A -> bool) (l : list A) (i : nat) : list nat :=
  match l with
  | [] => []
  | x :: r => if f x then i :: indices_where f r (S i) else indices_where f r (S i)
  end.
