(* Ndx/Dispatch.v — rows of the dispatch table extracted from _funcs.py / _array.py (T-src)
   and the law they must satisfy. *)
From Coq Require Import List String Bool.
Import ListNotations.
Open Scope string_scope.

Inductive argv := AParam (s : string) | ALit (s : string) | AOther.
Record drow := { d_public : string; d_kind : string; d_target : string; d_pos : list argv; d_kw : list (string * argv) }.

Definition argv_is_param (k : string) (v : argv) : bool :=
  match v with AParam p => String.eqb p k | _ => false end.

(* public function `f` fetches the operations-block attribute `f`, and every keyword it
   forwards is its own parameter of the same name *)
Definition kind_direct (k : string) : bool := String.eqb k "ops" || String.eqb k "unary" || String.eqb k "binary".

(* documented: where / can_cast consult both operand blocks; astype/asarray etc. go through make_array *)
Definition helper_targets : list string := ["make_array"; "can_cast"].

Definition drow_ok (r : drow) : bool :=
  if kind_direct (d_kind r) then
    existsb (String.eqb (d_target r)) helper_targets
    || (String.eqb (d_target r) (d_public r) && forallb (fun kv => argv_is_param (fst kv) (snd kv)) (d_kw r))
  else true.

(* Array methods `x.f(...)` / operators forward to ndx.<target> with their own parameters *)
Definition method_target (m : string) : option string :=
  let tbl := [("sum","sum");("prod","prod");("max","max");("min","min");("all","all");("any","any");
    ("__pos__","positive");("__neg__","negative");("__abs__","abs");("__add__","add");("__radd__","add");("__iadd__","add");
    ("__sub__","subtract");("__rsub__","subtract");("__isub__","subtract");("__mul__","multiply");("__rmul__","multiply");
    ("__imul__","multiply");("__truediv__","divide");("__rtruediv__","divide");("__floordiv__","floor_divide");
    ("__rfloordiv__","floor_divide");("__mod__","remainder");("__rmod__","remainder");("__pow__","pow");("__rpow__","pow");
    ("__matmul__","matmul");("__lt__","less");("__le__","less_equal");("__gt__","greater");("__ge__","greater_equal");
    ("__invert__","bitwise_invert");("__and__","bitwise_and");("__rand__","bitwise_and");("__or__","bitwise_or");
    ("__ror__","bitwise_or");("__xor__","bitwise_xor");("__rxor__","bitwise_xor");("__lshift__","bitwise_left_shift");
    ("__rlshift__","bitwise_left_shift");("__rshift__","bitwise_right_shift");("__rrshift__","bitwise_right_shift");
    ("__ne__","not_equal");("mT","matrix_transpose");("astype","astype");("size","prod")] in
  match find (fun p => String.eqb (fst p) m) tbl with Some (_, t) => Some t | None => None end.

Definition is_reflected (m : string) : bool :=
  existsb (String.eqb m) ["__radd__";"__rsub__";"__rmul__";"__rtruediv__";"__rfloordiv__";"__rmod__";"__rpow__";
                          "__rand__";"__ror__";"__rxor__";"__rlshift__";"__rrshift__"].

Definition argv_eqb (a b : argv) : bool :=
  match a, b with
  | AParam x, AParam y | ALit x, ALit y => String.eqb x y
  | AOther, AOther => true
  | _, _ => false
  end.

Definition mrow_ok (r : drow) : bool :=
  match method_target (d_public r) with
  | Some t =>
      String.eqb (d_target r) t
      && forallb (fun kv => argv_is_param (fst kv) (snd kv)) (d_kw r)
      && (* operand order: reflected operators pass (other, self), the others (self, other) *)
         match d_pos r with
         | [a; b] => if is_reflected (d_public r) then argv_eqb a (AParam "other") && argv_eqb b (AParam "self")
                     else if String.prefix "__" (d_public r) then argv_eqb a (AParam "self") && argv_eqb b (AParam "other")
                     else argv_eqb a (AParam "self")
         | a :: _ => argv_eqb a (AParam "self") || String.eqb (d_public r) "size"
         | [] => false
         end
  | None => true
  end.
