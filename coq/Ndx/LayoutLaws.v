(* Ndx/LayoutLaws.v — closed-form NumPy laws of take, expand_dims and tril / triu as the model runs them: shape and every
   in-bounds element, for every rank, extent, axis (negative ones included), index list and diagonal offset *)
From Coq Require Import List Arith ZArith Bool Lia.
From ND Require Import Base.Tensor Base.TensorFacts Ndx.PyVal Ndx.GetItem Ndx.GetItemProof Ndx.Layout Ndx.LayoutFacts Ndx.NdIndex Ndx.ConcatFacts Ndx.StackFacts.
Import ListNotations.
Local Open Scope nat_scope.

(* ---- take(x, indices, axis): NumPy's x.take with Python's negative indices ------------------------------------- *)
Definition norm_index (n z : Z) : nat := Z.to_nat (if (z <? 0)%Z then z + n else z)%Z.

Theorem ndx_take_spec {A} (t : tensor A) (ix : list Z) axis d r : ndx_take t ix axis d = Done r ->
  let ax := zaxis (rank t) axis in let n := Z.of_nat (nth ax (shape t) 0) in
  ax < rank t /\
  (forall z, In z ix -> (- n <= z < n)%Z) /\
  shape r = replace_nth ax (length ix) (shape t) /\
  forall o, inb (shape r) o ->
    nth ax o 0 < length ix /\
    norm_index n (nth (nth ax o 0) ix 0%Z) < nth ax (shape t) 0 /\
    get r o d = get t (replace_nth ax (norm_index n (nth (nth ax o 0) ix 0%Z)) o) d.
Proof.
  intros H ax n. unfold ndx_take in H. destruct (axis_ok (rank t) axis) eqn:Hok; [|discriminate].
  pose proof (zaxis_lt _ _ Hok) as Hax. fold ax in H, Hax. fold n in H.
  destruct (forallb _ ix) eqn:Hall; [|discriminate]. injection H as <-.
  assert (Hrange : forall z, In z ix -> (- n <= z < n)%Z).
  { intros z Hz. rewrite forallb_forall in Hall. specialize (Hall z Hz). apply andb_true_iff in Hall as [H1 H2].
    apply Z.leb_le in H1. apply Z.ltb_lt in H2. lia. }
  split; [exact Hax|]. split; [exact Hrange|]. split; [unfold t_select; cbn [shape tab]; now rewrite map_length|].
  intros o Hb. unfold t_select in *. cbn [shape tab] in Hb. rewrite map_length in Hb.
  assert (Ho : nth ax o 0 < length ix).
  { pose proof (inb_nth _ _ ax Hb) as Hn. rewrite length_replace in Hn. specialize (Hn Hax). now rewrite nth_replace_same in Hn by exact Hax. }
  split; [exact Ho|].
  assert (Hz := Hrange (nth (nth ax o 0) ix 0%Z) (nth_In _ _ Ho)).
  split.
  - unfold norm_index. destruct (_ <? 0)%Z eqn:E; [apply Z.ltb_lt in E|apply Z.ltb_ge in E]; unfold n in *; lia.
  - rewrite get_tab by (rewrite map_length; exact Hb). f_equal. f_equal.
    rewrite (nth_indep _ 0 (norm_index n 0%Z)) by (rewrite map_length; exact Ho).
    exact (map_nth (fun z => norm_index n z) ix 0%Z (nth ax o 0)).
Qed.

(* ---- expand_dims(x, axis): an axis of extent 1 appears at the position, everything else keeps its place ------- *)
Theorem ndx_expand_dims_spec {A} (t : tensor A) axis d r : ndx_expand_dims t axis d = Done r ->
  let ax := zaxis (rank t + 1) axis in
  ax <= rank t /\ shape r = insert_nth ax 1 (shape t) /\
  forall idx, inb (shape r) idx -> get r idx d = get t (remove_nth ax idx) d.
Proof.
  intros H ax. unfold ndx_expand_dims in H. destruct (axis_ok (rank t + 1) axis) eqn:Hok; [|discriminate].
  pose proof (zaxis_lt _ _ Hok) as Hax. fold ax in H, Hax. injection H as <-.
  assert (Hle : ax <= length (shape t)) by (unfold rank in Hax; lia).
  split; [exact Hle|]. split; [now apply shape_unsqueeze_single|].
  intros idx Hb. now apply get_unsqueeze_single.
Qed.

(* ---- tril / triu(x, k): on the last two axes, element [.., i, j] is kept iff j - i <= k (tril) / j - i >= k (triu) -- *)
Theorem ndx_trilu_spec {A} (t : tensor A) k upper zero d r : ndx_trilu t k upper zero d = Done r ->
  2 <= rank t /\ shape r = shape t /\
  forall idx, inb (shape t) idx ->
    let i := Z.of_nat (nth (rank t - 2) idx 0) in let j := Z.of_nat (nth (rank t - 1) idx 0) in
    get r idx d = if (if upper then (k <=? j - i)%Z else (j - i <=? k)%Z) then get t idx d else zero.
Proof.
  unfold ndx_trilu. intros H. destruct (rank t <? 2) eqn:Hr; [discriminate|]. apply Nat.ltb_ge in Hr. injection H as <-.
  split; [exact Hr|]. split; [reflexivity|]. intros idx Hb. cbv zeta. rewrite get_tab by exact Hb.
  set (i := Z.of_nat (nth (rank t - 2) idx 0)). set (j := Z.of_nat (nth (rank t - 1) idx 0)).
  destruct upper.
  - replace (i + k <=? j)%Z with (k <=? j - i)%Z; [reflexivity|]. destruct (Z.leb_spec k (j - i)), (Z.leb_spec (i + k) j); auto; lia.
  - replace (j <=? i + k)%Z with (j - i <=? k)%Z; [reflexivity|]. destruct (Z.leb_spec (j - i) k), (Z.leb_spec j (i + k)); auto; lia.
Qed.

(* non-vacuity *)
Example take_example :
  match ndx_take {| shape := [2;3]; data := [1;2;3;4;5;6]%Z |} [-1; 0; 2; -3]%Z (-1) 0%Z with
  | Done r => shape r = [2;4] /\ data r = [3;1;3;1;6;4;6;4]%Z | _ => False end.
Proof. vm_compute. split; reflexivity. Qed.
Example tril_example :
  match ndx_trilu {| shape := [3;3]; data := [1;2;3;4;5;6;7;8;9]%Z |} (-1) false 0%Z 0%Z with
  | Done r => data r = [0;0;0;4;0;0;7;8;0]%Z | _ => False end.
Proof. vm_compute. reflexivity. Qed.
