(* Ndx/UniqueFacts.v — what unique_all returns, for lists of any length:
   values strictly ascending and exactly the elements of the input; inverse indices rebuild the
   input; indices point at the first occurrence. *)
From Coq Require Import List Arith ZArith Bool Lia Sorted Permutation.
From ND Require Import Ndx.Sort Ndx.SortFacts.
Import ListNotations.
Local Open Scope nat_scope.

Lemma dedup_in x l : In x (dedup_sorted l) <-> In x l.
Proof.
  induction l as [|a r IH]; simpl; [tauto|].
  destruct r as [|b r'].
  - simpl. tauto.
  - destruct (a =? b)%Z eqn:E.
    + apply Z.eqb_eq in E. subst. rewrite IH. simpl. tauto.
    + simpl. rewrite IH. simpl. tauto.
Qed.

Lemma dedup_hd_le a r : Sorted Z.le (a :: r) -> Forall (fun x => (a <= x)%Z) r.
Proof.
  intros H. apply Sorted_StronglySorted in H; [|intros x y z; lia]. inversion H; subst. assumption.
Qed.

Lemma dedup_strict l : Sorted Z.le l -> Sorted Z.lt (dedup_sorted l).
Proof.
  induction l as [|a r IH]; intros H; simpl; [constructor|].
  destruct r as [|b r'].
  - constructor; constructor.
  - inversion H as [|? ? Hr Hh]; subst. specialize (IH Hr).
    destruct (a =? b)%Z eqn:E; [exact IH|].
    apply Z.eqb_neq in E. constructor; [exact IH|].
    (* the head of dedup_sorted (b :: r') is b *)
    assert (Hb : exists t, dedup_sorted (b :: r') = b :: t).
    { clear. revert b. induction r' as [|c r'' IH']; intros b; simpl; [eauto|].
      destruct (b =? c)%Z eqn:E; [apply Z.eqb_eq in E; subst; apply IH' | eauto]. }
    destruct Hb as [t Ht]. rewrite Ht. constructor. inversion Hh; subst. lia.
Qed.

(* values: strictly ascending, and exactly the elements of the input *)
Theorem unique_values_spec l :
  Sorted Z.lt (u_values (ndx_unique l)) /\ forall x, In x (u_values (ndx_unique l)) <-> In x l.
Proof.
  unfold ndx_unique; simpl. split.
  - apply dedup_strict, sort_ascending.
  - intros x. rewrite dedup_in. split; intros H.
    + eapply Permutation_in; [apply sort_perm | exact H].
    + eapply Permutation_in; [apply Permutation_sym, sort_perm | exact H].
Qed.

Lemma first_index_go v l : forall i,
  (fix go (l : list Z) (i : nat) := match l with [] => i | x :: r => if (x =? v)%Z then i else go r (S i) end) l i =
  i + first_index v l.
Proof.
  unfold first_index. induction l as [|x r IH]; intros i; simpl; [lia|].
  destruct (x =? v)%Z; [lia|]. rewrite (IH (S i)), (IH 1). lia.
Qed.

Lemma first_index_cons v x r : first_index v (x :: r) = if (x =? v)%Z then 0 else S (first_index v r).
Proof. unfold first_index at 1. simpl. destruct (x =? v)%Z; auto. now rewrite (first_index_go v r 1). Qed.

(* first_index finds the first occurrence *)
Lemma first_index_spec v l : In v l ->
  first_index v l < length l /\ nth (first_index v l) l 0%Z = v /\ forall j, j < first_index v l -> nth j l 0%Z <> v.
Proof.
  induction l as [|x r IH]; intros H; [destruct H|].
  rewrite first_index_cons. destruct (x =? v)%Z eqn:E.
  - apply Z.eqb_eq in E. subst. simpl. repeat split; [lia | intros j Hj; lia].
  - apply Z.eqb_neq in E. destruct H as [H | H]; [contradiction|]. destruct (IH H) as [I1 [I2 I3]]. simpl. repeat split; [lia | exact I2 |].
    intros [|j] Hj; simpl; [exact E | apply I3; lia].
Qed.

(* indices: every unique value is found at its first position in the input *)
Theorem unique_indices_spec l : let u := ndx_unique l in
  length (u_indices u) = length (u_values u) /\
  forall k, k < length (u_values u) ->
    let v := nth k (u_values u) 0%Z in let i := nth k (u_indices u) 0 in
    i < length l /\ nth i l 0%Z = v /\ forall j, j < i -> nth j l 0%Z <> v.
Proof.
  intros u. unfold u, ndx_unique; simpl. split; [now rewrite map_length|].
  intros k Hk. set (vals := dedup_sorted (ndx_sort false l)) in *.
  assert (E : nth k (map (fun v => first_index v l) vals) 0 = first_index (nth k vals 0%Z) l).
  { rewrite nth_indep with (d' := first_index 0%Z l) by (now rewrite map_length). apply (map_nth (fun v => first_index v l)). }
  rewrite E. apply first_index_spec.
  apply (proj2 (unique_values_spec l)). apply nth_In. exact Hk.
Qed.

(* inverse: indexing the values with the inverse indices rebuilds the input *)
Theorem unique_inverse_spec l : let u := ndx_unique l in
  map (fun i => nth i (u_values u) 0%Z) (u_inverse u) = l /\ Forall (fun i => i < length (u_values u)) (u_inverse u).
Proof.
  intros u. unfold u, ndx_unique; simpl. set (vals := dedup_sorted (ndx_sort false l)).
  assert (Hin : forall x, In x l -> In x vals) by (intros x Hx; apply (proj2 (unique_values_spec l)); exact Hx).
  split.
  - rewrite map_map. rewrite <- (map_id l) at 2. apply map_ext_in. intros x Hx.
    now destruct (first_index_spec x vals (Hin x Hx)) as [_ [H _]].
  - apply Forall_forall. intros i Hi. apply in_map_iff in Hi. destruct Hi as [x [<- Hx]].
    now destruct (first_index_spec x vals (Hin x Hx)) as [H _].
Qed.

(* counts: positive for every unique value *)
Theorem unique_counts_positive l : Forall (fun c => 0 < c) (u_counts (ndx_unique l)).
Proof.
  unfold ndx_unique; simpl. apply Forall_forall. intros c Hc. apply in_map_iff in Hc. destruct Hc as [v [<- Hv]].
  apply (proj1 (proj2 (unique_values_spec l) v)) in Hv. unfold count_eq.
  induction l as [|x r IH]; [destruct Hv|]. simpl. destruct (x =? v)%Z eqn:E; simpl; [lia|].
  destruct Hv as [-> | Hv]; [rewrite Z.eqb_refl in E; discriminate | now apply IH].
Qed.

Example unique_ex : ndx_unique [3; 1; 3; 2; 1]%Z =
  {| u_values := [1; 2; 3]%Z; u_indices := [1; 3; 0]; u_inverse := [2; 0; 2; 1; 0]; u_counts := [2; 1; 2] |}.
Proof. reflexivity. Qed.

(* ---- searchsorted: the counting specification is NumPy's insertion point -------------------------- *)
(* for x1 sorted ascending, i = #{x < v} (left) / #{x <= v} (right) is the unique index with
   x1[:i] all before v and x1[i:] all not before v *)
Lemma filter_none (p : Z -> bool) a r :
  (forall a b, (a <= b)%Z -> p b = true -> p a = true) -> Forall (fun x => (a <= x)%Z) r -> p a = false -> filter p r = [].
Proof.
  intros Hmono Hall E. induction Hall as [|b r' Hb _ IH]; simpl; auto.
  destruct (p b) eqn:Eb; [rewrite (Hmono a b Hb Eb) in E; discriminate | exact IH].
Qed.

Lemma filter_sorted_prefix (p : Z -> bool) l :
  (forall a b, (a <= b)%Z -> p b = true -> p a = true) -> Sorted Z.le l ->
  let i := length (filter p l) in
  (forall j, j < i -> p (nth j l 0%Z) = true) /\ (forall j, i <= j -> j < length l -> p (nth j l 0%Z) = false).
Proof.
  intros Hmono Hs. induction l as [|a r IH]; simpl.
  - split; intros; lia.
  - assert (Hr : Sorted Z.le r) by (inversion Hs; assumption).
    pose proof (dedup_hd_le a r Hs) as Hall. destruct (IH Hr) as [I1 I2]. destruct (p a) eqn:E; simpl.
    + split.
      * intros [|j] Hj; [exact E | apply I1; lia].
      * intros [|j] Hj Hl; [lia | apply I2; lia].
    + (* p a = false: by monotonicity nothing later satisfies p, so the filter is empty *)
      assert (Hnone : filter p r = []) by (apply (filter_none p a r); auto).
      rewrite Hnone in *. simpl in *. split; [intros; lia|].
      intros [|j] _ Hl; [exact E | apply I2; lia].
Qed.

Theorem searchsorted_left_is_insertion_point x1 v : Sorted Z.le x1 ->
  let i := searchsorted_spec false x1 v in
  (forall j, j < i -> (nth j x1 0 < v)%Z) /\ (forall j, i <= j -> j < length x1 -> (v <= nth j x1 0)%Z).
Proof.
  intros Hs. unfold searchsorted_spec.
  destruct (filter_sorted_prefix (fun x => (x <? v)%Z) x1) as [H1 H2]; auto.
  { intros a b Hab Hb. apply Z.ltb_lt in Hb. apply Z.ltb_lt. lia. }
  split.
  - intros j Hj. specialize (H1 j Hj). now apply Z.ltb_lt in H1.
  - intros j Hj Hl. specialize (H2 j Hj Hl). now apply Z.ltb_ge in H2.
Qed.

Theorem searchsorted_right_is_insertion_point x1 v : Sorted Z.le x1 ->
  let i := searchsorted_spec true x1 v in
  (forall j, j < i -> (nth j x1 0 <= v)%Z) /\ (forall j, i <= j -> j < length x1 -> (v < nth j x1 0)%Z).
Proof.
  intros Hs. unfold searchsorted_spec.
  destruct (filter_sorted_prefix (fun x => (x <=? v)%Z) x1) as [H1 H2]; auto.
  { intros a b Hab Hb. apply Z.leb_le in Hb. apply Z.leb_le. lia. }
  split.
  - intros j Hj. specialize (H1 j Hj). now apply Z.leb_le in H1.
  - intros j Hj Hl. specialize (H2 j Hj Hl). apply Z.leb_gt in H2. lia.
Qed.
