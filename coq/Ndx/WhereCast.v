(* where() on small / unsigned integers is lowered through a wider signed type (int8, int16 -> int32; uint16, uint32,
   uint64 -> int64) and cast back: for in-range operands that detour is invisible — also for uint64 through int64,
   where the upper half of the range passes through negative numbers and comes back. *)
From Coq Require Import ZArith Bool Lia.
From ND Require Import Base.Dtype Ndx.ElemSyntax Ndx.ElemSem Ndx.ElemInt.
Local Open Scope Z_scope.

Lemma cast_round_trip c c' x : is_int c = true -> is_int c' = true -> zbits c <= zbits c' -> in_range c x ->
  wrap c (wrap c' x) = x.
Proof.
  destruct c; try discriminate; destruct c'; try discriminate; intros _ _ Hb; simpl in Hb; try lia;
    unfold in_range, lo, hi, wrap; simpl; lia.
Qed.

(* Where through the wider type, cast back: the selected operand, exactly *)
Theorem where_via_wider_type c c' (b : bool) x y : is_int c = true -> is_int c' = true -> zbits c <= zbits c' ->
  in_range c x -> in_range c y ->
  wrap c (if b then wrap c' x else wrap c' y) = if b then x else y.
Proof. intros. destruct b; now apply cast_round_trip. Qed.

Example where_uint64_via_int64 : wrap CU64 (wrap CI64 18446744073709551615) = 18446744073709551615 /\ wrap CI64 18446744073709551615 = -1.
Proof. split; reflexivity. Qed.
