(* Ndx/ElemCorr.v — the in-Coq correspondence checker for element-wise rows: the harness
   writes observed (operands, result) pairs of the implementation, Coq evaluates the table
   row's fexpr on the same operands and compares.  Validates Ndx/ElemSem.v (operator model)
   and the table together against onnxruntime. *)
From Coq Require Import List Bool ZArith String.
From Coq Require Import Floats.SpecFloat.
From ND Require Import Base.Dtype Ndx.ElemSyntax Ndx.ElemSem.
Import ListNotations.
Open Scope Z_scope.

(* exact scalar encodings exchanged with the harness *)
Inductive enc :=
  | EB (b : bool) | EZ (z : Z)
  | EF (neg : bool) (m : positive) (e : Z)      (* (-1)^neg * m * 2^e, m odd *)
  | EFzero (neg : bool) | EFinf (neg : bool) | EFnan
  | EErr                                         (* the implementation failed at run time *)
  | ESkip.                                       (* not comparable (strings, ...) *)

Fixpoint strip (p : positive) (e : Z) : positive * Z :=
  match p with xO q => strip q (e + 1) | _ => (p, e) end.

Definition enc_of_sf (f : spec_float) : enc :=
  match f with
  | S754_zero s => EFzero s
  | S754_infinity s => EFinf s
  | S754_nan => EFnan
  | S754_finite s m e => let '(m', e') := strip m e in EF s m' e'
  end.

Definition sf_of_enc (c : core) (x : enc) : option spec_float :=
  match x with
  | EF s m e => Some (binary_normalize (prec c) (emax c) (if s then Z.neg m else Z.pos m) e s)
  | EFzero s => Some (S754_zero s)
  | EFinf s => Some (S754_infinity s)
  | EFnan => Some S754_nan
  | _ => None
  end.

Definition sval_of_enc (c : core) (x : enc) : option sval :=
  match c, x with
  | CBool, EB b => Some (VB b)
  | (CF32 | CF64), _ => match sf_of_enc c x with Some f => Some (VF c f) | None => None end
  | CStr, _ => None
  | _, EZ z => Some (VI c z)
  | _, _ => None
  end.

Definition enc_eqb (a b : enc) : bool :=
  match a, b with
  | EB x, EB y => Bool.eqb x y
  | EZ x, EZ y => Z.eqb x y
  | EF s m e, EF s' m' e' => Bool.eqb s s' && Pos.eqb m m' && Z.eqb e e'
  | EFzero s, EFzero s' | EFinf s, EFinf s' => Bool.eqb s s'
  | EFnan, EFnan => true
  | EErr, EErr => true
  | _, _ => false
  end.

Definition enc_of_res (r : res) : option enc :=
  match r with
  | RV (VB b) => Some (EB b)
  | RV (VI _ z) => Some (EZ z)
  | RV (VF _ f) => Some (enc_of_sf f)
  | RV (VS _) => None
  | RErr => Some EErr
  | RUnspec => None
  end.

Definition idtr (o : op1) (c : core) (f : spec_float) := f.
Definition idpow (c : core) (x y : spec_float) := x.

(* does the expression use an uninterpreted kernel? then the model says nothing *)
Fixpoint uses_tr (e : fexpr) : bool :=
  match e with
  | Op1 (OExp | OLog | OSin | OCos | OTan | OAsin | OAcos | OAtan | OSinh | OCosh | OTanh | OAsinh | OAcosh | OAtanh) _ => true
  | Op1 _ a | Cast _ a => uses_tr a
  | Op2 o a b => uses_tr a || uses_tr b
  | Where a b c | Clip a b c => uses_tr a || uses_tr b || uses_tr c
  | FullLike a b => uses_tr a || uses_tr b
  | _ => false
  end.

(* one observation: operand dtypes with their encodings, observed result *)
Definition obs := (list (core * enc) * enc)%type.

Definition model_out (e : fexpr) (o : obs) : option enc :=
  let args := map (fun p => sval_of_enc (fst p) (snd p)) (fst o) in
  if forallb (fun a => match a with Some _ => true | None => false end) args then
    let env i := match nth i args None with Some v => v | None => VB false end in
    enc_of_res (eval idtr idpow env (fun _ => false) e)
  else None.

(* agreement: the model is silent (None) or says exactly what was observed *)
Definition obs_ok (e : fexpr) (o : obs) : bool :=
  match model_out e o with
  | Some m => enc_eqb m (snd o)
  | None => true
  end.
Definition obs_decided (e : fexpr) (o : obs) : bool :=
  match model_out e o with Some _ => true | None => false end.

Definition case := (string * list argk * list obs)%type.

Definition case_expr (tbl : list row) (c : case) : option fexpr :=
  match c with (fn, args, _) =>
    match lookup tbl fn HFunc args with Some (Traced _ v _) => if uses_tr v then None else Some v | _ => None end end.

Definition case_ok (tbl : list row) (c : case) : bool :=
  match case_expr tbl c with
  | Some e => forallb (obs_ok e) (snd c)
  | None => true
  end.

Fixpoint count_decided (tbl : list row) (cs : list case) : nat :=
  match cs with
  | [] => O
  | c :: r => (match case_expr tbl c with
               | Some e => List.length (filter (obs_decided e) (snd c)) | None => O end + count_decided tbl r)%nat
  end.

Fixpoint bad_cases (tbl : list row) (cs : list case) (i : nat) : list (nat * list nat) :=
  match cs with
  | [] => []
  | c :: r =>
      let rest := bad_cases tbl r (S i) in
      match case_expr tbl c with
      | Some e =>
          let fix go (l : list obs) (j : nat) : list nat :=
            match l with [] => [] | o :: q => if obs_ok e o then go q (S j) else j :: go q (S j) end in
          match go (snd c) O with [] => rest | js => (i, js) :: rest end
      | None => rest
      end
  end.
