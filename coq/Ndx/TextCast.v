(* Ndx/TextCast.v — integers to and from their decimal text (astype int -> utf8 -> int).
   print_int is the decimal text NumPy's str() / ONNX Cast-to-string gives an integer (no leading zeros,
   '-' for negatives, "0" for zero); parse_int reads such a text back. *)
From Coq Require Import ZArith String List Decimal DecimalZ DecimalString.
Import ListNotations.
Local Open Scope Z_scope.

Definition print_int (z : Z) : string := NilZero.string_of_int (Z.to_int z).
Definition parse_int (s : string) : option Z := option_map Z.of_int (NilZero.int_of_string s).

Lemma to_int_not_nil z : Z.to_int z <> Pos Nil /\ Z.to_int z <> Neg Nil.
Proof.
  destruct z as [|p|p]; simpl; split; try discriminate.
  - intros H. injection H as H. pose proof (DecimalPos.Unsigned.to_uint_nonnil p). congruence.
  - intros H. injection H as H. pose proof (DecimalPos.Unsigned.to_uint_nonnil p). congruence.
Qed.

(* text -> integer inverts integer -> text, for every integer *)
Theorem parse_print z : parse_int (print_int z) = Some z.
Proof.
  unfold parse_int, print_int. destruct (to_int_not_nil z) as [H1 H2].
  rewrite NilZero.isi by assumption. simpl. now rewrite DecimalZ.of_to.
Qed.

(* distinct integers have distinct texts *)
Theorem print_inj a b : print_int a = print_int b -> a = b.
Proof. intros H. pose proof (parse_print a) as Ha. rewrite H, parse_print in Ha. congruence. Qed.

(* a text that parses prints back to itself exactly when it is canonical; in particular every printed text is *)
Theorem print_parse_canonical z s : parse_int s = Some z -> NilZero.int_of_string s = Some (Z.to_int z) -> print_int z = s.
Proof. intros _ H. unfold print_int. now apply NilZero.sis. Qed.

Example print_ex : print_int (-9223372036854775808) = "-9223372036854775808"%string /\ print_int 0 = "0"%string
  /\ print_int 18446744073709551615 = "18446744073709551615"%string /\ parse_int "-42"%string = Some (-42).
Proof. repeat split; reflexivity. Qed.
