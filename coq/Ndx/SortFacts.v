From Coq Require Import List Arith ZArith Bool Lia Sorted Permutation.
From ND Require Import Ndx.Sort.
Import ListNotations.
Local Open Scope nat_scope.

Lemma insert_perm desc a l : Permutation (insert desc a l) (a :: l).
Proof.
  induction l as [|b r IH]; simpl; auto. destruct (kle desc a b); auto.
  eapply perm_trans; [apply perm_skip, IH | apply perm_swap].
Qed.

Theorem isort_perm desc l : Permutation (isort desc l) l.
Proof. induction l as [|a r IH]; simpl; auto. eapply perm_trans; [apply insert_perm | now apply perm_skip]. Qed.

Lemma kle_spec desc x i y j :
  kle desc (x, i) (y, j) = true <-> ((if desc then (y < x)%Z else (x < y)%Z) \/ (x = y /\ i <= j)).
Proof.
  unfold kle. destruct desc; rewrite orb_true_iff, andb_true_iff, Z.ltb_lt, Z.eqb_eq, Nat.leb_le; tauto.
Qed.

Lemma kle_total desc a b : kle desc a b = true \/ kle desc b a = true.
Proof. destruct a as [x i], b as [y j]. rewrite !kle_spec. destruct desc; lia. Qed.

Lemma kle_trans desc a b c : kle desc a b = true -> kle desc b c = true -> kle desc a c = true.
Proof. destruct a as [x i], b as [y j], c as [z k]. rewrite !kle_spec. destruct desc; lia. Qed.

Definition kleP desc a b := kle desc a b = true.

Lemma insert_sorted desc a l : Sorted (kleP desc) l -> Sorted (kleP desc) (insert desc a l).
Proof.
  induction l as [|b r IH]; intros Hs; simpl.
  - constructor; auto.
  - destruct (kle desc a b) eqn:E.
    + constructor; auto; constructor; exact E.
    + inversion Hs as [|? ? Hr Hh]; subst. constructor; [now apply IH|].
      assert (Hba : kleP desc b a) by (destruct (kle_total desc a b) as [H | H]; [congruence | exact H]).
      destruct r as [|c r']; simpl; [constructor; exact Hba|].
      destruct (kle desc a c); constructor; auto. inversion Hh; subst; auto.
Qed.

Theorem isort_sorted desc l : Sorted (kleP desc) (isort desc l).
Proof. induction l as [|a r IH]; simpl; [constructor | now apply insert_sorted]. Qed.

(* ---- what TopK returns ---------------------------------------------------------------------------- *)
Lemma map_fst_combine {A B} (l : list A) (m : list B) : length l = length m -> map fst (combine l m) = l.
Proof. revert m; induction l as [|a r IH]; intros [|b m] H; simpl in *; try discriminate; auto. f_equal. apply IH. lia. Qed.
Lemma map_snd_combine {A B} (l : list A) (m : list B) : length l = length m -> map snd (combine l m) = m.
Proof. revert m; induction l as [|a r IH]; intros [|b m] H; simpl in *; try discriminate; auto. f_equal. apply IH. lia. Qed.

Lemma map_fst_tag l : map fst (tag l) = l.
Proof. unfold tag. apply map_fst_combine. now rewrite seq_length. Qed.
Lemma map_snd_tag l : map snd (tag l) = seq 0 (length l).
Proof. unfold tag. apply map_snd_combine. now rewrite seq_length. Qed.

(* sort returns a permutation of its input ... *)
Theorem sort_perm desc l : Permutation (ndx_sort desc l) l.
Proof.
  unfold ndx_sort, topk; simpl. rewrite <- (map_fst_tag l) at 2. apply Permutation_map, isort_perm.
Qed.

(* ... that is ordered *)
Lemma kle_asc_le a b : kleP false a b -> (fst a <= fst b)%Z.
Proof. destruct a as [x i], b as [y j]; unfold kleP; rewrite kle_spec; simpl; lia. Qed.
Lemma kle_desc_ge a b : kleP true a b -> (fst b <= fst a)%Z.
Proof. destruct a as [x i], b as [y j]; unfold kleP; rewrite kle_spec; simpl; lia. Qed.

Lemma sorted_map {A B} (R : A -> A -> Prop) (S : B -> B -> Prop) (f : A -> B) l :
  (forall a b, R a b -> S (f a) (f b)) -> Sorted R l -> Sorted S (map f l).
Proof.
  intros H. induction 1 as [|a l Hs IH Hh]; simpl; constructor; auto.
  destruct Hh; simpl; constructor; auto.
Qed.

Theorem sort_ascending l : Sorted Z.le (ndx_sort false l).
Proof. unfold ndx_sort, topk; simpl. apply (sorted_map (kleP false)); [apply kle_asc_le | apply isort_sorted]. Qed.
Theorem sort_descending l : Sorted Z.ge (ndx_sort true l).
Proof.
  unfold ndx_sort, topk; simpl. apply (sorted_map (kleP true)); [|apply isort_sorted].
  intros a b H. apply kle_desc_ge in H. lia.
Qed.

(* argsort returns a permutation of 0..n-1 ... *)
Theorem argsort_perm desc l : Permutation (ndx_argsort desc l) (seq 0 (length l)).
Proof.
  unfold ndx_argsort, topk; simpl. rewrite <- (map_snd_tag l). apply Permutation_map, isort_perm.
Qed.

(* ... which, applied to the input, gives the sorted array *)
Lemma tag_lookup l : Forall (fun p => nth_error l (snd p) = Some (fst p)) (tag l).
Proof.
  unfold tag. assert (H : forall k (m : list Z), Forall (fun p => nth_error m (snd p - k) = Some (fst p) /\ k <= snd p) (combine m (seq k (length m)))).
  { intros k m. revert k. induction m as [|a r IH]; intros k; simpl; constructor.
    - simpl. rewrite Nat.sub_diag. auto.
    - specialize (IH (S k)). eapply Forall_impl; [|exact IH]. intros [v i] [H1 H2]; simpl in *.
      split; [|lia]. replace (i - k) with (S (i - S k)) by lia. exact H1. }
  specialize (H 0 l). eapply Forall_impl; [|exact H]. intros [v i] [H1 _]; simpl in *. now rewrite Nat.sub_0_r in H1.
Qed.

Theorem argsort_takes desc l : map (fun i => nth i l 0%Z) (ndx_argsort desc l) = ndx_sort desc l.
Proof.
  unfold ndx_argsort, ndx_sort, topk; simpl.
  assert (H : Forall (fun p => nth_error l (snd p) = Some (fst p)) (isort desc (tag l))).
  { eapply Permutation_Forall; [apply Permutation_sym, isort_perm | apply tag_lookup]. }
  induction (isort desc (tag l)) as [|[v i] r IH]; simpl; auto.
  inversion H as [|? ? H1 H2]; subst. simpl in H1. f_equal; [now apply nth_error_nth | now apply IH].
Qed.

(* stability: equal values keep their original relative order (also when descending) *)
Theorem argsort_stable desc l : Sorted (kleP desc) (isort desc (tag l)).
Proof. apply isort_sorted. Qed.
Lemma kle_ties_in_original_order desc x i j : kleP desc (x, i) (x, j) -> i <= j.
Proof.
  unfold kleP. rewrite kle_spec. destruct desc; lia.
Qed.
