(* Ndx/ElemIntMore.v — more integer theorems of C02 over the extracted table (T-graph): square, abs, sign, the bitwise
   functions — for every integer dtype and every operand value *)
From Coq Require Import List Bool ZArith String Lia.
From Coq Require Import Floats.SpecFloat.
From ND Require Import Base.Dtype Ndx.ElemSyntax Ndx.ElemSem Ndx.ElemTable Ndx.ElemInt.
Import ListNotations.
Open Scope Z_scope.

Section Specs.
  Variable tr : op1 -> core -> spec_float -> spec_float.
  Variable trpow : core -> spec_float -> spec_float -> spec_float.
  Notation run := (run tr trpow).

  (* ---- square: multiply with itself, through int64 for the narrow and unsigned types ------------------------- *)
  Definition sq_via c := Cast c (Op2 OMul (Cast CI64 (ArgV 0)) (Cast CI64 (ArgV 0))).
  Lemma rows_square : forallb (fun c => match row1 "square" c with
      | Some e => fexpr_eqb e (sq_via c) || fexpr_eqb e (Op2 OMul (ArgV 0) (ArgV 0)) | None => false end) int_cores = true.
  Proof. vm_compute. reflexivity. Qed.

  Theorem square_int_spec c x : is_int c = true ->
    exists e, row1 "square" c = Some e /\ run e c [x] = RV (VI c (wrap c (x * x))).
  Proof.
    intros Hc. pose proof (proj1 (forallb_forall _ _) rows_square c (int_cores_complete c Hc)) as H. cbv beta in H.
    generalize dependent (row1 "square" c). intros r H. destruct r as [e|]; try discriminate.
    exists e; split; auto. apply orb_true_iff in H as [H | H]; apply fexpr_eqb_eq in H; subst e.
    - unfold run, sq_via, envI. destruct c; try discriminate; cbn -[wrap]; rewrite via64_mul by reflexivity; reflexivity.
    - unfold run, envI. cbn -[wrap]. rewrite core_eqb_refl. reflexivity.
  Qed.

  (* ---- abs / bitwise_invert: one node on the operand's own type ------------------------------------------------ *)
  Lemma rows_abs : forallb (fun c => match row1 "abs" c with Some e => fexpr_eqb e (Op1 OAbs (ArgV 0)) | None => false end) int_cores = true.
  Proof. vm_compute. reflexivity. Qed.
  Lemma rows_invert : forallb (fun c => match row1 "bitwise_invert" c with Some e => fexpr_eqb e (Op1 OBitNot (ArgV 0)) | None => false end) int_cores = true.
  Proof. vm_compute. reflexivity. Qed.

  (* abs wraps like NumPy: abs(int8(-128)) is -128 *)
  Theorem abs_int_spec c x : is_int c = true ->
    exists e, row1 "abs" c = Some e /\ run e c [x] = RV (VI c (wrap c (Z.abs x))).
  Proof.
    intros Hc. pose proof (proj1 (forallb_forall _ _) rows_abs c (int_cores_complete c Hc)) as H. cbv beta in H.
    generalize dependent (row1 "abs" c). intros r H. destruct r as [e|]; try discriminate.
    exists e; split; auto. apply fexpr_eqb_eq in H; subst e. unfold run, envI. cbn -[wrap]. reflexivity.
  Qed.
  Theorem bitwise_invert_int_spec c x : is_int c = true ->
    exists e, row1 "bitwise_invert" c = Some e /\ run e c [x] = RV (VI c (wrap c (Z.lnot x))).
  Proof.
    intros Hc. pose proof (proj1 (forallb_forall _ _) rows_invert c (int_cores_complete c Hc)) as H. cbv beta in H.
    generalize dependent (row1 "bitwise_invert" c). intros r H. destruct r as [e|]; try discriminate.
    exists e; split; auto. apply fexpr_eqb_eq in H; subst e. unfold run, envI. cbn -[wrap]. reflexivity.
  Qed.

  (* ---- bitwise_and / or / xor: one node on the common type ------------------------------------------------------- *)
  Definition is_direct (o : op2) (r : option fexpr) : bool := match r with Some e => fexpr_eqb e (direct o) | None => false end.
  Definition bit_rows (fn : string) (o : op2) := forallb (fun c => is_direct o (row2 fn c)) int_cores.
  Lemma rows_and : bit_rows "bitwise_and" OBitAnd = true. Proof. vm_compute. reflexivity. Qed.
  Lemma rows_or : bit_rows "bitwise_or" OBitOr = true. Proof. vm_compute. reflexivity. Qed.
  Lemma rows_xor : bit_rows "bitwise_xor" OBitXor = true. Proof. vm_compute. reflexivity. Qed.
  Definition zbit (o : op2) : Z -> Z -> Z := match o with OBitAnd => Z.land | OBitOr => Z.lor | _ => Z.lxor end.

  Lemma bit_spec (r : option fexpr) o c x y : (o = OBitAnd \/ o = OBitOr \/ o = OBitXor) -> is_int c = true -> is_direct o r = true ->
    exists e, r = Some e /\ run e c [x; y] = RV (VI c (wrap c (zbit o x y))).
  Proof.
    intros Ho Hc H. destruct r as [e|]; try discriminate.
    exists e; split; auto. apply fexpr_eqb_eq in H; subst e. unfold run, direct, envI; simpl. rewrite core_eqb_refl.
    destruct Ho as [-> | [-> | ->]]; reflexivity.
  Qed.
  Theorem bitwise_and_int_spec c x y : is_int c = true ->
    exists e, row2 "bitwise_and" c = Some e /\ run e c [x; y] = RV (VI c (wrap c (Z.land x y))).
  Proof. intros Hc. apply (bit_spec _ OBitAnd c x y (or_introl eq_refl) Hc). exact (proj1 (forallb_forall _ _) rows_and c (int_cores_complete c Hc)). Qed.
  Theorem bitwise_or_int_spec c x y : is_int c = true ->
    exists e, row2 "bitwise_or" c = Some e /\ run e c [x; y] = RV (VI c (wrap c (Z.lor x y))).
  Proof. intros Hc. apply (bit_spec _ OBitOr c x y (or_intror (or_introl eq_refl)) Hc). exact (proj1 (forallb_forall _ _) rows_or c (int_cores_complete c Hc)). Qed.
  Theorem bitwise_xor_int_spec c x y : is_int c = true ->
    exists e, row2 "bitwise_xor" c = Some e /\ run e c [x; y] = RV (VI c (wrap c (Z.lxor x y))).
  Proof. intros Hc. apply (bit_spec _ OBitXor c x y (or_intror (or_intror eq_refl)) Hc). exact (proj1 (forallb_forall _ _) rows_xor c (int_cores_complete c Hc)). Qed.

  (* ---- sign: two comparisons against 0 in int64 and a Where; uint64 excluded (values >= 2^63 read as negative) ---- *)
  Definition sign_body (a : fexpr) := Where (Op2 OGreater a (KZ CI64 0)) (KZ CI64 1) (Where (Op2 OLess a (KZ CI64 0)) (KZ CI64 (-1)) (KZ CI64 0)).
  Lemma rows_sign : forallb (fun c => match row1 "sign" c with
      | Some e => fexpr_eqb e (Cast c (sign_body (Cast CI64 (ArgV 0)))) || (core_eqb c CI64 && fexpr_eqb e (sign_body (ArgV 0))) | None => false end) int_cores = true.
  Proof. vm_compute. reflexivity. Qed.

  Theorem sign_int_spec c x : is_int c = true -> c <> CU64 -> in_range c x ->
    exists e, row1 "sign" c = Some e /\ run e c [x] = RV (VI c (wrap c (Z.sgn x))).
  Proof.
    intros Hc Hu Hx. pose proof (proj1 (forallb_forall _ _) rows_sign c (int_cores_complete c Hc)) as H. cbv beta in H.
    generalize dependent (row1 "sign" c). intros r H. destruct r as [e|]; try discriminate.
    exists e; split; auto.
    assert (Hw : wrap CI64 x = x).
    { apply wrap_id; [reflexivity|]. destruct c; try discriminate; try congruence; unfold in_range in *; cbn in *; lia. }
    assert (Hcases : (x < 0 /\ Z.sgn x = -1) \/ (x = 0 /\ Z.sgn x = 0) \/ (0 < x /\ Z.sgn x = 1)).
    { destruct (Z.compare_spec x 0) as [->|Hlt|Hgt]; [right; left; auto|left; split; [lia|now apply Z.sgn_neg]|right; right; split; [lia|now apply Z.sgn_pos]]. }
    apply orb_true_iff in H as [H | H].
    - apply fexpr_eqb_eq in H; subst e. unfold run, sign_body, envI.
      destruct c; try discriminate; try congruence; cbn -[wrap Z.ltb]; rewrite ?Hw;
        destruct Hcases as [[Hs Hg] | [[Hs Hg] | [Hs Hg]]]; rewrite Hg;
        destruct (Z.ltb_spec x 0); destruct (Z.ltb_spec 0 x); try lia; reflexivity.
    - apply andb_true_iff in H as [Hc64 H]. apply fexpr_eqb_eq in H; subst e.
      destruct c; try discriminate. unfold run, sign_body, envI. cbn -[wrap Z.ltb].
      destruct Hcases as [[Hs Hg] | [[Hs Hg] | [Hs Hg]]]; rewrite Hg;
        destruct (Z.ltb_spec x 0); destruct (Z.ltb_spec 0 x); try lia; reflexivity.
  Qed.
End Specs.
