From Coq Require Import List Arith ZArith Bool Lia.
From ND Require Import Base.Tensor Base.TensorFacts Ndx.Create.
Import ListNotations.
Open Scope Z_scope.

(* arange(start, stop, step), step > 0: exactly the values start + i*step that are < stop *)
Theorem arange_pos start stop step : 0 < step ->
  let n := range_len start stop step in
  (forall i, 0 <= i < n -> start + i * step < stop) /\ stop <= start + n * step.
Proof.
  intros Hs. unfold range_len. assert (E : 0 <? step = true) by (apply Z.ltb_lt; lia). rewrite E. cbv zeta.
  set (q := (stop - start + step - 1) / step).
  assert (Hq : step * q <= stop - start + step - 1 < step * q + step).
  { unfold q. pose proof (Z.mul_div_le (stop - start + step - 1) step Hs).
    pose proof (Z.mul_succ_div_gt (stop - start + step - 1) step Hs). lia. }
  split.
  - intros i Hi. assert (i < q) by lia. nia.
  - destruct (Z.max_spec 0 q) as [[H1 ->] | [H1 ->]]; nia.
Qed.

(* step < 0: exactly the values start + i*step that are > stop *)
Theorem arange_neg start stop step : step < 0 ->
  let n := range_len start stop step in
  (forall i, 0 <= i < n -> stop < start + i * step) /\ start + n * step <= stop.
Proof.
  intros Hs. unfold range_len. assert (E : 0 <? step = false) by (apply Z.ltb_ge; lia). rewrite E. cbv zeta.
  set (d := - step). assert (Hd : 0 < d) by (unfold d; lia).
  set (q := (start - stop + d - 1) / d).
  assert (Hq : d * q <= start - stop + d - 1 < d * q + d).
  { unfold q. pose proof (Z.mul_div_le (start - stop + d - 1) d Hd).
    pose proof (Z.mul_succ_div_gt (start - stop + d - 1) d Hd). lia. }
  split.
  - intros i Hi. assert (i < q) by lia. unfold d in *. nia.
  - destruct (Z.max_spec 0 q) as [[H1 ->] | [H1 ->]]; unfold d in *; nia.
Qed.

Theorem arange_length_elements start stop step i :
  (i < Z.to_nat (range_len start stop step))%nat ->
  nth i (onnx_range start stop step) 0 = start + Z.of_nat i * step /\
  length (onnx_range start stop step) = Z.to_nat (range_len start stop step).
Proof.
  intros Hi. unfold onnx_range. split.
  - rewrite nth_indep with (d' := start + Z.of_nat 0 * step) by (rewrite map_length, seq_length; lia).
    change (start + Z.of_nat 0 * step) with ((fun i => start + Z.of_nat i * step) 0%nat).
    rewrite map_nth. rewrite seq_nth by lia. reflexivity.
  - now rewrite map_length, seq_length.
Qed.

(* eye: ones exactly on the k-th diagonal, any rectangular shape *)
Theorem eye_spec n m k i j : (i < n)%nat -> (j < m)%nat ->
  get (ndx_eye n m k) [i; j] 0 = if (Z.of_nat j - Z.of_nat i =? k) then 1 else 0.
Proof.
  intros Hi Hj. unfold ndx_eye. rewrite get_tab; [reflexivity|]. simpl. tauto.
Qed.

Theorem full_spec sh v idx : Base.Tensor.in_bounds sh idx -> get (ndx_full sh v) idx 0 = v /\ shape (ndx_full sh v) = sh.
Proof. intros H. unfold ndx_full. rewrite get_tab by exact H. split; reflexivity. Qed.
