(* Props/C01.v — C01, C07, C16 on the object machine (Machine/Machine.v).  `sem` (one ONNX node
   evaluated by onnxruntime) is a Section variable: the theorems hold for every kernel semantics. *)
From Coq Require Import List Arith Bool.
From ND Require Import Base.Tensor Machine.Machine Machine.MachineFacts Machine.MachineSim Machine.Shortcuts.
Import ListNotations.

Section P.
  Variables (val opid : Type) (sem : opid -> list val -> option val) (env : nat -> val).

  (* C01 (and C16, because `ort` is universally quantified): if the program evaluates on
     data-holding arrays, then for EVERY subset `lazy` of inputs bound as placeholders and
     with or without onnxruntime at trace time, tracing succeeds and every graph variable,
     evaluated on the same data, yields the eager value. *)
  Theorem C01_exported_model_equals_eager_evaluation :
    forall p lazy ort he',
    env_ok val opid env p -> Forall (neutral val opid sem) p ->
    run val opid sem (fun _ => false) true [] p = Some he' ->
    exists hl', run val opid sem lazy ort [] p = Some hl' /\ length hl' = length he' /\
      forall l ce cl, nth_error he' l = Some ce -> nth_error hl' l = Some cl ->
        exists v, eager val opid ce = Some v /\ geval val opid sem env (var val opid cl) = Some v.
  Proof. exact (C01_exported_equals_eager val opid sem env). Qed.

  (* C07 soundness: a reported value is what the exported graph produces for every placeholder
     assignment *)
  Theorem C07_reported_values_are_sound :
    forall lazy ort p h', run val opid sem lazy ort [] p = Some h' ->
    forall c v, In c h' -> eager val opid c = Some v -> forall env', geval val opid sem env' (var val opid c) = Some v.
  Proof. exact (C07_sound val opid sem). Qed.

  (* C07 completeness: all inputs hold data (and onnxruntime is present) => every array holds
     data and is a graph constant *)
  Theorem C07_constant_folding_is_complete :
    forall p h h', AllConst val opid h -> run val opid sem (fun _ => false) true h p = Some h' -> AllConst val opid h'.
  Proof. exact (C07_complete val opid sem). Qed.

  (* C16: without onnxruntime no derived array reports a value *)
  Theorem C16_no_value_without_onnxruntime :
    forall h k args h' c, prim val opid sem false h k args = Some h' -> nth_error h' (length h) = Some c ->
    eager val opid c = None.
  Proof. exact (C16_no_value_without_ort val opid sem). Qed.
End P.
Print Assumptions C01_exported_model_equals_eager_evaluation.
Print Assumptions C07_reported_values_are_sound.
Print Assumptions C07_constant_folding_is_complete.
Print Assumptions C16_no_value_without_onnxruntime.

(* the two value-dependent shortcuts that survive in the library (logical_and / logical_or) are
   neutral at tensor level: with the broadcasting And / Or kernel as `sem`, a single True (False)
   operand of rank <= the other operand's rank returns that operand unchanged *)
Theorem C01_logical_and_shortcut_is_neutral : forall x y,
  scalar_like x true -> length (shape x) <= length (shape y) -> wf y -> t_and x y = Some y.
Proof. exact and_true_neutral. Qed.
Theorem C01_logical_or_shortcut_is_neutral : forall x y,
  scalar_like x false -> length (shape x) <= length (shape y) -> wf y -> t_or x y = Some y.
Proof. exact or_false_neutral. Qed.
Print Assumptions C01_logical_and_shortcut_is_neutral.

(* non-vacuity: a two-instruction program over nat "tensors" with one kernel (+) *)
Definition sem_ex (k : unit) (vs : list nat) : option nat := match vs with [a; b] => Some (a + b) | _ => None end.
Example C01_ex :
  run nat unit sem_ex (fun n => Nat.eqb n 0) false []
      [IInput nat unit 0 3; IInput nat unit 1 4; IPrim nat unit tt [0; 1]]
  = Some [ {| var := GArg nat unit 0; eager := None |}; {| var := GConst nat unit 4; eager := Some 4 |};
           {| var := GNode nat unit tt [GArg nat unit 0; GConst nat unit 4]; eager := None |} ]
  /\ geval nat unit sem_ex (fun _ => 3) (GNode nat unit tt [GArg nat unit 0; GConst nat unit 4]) = Some 7.
Proof. split; reflexivity. Qed.
