(* Props/C11.v *)
From Coq Require Import List Arith ZArith Bool.
From ND Require Import Base.Tensor Ndx.Slice1D Ndx.GetItem Ndx.Layout Ndx.LayoutFacts.
Import ListNotations.

(* roll: for every extent > 0 and every shift (any sign, any magnitude) the gathered index
   vector is NumPy's  out[i] = in[(i - shift) mod len] *)
Theorem C11_roll_indices : forall len s, (0 < len)%Z ->
  roll_indices len s = map (fun i => ((Z.of_nat i - s) mod len)%Z) (seq 0 (Z.to_nat len)).
Proof. exact roll_indices_spec. Qed.
Print Assumptions C11_roll_indices.
Theorem C11_roll_indices_valid : forall len s z, (0 < len)%Z -> In z (roll_indices len s) -> (0 <= z < len)%Z.
Proof. exact roll_indices_in_range. Qed.
Theorem C11_roll_periodic : forall len s k, (0 < len)%Z -> roll_indices len (s + k * len) = roll_indices len s.
Proof. exact roll_indices_periodic. Qed.

(* flip: the emitted Slice reverses an axis of any extent (through the 1-D slice theorem) *)
Theorem C11_flip_reverses : forall n, (0 <= n < 4611686018427387904)%Z ->
  onnx_slice n (norm None None (Some (-1)%Z)) = map (fun i => (n - 1 - Z.of_nat i)%Z) (seq 0 (Z.to_nat n)).
Proof. exact flip_slice. Qed.
Print Assumptions C11_flip_reverses.

(* pure data movement: every re-indexing operator commutes with every element-wise map, hence
   acts identically on every dtype and on the values / null fields of a struct dtype *)
Theorem C11_select_natural : forall A B (f : A -> B) t axis sel d,
  tmap f (t_select t axis sel d) = t_select (tmap f t) axis sel (f d).
Proof. exact @select_natural. Qed.
Theorem C11_drop_natural : forall A B (f : A -> B) t axis c d, tmap f (t_drop t axis c d) = t_drop (tmap f t) axis c (f d).
Proof. exact @drop_natural. Qed.
Theorem C11_unsqueeze_natural : forall A B (f : A -> B) t axes d, tmap f (t_unsqueeze t axes d) = t_unsqueeze (tmap f t) axes (f d).
Proof. exact @unsqueeze_natural. Qed.
Theorem C11_transpose_natural : forall A B (f : A -> B) t perm d, tmap f (t_transpose t perm d) = t_transpose (tmap f t) perm (f d).
Proof. exact @transpose_natural. Qed.
Theorem C11_expand_natural : forall A B (f : A -> B) t sh d, tmap f (t_expand t sh d) = t_expand (tmap f t) sh (f d).
Proof. exact @expand_natural. Qed.
Theorem C11_squeeze_natural : forall A B (f : A -> B) t axes d, tmap f (t_squeeze t axes d) = t_squeeze (tmap f t) axes (f d).
Proof. exact @squeeze_natural. Qed.
Print Assumptions C11_transpose_natural.

(* FINDING (known): roll on an axis of extent 0 fails at run time (Mod by zero) *)
Theorem C11_roll_len0_fails : ndx_roll {| shape := [0%nat]; data := @nil Z |} [1%Z] (Some [0%Z]) 0%Z = RuntimeError.
Proof. reflexivity. Qed.
(* FINDING (known): reshape to a target containing 0 on an empty array is misread (0 = copy) *)
Theorem C11_reshape_zero_refuted : ndx_reshape {| shape := [3%nat; 0%nat; 1%nat]; data := @nil Z |} [0%Z] = RuntimeError.
Proof. reflexivity. Qed.

Example C11_ex_roll : roll_indices 5 2 = [3; 4; 0; 1; 2]%Z.
Proof. reflexivity. Qed.

(* flip, n-D: for every element type, every well-formed tensor of every rank >= 1 (extents below
   2^62) and every axes argument, the lowering x[..., ::-1, ...] returns a tensor of the same shape
   whose element at idx is the input's element with every flipped coordinate i replaced by n-1-i. *)
From ND Require Import Ndx.FlipProof.
Theorem C11_flip_nd : forall (A : Type) (t : tensor A) (axes : option (list Z)) (d : A),
  wf t -> rank t <> 0%nat -> Forall (fun n => (Z.of_nat n < 4611686018427387904)%Z) (shape t) ->
  let r := rank t in
  let ax := match axes with None => seq 0 r | Some l => map (fun a => Z.to_nat (if (a <? 0)%Z then Z.of_nat r + a else a)%Z) l end in
  let flags := map (fun i => existsb (Nat.eqb i) ax) (seq 0 r) in
  ndx_flip t axes d = GetItem.Done (tab (shape t) (fun idx => get t (flip_idx flags (shape t) idx) d)).
Proof. exact @ndx_flip_nd. Qed.
Print Assumptions C11_flip_nd.
Theorem C11_flip_is_an_involution_on_indices : forall flags sh idx, Tensor.in_bounds sh idx -> length flags = length sh ->
  flip_idx flags sh (flip_idx flags sh idx) = idx /\ Tensor.in_bounds sh (flip_idx flags sh idx).
Proof. exact flip_idx_involutive. Qed.

(* roll, n-D (axis given): for every element type, every well-formed tensor of every rank, every list of
   (shift, axis) pairs — shifts of any sign and magnitude, negative and repeated axes — on axes of positive extent,
   the Gather sequence followed by the Reshape to the original shape returns a tensor of the same shape whose
   element at idx is the input's element at roll_src idx: per pair, coordinate i of the axis comes from
   (i - shift) mod n (NumPy's roll); pairs on the same axis add up, pairs on different axes commute. *)
From ND Require Import Ndx.RollProof.
Theorem C11_roll_nd : forall (A : Type) (t : tensor A) shifts axs (d : A), wf t -> length shifts = length axs ->
  Forall (step_ok (shape t)) (combine shifts axs) ->
  ndx_roll t shifts (Some axs) d = GetItem.Done (tab (shape t) (fun idx => get t (roll_src (shape t) (combine shifts axs) idx) d)).
Proof. exact @ndx_roll_nd. Qed.
Print Assumptions C11_roll_nd.
Theorem C11_roll_same_axis_adds : forall sh s1 s2 ax idx, (ax < length idx)%nat -> (0 < nth ax sh 0)%nat ->
  rstep sh s1 ax (rstep sh s2 ax idx) = rstep sh (s1 + s2) ax idx.
Proof. exact rstep_same_axis_adds. Qed.
Theorem C11_roll_axes_commute : forall sh s1 s2 a1 a2 idx, a1 <> a2 ->
  rstep sh s1 a1 (rstep sh s2 a2 idx) = rstep sh s2 a2 (rstep sh s1 a1 idx).
Proof. exact rstep_other_axis_commutes. Qed.
Theorem C11_roll_forward : forall sh s ax idx, (ax < length idx)%nat -> (0 < nth ax sh 0)%nat -> (nth ax idx 0 < nth ax sh 0)%nat ->
  rstep sh s ax (replace_nth ax (Z.to_nat ((Z.of_nat (nth ax idx 0%nat) + s) mod Z.of_nat (nth ax sh 0%nat))) idx) = idx.
Proof. exact roll_forward. Qed.
Theorem C11_roll_stays_in_bounds : forall sh steps idx, Forall (step_ok sh) steps -> Tensor.in_bounds sh idx -> Tensor.in_bounds sh (roll_src sh steps idx).
Proof. exact roll_src_inb. Qed.
Theorem C11_reshape_to_own_shape_is_identity : forall (A : Type) (t : tensor A), ndx_reshape t (map Z.of_nat (shape t)) = GetItem.Done t.
Proof. exact @reshape_same. Qed.
Example C11_ex_roll_nd : ndx_roll {| shape := [2; 3]%nat; data := [1; 2; 3; 4; 5; 6]%Z |} [1; -1]%Z (Some [(-1); 0]%Z) 0%Z
  = GetItem.Done {| shape := [2; 3]%nat; data := [6; 4; 5; 3; 1; 2]%Z |}.
Proof. reflexivity. Qed.

(* broadcasting (broadcast_to / broadcast_arrays, and the operands of every element-wise function and of where): the
   model's rule is the Array API rule — shapes aligned at the right (lists reversed here), every pair of extents equal or
   containing a 1, the result takes the other extent; defined exactly on compatible shapes, symmetric, reflexive *)
From ND Require Import Ndx.BroadcastFacts.
Theorem C11_broadcast_rule : forall a b c, bshape a b = Some c ->
  length c = Nat.max (length a) (length b) /\
  forall i, compat (nth i a 1%nat) (nth i b 1%nat) /\ nth i c 1%nat = bext (nth i a 1%nat) (nth i b 1%nat).
Proof. exact bshape_spec. Qed.
Theorem C11_broadcast_defined_on_compatible_shapes : forall a b, (forall i, compat (nth i a 1%nat) (nth i b 1%nat)) -> exists c, bshape a b = Some c.
Proof. exact bshape_total. Qed.
Theorem C11_broadcast_symmetric : forall a b, broadcast_shape a b = broadcast_shape b a.
Proof. exact broadcast_shape_comm. Qed.
Theorem C11_broadcast_reflexive : forall a, broadcast_shape a a = Some a.
Proof. exact broadcast_shape_refl. Qed.
Print Assumptions C11_broadcast_rule.

(* three-way broadcasting (where): grouping the operands differently gives the same result shape, or fails the same way *)
Theorem C11_broadcast_associative : forall a b c, bshape_opt (bshape a b) (Some c) = bshape_opt (Some a) (bshape b c).
Proof. exact bshape_assoc. Qed.
(* concat along an axis: every element comes from the operand whose block contains its position, at the offset inside the
   block; shape = the operands' shape with the axis extents added up (any number of operands, any rank) *)
From ND Require Import Ndx.ConcatFacts.
Theorem C11_concat_elements : forall (A : Type) (ts : list (tensor A)) ax d r, concat_all ts ax d = GetItem.Done r ->
  ts <> [] /\
  (forall k, k <> ax -> nth k (shape r) 0%nat = nth k (shape (hd r ts)) 0%nat) /\
  ((ax < length (shape (hd r ts)))%nat -> nth ax (shape r) 0%nat = fold_right Nat.add 0%nat (map (fun t => nth ax (shape t) 0%nat) ts)) /\
  forall idx, Tensor.in_bounds (shape r) idx -> (ax < length (shape (hd r ts)))%nat ->
    let '(k, o) := locate (map (fun t => nth ax (shape t) 0%nat) ts) (nth ax idx 0%nat) in
    (k < length ts)%nat /\ forall dflt, get r idx d = get (nth k ts dflt) (replace_nth ax o idx) d.
Proof. exact @concat_all_spec. Qed.
Print Assumptions C11_concat_elements.
Print Assumptions C11_broadcast_associative.

(* permute_dims / matrix_transpose (ONNX Transpose): out.shape[i] = x.shape[perm[i]] and out[idx] = x[src] with
   src[perm[i]] = idx[i], for every permutation and every in-bounds index *)
From ND Require Import Ndx.TransposeFacts.
Theorem C11_permute_dims_law : forall (A : Type) (t : tensor A) perm d idx,
  NoDup perm -> length perm = rank t -> (forall p, In p perm -> (p < rank t)%nat) ->
  Tensor.in_bounds (map (fun p => nth p (shape t) 0%nat) perm) idx ->
  shape (t_transpose t perm d) = map (fun p => nth p (shape t) 0%nat) perm /\
  exists src, get (t_transpose t perm d) idx d = get t src d /\ length src = rank t /\
              forall i, (i < rank t)%nat -> nth (nth i perm 0%nat) src 0%nat = nth i idx 0%nat.
Proof. exact @transpose_spec. Qed.
Print Assumptions C11_permute_dims_law.

(* stack (axis normalised against rank + 1, Unsqueeze of every operand, Concat): the new axis has one position per operand
   and position j holds operand j — any number of same-rank operands, any rank, any position of the new axis *)
From ND Require Import Ndx.StackFacts.
Theorem C11_stack_elements : forall (A : Type) (ts : list (tensor A)) axis d r,
  ndx_stack ts axis d = GetItem.Done r -> (forall t, In t ts -> rank t = rank (hd r ts)) ->
  let ax := zaxis (rank (hd r ts) + 1) axis in
  (ax <= rank (hd r ts))%nat /\ nth ax (shape r) 0%nat = length ts /\
  forall idx, Tensor.in_bounds (shape r) idx ->
    (nth ax idx 0%nat < length ts)%nat /\
    forall dflt, get r idx d = get (nth (nth ax idx 0%nat) ts dflt) (remove_nth ax idx) d.
Proof. exact @ndx_stack_spec. Qed.
Print Assumptions C11_stack_elements.

(* take / expand_dims / tril / triu: shape and every element in closed form (NumPy's laws), any rank, extent, axis, index
   list (Python's negative indices) and diagonal offset *)
From ND Require Import Ndx.LayoutLaws.
Theorem C11_take_law : forall (A : Type) (t : tensor A) (ix : list Z) axis d r, ndx_take t ix axis d = GetItem.Done r ->
  let ax := zaxis (rank t) axis in let n := Z.of_nat (nth ax (shape t) 0%nat) in
  (ax < rank t)%nat /\
  (forall z, In z ix -> (- n <= z < n)%Z) /\
  shape r = replace_nth ax (length ix) (shape t) /\
  forall o, Tensor.in_bounds (shape r) o ->
    (nth ax o 0%nat < length ix)%nat /\
    (norm_index n (nth (nth ax o 0%nat) ix 0%Z) < nth ax (shape t) 0%nat)%nat /\
    get r o d = get t (replace_nth ax (norm_index n (nth (nth ax o 0%nat) ix 0%Z)) o) d.
Proof. exact @ndx_take_spec. Qed.
Theorem C11_expand_dims_law : forall (A : Type) (t : tensor A) axis d r, ndx_expand_dims t axis d = GetItem.Done r ->
  let ax := zaxis (rank t + 1) axis in
  (ax <= rank t)%nat /\ shape r = insert_nth ax 1%nat (shape t) /\
  forall idx, Tensor.in_bounds (shape r) idx -> get r idx d = get t (remove_nth ax idx) d.
Proof. exact @ndx_expand_dims_spec. Qed.
Theorem C11_tril_triu_law : forall (A : Type) (t : tensor A) k upper zero d r, ndx_trilu t k upper zero d = GetItem.Done r ->
  (2 <= rank t)%nat /\ shape r = shape t /\
  forall idx, Tensor.in_bounds (shape t) idx ->
    let i := Z.of_nat (nth (rank t - 2) idx 0%nat) in let j := Z.of_nat (nth (rank t - 1) idx 0%nat) in
    get r idx d = if (if upper then (k <=? j - i)%Z else (j - i <=? k)%Z) then get t idx d else zero.
Proof. exact @ndx_trilu_spec. Qed.
Print Assumptions C11_take_law.
Print Assumptions C11_expand_dims_law.
Print Assumptions C11_tril_triu_law.

(* reshape (ONNX Reshape, allowzero = 0): whenever it succeeds the row-major data are untouched and the element count is
   preserved — for every mixture of explicit extents, copied extents (0) and one inferred extent (-1); explicit extents are
   taken as written and 0 copies the input's extent at that position *)
From ND Require Import Ndx.ReshapeLaw.
Theorem C11_reshape_law : forall (A : Type) (t : tensor A) target r, ndx_reshape t target = GetItem.Done r ->
  data r = data t /\ size (shape r) = size (shape t) /\ length (shape r) = length target /\
  (Tensor.wf t -> Tensor.wf r) /\
  forall idx d, get r idx d = nth (ravel (shape r) idx) (data t) d.
Proof. exact @ndx_reshape_spec. Qed.
Theorem C11_reshape_explicit_extents : forall sh target sh', onnx_reshape_shape sh target = Some sh' ->
  forall k z, nth_error target k = Some z -> (z <> -1)%Z ->
    nth k sh' 0%nat = if (z =? 0)%Z then nth k sh 0%nat else Z.to_nat z.
Proof. exact reshape_explicit_extents. Qed.
Print Assumptions C11_reshape_law.
Print Assumptions C11_reshape_explicit_extents.

(* matrix_transpose: the last two axes are swapped, the leading axes keep their place — every rank >= 2 *)
From ND Require Import Ndx.MatrixTFacts.
Theorem C11_matrix_transpose_law : forall (A : Type) (t : tensor A) d r, ndx_matrix_transpose t d = GetItem.Done r ->
  let n := rank t in
  (2 <= n)%nat /\ length (shape r) = n /\
  (forall i, (i < n - 2)%nat -> nth i (shape r) 0%nat = nth i (shape t) 0%nat) /\
  nth (n - 2) (shape r) 0%nat = nth (n - 1) (shape t) 0%nat /\ nth (n - 1) (shape r) 0%nat = nth (n - 2) (shape t) 0%nat /\
  forall idx, Tensor.in_bounds (shape r) idx ->
    exists src, get r idx d = get t src d /\ length src = n /\
      (forall i, (i < n - 2)%nat -> nth i src 0%nat = nth i idx 0%nat) /\
      nth (n - 1) src 0%nat = nth (n - 2) idx 0%nat /\ nth (n - 2) src 0%nat = nth (n - 1) idx 0%nat.
Proof. exact @matrix_transpose_spec. Qed.
Print Assumptions C11_matrix_transpose_law.
