(* Props/C02.v — integer part of C02, for all operand values. *)
From Coq Require Import List Bool ZArith String.
From Coq Require Import Floats.SpecFloat.
From ND Require Import Base.Dtype Ndx.ElemSyntax Ndx.ElemSem Ndx.ElemTable Ndx.ElemInt.
Import ListNotations.
Open Scope Z_scope.

Section C02.
  Variable tr : op1 -> core -> spec_float -> spec_float.
  Variable trpow : core -> spec_float -> spec_float -> spec_float.
  Notation run := (run tr trpow).

  Theorem C02_add_wraps : forall c x y, is_int c = true ->
    exists e, row2 "add" c = Some e /\ run e c [x; y] = RV (VI c (wrap c (x + y))).
  Proof. exact (add_int_spec tr trpow). Qed.
  Theorem C02_subtract_wraps : forall c x y, is_int c = true ->
    exists e, row2 "subtract" c = Some e /\ run e c [x; y] = RV (VI c (wrap c (x - y))).
  Proof. exact (subtract_int_spec tr trpow). Qed.
  Theorem C02_multiply_wraps : forall c x y, is_int c = true ->
    exists e, row2 "multiply" c = Some e /\ run e c [x; y] = RV (VI c (wrap c (x * y))).
  Proof. exact (multiply_int_spec tr trpow). Qed.
  Theorem C02_negative_wraps : forall c x, is_int c = true ->
    exists e, row1 "negative" c = Some e /\ run e c [x] = RV (VI c (wrap c (- x))).
  Proof. exact (negative_int_spec tr trpow). Qed.
  Theorem C02_rounding_of_integers_is_identity : forall fn c x,
    In fn ["floor"; "ceil"; "round"; "trunc"; "positive"]%string -> is_int c = true ->
    exists e, row1 fn c = Some e /\ run e c [x] = RV (VI c x).
  Proof. exact (rounding_int_identity tr trpow). Qed.
  Theorem C02_less : forall c x y, is_int c = true -> c <> CU64 -> in_range c x -> in_range c y ->
    exists e, row2 "less" c = Some e /\ run e c [x; y] = RV (VB (x <? y)).
  Proof. exact (less_int_spec tr trpow). Qed.
  Theorem C02_less_equal : forall c x y, is_int c = true -> c <> CU64 -> in_range c x -> in_range c y ->
    exists e, row2 "less_equal" c = Some e /\ run e c [x; y] = RV (VB (x <=? y)).
  Proof. exact (less_equal_int_spec tr trpow). Qed.
  Theorem C02_greater : forall c x y, is_int c = true -> c <> CU64 -> in_range c x -> in_range c y ->
    exists e, row2 "greater" c = Some e /\ run e c [x; y] = RV (VB (y <? x)).
  Proof. exact (greater_int_spec tr trpow). Qed.
  Theorem C02_greater_equal : forall c x y, is_int c = true -> c <> CU64 -> in_range c x -> in_range c y ->
    exists e, row2 "greater_equal" c = Some e /\ run e c [x; y] = RV (VB (y <=? x)).
  Proof. exact (greater_equal_int_spec tr trpow). Qed.
  Theorem C02_equal : forall c x y, is_int c = true -> c <> CU64 -> in_range c x -> in_range c y ->
    exists e, row2 "equal" c = Some e /\ run e c [x; y] = RV (VB (x =? y)).
  Proof. exact (equal_int_spec tr trpow). Qed.

  (* findings on the pinned tree, with witnesses *)
  Theorem C02_less_uint64_refuted : exists x y e, in_range CU64 x /\ in_range CU64 y /\
    row2 "less" CU64 = Some e /\ run e CU64 [x; y] <> RV (VB (x <? y)).
  Proof. exact (less_uint64_refuted tr trpow). Qed.
  Theorem C02_remainder_sign_refuted : exists x y e, in_range CI64 x /\ in_range CI64 y /\ y <> 0 /\
    row2 "remainder" CI64 = Some e /\ run e CI64 [x; y] <> RV (VI CI64 (x mod y)).
  Proof. exact (remainder_sign_refuted tr trpow). Qed.
  Theorem C02_right_shift_int64_refuted : exists x y e, in_range CI64 x /\ 0 <= y < 64 /\
    row2 "bitwise_right_shift" CI64 = Some e /\ run e CI64 [x; y] <> RV (VI CI64 (Z.shiftr x y)).
  Proof. exact (right_shift_int64_refuted tr trpow). Qed.
  Theorem C02_floor_divide_int64_refuted : exists x y e, in_range CI64 x /\ in_range CI64 y /\ y <> 0 /\
    row2 "floor_divide" CI64 = Some e /\ run e CI64 [x; y] <> RV (VI CI64 (x / y)).
  Proof. exact (floor_divide_int64_refuted tr trpow). Qed.
End C02.

(* non-vacuity: a concrete wrap *)
Example C02_ex : wrap CI8 (100 + 100) = -56. Proof. reflexivity. Qed.

(* more integer functions, for every integer dtype and every operand value: square, abs (wrapping like NumPy:
   abs(int8(-128)) = -128), sign (uint64 excluded: see the known finding on the int64 detour), the bitwise functions *)
From ND Require Import Ndx.ElemIntMore.
Section C02More.
  Variable tr : op1 -> core -> spec_float -> spec_float.
  Variable trpow : core -> spec_float -> spec_float -> spec_float.
  Notation run := (run tr trpow).
  Theorem C02_square_wraps : forall c x, is_int c = true ->
    exists e, row1 "square" c = Some e /\ run e c [x] = RV (VI c (wrap c (x * x))).
  Proof. exact (square_int_spec tr trpow). Qed.
  Theorem C02_abs_wraps : forall c x, is_int c = true ->
    exists e, row1 "abs" c = Some e /\ run e c [x] = RV (VI c (wrap c (Z.abs x))).
  Proof. exact (abs_int_spec tr trpow). Qed.
  Theorem C02_sign : forall c x, is_int c = true -> c <> CU64 -> in_range c x ->
    exists e, row1 "sign" c = Some e /\ run e c [x] = RV (VI c (wrap c (Z.sgn x))).
  Proof. exact (sign_int_spec tr trpow). Qed.
  Theorem C02_bitwise_invert : forall c x, is_int c = true ->
    exists e, row1 "bitwise_invert" c = Some e /\ run e c [x] = RV (VI c (wrap c (Z.lnot x))).
  Proof. exact (bitwise_invert_int_spec tr trpow). Qed.
  Theorem C02_bitwise_and : forall c x y, is_int c = true ->
    exists e, row2 "bitwise_and" c = Some e /\ run e c [x; y] = RV (VI c (wrap c (Z.land x y))).
  Proof. exact (bitwise_and_int_spec tr trpow). Qed.
  Theorem C02_bitwise_or : forall c x y, is_int c = true ->
    exists e, row2 "bitwise_or" c = Some e /\ run e c [x; y] = RV (VI c (wrap c (Z.lor x y))).
  Proof. exact (bitwise_or_int_spec tr trpow). Qed.
  Theorem C02_bitwise_xor : forall c x y, is_int c = true ->
    exists e, row2 "bitwise_xor" c = Some e /\ run e c [x; y] = RV (VI c (wrap c (Z.lxor x y))).
  Proof. exact (bitwise_xor_int_spec tr trpow). Qed.
End C02More.
Print Assumptions C02_square_wraps.
Print Assumptions C02_sign.
Print Assumptions C02_bitwise_xor.
Example C02_abs_ex : wrap CI8 (Z.abs (-128)) = -128. Proof. reflexivity. Qed.
