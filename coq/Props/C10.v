(* Props/C10.v *)
From Coq Require Import List Arith ZArith Bool Lia.
From ND Require Import Base.Tensor Base.TensorFacts Ndx.Reduce Ndx.ReduceFacts.
Import ListNotations.

(* the axes handed to ONNX are the axes NumPy reduces: None, any in-range integer (negative
   too), tuples, the empty tuple; any rank *)
Theorem C10_axes_resolve : forall rank axis, axis_valid rank axis ->
  onnx_axes rank (ndx_axes (Z.of_nat rank) axis) (ndx_noop axis) = np_axes rank axis.
Proof. exact axes_resolve. Qed.
Print Assumptions C10_axes_resolve.

Theorem C10_reduction_equals_numpy : forall A (op : A -> A -> A) neutral t axis keep d,
  axis_valid (length (shape t)) axis ->
  ndx_reduce op neutral t axis keep d = np_reduce op neutral t axis keep d.
Proof. exact @ndx_reduce_is_np_reduce. Qed.
Print Assumptions C10_reduction_equals_numpy.

Theorem C10_keepdims_keeps_rank : forall k sh axes, length (reduce_shape_from k sh axes true) = length sh.
Proof. exact reduce_shape_keep_length. Qed.
Theorem C10_keepdims_extents : forall k sh axes i, i < length sh ->
  nth i (reduce_shape_from k sh axes true) 0 = if memb (k + i) axes then 1 else nth i sh 0.
Proof. exact reduce_shape_keep_nth. Qed.
Theorem C10_dropped_axes_disappear : forall k sh axes,
  length (reduce_shape_from k sh axes false) + length (sub_shape_from k sh axes) = length sh.
Proof. exact reduce_shape_drop_length. Qed.

(* empty reductions give the neutral element (0 for sum, 1 for prod, True for all, ...) *)
Theorem C10_empty_reduction_is_neutral : forall A (op : A -> A -> A) neutral t axes keep d oidx,
  In 0 (sub_shape_from 0 (shape t) axes) -> in_bounds (reduce_shape (shape t) axes keep) oidx ->
  get (reduce op neutral t axes keep d) oidx d = neutral.
Proof. exact @reduce_empty_is_neutral. Qed.
Print Assumptions C10_empty_reduction_is_neutral.

(* non-vacuity *)
Example C10_ex_axes : axis_valid 3 (AxTuple [(-1)%Z; 0%Z]) /\ np_axes 3 (AxTuple [(-1)%Z; 0%Z]) = [2; 0].
Proof. split; [repeat constructor; lia|reflexivity]. Qed.
Example C10_ex_sum :
  data (ndx_reduce Z.add 0%Z {| shape := [2; 3]; data := [1; 2; 3; 4; 5; 6]%Z |} (AxInt (-1)%Z) true 0%Z) = [6; 15]%Z
  /\ shape (ndx_reduce Z.add 0%Z {| shape := [2; 3]; data := [1; 2; 3; 4; 5; 6]%Z |} (AxInt (-1)%Z) true 0%Z) = [2; 1].
Proof. split; reflexivity. Qed.
Example C10_ex_empty :
  data (ndx_reduce Z.mul 1%Z {| shape := [2; 0]; data := [] |} (AxInt 1%Z) false 0%Z) = [1; 1]%Z.
Proof. reflexivity. Qed.

(* ---- all / any: the counting trick is NumPy's conjunction / disjunction ------------------------ *)
(* all(x) = equal(sum(equal(x, 0).astype(int64)), 0) and any(x) = not_equal(sum(not_equal(x, 0)...), 0) as
   written, for every tensor of every rank and extent (empty reductions included), every valid axis form *)
From ND Require Import Ndx.ReduceMore Ndx.ReduceMoreFacts Ndx.GetItem.
Theorem C10_all_equals_numpy : forall (t : tensor Z) axis keep, axis_valid (length (shape t)) axis ->
  ndx_all t axis keep = np_all t axis keep.
Proof. exact ndx_all_is_np_all. Qed.
Theorem C10_any_equals_numpy : forall (t : tensor Z) axis keep, axis_valid (length (shape t)) axis ->
  ndx_any t axis keep = np_any t axis keep.
Proof. exact ndx_any_is_np_any. Qed.
Print Assumptions C10_all_equals_numpy.
Print Assumptions C10_any_equals_numpy.

(* ---- argmax / argmin: first occurrence of the extremum, any rank --------------------------------- *)
Theorem C10_argmax_first_occurrence : forall (t : tensor Z) ax oidx,
  0 < nth ax (shape t) 0 -> in_bounds (remove_nth ax (shape t)) oidx ->
  let n := nth ax (shape t) 0 in
  let i := Z.to_nat (get (onnx_arg true t ax false) oidx 0%Z) in
  let at_ k := get t (insert_nth ax k oidx) 0%Z in
  i < n /\ (forall j, j < n -> (at_ j <= at_ i)%Z) /\ (forall j, j < i -> (at_ j < at_ i)%Z).
Proof. exact onnx_argmax_spec. Qed.
Theorem C10_argmin_first_occurrence : forall (t : tensor Z) ax oidx,
  0 < nth ax (shape t) 0 -> in_bounds (remove_nth ax (shape t)) oidx ->
  let n := nth ax (shape t) 0 in
  let i := Z.to_nat (get (onnx_arg false t ax false) oidx 0%Z) in
  let at_ k := get t (insert_nth ax k oidx) 0%Z in
  i < n /\ (forall j, j < n -> (at_ i <= at_ j)%Z) /\ (forall j, j < i -> (at_ i < at_ j)%Z).
Proof. exact onnx_argmin_spec. Qed.
(* axis=None (flatten, reduce, reshape): the row-major position of the first maximum *)
Theorem C10_argmax_axis_none : forall (t : tensor Z) keep r, wf t -> ndx_arg true t None keep = Done r ->
  let i := Z.to_nat (nth 0 (data r) 0%Z) in
  i < length (data t) /\ (forall j, j < length (data t) -> (nth j (data t) 0 <= nth i (data t) 0)%Z)
  /\ (forall j, j < i -> (nth j (data t) 0 < nth i (data t) 0)%Z).
Proof. exact ndx_argmax_flat. Qed.
Print Assumptions C10_argmax_first_occurrence.
Print Assumptions C10_argmax_axis_none.

(* ---- cumulative_sum: prefix sums along the axis, any rank ------------------------------------------ *)
Theorem C10_cumulative_sum_is_prefix_sum : forall (t : tensor Z) ax idx, ax < length (shape t) -> in_bounds (shape t) idx ->
  get (onnx_cumsum t ax) idx 0%Z = zsum (map (fun i => get t (replace_nth ax i idx) 0%Z) (seq 0 (S (nth ax idx 0)))).
Proof. exact onnx_cumsum_spec. Qed.
Print Assumptions C10_cumulative_sum_is_prefix_sum.

Example C10_ex_all : data (ndx_all {| shape := [2; 2]; data := [1; 0; 3; 4]%Z |} (AxInt 1%Z) false) = [false; true]
  /\ data (ndx_all {| shape := [0; 2]; data := [] |} (AxInt 0%Z) false) = [true; true]
  /\ data (ndx_any {| shape := [0; 2]; data := [] |} (AxInt 0%Z) true) = [false; false].
Proof. repeat split; reflexivity. Qed.
Example C10_ex_argmax : ndx_arg true {| shape := [2; 3]; data := [3; 1; 3; 0; 5; 5]%Z |} (Some (-1)%Z) true
  = Done {| shape := [2; 1]; data := [0; 1]%Z |}
  /\ ndx_arg false {| shape := [2; 3]; data := [3; 1; 3; 0; 5; 5]%Z |} None false = Done {| shape := []; data := [3%Z] |}.
Proof. split; reflexivity. Qed.
Example C10_ex_cumsum : ndx_cumsum {| shape := [2; 3]; data := [3; 1; 3; 0; 5; 5]%Z |} (Some (-1)%Z) true
  = Done {| shape := [2; 4]; data := [0; 3; 4; 7; 0; 0; 5; 10]%Z |}.
Proof. reflexivity. Qed.
