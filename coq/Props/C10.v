(* Props/C10.v *)
From Coq Require Import List Arith ZArith Bool Lia.
From ND Require Import Base.Tensor Base.TensorFacts Ndx.Reduce Ndx.ReduceFacts.
Import ListNotations.

(* the axes handed to ONNX are the axes NumPy reduces: None, any in-range integer (negative
   too), tuples, the empty tuple; any rank *)
Theorem C10_axes_resolve : forall rank axis, axis_valid rank axis ->
  onnx_axes rank (ndx_axes (Z.of_nat rank) axis) (ndx_noop axis) = np_axes rank axis.
Proof. exact axes_resolve. Qed.
Print Assumptions C10_axes_resolve.

Theorem C10_reduction_equals_numpy : forall A (op : A -> A -> A) neutral t axis keep d,
  axis_valid (length (shape t)) axis ->
  ndx_reduce op neutral t axis keep d = np_reduce op neutral t axis keep d.
Proof. exact @ndx_reduce_is_np_reduce. Qed.
Print Assumptions C10_reduction_equals_numpy.

Theorem C10_keepdims_keeps_rank : forall k sh axes, length (reduce_shape_from k sh axes true) = length sh.
Proof. exact reduce_shape_keep_length. Qed.
Theorem C10_keepdims_extents : forall k sh axes i, i < length sh ->
  nth i (reduce_shape_from k sh axes true) 0 = if memb (k + i) axes then 1 else nth i sh 0.
Proof. exact reduce_shape_keep_nth. Qed.
Theorem C10_dropped_axes_disappear : forall k sh axes,
  length (reduce_shape_from k sh axes false) + length (sub_shape_from k sh axes) = length sh.
Proof. exact reduce_shape_drop_length. Qed.

(* empty reductions give the neutral element (0 for sum, 1 for prod, True for all, ...) *)
Theorem C10_empty_reduction_is_neutral : forall A (op : A -> A -> A) neutral t axes keep d oidx,
  In 0 (sub_shape_from 0 (shape t) axes) -> in_bounds (reduce_shape (shape t) axes keep) oidx ->
  get (reduce op neutral t axes keep d) oidx d = neutral.
Proof. exact @reduce_empty_is_neutral. Qed.
Print Assumptions C10_empty_reduction_is_neutral.

(* non-vacuity *)
Example C10_ex_axes : axis_valid 3 (AxTuple [(-1)%Z; 0%Z]) /\ np_axes 3 (AxTuple [(-1)%Z; 0%Z]) = [2; 0].
Proof. split; [repeat constructor; lia|reflexivity]. Qed.
Example C10_ex_sum :
  data (ndx_reduce Z.add 0%Z {| shape := [2; 3]; data := [1; 2; 3; 4; 5; 6]%Z |} (AxInt (-1)%Z) true 0%Z) = [6; 15]%Z
  /\ shape (ndx_reduce Z.add 0%Z {| shape := [2; 3]; data := [1; 2; 3; 4; 5; 6]%Z |} (AxInt (-1)%Z) true 0%Z) = [2; 1].
Proof. split; reflexivity. Qed.
Example C10_ex_empty :
  data (ndx_reduce Z.mul 1%Z {| shape := [2; 0]; data := [] |} (AxInt 1%Z) false 0%Z) = [1; 1]%Z.
Proof. reflexivity. Qed.
