(* Props/C20.v *)
From Coq Require Import List Bool ZArith Lia.
From ND Require Import Ndx.Proto Ndx.ProtoFacts.
Open Scope Z_scope.

Theorem C20_data_holding_arrays_behave_like_numpy : forall s, eager_wf s ->
  observe (ndx_float s) s = np_float s /\ observe (ndx_int s) s = np_int s /\
  observe (ndx_bool s) s = np_bool s /\ observe (ndx_index s) s = np_index s /\
  observe (ndx_len s) s = np_len s /\ observe (ndx_iter s) s = np_iter s.
Proof. exact proto_eager. Qed.
Print Assumptions C20_data_holding_arrays_behave_like_numpy.

Theorem C20_placeholders_refuse : forall s, lazy_wf s ->
  ndx_float s = PRaiseVE /\ ndx_int s = PRaiseVE /\ ndx_bool s = PRaiseVE /\ ndx_index s = PRaiseVE /\
  (shape0 s = DimDynamic -> ndx_len s = PRaiseVE /\ ndx_iter s = PRaiseVE) /\
  (forall n, shape0 s = DimInt n -> ndx_len s = PLen n /\ ndx_iter s = PIter n).
Proof. exact proto_lazy. Qed.

Theorem C20_iteration_terminates : forall s,
  match ndx_iter s with PIter n => shape0 s = DimInt n | PRaiseVE => True | _ => False end.
Proof. exact iter_terminates. Qed.

(* non-vacuity: a 2x3 integer array; a boolean scalar is not an index *)
Example C20_ex : eager_wf {| has_value := true; size := 6; ndim := 2; item_is_int := true; item_is_bool := false; shape0 := DimInt 2 |}.
Proof. unfold eager_wf; simpl. repeat split; try lia; try discriminate. exists 2. repeat split; lia. Qed.
Example C20_ex_bool_index :
  ndx_index {| has_value := true; size := 1; ndim := 0; item_is_int := false; item_is_bool := true; shape0 := NoDim |} = PRaiseVE.
Proof. reflexivity. Qed.
