(* Props/C12.v *)
From Coq Require Import List Arith ZArith Bool Sorted Permutation.
From ND Require Import Ndx.Sort Ndx.SortFacts.
Import ListNotations.

(* with TopK (k = length, sorted) as the executable definition in Ndx/Sort.v: for inputs of ANY length *)
Theorem C12_sort_is_a_permutation : forall desc l, Permutation (ndx_sort desc l) l.
Proof. exact sort_perm. Qed.
Theorem C12_sort_ascending : forall l, Sorted Z.le (ndx_sort false l).
Proof. exact sort_ascending. Qed.
Theorem C12_sort_descending : forall l, Sorted Z.ge (ndx_sort true l).
Proof. exact sort_descending. Qed.
Theorem C12_argsort_is_a_permutation_of_indices : forall desc l, Permutation (ndx_argsort desc l) (seq 0 (length l)).
Proof. exact argsort_perm. Qed.
Theorem C12_argsort_applied_gives_sort : forall desc l, map (fun i => nth i l 0%Z) (ndx_argsort desc l) = ndx_sort desc l.
Proof. exact argsort_takes. Qed.
Theorem C12_argsort_stable : forall desc l, Sorted (kleP desc) (isort desc (tag l)).
Proof. exact argsort_stable. Qed.
Theorem C12_ties_keep_original_order : forall desc x i j, kleP desc (x, i) (x, j) -> i <= j.
Proof. exact kle_ties_in_original_order. Qed.
Print Assumptions C12_sort_is_a_permutation.
Print Assumptions C12_argsort_applied_gives_sort.
Print Assumptions C12_argsort_stable.

Example C12_ex : ndx_sort false [3; 1; 2; 1]%Z = [1; 1; 2; 3]%Z /\ ndx_argsort false [3; 1; 2; 1]%Z = [1; 3; 2; 0]
                 /\ ndx_argsort true [3; 1; 2; 1]%Z = [0; 2; 1; 3].
Proof. repeat split; reflexivity. Qed.
Example C12_ex_unique : u_values (ndx_unique [3; 1; 3; 2]%Z) = [1; 2; 3]%Z /\ u_indices (ndx_unique [3; 1; 3; 2]%Z) = [1; 3; 0]
                        /\ u_inverse (ndx_unique [3; 1; 3; 2]%Z) = [2; 0; 2; 1] /\ u_counts (ndx_unique [3; 1; 3; 2]%Z) = [1; 1; 2].
Proof. repeat split; reflexivity. Qed.

(* unique_all, any length: values strictly ascending and exactly the elements of the input; every
   value's index is its first occurrence; the inverse indices rebuild the input; counts positive *)
From ND Require Import Ndx.UniqueFacts.
Theorem C12_unique_values : forall l,
  Sorted Z.lt (u_values (ndx_unique l)) /\ forall x, In x (u_values (ndx_unique l)) <-> In x l.
Proof. exact unique_values_spec. Qed.
Print Assumptions C12_unique_values.
Theorem C12_unique_indices_are_first_occurrences : forall l, let u := ndx_unique l in
  length (u_indices u) = length (u_values u) /\
  forall k, (k < length (u_values u))%nat ->
    let v := nth k (u_values u) 0%Z in let i := nth k (u_indices u) 0%nat in
    (i < length l)%nat /\ nth i l 0%Z = v /\ forall j, (j < i)%nat -> nth j l 0%Z <> v.
Proof. exact unique_indices_spec. Qed.
Theorem C12_unique_inverse_rebuilds_the_input : forall l, let u := ndx_unique l in
  map (fun i => nth i (u_values u) 0%Z) (u_inverse u) = l /\ Forall (fun i => (i < length (u_values u))%nat) (u_inverse u).
Proof. exact unique_inverse_spec. Qed.
Theorem C12_unique_counts_positive : forall l, Forall (fun c => (0 < c)%nat) (u_counts (ndx_unique l)).
Proof. exact unique_counts_positive. Qed.

(* searchsorted: the counting specification the implementation is compared with IS NumPy's insertion
   point, for every sorted x1 and every v *)
Theorem C12_searchsorted_left : forall x1 v, Sorted Z.le x1 ->
  let i := searchsorted_spec false x1 v in
  (forall j, (j < i)%nat -> (nth j x1 0 < v)%Z) /\ (forall j, (i <= j)%nat -> (j < length x1)%nat -> (v <= nth j x1 0)%Z).
Proof. exact searchsorted_left_is_insertion_point. Qed.
Theorem C12_searchsorted_right : forall x1 v, Sorted Z.le x1 ->
  let i := searchsorted_spec true x1 v in
  (forall j, (j < i)%nat -> (nth j x1 0 <= v)%Z) /\ (forall j, (i <= j)%nat -> (j < length x1)%nat -> (v < nth j x1 0)%Z).
Proof. exact searchsorted_right_is_insertion_point. Qed.
Print Assumptions C12_searchsorted_right.

(* nonzero: the lowering (index grid rows compressed by x != 0, flattened, column i gathered at i, i+r, i+2r, ...)
   returns, for every shape of rank >= 1 and every data, one vector per axis holding the coordinates of the
   non-zero elements in row-major order *)
From ND Require Import Base.Tensor Ndx.NonzeroFacts.
Theorem C12_nonzero_lowering_is_numpy : forall sh data, ndx_nonzero sh data = nonzero_coords sh data (all_idx sh).
Proof. exact ndx_nonzero_is_numpy. Qed.
Theorem C12_nonzero_hits_are_the_nonzero_positions_in_row_major_order : forall sh data, length data = size sh ->
  nz_rows sh data = filter (fun idx => negb (nth (ravel sh idx) data 0%Z =? 0)%Z) (all_idx sh).
Proof. exact nz_rows_spec. Qed.
Print Assumptions C12_nonzero_lowering_is_numpy.
(* where on booleans is lowered to xor(and(c, a), and(not c, b)) *)
Theorem C12_where_bool_lowering_selects : forall c a b : bool, xorb (c && a) (negb c && b) = if c then a else b.
Proof. exact where_bool_trick. Qed.
Example C12_ex_nonzero : ndx_nonzero [2; 3]%nat [0; 5; 0; 7; 0; 9]%Z = [[0; 1; 1]; [1; 0; 2]]%nat.
Proof. reflexivity. Qed.

(* where on int8 / int16 (through int32) and on uint16 / uint32 / uint64 (through int64): the detour through the wider
   signed type and the cast back are invisible for in-range operands — uint64 values >= 2^63 pass through negative
   int64 numbers and come back exactly *)
From ND Require Import Base.Dtype Ndx.ElemSem Ndx.WhereCast.
Theorem C12_where_through_a_wider_type_selects : forall c c' (b : bool) (x y : Z),
  is_int c = true -> is_int c' = true -> (zbits c <= zbits c')%Z -> in_range c x -> in_range c y ->
  wrap c (if b then wrap c' x else wrap c' y) = if b then x else y.
Proof. exact where_via_wider_type. Qed.
Print Assumptions C12_where_through_a_wider_type_selects.

(* nonzero, end to end from the primitive operators: the Range/Unsqueeze/Expand/Concat grid, indexed by the mask x != 0
   through Reshape/Compress, is the matrix of the non-zero positions (row-major); its flattening followed by the strided
   gathers is NumPy's nonzero — for every shape of rank >= 1 and every integer data *)
From ND Require Import Ndx.GetItem Ndx.NdIndex Ndx.MaskIndex Ndx.NonzeroChain.
Theorem C12_nonzero_end_to_end : forall sh data, sh <> [] -> length data = size sh ->
  exists g hm,
    ndindex_lowered sh = Done g /\ ndx_getitem_mask g (nz_mask sh data) = Done hm /\
    Tensor.data hm = concat (nz_rows sh data) /\
    ndx_nonzero sh data = nonzero_coords sh data (all_idx sh).
Proof. exact nonzero_end_to_end. Qed.
Print Assumptions C12_nonzero_end_to_end.

(* unique counts, any length: one count per unique value, each the number of positions holding that value, and together
   they add up to the size of the input *)
From ND Require Import Ndx.UniqueCounts.
Theorem C12_unique_counts_add_up : forall l,
  total (u_counts (ndx_unique l)) = length l /\ length (u_counts (ndx_unique l)) = length (u_values (ndx_unique l)).
Proof. exact unique_counts_total. Qed.
Theorem C12_unique_counts_are_multiplicities : forall l k, (k < length (u_values (ndx_unique l)))%nat ->
  nth k (u_counts (ndx_unique l)) 0%nat = length (filter (fun x => (x =? nth k (u_values (ndx_unique l)) 0%Z)%Z) l).
Proof. exact unique_counts_spec. Qed.
Print Assumptions C12_unique_counts_add_up.
Print Assumptions C12_unique_counts_are_multiplicities.
