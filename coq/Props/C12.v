(* Props/C12.v *)
From Coq Require Import List Arith ZArith Bool Sorted Permutation.
From ND Require Import Ndx.Sort Ndx.SortFacts.
Import ListNotations.

(* with TopK (k = length, sorted) as the executable definition in Ndx/Sort.v: for inputs of ANY length *)
Theorem C12_sort_is_a_permutation : forall desc l, Permutation (ndx_sort desc l) l.
Proof. exact sort_perm. Qed.
Theorem C12_sort_ascending : forall l, Sorted Z.le (ndx_sort false l).
Proof. exact sort_ascending. Qed.
Theorem C12_sort_descending : forall l, Sorted Z.ge (ndx_sort true l).
Proof. exact sort_descending. Qed.
Theorem C12_argsort_is_a_permutation_of_indices : forall desc l, Permutation (ndx_argsort desc l) (seq 0 (length l)).
Proof. exact argsort_perm. Qed.
Theorem C12_argsort_applied_gives_sort : forall desc l, map (fun i => nth i l 0%Z) (ndx_argsort desc l) = ndx_sort desc l.
Proof. exact argsort_takes. Qed.
Theorem C12_argsort_stable : forall desc l, Sorted (kleP desc) (isort desc (tag l)).
Proof. exact argsort_stable. Qed.
Theorem C12_ties_keep_original_order : forall desc x i j, kleP desc (x, i) (x, j) -> i <= j.
Proof. exact kle_ties_in_original_order. Qed.
Print Assumptions C12_sort_is_a_permutation.
Print Assumptions C12_argsort_applied_gives_sort.
Print Assumptions C12_argsort_stable.

Example C12_ex : ndx_sort false [3; 1; 2; 1]%Z = [1; 1; 2; 3]%Z /\ ndx_argsort false [3; 1; 2; 1]%Z = [1; 3; 2; 0]
                 /\ ndx_argsort true [3; 1; 2; 1]%Z = [0; 2; 1; 3].
Proof. repeat split; reflexivity. Qed.
Example C12_ex_unique : u_values (ndx_unique [3; 1; 3; 2]%Z) = [1; 2; 3]%Z /\ u_indices (ndx_unique [3; 1; 3; 2]%Z) = [1; 3; 0]
                        /\ u_inverse (ndx_unique [3; 1; 3; 2]%Z) = [2; 0; 2; 1] /\ u_counts (ndx_unique [3; 1; 3; 2]%Z) = [1; 1; 2].
Proof. repeat split; reflexivity. Qed.
